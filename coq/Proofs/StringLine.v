(* `string <text>` from the source line to the output bytes, for plain ASCII text without a backslash: the lexer model yields
   the tokens ["string"; text] (special lexing: nothing inside the text is split, stripped or treated as a comment), the parser
   model a String item with the character codes of the text, the data passes exactly those bytes. *)
From Coq Require Import ZArith List Bool String Ascii Lia.
From BB Require Import Base.PyBase Model.Items Model.Lexer Model.Parser Model.Passes Proofs.DataInt Proofs.DataMain.
Import ListNotations.

Definition plain_char (c : ascii) : bool := (zc c <? 128)%Z && negb (is_c c c_bsl).
Lemma unicode_escape_plain l : forallb plain_char l = true -> unicode_escape l = Some l.
Proof.
  induction l as [|c r IH]; simpl; intro H. reflexivity.
  apply andb_prop in H. destruct H as [Hc Hr]. unfold plain_char in Hc. apply andb_prop in Hc. destruct Hc as [H1 H2].
  apply Z.ltb_lt in H1. assert (E : (128 <=? zc c)%Z = false) by (apply Z.leb_gt; exact H1). rewrite E.
  apply negb_true_iff in H2. rewrite H2. rewrite (IH Hr). reflexivity.
Qed.
Theorem lex_string_line (t : string) : forallb plain_char (chars t) = true ->
  lex_tokens (String.append "string " t) = Some ["string"%string; t].
Proof.
  intro H. unfold lex_tokens, lex_tokens_l.
  assert (E : chars (String.append "string " t) = app (chars "string ") (chars t)).
  { unfold chars. induction ("string "%string) as [|c s IHs]; simpl; [reflexivity|]. f_equal. exact IHs. }
  rewrite E. cbn [chars list_ascii_of_string app re_kw lstrip_l kw_error kw_string prefix_rest].
  cbn. rewrite (unicode_escape_plain _ H). cbn [map]. unfold unchars, chars.
  rewrite string_of_list_ascii_of_string. reflexivity.
Qed.

(* the bytes a chunk stands for (CFill: the run-length form the model uses for long runs of one byte) *)
Definition chunk_bytes (c : chunk) : option (list Z) :=
  match c with
  | CBytes bs => Some bs
  | CFill b n => Some (repeat b (Z.to_nat n))
  | _ => None
  end.
Lemma all_same_repeat b bs : forallb (Z.eqb b) bs = true -> bs = repeat b (List.length bs).
Proof.
  induction bs as [|x r IH]; simpl; intro H. reflexivity.
  apply andb_prop in H. destruct H as [H1 H2]. apply Z.eqb_eq in H1. subst x. f_equal. auto.
Qed.
Theorem string_line_bytes (l : line) (t : string) : forallb plain_char (chars t) = true ->
  lex_tokens (String.append "string " t) = Some ["string"%string; t] /\
  exists it c, parse_item l ["string"%string; t] = FOk it /\ data_passes [(l, it)] = Done [(l, c)] /\
               chunk_bytes c = Some (map zc (chars t)).
Proof.
  intro H. split. apply lex_string_line; exact H.
  unfold parse_item. cbn. unfold string_item. cbv zeta.
  destruct (map zc (chars t)) as [|b bs] eqn:E.
  - eexists. eexists. split. reflexivity. split. reflexivity. reflexivity.
  - destruct ((48 <? Z.of_nat (List.length (b :: bs)))%Z && forallb (Z.eqb b) (b :: bs)) eqn:C.
    + eexists. eexists. split. reflexivity. split. reflexivity. cbn [chunk_bytes].
      apply andb_prop in C. destruct C as [_ C]. rewrite Nat2Z.id. f_equal. symmetry. apply all_same_repeat. exact C.
    + eexists. eexists. split. reflexivity. split. reflexivity. reflexivity.
Qed.
