(* C12, positive half -- the passes behind the layout (resolve_immediates ... resolve_blobs) item by item:
   each of them is a map in the outcome monad, so the whole tail succeeds iff every item passes (tail8_iff), and
   resolve_immediates succeeds iff every immediate evaluates at its offset (immediates_total). *)
From Coq Require Import ZArith List Bool Lia String.
From BB Require Import Base.PyBase Gen.Encoders Gen.Criteria Model.Items Model.Encode Model.Passes
  Proofs.Layout Proofs.LayoutInst Proofs.Pipeline Proofs.AcceptLayout.
Import ListNotations.
Open Scope Z_scope.
Local Open Scope list_scope.

Fixpoint mapo (f : litem -> outcome litem) (its : list litem) : outcome (list litem) :=
  match its with [] => Done [] | x :: r => y <<- f x ;;; ys <<- mapo f r ;;; Done (y :: ys) end.
Lemma mapo_F2 f its : forall o, mapo f its = Done o <-> Forall2 (fun x y => f x = Done y) its o.
Proof.
  induction its as [|x r IH]; intro o; cbn [mapo].
  - split; intro H. inversion H. constructor. inversion H. reflexivity.
  - split; intro H.
    + destruct (f x) as [y| |] eqn:E; cbn [obind] in H; try discriminate.
      destruct (mapo f r) as [ys| |] eqn:E2; cbn [obind] in H; try discriminate. inversion H; subst.
      constructor. exact E. apply IH. reflexivity.
    + inversion H as [|? y ? ys Hy Hr]; subst. rewrite Hy. cbn [obind]. apply IH in Hr. rewrite Hr. reflexivity.
Qed.

Lemma F2_chain {A B} (R : A -> B -> Prop) (Q : B -> Prop) a b :
  Forall2 R a b -> Forall Q b -> Forall (fun x => exists y, R x y /\ Q y) a.
Proof. induction 1 as [|x y a b Hxy _ IH]; intro HQ; inversion HQ; subst; constructor; eauto. Qed.
Lemma F2_build {A B} (R : A -> B -> Prop) (Q : B -> Prop) a :
  Forall (fun x => exists y, R x y /\ Q y) a -> exists b, Forall2 R a b /\ Forall Q b.
Proof.
  induction 1 as [|x r (y & Hy & Qy) _ (b & Hb & Qb)]. exists []. split; constructor.
  exists (y :: b). split; constructor; auto.
Qed.

(* ---- the per-item functions --------------------------------------------------------------------------------------------- *)
Definition fenc (x : litem) : outcome litem :=
  match x with (l, IInstr cls name fs c) => bs <<- encode_item l cls name fs c ;;; Done (l, IBlob bs) | _ => Done x end.
Definition fstr (x : litem) : litem := match x with (l, IString bs) => (l, IBlob bs) | _ => x end.
Definition fseq (x : litem) : outcome litem :=
  match x with
  | (l, ISeq name vals) =>
      if negb (all_ints vals) then (if conv_seq_int then Fail (PAsm l) else Fail (PRaw ValueError))
      else match seq_fmt name with
           | Some f => bs <<- seq_bytes l f vals ;;; Done (l, IBlob bs)
           | None => Fail (PRaw KeyError)
           end
  | _ => Done x
  end.
Definition fshort (x : litem) : outcome litem :=
  match x with
  | (l, IShort name (FInt z)) =>
      match short_fmt name with
      | Some f => Done (l, IPack (String.append "<" (if z <? 0 then lower f else f)) (FInt z))
      | None => Fail (PRaw KeyError)
      end
  | (l, IShort _ _) => Fail (PRaw TypeError)
  | _ => Done x
  end.
Definition fpack (x : litem) : outcome litem :=
  match x with
  | (l, IPack f (FInt z)) =>
      match struct_pack f z with
      | Some (Ok bs) => Done (l, IBlob bs)
      | Some (Err e) => if conv_pack then Fail (PAsm l) else Fail (PRaw e)
      | None => Unsupported
      end
  | (l, IPack _ _) => Fail (PAsm l)
  | _ => Done x
  end.
Definition finc (x : litem) : outcome litem :=
  match x with
  | (l, IIncBytes path sz actual) =>
      match actual with
      | None => Fail (PRaw OtherExn)
      | Some n => if n =? sz then Done x else Fail (PRaw AssertionError)
      end
  | _ => Done x
  end.
Definition blob_okb (x : litem) : bool :=
  match snd x with IBlob _ | IZeros _ | IFill _ _ | IIncBytes _ _ _ | ILabel _ => true | _ => false end.

Lemma rev_cons_app {A} (y : A) acc o : rev (y :: acc) ++ o = rev acc ++ y :: o.
Proof. cbn [rev]. rewrite <- app_assoc. reflexivity. Qed.

Lemma resolve_instructions_mapo its : forall acc,
  resolve_instructions its acc = (o <<- mapo fenc its ;;; Done (rev acc ++ o)).
Proof.
  induction its as [|[l it] r IH]; intro acc. cbn. rewrite app_nil_r. reflexivity.
  destruct it; cbn [resolve_instructions mapo fenc obind];
    try (rewrite IH; destruct (mapo fenc r); cbn [obind]; rewrite ?rev_cons_app; reflexivity).
  destruct (encode_item l cls name fields compressed); cbn [obind]; try reflexivity.
  rewrite IH; destruct (mapo fenc r); cbn [obind]; rewrite ?rev_cons_app; reflexivity.
Qed.
Lemma resolve_strings_map its : resolve_strings its = map fstr its.
Proof. unfold resolve_strings. apply map_ext. intros [l it]. destruct it; reflexivity. Qed.
Lemma resolve_sequences_mapo its : forall acc,
  resolve_sequences its acc = (o <<- mapo fseq its ;;; Done (rev acc ++ o)).
Proof.
  induction its as [|[l it] r IH]; intro acc. cbn. rewrite app_nil_r. reflexivity.
  destruct it; cbn [resolve_sequences mapo fseq obind];
    try (rewrite IH; destruct (mapo fseq r); cbn [obind]; rewrite ?rev_cons_app; reflexivity).
  destruct (negb (all_ints vals)). { try reflexivity; destruct conv_seq_int; reflexivity. }
  destruct (seq_fmt name) as [f|]; [|reflexivity].
  destruct (seq_bytes l f vals); cbn [obind]; try reflexivity.
  rewrite IH; destruct (mapo fseq r); cbn [obind]; rewrite ?rev_cons_app; reflexivity.
Qed.
Lemma transform_shorthand_mapo its : forall acc,
  transform_shorthand its acc = (o <<- mapo fshort its ;;; Done (rev acc ++ o)).
Proof.
  induction its as [|[l it] r IH]; intro acc. cbn. rewrite app_nil_r. reflexivity.
  destruct it; cbn [transform_shorthand mapo fshort obind];
    try (rewrite IH; destruct (mapo fshort r); cbn [obind]; rewrite ?rev_cons_app; reflexivity).
  destruct imm; try reflexivity.
  destruct (short_fmt name) as [f|]; [|reflexivity]. cbn [obind].
  rewrite IH; destruct (mapo fshort r); cbn [obind]; rewrite ?rev_cons_app; reflexivity.
Qed.
Lemma resolve_packs_mapo its : forall acc,
  resolve_packs its acc = (o <<- mapo fpack its ;;; Done (rev acc ++ o)).
Proof.
  induction its as [|[l it] r IH]; intro acc. cbn. rewrite app_nil_r. reflexivity.
  destruct it; cbn [resolve_packs mapo fpack obind];
    try (rewrite IH; destruct (mapo fpack r); cbn [obind]; rewrite ?rev_cons_app; reflexivity).
  destruct imm; try reflexivity.
  destruct (struct_pack fmt z) as [[bs|e]|]; try reflexivity.
  all: try (destruct conv_pack; reflexivity).
  all: cbn [obind]; rewrite IH; destruct (mapo fpack r); cbn [obind]; rewrite ?rev_cons_app; reflexivity.
Qed.
Lemma resolve_include_bytes_mapo its : forall acc,
  resolve_include_bytes its acc = (o <<- mapo finc its ;;; Done (rev acc ++ o)).
Proof.
  induction its as [|[l it] r IH]; intro acc. cbn. rewrite app_nil_r. reflexivity.
  destruct it; cbn [resolve_include_bytes mapo finc obind];
    try (rewrite IH; destruct (mapo finc r); cbn [obind]; rewrite ?rev_cons_app; reflexivity).
  destruct actual as [n|]; [|reflexivity]. destruct (n =? size); [|reflexivity]. cbn [obind].
  rewrite IH; destruct (mapo finc r); cbn [obind]; rewrite ?rev_cons_app; reflexivity.
Qed.
Lemma resolve_blobs_ok its : (exists ch, resolve_blobs its = Done ch) <-> Forall (fun x => blob_okb x = true) its.
Proof.
  induction its as [|[l it] r IH]. { split. constructor. intros _. eexists. reflexivity. }
  split.
  - intros [ch H]. destruct it; cbn [resolve_blobs] in H; try discriminate;
      try (destruct (resolve_blobs r) as [rest| |] eqn:E; cbn [obind] in H; try discriminate);
      (constructor; [reflexivity|apply IH; eauto]).
  - intro H. inversion H as [|? ? H1 H2]; subst. apply IH in H2. destruct H2 as [ch E].
    destruct it; cbn [blob_okb snd] in H1; try discriminate; cbn [resolve_blobs]; rewrite E; cbn [obind]; eauto.
Qed.

(* ---- the tail behind resolve_immediates --------------------------------------------------------------------------------- *)
Definition tail8 (its : list litem) : outcome (list (line * chunk)) :=
  its <<- resolve_instructions its [] ;;;
  let its := resolve_strings its in
  its <<- resolve_sequences its [] ;;;
  its <<- transform_shorthand its [] ;;;
  its <<- resolve_packs its [] ;;;
  its <<- resolve_include_bytes its [] ;;;
  resolve_blobs its.
Definition Q4 (x : litem) : Prop := blob_okb x = true.
Definition Q3 (x : litem) : Prop := exists y, finc x = Done y /\ Q4 y.
Definition Q2 (x : litem) : Prop := exists y, fpack x = Done y /\ Q3 y.
Definition Q1 (x : litem) : Prop := exists y, fshort x = Done y /\ Q2 y.
Definition Q0 (x : litem) : Prop := exists y, fseq (fstr x) = Done y /\ Q1 y.
Definition tgood8 (x : litem) : Prop := exists y, fenc x = Done y /\ Q0 y.

Lemma acc_nil {A} (r : outcome (list A)) : (o <<- r ;;; Done (rev [] ++ o)) = r.
Proof. destruct r; reflexivity. Qed.

Lemma tail8_stages its ch : tail8 its = Done ch <->
  exists i9 i11 i12 i13 i14,
    resolve_instructions its [] = Done i9 /\ resolve_sequences (resolve_strings i9) [] = Done i11 /\
    transform_shorthand i11 [] = Done i12 /\ resolve_packs i12 [] = Done i13 /\
    resolve_include_bytes i13 [] = Done i14 /\ resolve_blobs i14 = Done ch.
Proof.
  unfold tail8. split.
  - intro H.
    destruct (resolve_instructions its []) as [i9| |] eqn:A; cbn [obind] in H; try discriminate. cbv zeta in H.
    destruct (resolve_sequences (resolve_strings i9) []) as [i11| |] eqn:B; cbn [obind] in H; try discriminate.
    destruct (transform_shorthand i11 []) as [i12| |] eqn:C; cbn [obind] in H; try discriminate.
    destruct (resolve_packs i12 []) as [i13| |] eqn:D; cbn [obind] in H; try discriminate.
    destruct (resolve_include_bytes i13 []) as [i14| |] eqn:E; cbn [obind] in H; try discriminate.
    exists i9, i11, i12, i13, i14. auto 10.
  - intros (i9 & i11 & i12 & i13 & i14 & A & B & C & D & E & F).
    rewrite A. cbn [obind]. cbv zeta. rewrite B. cbn [obind]. rewrite C. cbn [obind]. rewrite D. cbn [obind].
    rewrite E. cbn [obind]. exact F.
Qed.

Theorem tail8_iff its : (exists ch, tail8 its = Done ch) <-> Forall tgood8 its.
Proof.
  split.
  - intros [ch H]. apply tail8_stages in H. destruct H as (i9 & i11 & i12 & i13 & i14 & A & B & C & D & E & F).
    rewrite resolve_instructions_mapo, acc_nil in A. rewrite resolve_strings_map, resolve_sequences_mapo, acc_nil in B.
    rewrite transform_shorthand_mapo, acc_nil in C. rewrite resolve_packs_mapo, acc_nil in D.
    rewrite resolve_include_bytes_mapo, acc_nil in E.
    apply mapo_F2 in A, B, C, D, E.
    assert (F4 : Forall Q4 i14) by (apply resolve_blobs_ok; eauto).
    pose proof (F2_chain _ _ _ _ E F4) as F3. pose proof (F2_chain _ _ _ _ D F3) as F2'.
    pose proof (F2_chain _ _ _ _ C F2') as F1.
    assert (F0 : Forall Q0 i9).
    { pose proof (F2_chain _ _ _ _ B F1) as G. rewrite Forall_forall in G. apply Forall_forall. intros x Hx.
      apply (G (fstr x)). apply in_map. exact Hx. }
    exact (F2_chain _ _ _ _ A F0).
  - intro H. destruct (F2_build _ _ _ H) as (i9 & A & F0).
    assert (G : Forall (fun x => exists y, fseq x = Done y /\ Q1 y) (map fstr i9)).
    { apply Forall_forall. intros x Hx. apply in_map_iff in Hx. destruct Hx as (x0 & <- & Hx0).
      rewrite Forall_forall in F0. exact (F0 _ Hx0). }
    destruct (F2_build _ _ _ G) as (i11 & B & F1). destruct (F2_build _ _ _ F1) as (i12 & C & F2').
    destruct (F2_build _ _ _ F2') as (i13 & D & F3). destruct (F2_build _ _ _ F3) as (i14 & E & F4).
    apply resolve_blobs_ok in F4. destruct F4 as [ch F].
    exists ch. apply tail8_stages. exists i9, i11, i12, i13, i14.
    apply mapo_F2 in A, B, C, D, E.
    rewrite resolve_instructions_mapo, A, resolve_strings_map, resolve_sequences_mapo, B, transform_shorthand_mapo, C,
      resolve_packs_mapo, D, resolve_include_bytes_mapo, E. cbn [obind rev app]. repeat split; auto.
Qed.

Lemma tgood8_label l n : tgood8 (l, ILabel n).
Proof. repeat (eexists; split; [reflexivity|]). reflexivity. Qed.
Lemma tgood8_instr l cls name fs c : tgood8 (l, IInstr cls name fs c) <-> exists bs, encode_item l cls name fs c = Done bs.
Proof.
  split.
  - intros (y & H & _). cbn [fenc] in H. destruct (encode_item l cls name fs c) as [bs| |]; try discriminate. eauto.
  - intros [bs H]. exists (l, IBlob bs). split. cbn [fenc]. rewrite H. reflexivity.
    repeat (eexists; split; [reflexivity|]). reflexivity.
Qed.

(* ---- resolve_immediates --------------------------------------------------------------------------------------------------- *)
Lemma immediates_total consts labels (P : litem -> Prop) its : forall pos acc,
  (forall x, In x its -> exists n, size_o (snd x) = Done n) ->
  (forall a1 x a2, its = a1 ++ x :: a2 -> exists y, Rimm consts labels (pos + total a1) x y /\ P y) ->
  exists out, resolve_immediates its pos consts labels acc = Done (rev acc ++ out) /\ Forall P out.
Proof.
  induction its as [|[l it] r IH]; intros pos acc Hs H.
  - exists []. split. cbn. rewrite app_nil_r. reflexivity. constructor.
  - destruct (H [] (l, it) r eq_refl) as ([l' y] & [Hl Hy] & Py). cbn [fst snd] in Hl, Hy. subst l'.
    change (total []) with 0 in Hy. rewrite Z.add_0_r in Hy.
    destruct (Hs (l, it) (or_introl eq_refl)) as [n Hn]. cbn [snd] in Hn. pose proof (size_o_isz _ _ Hn) as In'.
    assert (Hs' : forall x, In x r -> exists n, size_o (snd x) = Done n) by (intros x Hx; apply Hs; right; exact Hx).
    assert (H' : forall a1 x a2, r = a1 ++ x :: a2 ->
               exists y, Rimm consts labels (pos + isz it + total a1) x y /\ P y).
    { intros a1 x a2 E. destruct (H ((l, it) :: a1) x a2) as (y' & Ry & Py'). rewrite E. reflexivity.
      exists y'. split; auto. rewrite total_cons in Ry. cbn [snd] in Ry. replace (pos + isz it + total a1) with (pos + (isz it + total a1)) by lia.
      exact Ry. }
    assert (H'' : forall a1 x a2, r = a1 ++ x :: a2 -> exists y, Rimm consts labels (pos + n + total a1) x y /\ P y)
      by (rewrite <- In'; exact H').
    destruct it; cbn [resolve_immediates];
      try (cbn [snd] in Hy; subst y; rewrite Hn; cbn [obind];
           edestruct (IH (pos + n)) as (out & E & F); [exact Hs'|exact H''|];
           eexists; split; [rewrite E, rev_cons_app; reflexivity|constructor; [exact Py|exact F]]).
    + (* IInstr *)
      rewrite size_instr in Hn. inversion Hn; subst n. clear Hn.
      destruct (field_get "imm" fields) as [v|] eqn:Ef.
      * unfold back_of in Hy. destruct Hy as (z & Ez & ->). rewrite Ez. cbn [obind].
        destruct (IH (pos + (if compressed then 2 else 4)) ((l, IInstr cls name (field_set "imm" (FInt z) fields) compressed) :: acc) Hs' H'')
          as (out & E & F).
        eexists. split. rewrite E, rev_cons_app. reflexivity. constructor; auto.
      * subst y.
        destruct (IH (pos + (if compressed then 2 else 4)) ((l, IInstr cls name fields compressed) :: acc) Hs' H'') as (out & E & F).
        eexists. split. rewrite E, rev_cons_app. reflexivity. constructor; auto.
    + (* IPack *)
      destruct Hy as (z & Ez & ->). rewrite Ez. cbn [obind]. rewrite Hn. cbn [obind].
      destruct (IH (pos + n) ((l, IPack fmt (FInt z)) :: acc) Hs' H'') as (out & E & F).
      eexists. split. rewrite E, rev_cons_app. reflexivity. constructor; auto.
    + (* IShort *)
      destruct Hy as (z & Ez & ->). rewrite Ez. cbn [obind]. rewrite Hn. cbn [obind].
      destruct (IH (pos + n) ((l, IShort name (FInt z)) :: acc) Hs' H'') as (out & E & F).
      eexists. split. rewrite E, rev_cons_app. reflexivity. constructor; auto.
Qed.

(* and, from a successful run, the facts at every cut *)
Lemma pF2_cut (R : Z -> litem -> litem -> Prop) a1 : forall p x a2 b,
  pF2 R p (a1 ++ x :: a2) b -> exists b1 y b2, b = b1 ++ y :: b2 /\ R (p + total a1) x y /\ List.length b1 = List.length a1.
Proof.
  induction a1 as [|h a1 IH]; intros p x a2 b H.
  - destruct b as [|y b]; cbn [app pF2] in H; try contradiction. destruct H as [H _].
    exists [], y, b. change (total []) with 0. rewrite Z.add_0_r. auto.
  - destruct b as [|y b]; cbn [app pF2] in H; try contradiction. destruct H as [_ H].
    destruct (IH _ _ _ _ H) as (b1 & y' & b2 & -> & Ry & Hl). exists (y :: b1), y', b2.
    rewrite total_cons. replace (p + (isz (snd h) + total a1)) with (p + isz (snd h) + total a1) by lia.
    split. reflexivity. split. exact Ry. cbn [List.length]. f_equal. exact Hl.
Qed.
Lemma immediates_cuts consts labels its out ch :
  resolve_immediates its 0 consts labels [] = Done out -> tail8 out = Done ch ->
  forall a1 x a2, its = a1 ++ x :: a2 -> exists y, Rimm consts labels (total a1) x y /\ tgood8 y.
Proof.
  intros E8 T a1 x a2 Hs. destruct (resolve_immediates_spec _ _ _ _ _ _ E8) as (o & Eo & V). cbn [rev app] in Eo. subst o.
  rewrite Hs in V. destruct (pF2_cut _ _ _ _ _ _ V) as (b1 & y & b2 & -> & Ry & _).
  exists y. split. exact Ry.
  assert (F : Forall tgood8 (b1 ++ y :: b2)) by (apply tail8_iff; eauto).
  rewrite Forall_forall in F. apply F. apply in_or_app. right. left. reflexivity.
Qed.

(* ---- a data value that moves towards zero from a non-negative accepted value is accepted ---------------------------------------- *)
Lemma struct_pack_mono f z z' bs : 0 <= z' <= z -> struct_pack f z = Some (Ok bs) -> exists bs', struct_pack f z' = Some (Ok bs').
Proof.
  intros Hz. unfold struct_pack. destruct (fmt_parse f) as [[[little std] c]|]; try discriminate.
  destruct (code_size std c) as [[n signed]|] eqn:Ec; try discriminate. cbv zeta.
  pose proof (code_size_pos _ _ _ _ Ec) as Hn.
  assert (P : 0 < 2 ^ (8 * n - 1)) by (apply Z.pow_pos_nonneg; lia).
  destruct ((z <? (if signed then - 2 ^ (8 * n - 1) else 0)) || (z >? (if signed then 2 ^ (8 * n - 1) - 1 else 2 ^ (8 * n) - 1))) eqn:E; try discriminate.
  intros _. apply orb_false_iff in E. destruct E as [E1 E2].
  assert (E' : (z' <? (if signed then - 2 ^ (8 * n - 1) else 0)) || (z' >? (if signed then 2 ^ (8 * n - 1) - 1 else 2 ^ (8 * n) - 1)) = false).
  { apply orb_false_iff. destruct signed; split; lia. }
  rewrite E'. eauto.
Qed.
Lemma tgood8_pack l f z : tgood8 (l, IPack f (FInt z)) <-> exists bs, struct_pack f z = Some (Ok bs).
Proof.
  unfold tgood8, Q0, Q1, Q2, Q3, Q4. split.
  - intros (y0 & E0 & y1 & E1 & y2 & E2 & y3 & E3 & _). cbn [fenc] in E0. inversion E0; subst y0. cbn [fstr fseq] in E1. inversion E1; subst y1.
    cbn [fshort] in E2. inversion E2; subst y2. cbn [fpack] in E3. destruct (struct_pack f z) as [[bs|e]|]; eauto; try discriminate;
    destruct conv_pack; discriminate.
  - intros [bs E]. exists (l, IPack f (FInt z)). split. reflexivity. exists (l, IPack f (FInt z)). split. reflexivity.
    exists (l, IPack f (FInt z)). split. reflexivity. exists (l, IBlob bs). split. cbn [fpack]. rewrite E. reflexivity.
    exists (l, IBlob bs). split. reflexivity. reflexivity.
Qed.
Lemma tgood8_pack_mono l f z z' : 0 <= z' <= z -> tgood8 (l, IPack f (FInt z)) -> tgood8 (l, IPack f (FInt z')).
Proof. intros Hz H. apply tgood8_pack in H. destruct H as [bs E]. apply tgood8_pack. eapply struct_pack_mono; eauto. Qed.
Lemma tgood8_short_mono l name z z' : 0 <= z' <= z -> tgood8 (l, IShort name (FInt z)) -> tgood8 (l, IShort name (FInt z')).
Proof.
  intros Hz (y0 & E0 & y1 & E1 & y2 & E2 & Q). cbn [fenc] in E0. inversion E0; subst y0. cbn [fstr fseq] in E1. inversion E1; subst y1.
  cbn [fshort] in E2. destruct (short_fmt name) as [f|] eqn:Ef; try discriminate. inversion E2; subst y2.
  assert (Ez : (z <? 0) = false) by lia. assert (Ez' : (z' <? 0) = false) by lia. rewrite Ez in Q.
  assert (T : tgood8 (l, IPack (String.append "<" f) (FInt z))).
  { exists (l, IPack (String.append "<" f) (FInt z)). split. reflexivity. exists (l, IPack (String.append "<" f) (FInt z)). split. reflexivity.
    exists (l, IPack (String.append "<" f) (FInt z)). split. reflexivity. exact Q. }
  apply (tgood8_pack_mono l _ z z' Hz) in T. destruct T as (t0 & F0 & t1 & F1 & t2 & F2 & Q').
  cbn [fenc] in F0. inversion F0; subst t0. cbn [fstr fseq] in F1. inversion F1; subst t1. cbn [fshort] in F2. inversion F2; subst t2.
  exists (l, IShort name (FInt z')). split. reflexivity. exists (l, IShort name (FInt z')). split. reflexivity.
  eexists. split. cbn [fshort]. rewrite Ef, Ez'. reflexivity. exact Q'.
Qed.
