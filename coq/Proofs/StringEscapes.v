(* `string <text>` with backslash escapes, from the source line to the output bytes: for text made of ASCII characters and
   the one-character escapes (the fragment the lexer model Model/Lexer.v covers: backslash + one of n t r a b f v, backslash, quote, double quote), the lexer
   model, the parser model and ALL 16 passes emit the UTF-8 encoding (Spec/Utf8.v) of the code points the text DENOTES
   (Spec/Escapes.v, written from the documentation of the escape sequences).
   Also: which documented escapes the lexer model does NOT cover (it answers OUTSIDE THE MODEL, never a wrong token). *)
From Coq Require Import ZArith List Bool String Ascii Lia.
From BB Require Import Base.PyBase Spec.Utf8 Spec.Escapes Model.Items Model.Lexer Model.Parser Model.Passes
  Proofs.DataInt Proofs.DataMain Proofs.StringLine.
Import ListNotations.
Open Scope Z_scope.

(* ---- characters ------------------------------------------------------------------------------------------------- *)
Lemma zc_range c : 0 <= zc c < 256.
Proof. unfold zc. destruct c as [[] [] [] [] [] [] [] []]; cbv; split; congruence. Qed.
Lemma zc_inj a b : zc a = zc b -> a = b.
Proof.
  unfold zc. intro H. apply N2Z.inj in H.
  rewrite <- (ascii_N_embedding a), <- (ascii_N_embedding b), H. reflexivity.
Qed.
Lemma zc_of_N n : (n < 256)%N -> zc (ascii_of_N n) = Z.of_N n.
Proof. intro H. unfold zc. rewrite N_ascii_embedding by exact H. reflexivity. Qed.
Lemma is_c_zc a b : is_c a b = (zc a =? zc b).
Proof.
  unfold is_c. destruct (Ascii.eqb a b) eqn:E.
  - apply Ascii.eqb_eq in E. subst. symmetry. apply Z.eqb_refl.
  - symmetry. apply Z.eqb_neq. intro H. apply zc_inj in H. subst. rewrite Ascii.eqb_refl in E. discriminate.
Qed.

(* ---- the model's table of one-character escapes is the documented one ------------------------------------------- *)
Lemma simple_escape_spec e :
  match Lexer.simple_escape e with
  | Some x => Escapes.simple_esc (zc e) = Some (zc x)
  | None => Escapes.simple_esc (zc e) = None
  end.
Proof.
  unfold Lexer.simple_escape, Escapes.simple_esc. cbv zeta.
  repeat match goal with
         | |- context[if zc e =? ?k then _ else _] =>
             destruct (zc e =? k) eqn:?; [try reflexivity; match goal with H : (zc e =? _) = true |- _ => apply Z.eqb_eq in H; rewrite H; reflexivity end|]
         end.
  reflexivity.
Qed.

(* ---- the lexer model's escape processing agrees with the specification on the fragment -------------------------- *)
Lemma unicode_escape_denote n : forall l, (List.length l <= n)%nat -> simple_text (map zc l) = true ->
  exists m, unicode_escape l = Some m /\ denote (map zc l) = Some (map zc m) /\ Forall (fun c => zc c < 128) m.
Proof.
  induction n as [|n IH]; intros [|c r] Hl H; cbn [List.length] in Hl; try lia;
    try (exists []; repeat split; constructor).
  cbn [map simple_text] in H. cbn [map denote unicode_escape].
  rewrite is_c_zc. change (zc c_bsl) with 92. unfold bsl in *.
  destruct (zc c =? 92) eqn:Ec.
  - apply Z.eqb_eq in Ec. rewrite Ec. change (128 <=? 92) with false. cbv iota.
    destruct r as [|e r1]; [discriminate|]. cbn [map] in *.
    pose proof (simple_escape_spec e) as S.
    destruct (Lexer.simple_escape e) as [x|].
    + rewrite S in *. destruct (IH r1 ltac:(cbn [List.length] in Hl; lia) H) as (m & E1 & E2 & E3).
      rewrite E1, E2. exists (x :: m). repeat split. constructor; [|exact E3].
      (* the value of a one-character escape is ASCII *)
      revert S. unfold Escapes.simple_esc.
      repeat match goal with |- context[if ?b then _ else _] => destruct b end; intro S; inversion S; lia.
    + rewrite S in H. discriminate.
  - apply andb_prop in H. destruct H as [H Hr]. apply andb_prop in H. destruct H as [_ H]. apply Z.ltb_lt in H.
    assert (E : (128 <=? zc c) = false) by (apply Z.leb_gt; exact H). rewrite E.
    destruct (IH r ltac:(lia) Hr) as (m & E1 & E2 & E3). rewrite E1, E2. exists (c :: m). repeat split.
    constructor; assumption.
Qed.

(* UTF-8 of ASCII code points is the identity *)
Lemma utf8_ascii cps : Forall (fun c => c < 128) cps -> utf8_encode cps = cps.
Proof.
  induction 1 as [|c r Hc _ IH]; [reflexivity|]. unfold utf8_encode in *. cbn [flat_map]. rewrite IH. unfold utf8_enc1.
  apply Z.ltb_lt in Hc. rewrite Hc. reflexivity.
Qed.

Lemma chars_append a b : chars (String.append a b) = (chars a ++ chars b)%list.
Proof. unfold chars. induction a as [|c s IHs]; simpl; [reflexivity|]. f_equal. exact IHs. Qed.
Lemma chars_unchars l : chars (unchars l) = l.
Proof. unfold chars, unchars. apply list_ascii_of_string_of_list_ascii. Qed.

(* the lexer on the line: special lexing of `string `, then the escape processing *)
Lemma lex_string_escapes (t : string) m : unicode_escape (chars t) = Some m ->
  lex_tokens (String.append "string " t) = Some ["string"%string; unchars m].
Proof.
  intro H. unfold lex_tokens, lex_tokens_l. rewrite chars_append.
  cbn [chars list_ascii_of_string app re_kw lstrip_l kw_error kw_string prefix_rest]. cbn.
  rewrite H. reflexivity.
Qed.
Lemma lex_string_unsupported (t : string) : unicode_escape (chars t) = None ->
  lex_tokens (String.append "string " t) = None.
Proof.
  intro H. unfold lex_tokens, lex_tokens_l. rewrite chars_append.
  cbn [chars list_ascii_of_string app re_kw lstrip_l kw_error kw_string prefix_rest]. cbn.
  rewrite H. reflexivity.
Qed.

(* a String item alone through ALL 16 passes *)
Lemma string_item_assembles (l : line) (v : string) :
  exists c, assemble_items [(l, string_item v)] [] [] false = Done {| r_chunks := [(l, c)]; r_consts := []; r_labels := [] |} /\
            chunk_bytes c = Some (map zc (chars v)).
Proof.
  unfold string_item. cbv zeta. destruct (map zc (chars v)) as [|b bs] eqn:E.
  - eexists. split; reflexivity.
  - destruct ((48 <? Z.of_nat (List.length (b :: bs))) && forallb (Z.eqb b) (b :: bs)) eqn:C.
    + exists (CFill b (Z.of_nat (List.length (b :: bs)))). split.
      * unfold assemble_items. cbn.
        repeat match goal with |- context[if ?c then _ else _] => destruct c end; reflexivity.
      * cbn [chunk_bytes]. apply andb_prop in C. destruct C as [_ C]. rewrite Nat2Z.id. f_equal. symmetry.
        apply all_same_repeat. exact C.
    + exists (CBytes (b :: bs)). split.
      * unfold assemble_items. cbn.
        repeat match goal with |- context[if ?c then _ else _] => destruct c end; reflexivity.
      * reflexivity.
Qed.

(* ---- THE THEOREM ------------------------------------------------------------------------------------------------ *)
Theorem string_escapes_bytes (l : line) (t : string) : simple_text (map zc (chars t)) = true ->
  exists cps tok it c,
    denote (map zc (chars t)) = Some cps /\
    lex_tokens (String.append "string " t) = Some ["string"%string; tok] /\
    parse_item l ["string"%string; tok] = FOk it /\
    assemble_items [(l, it)] [] [] false = Done {| r_chunks := [(l, c)]; r_consts := []; r_labels := [] |} /\
    chunk_bytes c = Some (utf8_encode cps).
Proof.
  intro H. destruct (unicode_escape_denote _ (chars t) (le_n _) H) as (m & E1 & E2 & E3).
  destruct (string_item_assembles l (unchars m)) as (c & A1 & A2).
  exists (map zc m), (unchars m), (string_item (unchars m)), c.
  split. exact E2. split. apply lex_string_escapes. exact E1. split. reflexivity. split. exact A1.
  rewrite A2, chars_unchars. f_equal. symmetry. apply utf8_ascii.
  apply Forall_forall. intros z Hz. apply in_map_iff in Hz. destruct Hz as (a & <- & Ha).
  rewrite Forall_forall in E3. apply E3. exact Ha.
Qed.

(* ---- what the lexer model does NOT cover -------------------------------------------------------------------------- *)
(* the model answers OUTSIDE THE MODEL (None; the whole model then yields Unsupported, never wrong bytes) as soon as the
   text contains a backslash followed by anything but the ten letters, or a non-ASCII character *)
Lemma unicode_escape_outside pre e rest :
  forallb plain_char pre = true -> Lexer.simple_escape e = None ->
  unicode_escape (pre ++ c_bsl :: e :: rest) = None.
Proof.
  intros Hp He. induction pre as [|c r IH]; cbn [app unicode_escape].
  - change (128 <=? zc c_bsl) with false. cbv iota. change (is_c c_bsl c_bsl) with true. cbv iota. rewrite He. reflexivity.
  - cbn [forallb] in Hp. apply andb_prop in Hp. destruct Hp as [Hc Hr]. unfold plain_char in Hc.
    apply andb_prop in Hc. destruct Hc as [H1 H2]. apply Z.ltb_lt in H1.
    assert (E : (128 <=? zc c) = false) by (apply Z.leb_gt; exact H1). rewrite E.
    apply negb_true_iff in H2. rewrite H2. rewrite (IH Hr). reflexivity.
Qed.
Lemma unicode_escape_nonascii pre c rest :
  forallb plain_char pre = true -> 128 <= zc c -> unicode_escape (pre ++ c :: rest) = None.
Proof.
  intros Hp Hc. induction pre as [|a r IH]; cbn [app unicode_escape].
  - assert (E : (128 <=? zc c) = true) by (apply Z.leb_le; exact Hc). rewrite E. reflexivity.
  - cbn [forallb] in Hp. apply andb_prop in Hp. destruct Hp as [Ha Hr]. unfold plain_char in Ha.
    apply andb_prop in Ha. destruct Ha as [H1 H2]. apply Z.ltb_lt in H1.
    assert (E : (128 <=? zc a) = false) by (apply Z.leb_gt; exact H1). rewrite E.
    apply negb_true_iff in H2. rewrite H2. rewrite (IH Hr). reflexivity.
Qed.

(* ---- C11: escaped character literals  X = '\e'  through the whole model path ------------------------------------------------- *)
From BB Require Import Base.Bits Proofs.LexConst.
Definition esc_char_line (e : Z) : list ascii := (chars "X = " ++ [c_quote; c_bsl; ascii_of_N (Z.to_N e); c_quote])%list.
Definition esc_char_ok (e : Z) : bool :=
  match denote [92; e] with
  | Some [v] => match const_value_of_line (esc_char_line e) with Some w => Z.eqb w v | None => false end
  | _ => true
  end.
Lemma esc_char_sweep : forallb esc_char_ok (zrange 32 95) = true.
Proof. vm_compute. reflexivity. Qed.
Lemma esc_char_literals e v : Z.le 32 e -> Z.le e 126 -> denote [92; e] = Some [v] -> const_value_of_line (esc_char_line e) = Some v.
Proof.
  intros H1 H2 Hd. assert (Hin : In e (zrange 32 95)) by (apply zrange_in; simpl; lia).
  pose proof (proj1 (forallb_forall _ _) esc_char_sweep e Hin) as H. unfold esc_char_ok in H. rewrite Hd in H.
  destruct (const_value_of_line (esc_char_line e)) as [w|]; [|discriminate]. apply Z.eqb_eq in H. congruence.
Qed.
