From Coq Require Import ZArith List Bool Lia ZifyBool String.
From BB Require Import Base.Bits Base.PyBase Gen.Encoders Spec.RV32 Spec.RVC Spec.Operands Spec.Legal Model.Encode
  Proofs.EncTac Proofs.Regs Proofs.Sweep16 Proofs.C02Tac.
Import ListNotations.
Open Scope Z_scope.
Lemma crow_c_lui : crow_ok "c.lui".
Proof.
  unfold crow_ok; split; [part1 "c.lui"%string|].
  intros ops h; lookup_name "c.lui"%string;
  destruct ops as [|?n0 [|?n1 [|?n2 [|?n3 ops]]]]; cbn [map]; unfold_heads; try (intros; discriminate).
  step2. cbv zeta.
  match goal with |- context[if ?c then _ else _] => destruct c eqn:Gu end; repeat step2; intros _;
  dom_of "c.lui"%string; apply in_lprod; (constructor; [eapply lookup_int_ok; eassumption|]);
  (constructor; [|constructor]); apply in_or_app; [right|left]; apply zrange_in; simpl; lia.
Qed.
