(* From text to number: a token made of word characters that starts with a digit and that int(s, 0) reads as v is, for the
   expression model (Model/PyExpr.v), the number v; as an immediate operand it parses to EArith (ANum v).  With Proofs/IntSpell.v:
   the decimal and hexadecimal spelling of every value below 2^64. *)
From Coq Require Import ZArith List Bool String Ascii Lia.
From BB Require Import Base.PyBase Model.Items Model.Lexer Model.PyExpr Model.Parser Proofs.LexFront Proofs.IntSpell.
Import ListNotations.

Lemma ascii_eqb_zc a b : Ascii.eqb a b = true -> zc a = zc b.
Proof. intro H. apply Ascii.eqb_eq in H. subst. reflexivity. Qed.
Lemma digit_not a : is_digit a = true -> forall b, (zc b < 48 \/ 57 < zc b)%Z -> Ascii.eqb a b = false.
Proof.
  intros Hd b Hb. destruct (Ascii.eqb a b) eqn:E; auto. apply ascii_eqb_zc in E.
  unfold is_digit in Hd. cbv zeta in Hd. apply andb_prop in Hd. destruct Hd as [H1 H2]. apply Z.leb_le in H1, H2. lia.
Qed.
Lemma digit_lower c : is_digit c = true -> lower_c c = c.
Proof.
  intro Hd. unfold lower_c. cbv zeta. unfold is_digit in Hd. cbv zeta in Hd. apply andb_prop in Hd. destruct Hd as [H1 H2].
  apply Z.leb_le in H1, H2. destruct ((65 <=? zc c)%Z && (zc c <=? 90)%Z) eqn:E; auto.
  apply andb_prop in E. destruct E as [E1 E2]. apply Z.leb_le in E1. lia.
Qed.

Lemma pytok_word w : forall cur, forallb is_word w = true -> pytok cur w = flush (app (rev w) cur) (Some []).
Proof.
  induction w as [|c r IH]; intros cur H. reflexivity.
  cbn [forallb] in H. apply andb_prop in H. destruct H as [Hc Hr]. cbn [pytok]. rewrite Hc, (IH _ Hr).
  cbn [rev]. rewrite <- app_assoc. reflexivity.
Qed.
Theorem number_token c r v :
  is_digit c = true -> forallb is_word (c :: r) = true -> int_body (c :: r) = Some v ->
  arith_of_string (unchars (c :: r)) = Some (ANum v).
Proof.
  intros Hd Hw Hb. unfold arith_of_string. rewrite chars_unchars. unfold arith_of_text.
  assert (Hq : is_c c c_quote = false) by (apply digit_not; [exact Hd|left; vm_compute; reflexivity]).
  rewrite Hq. cbn [andb]. unfold parse_py, pytokens. rewrite (pytok_word _ [] Hw), app_nil_r.
  unfold flush. destruct (rev (c :: r)) as [|x xs] eqn:Er. { apply (f_equal (@List.length ascii)) in Er. rewrite rev_length in Er. discriminate. }
  rewrite <- Er, rev_involutive. unfold word_tok. rewrite Hd, Hb. cbn [option_map].
  reflexivity.
Qed.
Theorem number_immediate c r v l :
  is_digit c = true -> forallb is_word (c :: r) = true -> int_body (c :: r) = Some v ->
  parse_immediate [unchars (c :: r)] l = FOk (EArith (ANum v)).
Proof.
  intros Hd Hw Hb. unfold parse_immediate. cbn [List.length parse_immediate_f].
  assert (Hl : forall s, String.eqb (lower (unchars (c :: r))) (String "%"%char s) = false).
  { intro s. cbn [unchars string_of_list_ascii lower String.eqb]. rewrite (digit_lower _ Hd).
    rewrite (digit_not _ Hd "%"%char) by (left; vm_compute; reflexivity). reflexivity. }
  cbv zeta. rewrite !Hl. cbn [orb andb]. unfold arith. cbn [join_sp]. rewrite (number_token c r v Hd Hw Hb). reflexivity.
Qed.

(* every character the renderers emit is a word character; hexdig d is a digit or a lower-case letter a..f *)
Lemma hexdig_word d : (0 <= d < 16)%Z -> is_word (hexdig d) = true.
Proof.
  intros H. apply d16_cases in H.
  repeat (destruct H as [H|H]; [subst d; vm_compute; reflexivity|]). subst d; vm_compute; reflexivity.
Qed.
Lemma hexdig_digit d : (0 <= d < 10)%Z -> is_digit (hexdig d) = true.
Proof.
  intro H. assert (E : (d = 0 \/ d = 1 \/ d = 2 \/ d = 3 \/ d = 4 \/ d = 5 \/ d = 6 \/ d = 7 \/ d = 8 \/ d = 9)%Z) by lia.
  repeat (destruct E as [->|E]; [vm_compute; reflexivity|]). subst. vm_compute. reflexivity.
Qed.
Lemma digits_base_word b fuel : (2 <= b <= 16)%Z -> forall n acc, (0 <= n)%Z -> forallb is_word acc = true ->
  forallb is_word (digits_base b fuel n acc) = true.
Proof.
  intro Hb. induction fuel as [|f IH]; intros n acc Hn Ha; [exact Ha|].
  cbn [digits_base]. destruct (n <? b)%Z eqn:E.
  - apply Z.ltb_lt in E. cbn [forallb]. rewrite hexdig_word by lia. exact Ha.
  - apply IH. apply Z.div_pos; lia. cbn [forallb]. rewrite Ha, andb_true_r. apply hexdig_word.
    assert (0 <= n mod b < b)%Z by (apply Z.mod_pos_bound; lia). lia.
Qed.

Theorem dec_immediate v l : (0 <= v < 10 ^ 80)%Z -> parse_immediate [dec_of_Z v] l = FOk (EArith (ANum v)).
Proof.
  intro Hv. destruct (Z.eq_dec v 0) as [->|Hnz]. { vm_compute. reflexivity. }
  unfold dec_of_Z. replace (v <? 0)%Z with false by (symmetry; apply Z.ltb_ge; lia). rewrite dec_pos_eq by lia.
  assert (Hv' : (1 <= v < 10 ^ Z.of_nat 80)%Z) by (change (Z.of_nat 80) with 80%Z; lia).
  destruct (digits_base_head 10 ten_ok 80 v []) as (d & r & E & Hd); [discriminate | exact Hv' |].
  pose proof (digits_base_word 10 80 ten_ok v [] ltac:(lia) eq_refl) as Hw.
  pose proof (dec_body_pos v ltac:(lia)) as Hb. rewrite E in *.
  apply number_immediate; auto. apply hexdig_digit. lia.
Qed.
Theorem hex_immediate v l : (0 <= v < 16 ^ 20)%Z -> parse_immediate [hex_of v] l = FOk (EArith (ANum v)).
Proof.
  intro Hv. unfold hex_of.
  apply (number_immediate "0"%char ("x"%char :: digits_base 16 20 v []) v l).
  - reflexivity.
  - cbn [forallb]. change (is_word "0"%char) with true. change (is_word "x"%char) with true. cbn [andb].
    apply (digits_base_word 16 20 sixteen_ok); [lia|reflexivity].
  - change (int_body ("0"%char :: "x"%char :: digits_base 16 20 v [])) with (digs 16 0 true false (digits_base 16 20 v [])).
    apply (parse_digits 16 sixteen_ok); [discriminate | exact Hv].
Qed.
Print Assumptions dec_immediate.
Print Assumptions hex_immediate.

Theorem dec_arith v : (0 <= v < 10 ^ 80)%Z -> arith_of_string (dec_of_Z v) = Some (ANum v).
Proof.
  intro Hv. destruct (Z.eq_dec v 0) as [->|Hnz]. { vm_compute. reflexivity. }
  unfold dec_of_Z. replace (v <? 0)%Z with false by (symmetry; apply Z.ltb_ge; lia). rewrite dec_pos_eq by lia.
  assert (Hv' : (1 <= v < 10 ^ Z.of_nat 80)%Z) by (change (Z.of_nat 80) with 80%Z; lia).
  destruct (digits_base_head 10 ten_ok 80 v []) as (d & r & E & Hd); [discriminate | exact Hv' |].
  pose proof (digits_base_word 10 80 ten_ok v [] ltac:(lia) eq_refl) as Hw.
  pose proof (dec_body_pos v ltac:(lia)) as Hb. rewrite E in *.
  apply number_token; auto. apply hexdig_digit. lia.
Qed.
