(* The position bookkeeping of the source, path by path (Gen/Book.v, regenerated from asm.py on every run), is the one the pass
   model assumes: Model/Passes.v gpass / resolve_immediates / resolve_labels_from advance the position by the total size of the
   items they append.  `path_ok` checks one path of a pass loop: every `new_items.append(v)` is paired with exactly one
   `position += <size of v>` (adjacent up to bindings of OTHER variables and label updates; no re-binding of v in between), and
   nothing else advances the position.  The check is a computation on the generated table. *)
From Coq Require Import List Bool String.
From BB Require Import Base.PyBase Gen.Book.
Import ListNotations.
Open Scope string_scope.

Inductive pending := PNone | PPos (e : string) | PApp (s : string).
(* "v.size()" mentions the variable v *)
Definition size_of_var (v : string) : string := v ++ ".size()".
Fixpoint path_ok_from (st : pending) (evs : list bev) : bool :=
  match evs with
  | [] => match st with PNone => true | _ => false end
  | BPos e :: r =>
      match st with
      | PNone => path_ok_from (PPos e) r
      | PApp s => String.eqb s e && path_ok_from PNone r
      | PPos _ => false
      end
  | BApp s :: r =>
      match st with
      | PNone => path_ok_from (PApp s) r
      | PPos e => String.eqb s e && path_ok_from PNone r
      | PApp _ => false
      end
  | BBind v :: r =>
      match st with
      | PNone => path_ok_from st r
      | PPos e | PApp e => negb (String.eqb e (size_of_var v)) && negb (String.eqb e v) && path_ok_from st r
      end
  | BLab :: r => path_ok_from st r
  end.
Definition path_ok (evs : list bev) : bool := path_ok_from PNone evs.

Definition passes_with_position : list string :=
  ["resolve_labels"; "transform_compressible"; "transform_pseudo_instructions"; "resolve_aligns"; "resolve_immediates"].

Definition bookkeeping_ok : bool :=
  forallb (fun p => path_ok (snd p)) paths &&
  forallb (fun n => existsb (fun p => String.eqb (fst (fst p)) n) paths) passes_with_position.

Lemma bookkeeping_from_source : bookkeeping_ok = true.
Proof. vm_compute. reflexivity. Qed.

(* the check is not vacuous: it refuses a path that forgets one increment, one that counts an item twice, and one that re-binds
   the variable between the increment and the append *)
Example path_ok_rejects :
  path_ok [BBind "inst"; BApp "inst.size()"; BBind "inst"; BPos "inst.size()"; BApp "inst.size()"] = false /\
  path_ok [BBind "inst"; BPos "inst.size()"; BPos "inst.size()"; BApp "inst.size()"] = false /\
  path_ok [BBind "inst"; BPos "inst.size()"; BBind "inst"; BApp "inst.size()"] = false /\
  path_ok [BBind "inst"; BPos "inst.size()"; BApp "inst.size()"; BBind "inst"; BPos "inst.size()"; BApp "inst.size()"] = true.
Proof. vm_compute. repeat split. Qed.
