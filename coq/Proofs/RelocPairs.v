(* C07, the "consequently" half: the instruction PAIRS that consume %hi / %lo of the same expression, written by hand
   (lui + addi, lui + load / store, auipc + jalr / addi), resolved and encoded by the pass model (Model/Passes.v:
   resolve_immediates, resolve_instructions with the GENERATED encoders, resolve_blobs), loaded into the byte memory of
   the Spec machine (Spec/Sem.v) and run for two instructions.
   The arithmetic is hi_lo_rebuild (Proofs/Reloc.v), the encodings are C01 (decode_encode through the enc_* rows of
   Proofs/PseudoEmit.v / Pseudo.v), the machine lemmas are those of Proofs/SemLemmas.v. *)
From Coq Require Import ZArith List Bool Lia String.
From BB Require Import Base.Bits Base.PyBase Gen.Encoders Spec.RV32 Spec.RVC Spec.Operands Spec.Sem
  Model.Items Model.Encode Model.Passes Proofs.C01Main Proofs.Reloc Proofs.SemLemmas Proofs.PseudoEmit Proofs.Pseudo.
Import ListNotations.
Open Scope Z_scope.
Open Scope list_scope.

(* ==== arithmetic ================================================================================================== *)
(* the value a pair rebuilds when the two halves are taken of DIFFERENT values: only the low half matters beyond the
   rounding that %hi applies for the low half of ITS OWN argument *)
Definition lo_window (d : Z) : bool := (2048 <=? d mod 4096) && (d mod 4096 <? 2052).

Ltac Zify.zify_post_hook ::= Z.to_euclidean_division_equations.
Lemma lo_shift4 d : relocate_lo (d - 4) = relocate_lo d - 4 + (if lo_window d then 4096 else 0).
Proof.
  rewrite !relocate_lo_eq. unfold sext, lo_window. change (2^(12-1)) with 2048. change (2^12) with 4096.
  destruct (2048 <=? d mod 4096) eqn:E1; destruct (d mod 4096 <? 2052) eqn:E2; cbn [andb];
    destruct ((d - 4) mod 4096 <? 2048) eqn:E3; destruct (d mod 4096 <? 2048) eqn:E4; lia.
Qed.
Ltac Zify.zify_post_hook ::= idtac.

(* base + %hi(d) * 4096 + %lo(d') for any two values: what the pair adds to the base is d' plus the difference of the roundings *)
Lemma hi_lo_wrap2 a d d' :
  wrap (wrap (a + relocate_hi d * 4096) + relocate_lo d') = wrap (a + d + (relocate_lo d' - relocate_lo d)).
Proof.
  rewrite <- (wrap_add_l (a + d) (relocate_lo d' - relocate_lo d)).
  rewrite <- (hi_lo_wrap a d). rewrite !wrap_add_l. rewrite <- (Z.add_assoc (wrap _)), wrap_add_l. apply (f_equal wrap). ring.
Qed.
(* the hand-written auipc pair with %offset of ONE label in both halves: the second half is 4 smaller *)
Lemma hi_lo_wrap_minus4 a d :
  wrap (wrap (a + relocate_hi d * 4096) + relocate_lo (d - 4)) = wrap (a + d - 4 + (if lo_window d then 4096 else 0)).
Proof. rewrite hi_lo_wrap2, lo_shift4. apply (f_equal wrap). ring. Qed.

(* ==== memory accesses depend on the address modulo 2^32 only ======================================================= *)
Lemma wrap_congr_add a b k : wrap a = wrap b -> wrap (a + k) = wrap (b + k).
Proof. intros H. rewrite <- (wrap_add_l a), <- (wrap_add_l b), H. reflexivity. Qed.
Lemma getb_congr m a b : wrap a = wrap b -> getb m a = getb m b.
Proof. unfold getb. intros ->. reflexivity. Qed.
Lemma load_le_congr n m a b : wrap a = wrap b -> load_le n m a = load_le n m b.
Proof.
  intros H. unfold load_le. generalize (seq 0 n). intros ks. induction ks as [|k ks IH]; cbn [fold_right]; [reflexivity|].
  rewrite IH. f_equal. apply getb_congr. apply wrap_congr_add. exact H.
Qed.
Lemma load_val_congr w m a b : wrap a = wrap b -> load_val w m a = load_val w m b.
Proof. intros H. destruct w; cbn [load_val]; rewrite (load_le_congr _ m a b H); reflexivity. Qed.
Lemma setb_congr m a b v : wrap a = wrap b -> setb m a v = setb m b v.
Proof. unfold setb. intros ->. reflexivity. Qed.
Lemma store_le_congr n : forall m a b v, wrap a = wrap b -> store_le n m a v = store_le n m b v.
Proof.
  induction n as [|n IH]; intros m a b v H; cbn [store_le]; [reflexivity|].
  rewrite (setb_congr m a b (v) H). apply IH. apply wrap_congr_add. exact H.
Qed.

Lemma load_fold_range m a ks :
  0 <= fold_right (fun k acc => getb m (a + Z.of_nat k) + 256 * acc) 0 ks < 256 ^ Z.of_nat (List.length ks).
Proof.
  induction ks as [|k ks IH]; [cbn; lia|].
  cbn [fold_right]. change (List.length (k :: ks)) with (S (List.length ks)).
  rewrite Nat2Z.inj_succ, Z.pow_succ_r by lia.
  assert (0 <= getb m (a + Z.of_nat k) < 256) by (unfold getb; apply Z.mod_pos_bound; lia). lia.
Qed.
Lemma load_le_range n m a : 0 <= load_le n m a < 256 ^ Z.of_nat n.
Proof. unfold load_le. pose proof (load_fold_range m a (seq 0 n)) as H. rewrite seq_length in H. exact H. Qed.
Lemma load_val_range w m a : 0 <= load_val w m a < 2^32.
Proof.
  destruct w; cbn [load_val]; try apply wrap_range.
  - pose proof (load_le_range 4 m a) as H. change (256 ^ Z.of_nat 4) with (2^32) in H. exact H.
  - pose proof (load_le_range 1 m a) as H. change (256 ^ Z.of_nat 1) with 256 in H. change (2^32) with 4294967296. lia.
  - pose proof (load_le_range 2 m a) as H. change (256 ^ Z.of_nat 2) with 65536 in H. change (2^32) with 4294967296. lia.
Qed.

(* ==== the machine: the two first halves and the four second halves ================================================ *)
Inductive upper := ULui | UAuipc.
Definition upper_name (u : upper) : string := match u with ULui => "lui" | UAuipc => "auipc" end.
Definition upper_instr (u : upper) : Z -> Z -> instr := match u with ULui => Lui | UAuipc => Auipc end.
(* what the upper immediate is added to: nothing (lui) or the address of the instruction itself (auipc) *)
Definition upper_base (u : upper) (s : state) : Z := match u with ULui => 0 | UAuipc => pc s end.

Lemma step_upper u t h s :
  exists s1, step (upper_instr u t h) 4 s = Some s1 /\ pc s1 = wrap (pc s + 4) /\
             only_reg s s1 t (wrap (upper_base u s + h * 4096)).
Proof. destruct u; [apply step_lui|apply step_auipc]. Qed.
Lemma enc_upper u : forall a v w, encode (upper_name u) [a; AInt v] [] = Ok w ->
  exists x, regnum a = Some x /\ decode32 w = Some (upper_instr u x (upper_norm v)).
Proof. destruct u; [exact enc_lui|exact enc_auipc]. Qed.

Lemma step_load w rd rs imm len s :
  exists s', step (Load w rd rs imm) len s = Some s' /\ pc s' = wrap (pc s + len) /\
             only_reg s s' rd (load_val w (mem s) (getr s rs + imm)).
Proof.
  eexists. split; [reflexivity|]. split; [reflexivity|].
  eapply only_reg_val; [|apply only_reg_upd]. apply wrap_small, load_val_range.
Qed.
Lemma step_store w rs1 rs2 imm len s :
  exists s', step (Store w rs1 rs2 imm) len s = Some s' /\ pc s' = wrap (pc s + len) /\ (forall r, getr s' r = getr s r) /\
             mem s' = store_le (swidth_bytes w) (mem s) (getr s rs1 + imm) (getr s rs2).
Proof. eexists. split; [reflexivity|]. split; [reflexivity|]. split; [intro; reflexivity|reflexivity]. Qed.

Lemma enc_load w : forall a b v x, encode (lwidth_name w) [a; b; AInt v] [] = Ok x ->
  exists r1 r2, regnum a = Some r1 /\ regnum b = Some r2 /\ decode32 x = Some (Load w r1 r2 v).
Proof.
  destruct w; cbn [lwidth_name];
    [apply (enc_rri "lb"%string (Load LB))|apply (enc_rri "lh"%string (Load LH))|apply (enc_rri "lw"%string (Load LW))
    |apply (enc_rri "lbu"%string (Load LBU))|apply (enc_rri "lhu"%string (Load LHU))]; reflexivity.
Qed.
Lemma enc_store w : forall a b v x, encode (swidth_name w) [a; b; AInt v] [] = Ok x ->
  exists r1 r2, regnum a = Some r1 /\ regnum b = Some r2 /\ decode32 x = Some (Store w r1 r2 v).
Proof.
  destruct w; cbn [swidth_name];
    [apply (enc_rri "sb"%string (Store SB))|apply (enc_rri "sh"%string (Store SH))|apply (enc_rri "sw"%string (Store SW))]; reflexivity.
Qed.

(* s' differs from s at most in the scratch register t (now vt) and in rd (now vrd; rd may be t, then it holds vrd);
   x0 never changes; the memory is untouched *)
Definition two_regs (s s' : state) (t vt rd vrd : Z) : Prop :=
  getr s' rd = (if rd =? 0 then 0 else vrd) /\
  (t <> rd -> getr s' t = (if t =? 0 then 0 else vt)) /\
  (forall r, r <> rd -> r <> t -> getr s' r = getr s r) /\
  mem s' = mem s.
Lemma two_regs_compose s s1 s2 t vt rd vrd : only_reg s s1 t vt -> only_reg s1 s2 rd vrd -> two_regs s s2 t vt rd vrd.
Proof.
  intros (A1 & B1 & C1) (A2 & B2 & C2). split; [exact A2|]. split; [|split; [|congruence]].
  - intros Hne. rewrite B2 by exact Hne. exact A1.
  - intros r H1 H2. rewrite B2 by exact H1. apply B1. exact H2.
Qed.
Lemma two_regs_same s s' rd vt v : two_regs s s' rd vt rd v -> only_reg s s' rd v.
Proof. intros (A & _ & C & D). split; [exact A|]. split; [|exact D]. intros r Hr. apply C; exact Hr. Qed.

(* ==== from the two source lines to the two words ================================================================== *)
(* the model's last passes on items that keep their OWN source lines (emit_bytes of Proofs/PseudoEmit.v is the special case
   of one line for all items): resolve_immediates from position pos under the final constants / labels, resolve_instructions
   (generated encoders), resolve_blobs *)
Definition emit_lines (consts labels : envt) (pos : Z) (lits : list litem) : outcome (list Z) :=
  its1 <<- resolve_immediates lits pos consts labels [] ;;;
  its2 <<- resolve_instructions its1 [] ;;;
  chunks <<- resolve_blobs its2 ;;;
  Done (flat_map chunk_bytes chunks).
Lemma emit_bytes_lines l consts labels pos its :
  emit_bytes l consts labels pos its = emit_lines consts labels pos (map (fun x => (l, x)) its).
Proof. reflexivity. Qed.

(* the S-type item as the parser builds it (Model/Parser.v: `sw rs1, rs2, imm` = `sw rs2, imm(rs1)`; rs1 = base, rs2 = source) *)
Definition mkS (name : string) (rs1 rs2 : arg) (imm : expr) : item :=
  IInstr "STypeInstruction" name [("rs1", FReg rs1); ("rs2", FReg rs2); ("imm", FExpr imm)]%string false.

Lemma emit_two_lines consts labels pos l1 c1 n1 fs1 e1 l2 c2 n2 fs2 e2 bs :
  field_get "imm" fs1 = Some (FExpr e1) -> is_atomic_cls c1 = false ->
  field_get "imm" fs2 = Some (FExpr e2) -> is_atomic_cls c2 = false ->
  emit_lines consts labels pos [(l1, IInstr c1 n1 fs1 false); (l2, IInstr c2 n2 fs2 false)] = Done bs ->
  exists v1 w1 v2 w2,
    eval_here l1 (pos - back_of fs1) consts labels e1 = Done v1 /\
    encode n1 (args_of (field_set "imm" (FInt v1) fs1)) [] = Ok w1 /\
    eval_here l2 (pos + 4 - back_of fs2) consts labels e2 = Done v2 /\
    encode n2 (args_of (field_set "imm" (FInt v2) fs2)) [] = Ok w2 /\
    bs = word_bytes w1 ++ word_bytes w2.
Proof.
  intros Hf1 Ha1 Hf2 Ha2 H. unfold emit_lines in H. cbn [resolve_immediates] in H. rewrite Hf1 in H.
  fold (back_of fs1) in H. cbn [imm_of] in H.
  destruct (eval_here l1 (pos - back_of fs1) consts labels e1) as [v1|?|] eqn:Ev1; cbn [obind] in H; try discriminate.
  cbn [resolve_immediates] in H. rewrite Hf2 in H. fold (back_of fs2) in H. cbn [imm_of] in H.
  destruct (eval_here l2 (pos + 4 - back_of fs2) consts labels e2) as [v2|?|] eqn:Ev2; cbn [obind] in H; try discriminate.
  cbn [resolve_immediates rev app resolve_instructions] in H.
  destruct (encode_item l1 c1 n1 (field_set "imm" (FInt v1) fs1) false) as [b1|?|] eqn:Ee1; cbn [obind] in H; try discriminate.
  cbn [resolve_instructions] in H.
  destruct (encode_item l2 c2 n2 (field_set "imm" (FInt v2) fs2) false) as [b2|?|] eqn:Ee2; cbn [obind] in H; try discriminate.
  cbn [resolve_instructions rev app resolve_blobs obind flat_map chunk_bytes snd] in H.
  apply Done_inj in H. rewrite app_nil_r in H.
  destruct (encode_item_plain _ _ _ _ _ Ha1 Ee1) as (w1 & Hw1 & Hb1).
  destruct (encode_item_plain _ _ _ _ _ Ha2 Ee2) as (w2 & Hw2 & Hb2).
  exists v1, w1, v2, w2. subst. auto 6.
Qed.

(* upper instruction with %hi(e1), then an I-type instruction written by hand (no is_auipc_jump: evaluated at ITS OWN position) *)
Lemma emit_U_I consts labels pos l1 n1 t e1 l2 n2 rd t' e2 bs :
  emit_lines consts labels pos [(l1, mkU n1 t (EHi e1)); (l2, mkI n2 rd t' (ELo e2) false)] = Done bs ->
  exists v1 w1 v2 w2,
    eval_here l1 pos consts labels e1 = Done v1 /\ encode n1 [t; AInt (relocate_hi v1)] [] = Ok w1 /\
    eval_here l2 (pos + 4) consts labels e2 = Done v2 /\ encode n2 [rd; t'; AInt (relocate_lo v2)] [] = Ok w2 /\
    bs = word_bytes w1 ++ word_bytes w2.
Proof.
  intros H. apply (emit_two_lines _ _ _ _ _ _ _ (EHi e1) _ _ _ _ (ELo e2)) in H; [|reflexivity|reflexivity|reflexivity|reflexivity].
  destruct H as (u1 & w1 & u2 & w2 & A & B & C & D & E).
  unfold back_of in A, C. cbn in A, C. rewrite Z.sub_0_r in A, C.
  apply eval_hi in A. destruct A as (v1 & A & ->). apply eval_lo in C. destruct C as (v2 & C & ->).
  exists v1, w1, v2, w2. split; [exact A|]. split; [exact B|]. split; [exact C|]. split; [exact D|exact E].
Qed.
Lemma emit_U_S consts labels pos l1 n1 t e1 l2 n2 t' rs e2 bs :
  emit_lines consts labels pos [(l1, mkU n1 t (EHi e1)); (l2, mkS n2 t' rs (ELo e2))] = Done bs ->
  exists v1 w1 v2 w2,
    eval_here l1 pos consts labels e1 = Done v1 /\ encode n1 [t; AInt (relocate_hi v1)] [] = Ok w1 /\
    eval_here l2 (pos + 4) consts labels e2 = Done v2 /\ encode n2 [t'; rs; AInt (relocate_lo v2)] [] = Ok w2 /\
    bs = word_bytes w1 ++ word_bytes w2.
Proof.
  intros H. apply (emit_two_lines _ _ _ _ _ _ _ (EHi e1) _ _ _ _ (ELo e2)) in H; [|reflexivity|reflexivity|reflexivity|reflexivity].
  destruct H as (u1 & w1 & u2 & w2 & A & B & C & D & E).
  unfold back_of in A, C. cbn in A, C. rewrite Z.sub_0_r in A, C.
  apply eval_hi in A. destruct A as (v1 & A & ->). apply eval_lo in C. destruct C as (v2 & C & ->).
  exists v1, w1, v2, w2. split; [exact A|]. split; [exact B|]. split; [exact C|]. split; [exact D|exact E].
Qed.

(* an expression without %offset has the same value at every position *)
Lemma eval_pos_indep l1 l2 p1 p2 consts labels e v :
  is_position_relative e = false -> eval_here l1 p1 consts labels e = Done v -> eval_here l2 p2 consts labels e = Done v.
Proof.
  unfold eval_here. intros Hf H.
  match goal with |- of_pres ?t = _ => assert (G: t = POk v); [|rewrite G; reflexivity] end.
  match type of H with of_pres ?t = _ => assert (G: t = POk v) by (destruct t; cbn [of_pres] in H; congruence) end.
  clear H. revert v G. induction e; intros v H; cbn [eeval is_position_relative] in *; try discriminate.
  - destruct (aeval (chain_get consts labels) a); congruence.
  - destruct (chain_get consts labels ref) as [d|]; [|discriminate].
    destruct (eeval relocate_hi relocate_lo l1 (Some p1) _ _ e) as [u|] eqn:Eu; cbn [pbind] in H; [|discriminate].
    rewrite (IHe Hf _ eq_refl). exact H.
  - destruct (eeval relocate_hi relocate_lo l1 (Some p1) _ _ e) as [u|] eqn:Eu; cbn [pbind] in H; [|discriminate].
    rewrite (IHe Hf _ eq_refl). exact H.
  - destruct (eeval relocate_hi relocate_lo l1 (Some p1) _ _ e) as [u|] eqn:Eu; cbn [pbind] in H; [|discriminate].
    rewrite (IHe Hf _ eq_refl). exact H.
Qed.

(* ==== the four pairs, for lui and auipc alike ===================================================================== *)
(* Common shape.  First line: `lui/auipc t, %hi(e1)`; second line an instruction that adds %lo(e2) to t' (the same register as t).
   v1 = value of e1 at the position of the first line, v2 = value of e2 at the position of the SECOND line (4 bytes later: a
   hand-written second half carries no is_auipc_jump flag).  The address / value the pair forms is
        base + v1 + (%lo(v2) - %lo(v1))      modulo 2^32,      base = 0 (lui) or the address of the auipc
   (pair_value); it is base + v1 when v2 = v1. *)
Definition pair_value (u : upper) (s : state) (v1 v2 : Z) : Z :=
  wrap (upper_base u s + v1 + (relocate_lo v2 - relocate_lo v1)).
Lemma pair_value_same u s v : pair_value u s v v = wrap (upper_base u s + v).
Proof. unfold pair_value. apply (f_equal wrap). ring. Qed.
Lemma pair_value_minus4 u s d :
  pair_value u s d (d - 4) = wrap (upper_base u s + d - 4 + (if lo_window d then 4096 else 0)).
Proof. unfold pair_value. rewrite lo_shift4. apply (f_equal wrap). ring. Qed.

Local Ltac first_half u E1 D1 t nt Ht :=
  apply (enc_upper u) in E1; destruct E1 as (nt & Ht & D1); rewrite upper_norm_hi in D1.

Theorem upper_addi_pair u consts labels pos l1 l2 t t' rd e1 e2 bs :
  emit_lines consts labels pos [(l1, mkU (upper_name u) t (EHi e1)); (l2, mkI "addi" rd t' (ELo e2) false)] = Done bs ->
  exists nt nt' nrd v1 v2, regnum t = Some nt /\ regnum t' = Some nt' /\ regnum rd = Some nrd /\
    eval_here l1 pos consts labels e1 = Done v1 /\ eval_here l2 (pos + 4) consts labels e2 = Done v2 /\
    forall s, loaded s bs -> nt' = nt -> nt <> 0 ->
      exists s', run_n 2 s = Some s' /\ pc s' = wrap (pc s + 8) /\
        two_regs s s' nt (wrap (upper_base u s + relocate_hi v1 * 4096)) nrd (pair_value u s v1 v2).
Proof.
  intros H. apply emit_U_I in H. destruct H as (v1 & w1 & v2 & w2 & H1 & E1 & H2 & E2 & ->).
  first_half u E1 D1 t nt Ht.
  apply enc_addi in E2. destruct E2 as (nrd & nt' & Hrd & Ht' & D2).
  exists nt, nt', nrd, v1, v2. repeat (split; [assumption|]).
  intros s L -> Hnz.
  destruct (step_upper u nt (relocate_hi v1) s) as (s1 & S1 & P1 & O1).
  destruct (step_addi nrd nt (relocate_lo v2) 4 s1) as (s2 & S2 & P2 & O2).
  assert (C1: mem s1 = mem s) by (destruct O1 as (_ & _ & C); exact C).
  destruct (run2 _ _ _ _ _ _ _ L D1 D2 S1 P1 C1 S2) as (_ & R2).
  exists s2. split; [exact R2|]. split.
  - rewrite P2, P1, wrap_add_l. apply (f_equal wrap). ring.
  - eapply two_regs_compose; [exact O1|]. eapply only_reg_val; [|exact O2].
    destruct O1 as (A1 & _ & _). rewrite A1. destruct (Z.eqb_spec nt 0); [contradiction|].
    unfold pair_value. apply hi_lo_wrap2.
Qed.

Theorem upper_load_pair u w consts labels pos l1 l2 t t' rd e1 e2 bs :
  emit_lines consts labels pos [(l1, mkU (upper_name u) t (EHi e1)); (l2, mkI (lwidth_name w) rd t' (ELo e2) false)] = Done bs ->
  exists nt nt' nrd v1 v2, regnum t = Some nt /\ regnum t' = Some nt' /\ regnum rd = Some nrd /\
    eval_here l1 pos consts labels e1 = Done v1 /\ eval_here l2 (pos + 4) consts labels e2 = Done v2 /\
    forall s, loaded s bs -> nt' = nt -> nt <> 0 ->
      exists s', run_n 2 s = Some s' /\ pc s' = wrap (pc s + 8) /\
        two_regs s s' nt (wrap (upper_base u s + relocate_hi v1 * 4096)) nrd (load_val w (mem s) (pair_value u s v1 v2)).
Proof.
  intros H. apply emit_U_I in H. destruct H as (v1 & w1 & v2 & w2 & H1 & E1 & H2 & E2 & ->).
  first_half u E1 D1 t nt Ht.
  apply enc_load in E2. destruct E2 as (nrd & nt' & Hrd & Ht' & D2).
  exists nt, nt', nrd, v1, v2. repeat (split; [assumption|]).
  intros s L -> Hnz.
  destruct (step_upper u nt (relocate_hi v1) s) as (s1 & S1 & P1 & O1).
  destruct (step_load w nrd nt (relocate_lo v2) 4 s1) as (s2 & S2 & P2 & O2).
  assert (C1: mem s1 = mem s) by (destruct O1 as (_ & _ & C); exact C).
  destruct (run2 _ _ _ _ _ _ _ L D1 D2 S1 P1 C1 S2) as (_ & R2).
  exists s2. split; [exact R2|]. split.
  - rewrite P2, P1, wrap_add_l. apply (f_equal wrap). ring.
  - eapply two_regs_compose; [exact O1|]. eapply only_reg_val; [|exact O2].
    rewrite C1. apply load_val_congr.
    destruct O1 as (A1 & _ & _). rewrite A1. destruct (Z.eqb_spec nt 0); [contradiction|].
    unfold pair_value. rewrite wrap_wrap. apply hi_lo_wrap2.
Qed.

(* stores: `sw rs, %lo(e2)(t')` -- what is stored is the value rs holds when the store executes (the upper part if rs = t) *)
Theorem upper_store_pair u w consts labels pos l1 l2 t t' rs e1 e2 bs :
  emit_lines consts labels pos [(l1, mkU (upper_name u) t (EHi e1)); (l2, mkS (swidth_name w) t' rs (ELo e2))] = Done bs ->
  exists nt nt' nrs v1 v2, regnum t = Some nt /\ regnum t' = Some nt' /\ regnum rs = Some nrs /\
    eval_here l1 pos consts labels e1 = Done v1 /\ eval_here l2 (pos + 4) consts labels e2 = Done v2 /\
    forall s, loaded s bs -> nt' = nt -> nt <> 0 ->
      exists s', run_n 2 s = Some s' /\ pc s' = wrap (pc s + 8) /\
        getr s' nt = wrap (upper_base u s + relocate_hi v1 * 4096) /\ (forall r, r <> nt -> getr s' r = getr s r) /\
        mem s' = store_le (swidth_bytes w) (mem s) (pair_value u s v1 v2)
                          (if nrs =? nt then wrap (upper_base u s + relocate_hi v1 * 4096) else getr s nrs).
Proof.
  intros H. apply emit_U_S in H. destruct H as (v1 & w1 & v2 & w2 & H1 & E1 & H2 & E2 & ->).
  first_half u E1 D1 t nt Ht.
  apply enc_store in E2. destruct E2 as (nt' & nrs & Ht' & Hrs & D2).
  exists nt, nt', nrs, v1, v2. repeat (split; [assumption|]).
  intros s L -> Hnz.
  destruct (step_upper u nt (relocate_hi v1) s) as (s1 & S1 & P1 & O1).
  destruct (step_store w nt nrs (relocate_lo v2) 4 s1) as (s2 & S2 & P2 & G2 & M2).
  destruct O1 as (A1 & B1 & C1). destruct (Z.eqb_spec nt 0) as [|_]; [contradiction|].
  destruct (run2 _ _ _ _ _ _ _ L D1 D2 S1 P1 C1 S2) as (_ & R2).
  exists s2. split; [exact R2|]. split; [|split; [|split]].
  - rewrite P2, P1, wrap_add_l. apply (f_equal wrap). ring.
  - rewrite G2. exact A1.
  - intros r Hr. rewrite G2. apply B1. exact Hr.
  - rewrite M2, C1, A1.
    replace (getr s1 nrs) with (if nrs =? nt then wrap (upper_base u s + relocate_hi v1 * 4096) else getr s nrs)
      by (destruct (Z.eqb_spec nrs nt) as [->|Hne]; [symmetry; exact A1|symmetry; apply B1; exact Hne]).
    apply store_le_congr. unfold pair_value. rewrite wrap_wrap. apply hi_lo_wrap2.
Qed.

(* jumps: `jalr rd, t', %lo(e2)` -- the target is read before rd is written, so rd = t is fine *)
Theorem upper_jalr_pair u consts labels pos l1 l2 t t' rd e1 e2 bs :
  emit_lines consts labels pos [(l1, mkU (upper_name u) t (EHi e1)); (l2, mkI "jalr" rd t' (ELo e2) false)] = Done bs ->
  exists nt nt' nrd v1 v2, regnum t = Some nt /\ regnum t' = Some nt' /\ regnum rd = Some nrd /\
    eval_here l1 pos consts labels e1 = Done v1 /\ eval_here l2 (pos + 4) consts labels e2 = Done v2 /\
    forall s, loaded s bs -> nt' = nt -> nt <> 0 ->
      exists s', run_n 2 s = Some s' /\ pc s' = pair_value u s v1 v2 - pair_value u s v1 v2 mod 2 /\
        two_regs s s' nt (wrap (upper_base u s + relocate_hi v1 * 4096)) nrd (wrap (pc s + 8)).
Proof.
  intros H. apply emit_U_I in H. destruct H as (v1 & w1 & v2 & w2 & H1 & E1 & H2 & E2 & ->).
  first_half u E1 D1 t nt Ht.
  apply enc_jalr in E2. destruct E2 as (nrd & nt' & Hrd & Ht' & D2).
  exists nt, nt', nrd, v1, v2. repeat (split; [assumption|]).
  intros s L -> Hnz.
  destruct (step_upper u nt (relocate_hi v1) s) as (s1 & S1 & P1 & O1).
  destruct (step_jalr nrd nt (relocate_lo v2) 4 s1) as (s2 & S2 & P2 & O2).
  assert (C1: mem s1 = mem s) by (destruct O1 as (_ & _ & C); exact C).
  destruct (run2 _ _ _ _ _ _ _ L D1 D2 S1 P1 C1 S2) as (_ & R2).
  exists s2. split; [exact R2|]. split.
  - rewrite P2. destruct O1 as (A1 & _ & _). rewrite A1. destruct (Z.eqb_spec nt 0); [contradiction|].
    unfold pair_value. rewrite hi_lo_wrap2. reflexivity.
  - eapply two_regs_compose; [exact O1|]. eapply only_reg_val; [|exact O2].
    rewrite P1, wrap_add_l. apply (f_equal wrap). ring.
Qed.

(* ==== (a) lui + addi ============================================================================================== *)
Lemma only_reg_x0_any s s' a b : only_reg s s' 0 a -> only_reg s s' 0 b.
Proof. intros H. exact H. Qed.

(* `lui rd, %hi(e)` / `addi rd, rd, %lo(e)`, e without %offset (literals, constants, bare labels, %position): rd = e mod 2^32
   at the final layout; nothing else changes; rd = x0 included (then nothing changes at all) *)
Theorem lui_addi_pair consts labels pos l1 l2 rd e bs :
  is_position_relative e = false ->
  emit_lines consts labels pos [(l1, mkU "lui" rd (EHi e)); (l2, mkI "addi" rd rd (ELo e) false)] = Done bs ->
  exists nrd v, regnum rd = Some nrd /\ eval_here l1 pos consts labels e = Done v /\
    forall s, loaded s bs ->
      exists s', run_n 2 s = Some s' /\ pc s' = wrap (pc s + 8) /\ only_reg s s' nrd (wrap v).
Proof.
  intros Hpr H.
  destruct (upper_addi_pair ULui _ _ _ _ _ _ _ _ _ _ _ H) as (nt & nt' & nrd & v1 & v2 & Ht & Ht' & Hrd & H1 & H2 & E).
  rewrite Ht in Ht', Hrd. apply Some_inj in Ht', Hrd. subst nt' nrd.
  rewrite (eval_pos_indep _ l2 _ (pos + 4) _ _ _ _ Hpr H1) in H2. apply Done_inj in H2. subst v2.
  exists nt, v1. split; [exact Ht|]. split; [exact H1|]. intros s L.
  destruct (Z.eq_dec nt 0) as [->|Hnz].
  - (* x0: both instructions write x0 *)
    apply emit_U_I in H. destruct H as (u1 & w1 & u2 & w2 & _ & E1 & _ & E2 & ->).
    apply enc_lui in E1. destruct E1 as (x & Hx & D1). rewrite Ht in Hx. apply Some_inj in Hx. subst x.
    apply enc_addi in E2. destruct E2 as (x & y & Hx & Hy & D2). rewrite Ht in Hx, Hy. apply Some_inj in Hx, Hy. subst x y.
    destruct (step_lui 0 (upper_norm (relocate_hi u1)) 4 s) as (s1 & S1 & P1 & O1).
    destruct (step_addi 0 0 (relocate_lo u2) 4 s1) as (s2 & S2 & P2 & O2).
    assert (C1: mem s1 = mem s) by (destruct O1 as (_ & _ & C); exact C).
    destruct (run2 _ _ _ _ _ _ _ L D1 D2 S1 P1 C1 S2) as (_ & R2).
    exists s2. split; [exact R2|]. split.
    + rewrite P2, P1, wrap_add_l. apply (f_equal wrap). ring.
    + eapply only_reg_x0_any. eapply only_reg_trans_same; eauto.
  - destruct (E s L eq_refl Hnz) as (s' & R & P & T). exists s'. split; [exact R|]. split; [exact P|].
    apply two_regs_same in T. rewrite pair_value_same in T. exact T.
Qed.

(* `lui t, %hi(e)` / `addi rd, t', %lo(e)` with t' a spelling of the register t <> x0: rd = e, t = the upper part (unless rd = t) *)
Theorem lui_addi_scratch consts labels pos l1 l2 t t' rd e bs :
  is_position_relative e = false ->
  emit_lines consts labels pos [(l1, mkU "lui" t (EHi e)); (l2, mkI "addi" rd t' (ELo e) false)] = Done bs ->
  exists nt nt' nrd v, regnum t = Some nt /\ regnum t' = Some nt' /\ regnum rd = Some nrd /\
    eval_here l1 pos consts labels e = Done v /\
    forall s, loaded s bs -> nt' = nt -> nt <> 0 ->
      exists s', run_n 2 s = Some s' /\ pc s' = wrap (pc s + 8) /\
        two_regs s s' nt (wrap (relocate_hi v * 4096)) nrd (wrap v).
Proof.
  intros Hpr H.
  destruct (upper_addi_pair ULui _ _ _ _ _ _ _ _ _ _ _ H) as (nt & nt' & nrd & v1 & v2 & Ht & Ht' & Hrd & H1 & H2 & E).
  rewrite (eval_pos_indep _ l2 _ (pos + 4) _ _ _ _ Hpr H1) in H2. apply Done_inj in H2. subst v2.
  exists nt, nt', nrd, v1. repeat (split; [assumption|]). intros s L Hs Hnz.
  destruct (E s L Hs Hnz) as (s' & R & P & T). exists s'. split; [exact R|]. split; [exact P|].
  rewrite pair_value_same in T. exact T.
Qed.

(* ==== (b) lui + load / store ====================================================================================== *)
(* `lui t, %hi(e)` / `lw rd, %lo(e)(t')`: rd = the little-endian word (byte, halfword: load_val of Spec/Sem.v) at address e mod 2^32
   of the memory before the pair; alignment is not a fault in that machine *)
Theorem lui_load_pair w consts labels pos l1 l2 t t' rd e bs :
  is_position_relative e = false ->
  emit_lines consts labels pos [(l1, mkU "lui" t (EHi e)); (l2, mkI (lwidth_name w) rd t' (ELo e) false)] = Done bs ->
  exists nt nt' nrd v, regnum t = Some nt /\ regnum t' = Some nt' /\ regnum rd = Some nrd /\
    eval_here l1 pos consts labels e = Done v /\
    forall s, loaded s bs -> nt' = nt -> nt <> 0 ->
      exists s', run_n 2 s = Some s' /\ pc s' = wrap (pc s + 8) /\
        two_regs s s' nt (wrap (relocate_hi v * 4096)) nrd (load_val w (mem s) (wrap v)).
Proof.
  intros Hpr H.
  destruct (upper_load_pair ULui w _ _ _ _ _ _ _ _ _ _ _ H) as (nt & nt' & nrd & v1 & v2 & Ht & Ht' & Hrd & H1 & H2 & E).
  rewrite (eval_pos_indep _ l2 _ (pos + 4) _ _ _ _ Hpr H1) in H2. apply Done_inj in H2. subst v2.
  exists nt, nt', nrd, v1. repeat (split; [assumption|]). intros s L Hs Hnz.
  destruct (E s L Hs Hnz) as (s' & R & P & T). exists s'. split; [exact R|]. split; [exact P|].
  rewrite pair_value_same in T. exact T.
Qed.

(* `lui t, %hi(e)` / `sw rs, %lo(e)(t')`: the 4 (1, 2) low bytes of rs are stored little-endian at address e mod 2^32 (store_le of
   Spec/Sem.v, addresses wrapping at 2^32); the only register that changes is t *)
Theorem lui_store_pair w consts labels pos l1 l2 t t' rs e bs :
  is_position_relative e = false ->
  emit_lines consts labels pos [(l1, mkU "lui" t (EHi e)); (l2, mkS (swidth_name w) t' rs (ELo e))] = Done bs ->
  exists nt nt' nrs v, regnum t = Some nt /\ regnum t' = Some nt' /\ regnum rs = Some nrs /\
    eval_here l1 pos consts labels e = Done v /\
    forall s, loaded s bs -> nt' = nt -> nt <> 0 ->
      exists s', run_n 2 s = Some s' /\ pc s' = wrap (pc s + 8) /\
        getr s' nt = wrap (relocate_hi v * 4096) /\ (forall r, r <> nt -> getr s' r = getr s r) /\
        mem s' = store_le (swidth_bytes w) (mem s) (wrap v) (if nrs =? nt then wrap (relocate_hi v * 4096) else getr s nrs).
Proof.
  intros Hpr H.
  destruct (upper_store_pair ULui w _ _ _ _ _ _ _ _ _ _ _ H) as (nt & nt' & nrs & v1 & v2 & Ht & Ht' & Hrs & H1 & H2 & E).
  rewrite (eval_pos_indep _ l2 _ (pos + 4) _ _ _ _ Hpr H1) in H2. apply Done_inj in H2. subst v2.
  exists nt, nt', nrs, v1. repeat (split; [assumption|]). intros s L Hs Hnz.
  destruct (E s L Hs Hnz) as (s' & R & P & G & O & M). exists s'. split; [exact R|]. split; [exact P|].
  rewrite pair_value_same in M. split; [exact G|]. split; [exact O|exact M].
Qed.

(* ==== (c) auipc + jalr / addi written by hand ===================================================================== *)
(* `auipc t, %hi(%offset(L1))` / `jalr rd, t', %lo(%offset(L2))`: the two %offset are taken at DIFFERENT positions (pos and pos + 4).
   With q1, q2 the final values of L1, L2 and the code loaded so that position pos sits at the pc, the label L1 is at address
   pc + (q1 - pos); the jump goes to  pc + (q1 - pos) + (%lo(q2 - pos - 4) - %lo(q1 - pos)), bit 0 cleared. *)
Theorem auipc_jalr_labels consts labels pos l1 l2 t t' rd L1 L2 bs :
  emit_lines consts labels pos [(l1, mkU "auipc" t (EHi (EOff L1))); (l2, mkI "jalr" rd t' (ELo (EOff L2)) false)] = Done bs ->
  exists nt nt' nrd q1 q2, regnum t = Some nt /\ regnum t' = Some nt' /\ regnum rd = Some nrd /\
    chain_get consts labels L1 = Some q1 /\ chain_get consts labels L2 = Some q2 /\
    forall s, loaded s bs -> nt' = nt -> nt <> 0 ->
      let target := wrap (pc s + (q1 - pos) + (relocate_lo (q2 - (pos + 4)) - relocate_lo (q1 - pos))) in
      exists s', run_n 2 s = Some s' /\ pc s' = target - target mod 2 /\
        two_regs s s' nt (wrap (pc s + relocate_hi (q1 - pos) * 4096)) nrd (wrap (pc s + 8)).
Proof.
  intros H.
  destruct (upper_jalr_pair UAuipc _ _ _ _ _ _ _ _ _ _ _ H) as (nt & nt' & nrd & v1 & v2 & Ht & Ht' & Hrd & H1 & H2 & E).
  apply eval_off in H1. destruct H1 as (q1 & Hq1 & ->). apply eval_off in H2. destruct H2 as (q2 & Hq2 & ->).
  exists nt, nt', nrd, q1, q2. repeat (split; [assumption|]). intros s L Hs Hnz. exact (E s L Hs Hnz).
Qed.
Theorem auipc_addi_labels consts labels pos l1 l2 t t' rd L1 L2 bs :
  emit_lines consts labels pos [(l1, mkU "auipc" t (EHi (EOff L1))); (l2, mkI "addi" rd t' (ELo (EOff L2)) false)] = Done bs ->
  exists nt nt' nrd q1 q2, regnum t = Some nt /\ regnum t' = Some nt' /\ regnum rd = Some nrd /\
    chain_get consts labels L1 = Some q1 /\ chain_get consts labels L2 = Some q2 /\
    forall s, loaded s bs -> nt' = nt -> nt <> 0 ->
      exists s', run_n 2 s = Some s' /\ pc s' = wrap (pc s + 8) /\
        two_regs s s' nt (wrap (pc s + relocate_hi (q1 - pos) * 4096)) nrd
                 (wrap (pc s + (q1 - pos) + (relocate_lo (q2 - (pos + 4)) - relocate_lo (q1 - pos)))).
Proof.
  intros H.
  destruct (upper_addi_pair UAuipc _ _ _ _ _ _ _ _ _ _ _ H) as (nt & nt' & nrd & v1 & v2 & Ht & Ht' & Hrd & H1 & H2 & E).
  apply eval_off in H1. destruct H1 as (q1 & Hq1 & ->). apply eval_off in H2. destruct H2 as (q2 & Hq2 & ->).
  exists nt, nt', nrd, q1, q2. repeat (split; [assumption|]). intros s L Hs Hnz. exact (E s L Hs Hnz).
Qed.

(* the two readings of the general formula *)
(* (i) the SAME label in both halves (the recipe the expansion table of call / tail suggests when copied by hand): 4 bytes short of
   the label -- and 4092 bytes beyond it when the distance from the auipc, modulo 4096, is 2048 .. 2051 *)
Lemma same_label_value a q pos :
  wrap (a + (q - pos) + (relocate_lo (q - (pos + 4)) - relocate_lo (q - pos)))
  = wrap (a + (q - pos) - 4 + (if lo_window (q - pos) then 4096 else 0)).
Proof.
  replace (q - (pos + 4)) with (q - pos - 4) by ring. rewrite lo_shift4. apply (f_equal wrap). ring.
Qed.
(* (ii) a second label 4 bytes behind the first one in the second half: exactly the first label *)
Lemma next_label_value a q pos :
  wrap (a + (q - pos) + (relocate_lo (q + 4 - (pos + 4)) - relocate_lo (q - pos))) = wrap (a + (q - pos)).
Proof. replace (q + 4 - (pos + 4)) with (q - pos) by ring. apply (f_equal wrap). ring. Qed.

Ltac Zify.zify_post_hook ::= Z.to_euclidean_division_equations.
(* 4 short or 4092 beyond is never the label itself, also after jalr has cleared bit 0 *)
Lemma misses a (b : bool) :
  let target := wrap (a - 4 + (if b then 4096 else 0)) in target - target mod 2 <> wrap a.
Proof. unfold wrap. change (2^32) with 4294967296. cbv zeta. destruct b; lia. Qed.
Ltac Zify.zify_post_hook ::= idtac.

Theorem auipc_jalr_same_label consts labels pos l1 l2 t t' rd L bs :
  emit_lines consts labels pos [(l1, mkU "auipc" t (EHi (EOff L))); (l2, mkI "jalr" rd t' (ELo (EOff L)) false)] = Done bs ->
  exists nt nt' nrd q, regnum t = Some nt /\ regnum t' = Some nt' /\ regnum rd = Some nrd /\ chain_get consts labels L = Some q /\
    forall s, loaded s bs -> nt' = nt -> nt <> 0 ->
      let target := wrap (pc s + (q - pos) - 4 + (if lo_window (q - pos) then 4096 else 0)) in
      exists s', run_n 2 s = Some s' /\ pc s' = target - target mod 2 /\ pc s' <> wrap (pc s + (q - pos)) /\
        two_regs s s' nt (wrap (pc s + relocate_hi (q - pos) * 4096)) nrd (wrap (pc s + 8)).
Proof.
  intros H. destruct (auipc_jalr_labels _ _ _ _ _ _ _ _ _ _ _ H) as (nt & nt' & nrd & q1 & q2 & Ht & Ht' & Hrd & Hq1 & Hq2 & E).
  rewrite Hq1 in Hq2. apply Some_inj in Hq2. subst q2.
  exists nt, nt', nrd, q1. repeat (split; [assumption|]). intros s L' Hs Hnz. cbv zeta.
  destruct (E s L' Hs Hnz) as (s' & R & P & T). rewrite same_label_value in P.
  exists s'. split; [exact R|]. split; [exact P|]. split; [|exact T].
  rewrite P. apply (misses (pc s + (q1 - pos)) (lo_window (q1 - pos))).
Qed.
Theorem auipc_addi_same_label consts labels pos l1 l2 t t' rd L bs :
  emit_lines consts labels pos [(l1, mkU "auipc" t (EHi (EOff L))); (l2, mkI "addi" rd t' (ELo (EOff L)) false)] = Done bs ->
  exists nt nt' nrd q, regnum t = Some nt /\ regnum t' = Some nt' /\ regnum rd = Some nrd /\ chain_get consts labels L = Some q /\
    forall s, loaded s bs -> nt' = nt -> nt <> 0 ->
      exists s', run_n 2 s = Some s' /\ pc s' = wrap (pc s + 8) /\
        two_regs s s' nt (wrap (pc s + relocate_hi (q - pos) * 4096)) nrd
                 (wrap (pc s + (q - pos) - 4 + (if lo_window (q - pos) then 4096 else 0))).
Proof.
  intros H. destruct (auipc_addi_labels _ _ _ _ _ _ _ _ _ _ _ H) as (nt & nt' & nrd & q1 & q2 & Ht & Ht' & Hrd & Hq1 & Hq2 & E).
  rewrite Hq1 in Hq2. apply Some_inj in Hq2. subst q2.
  exists nt, nt', nrd, q1. repeat (split; [assumption|]). intros s L' Hs Hnz.
  destruct (E s L' Hs Hnz) as (s' & R & P & T). rewrite same_label_value in T. exists s'. auto.
Qed.
(* the recipe that does land: the second half names a label that stands 4 bytes behind the target *)
Theorem auipc_jalr_next_label consts labels pos l1 l2 t t' rd L1 L2 bs :
  emit_lines consts labels pos [(l1, mkU "auipc" t (EHi (EOff L1))); (l2, mkI "jalr" rd t' (ELo (EOff L2)) false)] = Done bs ->
  exists nt nt' nrd q1 q2, regnum t = Some nt /\ regnum t' = Some nt' /\ regnum rd = Some nrd /\
    chain_get consts labels L1 = Some q1 /\ chain_get consts labels L2 = Some q2 /\
    forall s, loaded s bs -> nt' = nt -> nt <> 0 -> q2 = q1 + 4 ->
      let target := wrap (pc s + (q1 - pos)) in
      exists s', run_n 2 s = Some s' /\ pc s' = target - target mod 2 /\
        two_regs s s' nt (wrap (pc s + relocate_hi (q1 - pos) * 4096)) nrd (wrap (pc s + 8)).
Proof.
  intros H. destruct (auipc_jalr_labels _ _ _ _ _ _ _ _ _ _ _ H) as (nt & nt' & nrd & q1 & q2 & Ht & Ht' & Hrd & Hq1 & Hq2 & E).
  exists nt, nt', nrd, q1, q2. repeat (split; [assumption|]). intros s L' Hs Hnz ->. cbv zeta.
  destruct (E s L' Hs Hnz) as (s' & R & P & T). rewrite next_label_value in P. exists s'. auto.
Qed.
