From Coq Require Import ZArith List Bool Lia String.
From BB Require Import Base.Bits Base.PyBase Gen.Encoders Spec.RV32 Spec.RVC Spec.Operands Spec.Legal Model.Encode
  Proofs.C01All Proofs.C06Tac Proofs.C06r1 Proofs.C06r2 Proofs.C06i Proofs.C06s Proofs.C06x Proofs.C06a Proofs.C06c.
Import ListNotations.
Open Scope Z_scope.

Lemma all_acc : Forall acc_ok base_list.
Proof.
  unfold base_list.
  constructor; [exact acc_lui|].
  constructor; [exact acc_auipc|].
  constructor; [exact acc_jal|].
  constructor; [exact acc_jalr|].
  constructor; [exact acc_beq|].
  constructor; [exact acc_bne|].
  constructor; [exact acc_blt|].
  constructor; [exact acc_bge|].
  constructor; [exact acc_bltu|].
  constructor; [exact acc_bgeu|].
  constructor; [exact acc_lb|].
  constructor; [exact acc_lh|].
  constructor; [exact acc_lw|].
  constructor; [exact acc_lbu|].
  constructor; [exact acc_lhu|].
  constructor; [exact acc_sb|].
  constructor; [exact acc_sh|].
  constructor; [exact acc_sw|].
  constructor; [exact acc_addi|].
  constructor; [exact acc_slti|].
  constructor; [exact acc_sltiu|].
  constructor; [exact acc_xori|].
  constructor; [exact acc_ori|].
  constructor; [exact acc_andi|].
  constructor; [exact acc_slli|].
  constructor; [exact acc_srli|].
  constructor; [exact acc_srai|].
  constructor; [exact acc_add|].
  constructor; [exact acc_sub|].
  constructor; [exact acc_sll|].
  constructor; [exact acc_slt|].
  constructor; [exact acc_sltu|].
  constructor; [exact acc_xor|].
  constructor; [exact acc_srl|].
  constructor; [exact acc_sra|].
  constructor; [exact acc_or|].
  constructor; [exact acc_and|].
  constructor; [exact acc_fence|].
  constructor; [exact acc_ecall|].
  constructor; [exact acc_ebreak|].
  constructor; [exact acc_fence_i|].
  constructor; [exact acc_csrrw|].
  constructor; [exact acc_csrrs|].
  constructor; [exact acc_csrrc|].
  constructor; [exact acc_csrrwi|].
  constructor; [exact acc_csrrsi|].
  constructor; [exact acc_csrrci|].
  constructor; [exact acc_mul|].
  constructor; [exact acc_mulh|].
  constructor; [exact acc_mulhsu|].
  constructor; [exact acc_mulhu|].
  constructor; [exact acc_div|].
  constructor; [exact acc_divu|].
  constructor; [exact acc_rem|].
  constructor; [exact acc_remu|].
  constructor; [exact acc_lr_w|].
  constructor; [exact acc_sc_w|].
  constructor; [exact acc_amoswap_w|].
  constructor; [exact acc_amoadd_w|].
  constructor; [exact acc_amoxor_w|].
  constructor; [exact acc_amoand_w|].
  constructor; [exact acc_amoor_w|].
  constructor; [exact acc_amomin_w|].
  constructor; [exact acc_amomax_w|].
  constructor; [exact acc_amominu_w|].
  constructor; [exact acc_amomaxu_w|].
  constructor.
Qed.

Lemma exact32 name pos kw :
  In name base_mnemonics ->
  ((exists w, encode name pos kw = Ok w) <->
   (exists ops, operands32 name pos kw = Some ops /\ legal32 name ops = true)).
Proof. rewrite base_list_eq. intros Hin. exact (proj1 (Forall_forall _ _) all_acc name Hin pos kw). Qed.
