From Coq Require Import ZArith List Bool Lia ZifyBool String.
From BB Require Import Base.Bits Base.PyBase Gen.Encoders Spec.RV32 Spec.Operands Model.Encode
  Proofs.EncTac Proofs.Enc32 Proofs.Dec32 Proofs.Regs Proofs.C01Tac
  Proofs.C01r1 Proofs.C01r2 Proofs.C01i Proofs.C01s Proofs.C01x Proofs.C01a.
Import ListNotations.
Open Scope Z_scope.

(* every one of the 66 base mnemonics of the Spec table, in the order of the table *)
Definition base_list : list string := ["lui"; "auipc"; "jal"; "jalr"; "beq"; "bne"; "blt"; "bge"; "bltu"; "bgeu"; "lb"; "lh"; "lw"; "lbu"; "lhu"; "sb"; "sh"; "sw"; "addi"; "slti"; "sltiu"; "xori"; "ori"; "andi"; "slli"; "srli"; "srai"; "add"; "sub"; "sll"; "slt"; "sltu"; "xor"; "srl"; "sra"; "or"; "and"; "fence"; "ecall"; "ebreak"; "fence.i"; "csrrw"; "csrrs"; "csrrc"; "csrrwi"; "csrrsi"; "csrrci"; "mul"; "mulh"; "mulhsu"; "mulhu"; "div"; "divu"; "rem"; "remu"; "lr.w"; "sc.w"; "amoswap.w"; "amoadd.w"; "amoxor.w"; "amoand.w"; "amoor.w"; "amomin.w"; "amomax.w"; "amominu.w"; "amomaxu.w"]%string.
Lemma base_list_eq : base_mnemonics = base_list.
Proof. vm_compute. reflexivity. Qed.

Lemma all_rows : Forall row_ok base_list.
Proof.
  unfold base_list.
  constructor; [exact row_lui|].
  constructor; [exact row_auipc|].
  constructor; [exact row_jal|].
  constructor; [exact row_jalr|].
  constructor; [exact row_beq|].
  constructor; [exact row_bne|].
  constructor; [exact row_blt|].
  constructor; [exact row_bge|].
  constructor; [exact row_bltu|].
  constructor; [exact row_bgeu|].
  constructor; [exact row_lb|].
  constructor; [exact row_lh|].
  constructor; [exact row_lw|].
  constructor; [exact row_lbu|].
  constructor; [exact row_lhu|].
  constructor; [exact row_sb|].
  constructor; [exact row_sh|].
  constructor; [exact row_sw|].
  constructor; [exact row_addi|].
  constructor; [exact row_slti|].
  constructor; [exact row_sltiu|].
  constructor; [exact row_xori|].
  constructor; [exact row_ori|].
  constructor; [exact row_andi|].
  constructor; [exact row_slli|].
  constructor; [exact row_srli|].
  constructor; [exact row_srai|].
  constructor; [exact row_add|].
  constructor; [exact row_sub|].
  constructor; [exact row_sll|].
  constructor; [exact row_slt|].
  constructor; [exact row_sltu|].
  constructor; [exact row_xor|].
  constructor; [exact row_srl|].
  constructor; [exact row_sra|].
  constructor; [exact row_or|].
  constructor; [exact row_and|].
  constructor; [exact row_fence|].
  constructor; [exact row_ecall|].
  constructor; [exact row_ebreak|].
  constructor; [exact row_fence_i|].
  constructor; [exact row_csrrw|].
  constructor; [exact row_csrrs|].
  constructor; [exact row_csrrc|].
  constructor; [exact row_csrrwi|].
  constructor; [exact row_csrrsi|].
  constructor; [exact row_csrrci|].
  constructor; [exact row_mul|].
  constructor; [exact row_mulh|].
  constructor; [exact row_mulhsu|].
  constructor; [exact row_mulhu|].
  constructor; [exact row_div|].
  constructor; [exact row_divu|].
  constructor; [exact row_rem|].
  constructor; [exact row_remu|].
  constructor; [exact row_lr_w|].
  constructor; [exact row_sc_w|].
  constructor; [exact row_amoswap_w|].
  constructor; [exact row_amoadd_w|].
  constructor; [exact row_amoxor_w|].
  constructor; [exact row_amoand_w|].
  constructor; [exact row_amoor_w|].
  constructor; [exact row_amomin_w|].
  constructor; [exact row_amomax_w|].
  constructor; [exact row_amominu_w|].
  constructor; [exact row_amomaxu_w|].
  constructor.
Qed.

Theorem all_rows_ok : forall name, In name base_mnemonics -> row_ok name.
Proof. rewrite base_list_eq. apply Forall_forall. exact all_rows. Qed.
