(* Soundness and completeness of the GENERATED compression rule table, from the sweeps. *)
From Coq Require Import ZArith List Bool Lia String.
From BB Require Import Base.Bits Base.PyBase Gen.Encoders Gen.Criteria Spec.RV32 Spec.RVC Spec.Operands Spec.Legal
  Model.Items Model.Encode Model.Passes Proofs.Regs Proofs.Rules Proofs.C01Main Proofs.C02Main Proofs.C06c
  Proofs.RulesSweep0 Proofs.RulesSweep1 Proofs.RulesSweep2 Proofs.RulesSweep3 Proofs.RulesSweep4 Proofs.RulesSweep5
  Proofs.RulesSweepH.
Import ListNotations.
Open Scope Z_scope.

Lemma criteria_len : (List.length criteria <= 30)%nat. Proof. vm_compute. repeat constructor. Qed.
Lemma criteria_split :
  criteria = app (firstn 5 (skipn 0 criteria)) (app (firstn 5 (skipn 5 criteria)) (app (firstn 5 (skipn 10 criteria))
            (app (firstn 5 (skipn 15 criteria)) (app (firstn 5 (skipn 20 criteria)) (firstn 5 (skipn 25 criteria)))))).
Proof. vm_compute. reflexivity. Qed.
Lemma all_swept : forallb sweep_rule criteria = true.
Proof.
  rewrite criteria_split. rewrite !forallb_app.
  rewrite swept0, swept1, swept2, swept3, swept4, swept5. reflexivity.
Qed.

Theorem rule_sound_num v r :
  select_num criteria v = Some r -> wf_view v -> regs_ok v -> rule_check v r = true.
Proof.
  intros Hs Hw Hr. destruct (select_num_in _ _ _ Hs) as (ps & Hin & Ha).
  pose proof all_swept as Hall. rewrite forallb_forall in Hall. specialize (Hall _ Hin).
  exact (sweep_rule_sound (r, ps) v Hall Ha Hw Hr).
Qed.

Lemma reg_of_range i f : 0 <= reg_of i f <= 31.
Proof.
  unfold reg_of. destruct (iv_attr i f) as [a|e]; try lia.
  destruct (lookup_register a false) as [n|e] eqn:E; try lia.
  apply lookup_register_spec in E. eapply regnum_range; eauto.
Qed.
Lemma nview_regs_ok i : regs_ok (nview_of i).
Proof. unfold regs_ok, nview_of; simpl. repeat split; apply reg_of_range. Qed.

(* item level: whatever rule the GENERATED selection picks for an item (whose view has no fields beyond those of
   its mnemonic), the compressed operands are legal and mean the same *)
Theorem rule_sound_item i r :
  select_rule criteria i = Ok (Some r) -> wf_view (nview_of i) -> rule_check (nview_of i) r = true.
Proof. intros Hs Hw. apply rule_sound_num; auto. apply select_link; auto. apply nview_regs_ok. Qed.

(* completeness *)
Theorem rules_complete h : 0 <= h < 65536 -> complete_h h = true.
Proof.
  intro Hh. pose proof swept_halfwords as Hs. rewrite forallb_forall in Hs. apply Hs. apply all16_in. exact Hh.
Qed.

(* ---- what rule_check = true says, spelled out, and pushed through the GENERATED encoders (C02 / C06 / C01) --------- *)
Definition pos32_of (v : nview) (fs : list string) : list arg := map (fun f => AInt (fval_num v f)) fs.
Definition pos16_of (v : nview) (cfs : list cfield) : list arg := map AInt (somes (map (cfield_num v) cfs)).

Lemma rule_check_spec v r :
  rule_check v r = true ->
  exists fs final cls cfs o32 o16 ins c,
    orig_fields (nv_name v) = Some fs /\ assoc_str r construction = Some (final, cls, cfs) /\
    operands32 (nv_name v) (pos32_of v fs) [] = Some o32 /\ operands16 final (pos16_of v cfs) = Some o16 /\
    legal16 final o16 = true /\ denote32 (nv_name v) o32 = Some ins /\ denote16 final o16 = Some c /\
    equiv_b (expand_c c) ins = true.
Proof.
  unfold rule_check. destruct (orig_fields (nv_name v)) as [fs|]; try discriminate.
  destruct (assoc_str r construction) as [[[final cls] cfs]|]; try discriminate.
  fold (pos32_of v fs). fold (pos16_of v cfs).
  destruct (operands32 _ _ _) as [o32|] eqn:E32; try discriminate.
  destruct (operands16 _ _) as [o16|] eqn:E16; try discriminate.
  intro H. apply andb_prop in H. destruct H as [Hl H].
  destruct (denote32 _ o32) as [ins|] eqn:D32; try discriminate.
  destruct (denote16 _ o16) as [c|] eqn:D16; try discriminate.
  exists fs, final, cls, cfs, o32, o16, ins, c. repeat split; auto.
Qed.

Lemma finals_are_c : forallb (fun e => mem_str (fst (fst (snd e))) c_mnemonics) construction = true.
Proof. vm_compute. reflexivity. Qed.
Lemma mem_str_in s l : mem_str s l = true -> In s l.
Proof.
  unfold mem_str. rewrite existsb_exists. intros (x & Hx & E). apply String.eqb_eq in E. subst. exact Hx.
Qed.
Lemma assoc_str_in {V} k (l : list (string * V)) v : assoc_str k l = Some v -> In (k, v) l.
Proof.
  induction l as [|[k' v'] l IH]; simpl; intro H. discriminate.
  destruct (String.eqb k k') eqn:E. apply String.eqb_eq in E. inversion H; subst. left; auto. right; auto.
Qed.

(* the compressed operands are ACCEPTED by the generated c.* encoder, the halfword is a legal RV32C encoding, and its
   expansion means the same as whatever word the generated 32-bit encoder returns for the original operands *)
Theorem rule_encodes v r :
  rule_check v r = true ->
  exists fs final cls cfs h c,
    orig_fields (nv_name v) = Some fs /\ assoc_str r construction = Some (final, cls, cfs) /\
    encode final (pos16_of v cfs) [] = Ok h /\ 0 <= h < 2^16 /\ decode16 h = Some c /\
    forall w, In (nv_name v) base_mnemonics -> encode (nv_name v) (pos32_of v fs) [] = Ok w ->
      exists ins, decode32 w = Some ins /\ equiv_b (expand_c c) ins = true.
Proof.
  intro H. destruct (rule_check_spec _ _ H) as (fs & final & cls & cfs & o32 & o16 & ins & c & A & B & C & D & E & F & G & I).
  assert (Hc : In final c_mnemonics).
  { pose proof finals_are_c as Hf. rewrite forallb_forall in Hf. specialize (Hf _ (assoc_str_in _ _ _ B)). simpl in Hf.
    apply mem_str_in; auto. }
  destruct (proj2 (C06c.exact16 final (pos16_of v cfs) [] Hc)) as [h Hh]. { exists o16; auto. }
  destruct (C02Main.forward _ _ _ _ Hc Hh) as (Hr & ops & c' & O & _ & Dn & Dc).
  rewrite D in O. inversion O; subst ops. rewrite G in Dn. inversion Dn; subst c'.
  exists fs, final, cls, cfs, h, c. repeat split; auto; try lia.
  intros w Hb Hw. destruct (C01Main.decode_encode _ _ _ _ Hb Hw) as (_ & ops & i & O32 & D32 & Dec).
  rewrite C in O32. inversion O32; subst ops. rewrite F in D32. inversion D32; subst i. exists ins. auto.
Qed.

(* spellings: a register operand is read through its number only, so the numeric views above speak for every spelling *)
Lemma read_reg_spelling a n : regnum a = Some n -> read_op KReg a = read_op KReg (AInt n) /\ read_cop CReg a = read_cop CReg (AInt n).
Proof.
  intro H. pose proof (regnum_range _ _ H) as Hr. simpl. rewrite H. unfold in_regs.
  assert (E : (0 <=? n) && (n <=? 31) = true) by (apply andb_true_intro; split; apply Z.leb_le; lia).
  rewrite E. split; reflexivity.
Qed.

Theorem rules_complete_spec h c :
  0 <= h < 65536 -> decode16 h = Some c ->
  exists v r, view_of_ops (fst (name_ops (expand_c c))) (snd (name_ops (expand_c c))) = Some v /\
              select_num criteria v = Some r /\ rule_check v r = true.
Proof.
  intros Hh Hd. pose proof (rules_complete h Hh) as H. unfold complete_h in H. rewrite Hd in H.
  destruct (name_ops (expand_c c)) as [n ops] eqn:En. simpl.
  destruct (view_of_ops n ops) as [v|]; try discriminate.
  apply andb_prop in H. destruct H as [H _]. unfold selected_ok in H.
  destruct (select_num criteria v) as [r|] eqn:Es; try discriminate. exists v, r. auto.
Qed.

(* the documented second spelling of lui's negative immediates is covered too *)
Theorem rules_complete_lui_alt h rd imm :
  0 <= h < 65536 -> decode16 h = Some (CLui rd imm) -> imm < 0 ->
  exists v r, view_of_ops "lui" [rd; imm + 1048576] = Some v /\ select_num criteria v = Some r /\ rule_check v r = true.
Proof.
  intros Hh Hd Hi. pose proof (rules_complete h Hh) as H. unfold complete_h in H. rewrite Hd in H.
  cbn [expand_c name_ops] in H.
  destruct (view_of_ops "lui" [rd; imm]) as [v0|]; try discriminate.
  apply andb_prop in H. destruct H as [_ H].
  assert (E : (imm <? 0) = true) by (apply Z.ltb_lt; exact Hi). rewrite E in H.
  destruct (view_of_ops "lui" [rd; imm + 1048576]) as [v|]; try discriminate. unfold selected_ok in H.
  destruct (select_num criteria v) as [r|] eqn:Es; try discriminate. exists v, r. auto.
Qed.

(* examples *)
Definition ex_view : nview := {| nv_name := "addi"; nv_rd := 8; nv_rs1 := 8; nv_rs2 := 0; nv_imm := 4 |}.
Lemma ex_view_selected : select_num criteria ex_view = Some "c.addi"%string /\ wf_view ex_view /\ regs_ok ex_view.
Proof. split. vm_compute. reflexivity. split. unfold wf_view; simpl. repeat split; intro H; try discriminate; reflexivity.
  unfold regs_ok; simpl; lia. Qed.
