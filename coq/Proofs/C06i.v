From Coq Require Import ZArith List Bool Lia ZifyBool String.
From BB Require Import Base.Bits Base.PyBase Gen.Encoders Spec.RV32 Spec.Operands Spec.Legal Model.Encode
  Proofs.EncTac Proofs.Enc32 Proofs.Regs Proofs.C01Tac Proofs.C06Tac.
Import ListNotations.
Open Scope Z_scope.
Lemma acc_lb : acc_ok "lb". Proof. acc "lb"%string nf_i. Qed.
Lemma acc_lh : acc_ok "lh". Proof. acc "lh"%string nf_i. Qed.
Lemma acc_lw : acc_ok "lw". Proof. acc "lw"%string nf_i. Qed.
Lemma acc_lbu : acc_ok "lbu". Proof. acc "lbu"%string nf_i. Qed.
Lemma acc_lhu : acc_ok "lhu". Proof. acc "lhu"%string nf_i. Qed.
Lemma acc_addi : acc_ok "addi". Proof. acc "addi"%string nf_i. Qed.
Lemma acc_slti : acc_ok "slti". Proof. acc "slti"%string nf_i. Qed.
Lemma acc_sltiu : acc_ok "sltiu". Proof. acc "sltiu"%string nf_i. Qed.
Lemma acc_xori : acc_ok "xori". Proof. acc "xori"%string nf_i. Qed.
Lemma acc_ori : acc_ok "ori". Proof. acc "ori"%string nf_i. Qed.
Lemma acc_andi : acc_ok "andi". Proof. acc "andi"%string nf_i. Qed.
Lemma acc_jalr : acc_ok "jalr". Proof. acc "jalr"%string nf_ij. Qed.
