(* in-kernel sweep of all 65 536 halfwords: the expansion of every legal one is selected by a rule that re-encodes it *)
From Coq Require Import ZArith List Bool String.
From BB Require Import Base.Bits Base.PyBase Gen.Criteria Spec.RVC Proofs.Rules.
Import ListNotations.
Lemma swept_halfwords : forallb complete_h all16 = true.
Proof. vm_compute. reflexivity. Qed.
