From Coq Require Import ZArith List Bool Lia ZifyBool String.
From BB Require Import Base.Bits Base.PyBase Gen.Encoders Spec.RV32 Spec.Operands Spec.Legal Model.Encode
  Proofs.EncTac Proofs.Enc32 Proofs.Regs Proofs.C01Tac Proofs.C06Tac.
Import ListNotations.
Open Scope Z_scope.
Lemma acc_sb : acc_ok "sb". Proof. acc "sb"%string nf_s. Qed.
Lemma acc_sh : acc_ok "sh". Proof. acc "sh"%string nf_s. Qed.
Lemma acc_sw : acc_ok "sw". Proof. acc "sw"%string nf_s. Qed.
Lemma acc_beq : acc_ok "beq". Proof. acc "beq"%string nf_b. Qed.
Lemma acc_bne : acc_ok "bne". Proof. acc "bne"%string nf_b. Qed.
Lemma acc_blt : acc_ok "blt". Proof. acc "blt"%string nf_b. Qed.
Lemma acc_bge : acc_ok "bge". Proof. acc "bge"%string nf_b. Qed.
Lemma acc_bltu : acc_ok "bltu". Proof. acc "bltu"%string nf_b. Qed.
Lemma acc_bgeu : acc_ok "bgeu". Proof. acc "bgeu"%string nf_b. Qed.
Lemma acc_lui : acc_ok "lui". Proof. acc "lui"%string nf_u. Qed.
Lemma acc_auipc : acc_ok "auipc". Proof. acc "auipc"%string nf_u. Qed.
Lemma acc_jal : acc_ok "jal". Proof. acc "jal"%string nf_j. Qed.
