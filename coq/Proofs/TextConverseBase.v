(* Helpers of Proofs/TextConverse.v (numbers, registers, the fields decode16 returns).
   C02, second sentence, from the TEXT: every legal, non-hint, non-reserved RV32C integer encoding (each of the 65 536 halfwords
   Spec/RVC.v decode16 accepts) is produced by ASSEMBLING ITS CANONICAL TEXT (Spec/Print16.v ctext / cline):
   tokens -> parser model -> all 16 passes (compression off AND on) -> exactly the two little-endian bytes of the halfword; and from
   the characters of the line (lexer model, any separator style) to the same bytes.
   Case split per constructor of cinstr (no sweep over the 65 536 texts): registers and immediates stay symbolic.  The only
   computations: decode16_wf (the fields decode16 returns are registers 0..31 and immediates within -2048..2047, over all halfwords),
   C02Main.converse (encoder level), the 32 register tokens xN and the 4096 decimal tokens (made of ordinary token characters),
   and for the 0xfffe0.. spelling of c.lui its 32 x 32 operand pairs.
   Also: the documented alternative spellings (c.lw rd, imm(rs1) / c.sw rs2, imm(rs1); c.lui rd, 0xfffe0..0xfffff) and
   injectivity of the canonical text on legal halfwords. *)
From Coq Require Import ZArith List Bool Lia String Ascii.
From BB Require Import Base.Bits Base.PyBase Gen.Encoders Gen.Criteria Spec.RV32 Spec.RVC Spec.Print16 Spec.Operands Spec.Legal
  Model.Items Model.Encode Model.Passes Model.Lexer Model.PyExpr Model.Parser
  Proofs.Regs Proofs.LexFront Proofs.IntSpell Proofs.NumTok Proofs.LexSep Proofs.Program
  Proofs.C02Tac Proofs.C02Main Proofs.LegalCompress Proofs.LegalItem Proofs.LegalLine Proofs.EndToEnd Proofs.EndToEndMore.
Import ListNotations.
Open Scope Z_scope.
Local Open Scope list_scope.
Local Open Scope string_scope.

(* ---- numbers: the decimal token of a NEGATIVE value is one expression token `-` `digits`, read as AUn UNeg (ANum v) ------------ *)
Lemma pytok_minus d r2 : pytok [] ("-"%char :: d :: r2) = option_map (cons (TSym SMinus)) (pytok [] (d :: r2)).
Proof. reflexivity. Qed.
Theorem neg_number_token c r v :
  is_digit c = true -> forallb is_word (c :: r) = true -> int_body (c :: r) = Some v ->
  arith_of_string (unchars ("-"%char :: c :: r)) = Some (AUn UNeg (ANum v)).
Proof.
  intros Hd Hw Hb. unfold arith_of_string. rewrite chars_unchars. unfold arith_of_text.
  change (is_c "-"%char c_quote) with false. cbn [andb]. unfold parse_py, pytokens.
  rewrite pytok_minus.
  rewrite (pytok_word (c :: r) [] Hw), app_nil_r.
  unfold flush. destruct (rev (c :: r)) as [|x xs] eqn:Er.
  { apply (f_equal (@List.length ascii)) in Er. rewrite rev_length in Er. discriminate. }
  rewrite <- Er, rev_involutive. unfold word_tok. rewrite Hd, Hb. cbn [option_map].
  reflexivity.
Qed.
Theorem neg_number_immediate c r v l :
  is_digit c = true -> forallb is_word (c :: r) = true -> int_body (c :: r) = Some v ->
  parse_immediate [unchars ("-"%char :: c :: r)] l = FOk (EArith (AUn UNeg (ANum v))).
Proof.
  intros Hd Hw Hb. unfold parse_immediate. cbn [List.length parse_immediate_f].
  assert (Hl : forall s, String.eqb (lower (unchars ("-"%char :: c :: r))) (String "%"%char s) = false) by (intro s; reflexivity).
  cbv zeta. rewrite !Hl. cbn [orb andb]. unfold arith. cbn [join_sp]. rewrite (neg_number_token c r v Hd Hw Hb). reflexivity.
Qed.
Theorem dec_neg_immediate v l : (1 <= v < 10 ^ 80)%Z -> parse_immediate [dec_of_Z (- v)] l = FOk (EArith (AUn UNeg (ANum v))).
Proof.
  intro Hv. unfold dec_of_Z. replace (- v <? 0)%Z with true by (symmetry; apply Z.ltb_lt; lia).
  rewrite Z.opp_involutive. rewrite dec_pos_eq by lia.
  assert (Hv' : (1 <= v < 10 ^ Z.of_nat 80)%Z) by (change (Z.of_nat 80) with 80%Z; lia).
  destruct (digits_base_head 10 ten_ok 80 v []) as (d & r & E & Hd); [discriminate | exact Hv' |].
  pose proof (digits_base_word 10 80 ten_ok v [] ltac:(lia) eq_refl) as Hw.
  pose proof (dec_body_pos v ltac:(lia)) as Hb. rewrite E in *.
  change (String "-"%char (unchars (hexdig d :: r))) with (unchars ("-"%char :: hexdig d :: r)).
  apply neg_number_immediate; auto. apply hexdig_digit. lia.
Qed.

(* the literal a decimal token denotes *)
Definition lit_of (v : Z) : aexp := if (v <? 0)%Z then AUn UNeg (ANum (- v)) else ANum v.
Lemma lit_closed v : closed (lit_of v) v.
Proof.
  unfold closed, lit_of. destruct (v <? 0)%Z eqn:E; cbn; [|reflexivity]. f_equal. lia.
Qed.
Theorem cnum_immediate v l : (- 10 ^ 80 < v < 10 ^ 80)%Z -> parse_immediate [cnum v] l = FOk (EArith (lit_of v)).
Proof.
  intro Hv. unfold cnum, lit_of. destruct (v <? 0)%Z eqn:E.
  - apply Z.ltb_lt in E. replace v with (- (- v))%Z at 1 by lia. apply dec_neg_immediate. lia.
  - apply Z.ltb_ge in E. apply dec_immediate. lia.
Qed.
Lemma cnum_is_int v : (- 10 ^ 80 < v < 10 ^ 80)%Z -> is_int (cnum v) = true.
Proof.
  intro Hv. unfold is_int, cnum. destruct (Z.ltb_spec v 0).
  - replace v with (- (- v))%Z by lia. rewrite dec_neg_spelling by lia. reflexivity.
  - rewrite dec_spelling by lia. reflexivity.
Qed.
Lemma cnum_not_paren v : (- 10 ^ 80 < v < 10 ^ 80)%Z -> String.eqb (cnum v) "(" = false.
Proof.
  intro Hv. exact (closed_not_paren {| lfile := ""; lnum := 0 |} _ _ _ (cnum_immediate v _ Hv) (lit_closed v)).
Qed.
Print Assumptions cnum_immediate.

(* the immediates of RV32C are small *)
Definition small (v : Z) : bool := (-2048 <=? v)%Z && (v <=? 2047)%Z.
Lemma small_range v : small v = true -> (- 10 ^ 80 < v < 10 ^ 80)%Z.
Proof.
  unfold small. intro H. apply andb_prop in H. destruct H as [A B]. apply Z.leb_le in A, B.
  assert (2048 < 10 ^ 80)%Z by (vm_compute; reflexivity). lia.
Qed.

(* ---- registers: xN is register N ------------------------------------------------------------------------------------------------ *)
Lemma xreg_regnum r : in_regs r = true -> regnum (AStr (xreg r)) = Some r.
Proof.
  intro H. assert (Hin : In r (zrange 0 32)) by (apply zrange_in; unfold in_regs in H; simpl; lia).
  assert (T : forallb (fun r => optz_eqb (regnum (AStr (xreg r))) (Some r)) (zrange 0 32) = true) by (vm_compute; reflexivity).
  apply optz_eqb_eq. exact (proj1 (forallb_forall _ _) T r Hin).
Qed.
Lemma xreg_not_eq r : String.eqb (xreg r) "=" = false.
Proof. reflexivity. Qed.

(* ---- the fields decode16 returns: registers 0..31, immediates within -2048..2047 (in-kernel sweep over the 65 536 halfwords) ------ *)
Definition cregs (c : cinstr) : list Z :=
  match c with
  | CAddi4spn rd _ | CAddi rd _ | CLi rd _ | CLui rd _ | CSrli rd _ | CSrai rd _ | CAndi rd _ | CSlli rd _ | CLwsp rd _ => [rd]
  | CLw a b _ | CSw a b _ | CSub a b | CXor a b | COr a b | CAnd a b | CMv a b | CAdd a b => [a; b]
  | CBeqz a _ | CBnez a _ | CJr a | CJalr a | CSwsp a _ => [a]
  | CNop | CEbreak | CJal _ | CJ _ | CAddi16sp _ => []
  end.
Definition cimms (c : cinstr) : list Z :=
  match c with
  | CAddi4spn _ i | CAddi _ i | CLi _ i | CLui _ i | CSrli _ i | CSrai _ i | CAndi _ i | CSlli _ i | CLwsp _ i
  | CLw _ _ i | CSw _ _ i | CBeqz _ i | CBnez _ i | CSwsp _ i | CJal i | CJ i | CAddi16sp i => [i]
  | _ => []
  end.
Definition cwf (c : cinstr) : bool := forallb in_regs (cregs c) && forallb small (cimms c).
Lemma decode16_wf_sweep : forallb (fun h => match decode16 h with Some c => cwf c | None => true end) all16 = true.
Proof. vm_compute. reflexivity. Qed.
Lemma decode16_wf h c : 0 <= h < 65536 -> decode16 h = Some c -> cwf c = true.
Proof.
  intros Hh Hd. pose proof (proj1 (forallb_forall _ _) decode16_wf_sweep h (all16_in h Hh)) as H. cbv beta in H.
  rewrite Hd in H. exact H.
Qed.

(* ---- the canonical token line parses to an item whose operand list reads as the canonical operands ------------------------------- *)
Lemma name16_in c : In (fst (name_ops16 c)) c_mnemonics.
Proof. destruct c; apply AcceptMono.mem_in; vm_compute; reflexivity. Qed.
Lemma c_not_heads : forallb (fun n => negb (mem_str n compress_heads)) c_mnemonics = true.
Proof. vm_compute. reflexivity. Qed.
Lemma c_unheaded n : In n c_mnemonics -> mem_str n compress_heads = false.
Proof. intro H. pose proof (proj1 (forallb_forall _ _) c_not_heads n H) as E. cbv beta in E. destruct (mem_str n compress_heads); [discriminate|reflexivity]. Qed.

