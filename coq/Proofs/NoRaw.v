(* C15, second half: NO raw (internal) exception leaves the pipeline model on well-formed items.
   `okb st it`: what the parser hands over (stage 0) and what each group of passes leaves behind (stages 1..9).
   `good Q r`: r is Done a with Q a, or the assembler's own error, or outside the model -- never Fail (PRaw _). *)
From Coq Require Import ZArith List Bool String Arith Lia.
From BB Require Import Base.PyBase Gen.Encoders Gen.Criteria Gen.Pseudo Model.Items Model.Encode Model.Passes
  Proofs.Layout Proofs.Pipeline Proofs.Errors Proofs.EncSig Proofs.PseudoTable.
Import ListNotations.
Open Scope Z_scope.

(* ---- the outcome monad, "never raw" ------------------------------------------------------------------------------- *)
Definition good {A} (Q : A -> Prop) (r : outcome A) : Prop :=
  match r with Done a => Q a | Fail (PRaw _) => False | Fail (PAsm _) => True | Unsupported => True end.
Lemma good_bind {A B} (Q : A -> Prop) (R : B -> Prop) (r : outcome A) (k : A -> outcome B) :
  good Q r -> (forall a, Q a -> good R (k a)) -> good R (obind r k).
Proof. destruct r as [a|[l|x]|]; simpl; auto; contradiction. Qed.
Lemma good_weaken {A} (Q R : A -> Prop) r : good Q r -> (forall a, Q a -> R a) -> good R r.
Proof. destruct r as [a|[l|x]|]; simpl; auto. Qed.
Lemma good_done {A} (Q : A -> Prop) a : Q a -> good Q (Done a).
Proof. auto. Qed.
Lemma good_no_raw {A} (Q : A -> Prop) r x : good Q r -> r <> Fail (PRaw x).
Proof. intros G E. rewrite E in G. exact G. Qed.

(* ---- well-formed fields / instructions ---------------------------------------------------------------------------- *)
Definition is_ghost_key (k : string) : bool := String.eqb (substring 0 1 k) "#".
Definition is_flag_key (k : string) : bool := String.eqb k "is_auipc_jump".
Definition val_okb (post : bool) (v : fval) : bool :=
  match v with FExpr e => negb post && expr_ok e | FInt _ => post | _ => false end.
Definition is_reg (v : fval) : bool := match v with FReg _ => true | _ => false end.
(* the fields of an instruction, against the operand keys of its class (in args() order); flag and ghost fields may stand anywhere *)
Fixpoint shape_okb (post : bool) (keys : list string) (fs : list (string * fval)) : bool :=
  match fs with
  | [] => match keys with [] => true | _ => false end
  | (k, v) :: r =>
      if is_flag_key k then (match v with FBool _ => true | _ => false end) && shape_okb post keys r
      else if is_ghost_key k then shape_okb post keys r
      else match keys with
           | k' :: ks => String.eqb k k' && (if String.eqb k "imm" then val_okb post v else is_reg v) && shape_okb post ks r
           | [] => false
           end
  end.
Definition kind_of_key (k : string) : okind := if String.eqb k "imm" then KI else KR.
Definition imm_once (keys : list string) : bool := Nat.leb (count_occ string_dec keys "imm"%string) 1.
(* the operand keys of a class, in args() order: the generated class_fields without "name" and the flag *)
Definition class_keys (cls : string) : option (list string) :=
  match assoc_str cls class_fields with
  | Some ("name" :: r)%string => Some (filter (fun k => negb (is_flag_key k)) r)
  | _ => None
  end.
Definition instr_okb (post : bool) (cls name : string) (fs : list (string * fval)) : bool :=
  match assoc_str cls class_sig, class_keys cls with
  | Some (names, kinds), Some keys =>
      mem_str name names && imm_once keys && shape_okb post keys fs
  | _, _ => false
  end.
Definition okind_eqb (a b : okind) : bool := match a, b with KR, KR | KI, KI => true | _, _ => false end.
Fixpoint kinds_match (keys : list string) (kinds : list okind) : bool :=
  match keys, kinds with
  | [], [] => true
  | k :: ks, d :: ds => okind_eqb (kind_of_key k) d && kinds_match ks ds
  | _, _ => false
  end.
Lemma kinds_match_eq keys : forall kinds, kinds_match keys kinds = true -> kinds = map kind_of_key keys.
Proof.
  induction keys as [|k ks IH]; intros [|d ds] H; simpl in H; try discriminate; auto.
  apply andb_prop in H. destruct H as [A B]. simpl. f_equal; auto. destruct (kind_of_key k), d; auto; discriminate.
Qed.
(* the kinds of class_sig are the kinds of the keys of the generated class_fields *)
Lemma sig_keys_agree :
  forallb (fun c => match class_keys (fst c) with
                    | Some keys => kinds_match keys (snd (snd c))
                    | None => false end) class_sig = true.
Proof. vm_compute. reflexivity. Qed.
Lemma assoc_in {V} k (l : list (string * V)) v : assoc_str k l = Some v -> In (k, v) l.
Proof.
  induction l as [|[k' v'] r IH]; simpl; intro H; try discriminate.
  destruct (String.eqb k k') eqn:E. apply String.eqb_eq in E. inversion H; subst. auto. auto.
Qed.
Lemma sig_kinds cls names kinds keys :
  assoc_str cls class_sig = Some (names, kinds) -> class_keys cls = Some keys -> kinds = map kind_of_key keys.
Proof.
  intros A K. pose proof sig_keys_agree as F. rewrite forallb_forall in F.
  specialize (F _ (assoc_in _ _ _ A)). simpl in F. rewrite K in F. apply kinds_match_eq. exact F.
Qed.

(* ---- well-formed items, by stage ---------------------------------------------------------------------------------- *)
Definition uses_parsed (t : ttemplate) : bool :=
  match t with TChoice TParsed _ _ _ _ _ _ => true | _ => false end.
Definition pimm_fine (p : pres expr) : bool :=
  match p with POk e => expr_ok e | PErr (PAsm _) => true | PErr (PRaw _) => false end.
Definition pseudo_okb (name : string) (args : list string) (pimm : pres expr) : bool :=
  match assoc_str name pseudo_table with
  | Some t => arity_ok (fst t) args && (negb (uses_parsed (snd t)) || pimm_fine pimm)
  | None => true                                     (* 'no translation for pseudo-instruction': AssemblerError *)
  end.
Definition some_b {A} (o : option A) : bool := match o with Some _ => true | None => false end.
Definition okb (st : nat) (it : item) : bool :=
  match it with
  | ILabel _ => true
  | IConst _ e => Nat.eqb st 0 && expr_ok e
  | IInstr cls name fs _ => Nat.leb st 4 && instr_okb (Nat.eqb st 4) cls name fs
  | IPseudo name args pimm => Nat.leb st 1 && pseudo_okb name args pimm
  | IAlign n => Nat.leb st 2 && (1 <=? n)
  | IString _ => Nat.leb st 5
  | ISeq name _ => Nat.leb st 6 && some_b (seq_fmt name)
  | IShort name v => Nat.leb st 7 && some_b (short_fmt name) && val_okb (Nat.leb 4 st) v
  | IPack _ v => Nat.leb st 8 && val_okb (Nat.leb 4 st) v
  | IIncBytes _ sz actual => match actual with Some n => Z.eqb n sz | None => false end
  | IBlob _ | IZeros _ | IFill _ _ => true
  end.
Definition oks (st : nat) (its : list litem) : Prop := Forall (fun x => okb st (snd x) = true) its.
Definition oki (st : nat) (its : list item) : Prop := Forall (fun x => okb st x = true) its.

Lemma oks_app st a b : oks st a -> oks st b -> oks st (app a b).
Proof. unfold oks. intros. apply Forall_app. auto. Qed.
Lemma oks_map st l rs : oki st rs -> oks st (map (fun x => (l, x)) rs).
Proof. unfold oks, oki. induction 1; simpl; constructor; auto. Qed.

(* ---- size() never raises on a well-formed item -------------------------------------------------------------------- *)
Lemma seq_width_fmt n : some_b (seq_fmt n) = true -> exists w, seq_width n = Some w.
Proof.
  unfold seq_fmt, seq_width. cbn [assoc_str].
  repeat (destruct (String.eqb n _); [eexists; reflexivity|]). discriminate.
Qed.
Lemma short_width_fmt n : some_b (short_fmt n) = true -> exists w, short_width n = Some w.
Proof.
  unfold short_fmt, short_width. cbn [assoc_str].
  repeat (destruct (String.eqb n _); [eexists; reflexivity|]). discriminate.
Qed.
Lemma size_good st it : okb st it = true -> good (fun _ => True) (size_o it).
Proof.
  unfold size_o. destruct it; cbn [okb Passes.size]; intro H; try exact I.
  - apply andb_prop in H. destruct H as [_ H]. destruct (seq_width_fmt _ H) as [w ->]. exact I.
  - destruct (calcsize fmt); exact I.
  - apply andb_prop in H. destruct H as [H _]. apply andb_prop in H. destruct H as [_ H].
    destruct (short_width_fmt _ H) as [w ->]. exact I.
Qed.
Lemma sizes_good st rs : oki st rs -> good (fun _ => True) (sizes rs).
Proof.
  induction 1 as [|it r H _ IH]; simpl. exact I.
  eapply good_bind. eapply size_good; eauto. intros a _.
  eapply good_bind. exact IH. intros b _. exact I.
Qed.

(* ---- the generic pass --------------------------------------------------------------------------------------------- *)
Section GP.
Variable rule : rule_t.
Variables st st' : nat.
Hypothesis Hrule : forall l it p ls, okb st it = true -> is_label it = None -> good (oki st') (rule l it p ls).
Lemma gp_good its : forall pos ls, oks st its -> good (fun p => oks st' (fst p)) (gp rule its pos ls).
Proof.
  induction its as [|[l it] r IH]; intros pos ls H; simpl.
  - constructor.
  - inversion H as [|? ? H1 H2]; subst. simpl in H1.
    destruct (is_label it) as [n|] eqn:El.
    + eapply good_bind. apply IH; exact H2. intros [o ls1] Ho. simpl. constructor; auto.
    + eapply good_bind. eapply size_good; eauto. intros old _.
      eapply good_bind. apply Hrule; auto. intros rs Hrs.
      eapply good_bind. eapply sizes_good; eauto. intros new _.
      eapply good_bind. apply IH; exact H2. intros [o ls1] Ho. simpl.
      apply oks_app; [apply oks_map; exact Hrs|exact Ho].
Qed.
Lemma gpass_good its pos ls : oks st its -> good (fun p => oks st' (fst p)) (gpass rule its pos ls []).
Proof.
  intro H. rewrite gpass_gp. eapply good_bind. apply gp_good; exact H. intros [o ls1] Ho. simpl. exact Ho.
Qed.
End GP.

(* ---- stage changes that keep an item as it is ---------------------------------------------------------------------- *)
Lemma ok_0_1 it : okb 0 it = true -> (match it with IConst _ _ => False | _ => True end) -> okb 1 it = true.
Proof. destruct it; simpl; auto; contradiction. Qed.
Lemma ok_1_2 it : okb 1 it = true -> (match it with IPseudo _ _ _ => False | _ => True end) -> okb 2 it = true.
Proof. destruct it; simpl; auto; try discriminate; contradiction. Qed.
Lemma ok_2_3 it : okb 2 it = true -> (match it with IAlign _ => False | _ => True end) -> okb 3 it = true.
Proof. destruct it; simpl; auto; try discriminate; contradiction. Qed.

(* ---- resolve_constants --------------------------------------------------------------------------------------------- *)
Lemma aeval_expr_no_raw hi lo l pos has get e x :
  match e with EArith _ => True | _ => False end -> eeval hi lo l pos has get e <> PErr (PRaw x).
Proof. destruct e; simpl; try contradiction. intros _. destruct (aeval get a); discriminate. Qed.
Lemma constants_good its : forall consts acc, oks 0 its -> good (fun _ => True) (resolve_constants_lr its consts acc).
Proof.
  induction its as [|[l it] r IH]; intros consts acc H. exact I.
  inversion H as [|? ? H1 H2]; subst. simpl in H1.
  destruct it; cbn [resolve_constants_lr]; try (apply IH; exact H2).
  destruct e; try exact I.
  - destruct (mem_str name reg_names); [exact I|]. destruct (is_int name); [exact I|].
    eapply good_bind with (Q := fun _ => True).
    + unfold of_pres. cbn [eeval]. destruct (aeval _ a); exact I.
    + intros v _. apply IH; exact H2.
  - simpl in H1. discriminate.
Qed.
Lemma filter_ok_0_1 its : oks 0 its -> oks 1 (filter not_const its).
Proof.
  unfold oks. induction 1 as [|[l it] r H _ IH]; simpl. constructor.
  unfold not_const at 1. simpl. destruct it; simpl; try (constructor; [apply ok_0_1; auto; exact I|exact IH]). exact IH.
Qed.

(* ---- resolve_labels ------------------------------------------------------------------------------------------------ *)
Lemma labels_good st its : forall pos ls defd, oks st its -> good (fun _ => True) (resolve_labels_from its pos ls defd).
Proof.
  induction its as [|[l it] r IH]; intros pos ls defd H. exact I.
  inversion H as [|? ? H1 H2]; subst. simpl in H1.
  destruct it; cbn [resolve_labels_from];
    try (eapply good_bind; [eapply size_good; eauto|intros sz0 _; apply IH; exact H2]).
  destruct (mem_str name defd); [exact I|apply IH; exact H2].
Qed.

(* ---- resolve_register_aliases --------------------------------------------------------------------------------------- *)
Lemma alias_shape post consts : forall fs keys,
  shape_okb post keys fs = true -> shape_okb post keys (map (alias_field consts) fs) = true.
Proof.
  induction fs as [|[k v] r IH]; intros keys H; [exact H|].
  change (map (alias_field consts) ((k, v) :: r)) with (alias_field consts (k, v) :: map (alias_field consts) r).
  cbn [shape_okb] in H.
  assert (E : alias_field consts (k, v) = (k, v) \/ exists z, alias_field consts (k, v) = (k, FReg (AInt z)) /\ is_reg v = true).
  { unfold alias_field. destruct v as [[z|s0]| | |]; auto. destruct (mem_str k REGS); auto.
    destruct (assoc_str s0 consts); auto. right. eauto. }
  destruct E as [->|(z & -> & Hr)]; cbn [shape_okb].
  - destruct (is_flag_key k). { apply andb_prop in H. destruct H as [A B]. rewrite A. simpl. auto. }
    destruct (is_ghost_key k); auto. destruct keys as [|k' ks]; auto.
    apply andb_prop in H. destruct H as [A B]. rewrite A. simpl. auto.
  - destruct v; try discriminate.
    destruct (is_flag_key k). { apply andb_prop in H. destruct H; discriminate. }
    destruct (is_ghost_key k); auto. destruct keys as [|k' ks]; auto.
    apply andb_prop in H. destruct H as [A B]. apply andb_prop in A. destruct A as [A1 A2]. rewrite A1.
    destruct (String.eqb k "imm"); try discriminate. simpl. auto.
Qed.
Lemma alias_instr_ok post consts cls name fs :
  instr_okb post cls name fs = true -> instr_okb post cls name (map (alias_field consts) fs) = true.
Proof.
  unfold instr_okb. destruct (assoc_str cls class_sig) as [[names kinds]|]; auto. destruct (class_keys cls) as [keys|]; auto.
  intro H. apply andb_prop in H. destruct H as [H H3]. rewrite H. simpl. apply alias_shape. exact H3.
Qed.
Lemma aliases_ok st its consts : oks st its -> oks st (resolve_register_aliases its consts).
Proof.
  unfold oks, resolve_register_aliases. induction 1 as [|[l it] r H _ IH]; simpl; constructor; auto.
  destruct it; simpl in *; auto.
  apply andb_prop in H. destruct H as [Ha Hb]. rewrite Ha. simpl. apply alias_instr_ok. exact Hb.
Qed.

(* ---- resolve_aligns ------------------------------------------------------------------------------------------------- *)
Lemma align_rule_good l it p ls : okb 2 it = true -> is_label it = None -> good (oki 3) (align_rule l it p ls).
Proof.
  intros H _. destruct it; cbn [align_rule];
    try (apply good_done; constructor; [apply ok_2_3; auto; exact I|constructor]).
  simpl in H. apply Z.leb_le in H.
  destruct (n =? 0) eqn:E. apply Z.eqb_eq in E. lia.
  cbv zeta. destruct ((if _ =? n then 0 else _) =? 0); apply good_done; repeat constructor.
Qed.

(* ---- resolve_immediates --------------------------------------------------------------------------------------------- *)
Lemma oks_rev st a : oks st a -> oks st (rev a).
Proof. unfold oks. apply Forall_rev. Qed.
Lemma imm_of_good l pos consts labels v : val_okb false v = true -> good (fun _ => True) (imm_of l pos consts labels v).
Proof.
  destruct v; simpl; try discriminate. intro H. unfold eval_here, of_pres.
  destruct (eeval _ _ _ _ _ _ e) as [z|[l'|x]] eqn:E; try exact I.
  exfalso. eapply (eeval_no_raw relocate_hi relocate_lo l pos (chain_get consts labels) e x); eauto.
Qed.
Lemma imm_not_flag k : String.eqb k "imm" = true -> is_flag_key k = false /\ is_ghost_key k = false.
Proof. intro E. apply String.eqb_eq in E. subst. split; reflexivity. Qed.
Lemma shape_imm_val : forall fs keys v,
  shape_okb false keys fs = true -> assoc_str "imm" fs = Some v -> val_okb false v = true.
Proof.
  induction fs as [|[k w] r IH]; intros keys v H A; [discriminate|].
  cbn [assoc_str] in A. cbn [shape_okb] in H. rewrite String.eqb_sym in A.
  destruct (String.eqb k "imm") eqn:E.
  - inversion A; subst w. destruct (imm_not_flag _ E) as [F G]. rewrite F, G in H.
    destruct keys as [|k' ks]; [discriminate|]. apply andb_prop in H. destruct H as [H _]. apply andb_prop in H. tauto.
  - destruct (is_flag_key k). { apply andb_prop in H. destruct H. eauto. }
    destruct (is_ghost_key k). { eauto. }
    destruct keys as [|k' ks]; [discriminate|]. apply andb_prop in H. destruct H. eauto.
Qed.
Lemma shape_post_noimm : forall fs keys,
  count_occ string_dec keys "imm"%string = 0%nat -> shape_okb false keys fs = true -> shape_okb true keys fs = true.
Proof.
  induction fs as [|[k w] r IH]; intros keys C H; [exact H|]. cbn [shape_okb] in *.
  destruct (is_flag_key k). { apply andb_prop in H. destruct H as [A B]. rewrite A. simpl. auto. }
  destruct (is_ghost_key k). { auto. }
  destruct keys as [|k' ks]; [discriminate|].
  apply andb_prop in H. destruct H as [A B]. apply andb_prop in A. destruct A as [A1 A2]. rewrite A1. simpl.
  apply String.eqb_eq in A1. subst k'. simpl in C. destruct (string_dec k "imm") as [->|Hn]; [discriminate|].
  apply String.eqb_neq in Hn. rewrite Hn in *. rewrite A2. simpl. auto.
Qed.
Lemma shape_post_set z : forall fs keys,
  imm_once keys = true -> shape_okb false keys fs = true -> shape_okb true keys (field_set "imm" (FInt z) fs) = true.
Proof.
  induction fs as [|[k w] r IH]; intros keys C H; [exact H|]. cbn [field_set]. cbn [shape_okb] in H.
  destruct (String.eqb k "imm") eqn:E.
  - destruct (imm_not_flag _ E) as [F G]. cbn [shape_okb]. rewrite F, G in *. rewrite E in *.
    destruct keys as [|k' ks]; [discriminate|].
    apply andb_prop in H. destruct H as [A B]. apply andb_prop in A. destruct A as [A1 A2]. rewrite A1. simpl.
    apply shape_post_noimm; auto.
    apply String.eqb_eq in A1, E. subst. unfold imm_once in C. simpl in C.
    destruct (string_dec "imm" "imm"); [|congruence]. apply Nat.leb_le in C. lia.
  - cbn [shape_okb]. destruct (is_flag_key k). { apply andb_prop in H. destruct H as [A B]. rewrite A. simpl. auto. }
    destruct (is_ghost_key k). { auto. }
    destruct keys as [|k' ks]; [discriminate|].
    apply andb_prop in H. destruct H as [A B]. apply andb_prop in A. destruct A as [A1 A2]. rewrite A1, E in *. rewrite A2. simpl.
    apply IH; auto. apply String.eqb_eq in A1. subst k'. unfold imm_once in *. simpl in C.
    destruct (string_dec k "imm") as [->|Hn]; auto. rewrite String.eqb_refl in E. discriminate.
Qed.
Lemma shape_post_none : forall fs keys,
  assoc_str "imm" fs = None -> shape_okb false keys fs = true -> shape_okb true keys fs = true.
Proof.
  induction fs as [|[k w] r IH]; intros keys A H; [exact H|]. cbn [shape_okb] in *. cbn [assoc_str] in A.
  rewrite String.eqb_sym in A. destruct (String.eqb k "imm") eqn:E; [discriminate|].
  destruct (is_flag_key k). { apply andb_prop in H. destruct H as [P Q]. rewrite P. simpl. auto. }
  destruct (is_ghost_key k). { auto. }
  destruct keys as [|k' ks]; [discriminate|].
  apply andb_prop in H. destruct H as [P Q]. rewrite P. simpl. auto.
Qed.
Lemma ok_3_4 it : okb 3 it = true ->
  (match it with IInstr _ _ _ _ | IPack _ _ | IShort _ _ => False | _ => True end) -> okb 4 it = true.
Proof. destruct it; simpl; auto; try discriminate; contradiction. Qed.
Lemma immediates_good its : forall pos consts labels acc,
  oks 3 its -> oks 4 acc -> good (oks 4) (resolve_immediates its pos consts labels acc).
Proof.
  induction its as [|[l it] r IH]; intros pos consts labels acc H Ha. { simpl. apply oks_rev. exact Ha. }
  inversion H as [|? ? H1 H2]; subst. simpl in H1.
  destruct it; cbn [resolve_immediates];
    try (eapply good_bind; [eapply size_good; eauto|intros sz0 _; apply IH; auto; constructor; auto; apply ok_3_4; auto; exact I]).
  - (* IInstr *)
    cbn [okb Nat.leb Nat.eqb andb] in H1. unfold instr_okb in H1.
    destruct (assoc_str cls class_sig) as [[names kinds]|] eqn:Es; try discriminate.
    destruct (class_keys cls) as [keys|] eqn:Ek; try discriminate.
    apply andb_prop in H1. destruct H1 as [H1 Hs]. apply andb_prop in H1. destruct H1 as [Hn Hc].
    unfold field_get. destruct (assoc_str "imm" fields) as [v|] eqn:Ei.
    + eapply good_bind. apply imm_of_good. eapply shape_imm_val; eauto. intros imm _.
      apply IH; auto. constructor; auto. cbn [snd okb Nat.leb Nat.eqb andb]. unfold instr_okb. rewrite Es, Ek, Hn, Hc. simpl.
      apply shape_post_set; auto.
    + apply IH; auto. constructor; auto. cbn [snd okb Nat.leb Nat.eqb andb]. unfold instr_okb. rewrite Es, Ek, Hn, Hc. simpl.
      apply shape_post_none; auto.
  - (* IPack *)
    cbn [okb Nat.leb andb] in H1.
    eapply good_bind. apply imm_of_good. exact H1. intros z _.
    eapply good_bind. eapply (size_good 3). simpl. exact H1. intros sz0 _.
    apply IH; auto. constructor; auto.
  - (* IShort *)
    cbn [okb Nat.leb andb] in H1. apply andb_prop in H1. destruct H1 as [Hf Hv].
    eapply good_bind. apply imm_of_good. exact Hv. intros z _.
    eapply good_bind. eapply (size_good 3). simpl. rewrite Hf. exact Hv. intros sz0 _.
    apply IH; auto. constructor; auto. simpl. rewrite Hf. reflexivity.
Qed.

(* ---- resolve_instructions ------------------------------------------------------------------------------------------- *)
Lemma shape_args : forall fs keys, shape_okb true keys fs = true -> Forall2 kind_ok (map kind_of_key keys) (args_of fs).
Proof.
  induction fs as [|[k v] r IH]; intros keys H.
  - destruct keys; [constructor|discriminate].
  - cbn [shape_okb] in H. cbn [args_of]. fold (is_flag_key k). fold (is_ghost_key k).
    destruct (is_flag_key k). { apply andb_prop in H. destruct H. auto. }
    destruct (is_ghost_key k). { auto. }
    destruct keys as [|k' ks]; [discriminate|].
    apply andb_prop in H. destruct H as [A B]. apply andb_prop in A. destruct A as [A1 A2].
    apply String.eqb_eq in A1. subst k'. cbn [map]. unfold kind_of_key at 1.
    destruct (String.eqb k "imm").
    + destruct v; try discriminate. simpl. constructor; auto. simpl. eauto.
    + destruct v; try discriminate. simpl. constructor; auto. exact I.
Qed.
Section Instr.
Hypothesis Henc : forall cls name args names kinds,
  assoc_str cls class_sig = Some (names, kinds) -> mem_str name names = true -> Forall2 kind_ok kinds args ->
  only_ve (encode_call cls name args).
Lemma encode_item_good l cls name fs c : instr_okb true cls name fs = true -> good (fun _ => True) (encode_item l cls name fs c).
Proof.
  unfold instr_okb. destruct (assoc_str cls class_sig) as [[names kinds]|] eqn:Es; try discriminate.
  destruct (class_keys cls) as [keys|] eqn:Ek; try discriminate.
  intro H. apply andb_prop in H. destruct H as [H Hs]. apply andb_prop in H. destruct H as [Hn _].
  pose proof (Henc cls name (args_of fs) names kinds Es Hn) as E.
  rewrite (sig_kinds _ _ _ _ Es Ek) in E. specialize (E (shape_args _ _ Hs)).
  unfold encode_item. unfold encode_call in E.
  destruct (if is_atomic_cls cls then _ else _) as [code|[]]; simpl in E; try contradiction; exact I.
Qed.
Lemma ok_4_5 it : okb 4 it = true -> (match it with IInstr _ _ _ _ => False | _ => True end) -> okb 5 it = true.
Proof. destruct it; simpl; auto; try discriminate; contradiction. Qed.
Lemma instructions_good its : forall acc, oks 4 its -> oks 5 acc -> good (oks 5) (resolve_instructions its acc).
Proof.
  induction its as [|[l it] r IH]; intros acc H Ha. { simpl. apply oks_rev. exact Ha. }
  inversion H as [|? ? H1 H2]; subst. simpl in H1.
  destruct it; cbn [resolve_instructions]; try (apply IH; auto; constructor; auto; apply ok_4_5; auto; exact I).
  eapply good_bind. apply encode_item_good. exact H1. intros bs _. apply IH; auto. constructor; auto.
Qed.
End Instr.

(* ---- data passes ---------------------------------------------------------------------------------------------------- *)
Lemma strings_ok its : oks 5 its -> oks 6 (resolve_strings its).
Proof.
  unfold oks, resolve_strings. induction 1 as [|[l it] r H _ IH]; simpl; constructor; auto.
  destruct it; simpl in *; auto; discriminate.
Qed.
Lemma ok_6_7 it : okb 6 it = true -> (match it with ISeq _ _ => False | _ => True end) -> okb 7 it = true.
Proof. destruct it; simpl; auto; try discriminate; contradiction. Qed.
Lemma sequences_good its : forall acc, oks 6 its -> oks 7 acc -> good (oks 7) (resolve_sequences its acc).
Proof.
  induction its as [|[l it] r IH]; intros acc H Ha. { simpl. apply oks_rev. exact Ha. }
  inversion H as [|? ? H1 H2]; subst. cbn [snd] in H1.
  destruct it; cbn [okb Nat.leb Nat.eqb andb] in H1; cbn [resolve_sequences]; try (apply IH; auto; constructor; auto; apply ok_6_7; auto; exact I).
  destruct (negb (all_ints vals)); [exact I|].
  destruct (seq_fmt name) as [f|]; [|discriminate].
  eapply good_bind with (Q := fun _ => True).
  - destruct (seq_bytes l f vals) as [bs|[l'|x]|] eqn:E; try exact I. exfalso. eapply seq_bytes_no_raw; eauto.
  - intros bs _. apply IH; auto. constructor; auto.
Qed.
Lemma ok_7_8 it : okb 7 it = true -> (match it with IShort _ _ => False | _ => True end) -> okb 8 it = true.
Proof. destruct it; simpl; auto; try discriminate; contradiction. Qed.
Lemma shorthand_good its : forall acc, oks 7 its -> oks 8 acc -> good (oks 8) (transform_shorthand its acc).
Proof.
  induction its as [|[l it] r IH]; intros acc H Ha. { simpl. apply oks_rev. exact Ha. }
  inversion H as [|? ? H1 H2]; subst. cbn [snd] in H1.
  destruct it; cbn [okb Nat.leb Nat.eqb andb] in H1; cbn [transform_shorthand]; try (apply IH; auto; constructor; auto; apply ok_7_8; auto; exact I).
  apply andb_prop in H1. destruct H1 as [Hf Hv]. destruct imm; try discriminate.
  destruct (short_fmt name) as [f|]; [|discriminate]. apply IH; auto. constructor; auto.
Qed.
Lemma ok_8_9 it : okb 8 it = true -> (match it with IPack _ _ => False | _ => True end) -> okb 9 it = true.
Proof. destruct it; simpl; auto; try discriminate; contradiction. Qed.
Lemma packs_good its : forall acc, oks 8 its -> oks 9 acc -> good (oks 9) (resolve_packs its acc).
Proof.
  induction its as [|[l it] r IH]; intros acc H Ha. { simpl. apply oks_rev. exact Ha. }
  inversion H as [|? ? H1 H2]; subst. cbn [snd] in H1.
  destruct it; cbn [okb Nat.leb Nat.eqb andb] in H1; cbn [resolve_packs]; try (apply IH; auto; constructor; auto; apply ok_8_9; auto; exact I).
  destruct imm; try exact I. destruct (struct_pack fmt z) as [[bs|e]|]; try exact I. apply IH; auto. constructor; auto.
Qed.
Lemma include_bytes_good its : forall acc, oks 9 its -> oks 9 acc -> good (oks 9) (resolve_include_bytes its acc).
Proof.
  induction its as [|[l it] r IH]; intros acc H Ha. { simpl. apply oks_rev. exact Ha. }
  inversion H as [|? ? H1 H2]; subst. cbn [snd] in H1.
  destruct it; cbn [okb Nat.leb Nat.eqb andb] in H1; cbn [resolve_include_bytes]; try (apply IH; auto; constructor; auto).
  destruct actual as [n|]; [|discriminate]. rewrite H1. apply IH; auto. constructor; auto.
Qed.
Lemma blobs_good its : oks 9 its -> good (fun _ => True) (resolve_blobs its).
Proof.
  induction 1 as [|[l it] r H _ IH]. exact I. simpl in H.
  destruct it; cbn [resolve_blobs]; try discriminate; try exact IH;
    (eapply good_bind; [exact IH|intros; exact I]).
Qed.

(* ---- transform_pseudo_instructions ---------------------------------------------------------------------------------- *)
Definition treg (f : tfield) : bool := match f with TFReg _ | TFInt _ => true | _ => false end.
Fixpoint tshape_okb (keys : list string) (fs : list (string * tfield)) : bool :=
  match fs with
  | [] => match keys with [] => true | _ => false end
  | (k, f) :: r =>
      if is_flag_key k then (match f with TFBool _ => true | _ => false end) && tshape_okb keys r
      else if is_ghost_key k then tshape_okb keys r
      else match keys with
           | k' :: ks => String.eqb k k' && (if String.eqb k "imm" then match f with TFImm _ => true | _ => false end else treg f)
                         && tshape_okb ks r
           | [] => false
           end
  end.
Definition tinst_okb (i : tinst) : bool :=
  match assoc_str (ti_cls i) class_sig, class_keys (ti_cls i) with
  | Some (names, _), Some keys => mem_str (ti_name i) names && imm_once keys && tshape_okb keys (ti_fields i)
  | _, _ => false
  end.
Definition template_okb (t : ttemplate) : bool :=
  match t with
  | TOne i => tinst_okb i
  | TChoice _ _ _ _ near far1 far2 => tinst_okb near && tinst_okb far1 && tinst_okb far2
  end.
(* every template of the table REGENERATED from transform_pseudo_instructions builds instructions of the right shape *)
Lemma templates_ok : forallb (fun r => template_okb (snd (snd r))) pseudo_table = true.
Proof. vm_compute. reflexivity. Qed.

Lemma inst_expr_ok args parsed : expr_ok parsed = true -> forall e x, inst_expr args parsed e = Some x -> expr_ok x = true.
Proof.
  intros Hp. induction e as [z|n| |e IH|e IH]; simpl; intros x H.
  - inversion H. reflexivity.
  - destruct (nth_error args n); inversion H. reflexivity.
  - inversion H; subst. exact Hp.
  - destruct (inst_expr args parsed e) as [y|]; inversion H. simpl. eauto.
  - destruct (inst_expr args parsed e) as [y|]; inversion H. simpl. eauto.
Qed.
Lemma inst_fields_shape args parsed : expr_ok parsed = true -> forall fs keys fvs,
  tshape_okb keys fs = true -> inst_fields args parsed fs = Some fvs -> shape_okb false keys fvs = true.
Proof.
  intros Hp. induction fs as [|[k f] r IH]; intros keys fvs T H.
  - simpl in H. inversion H; subst. exact T.
  - cbn [inst_fields] in H. destruct (inst_field args parsed f) as [v|] eqn:Ef; try discriminate.
    destruct (inst_fields args parsed r) as [rest|] eqn:Er; try discriminate. inversion H; subst. clear H.
    cbn [tshape_okb] in T. cbn [shape_okb].
    destruct (is_flag_key k).
    { apply andb_prop in T. destruct T as [A B]. destruct f; try discriminate. simpl in Ef. inversion Ef. simpl. eauto. }
    destruct (is_ghost_key k). { eauto. }
    destruct keys as [|k' ks]; [discriminate|].
    apply andb_prop in T. destruct T as [A B]. apply andb_prop in A. destruct A as [A1 A2]. rewrite A1. simpl.
    rewrite (IH _ _ B eq_refl). rewrite andb_true_r.
    destruct (String.eqb k "imm").
    + destruct f; try discriminate. simpl in Ef. destruct (inst_expr args parsed e) as [x|] eqn:Ex; inversion Ef. simpl.
      eapply inst_expr_ok; eauto.
    + destruct f; try discriminate; simpl in Ef.
      * destruct (inst_arg args a); inversion Ef. reflexivity.
      * inversion Ef. reflexivity.
Qed.
Lemma inst_item_ok args parsed i it :
  expr_ok parsed = true -> tinst_okb i = true -> inst_item args parsed i = Some it -> okb 2 it = true.
Proof.
  intros Hp T H. unfold inst_item in H. destruct (inst_fields args parsed (ti_fields i)) as [fvs|] eqn:Ef; inversion H; subst.
  unfold tinst_okb in T. cbn [okb Nat.leb Nat.eqb andb]. unfold instr_okb.
  destruct (assoc_str (ti_cls i) class_sig) as [[names kinds]|]; try discriminate.
  destruct (class_keys (ti_cls i)) as [keys|]; try discriminate.
  apply andb_prop in T. destruct T as [A B]. rewrite A. simpl. eapply inst_fields_shape; eauto.
Qed.

Definition pexp_ok (px : pexp) : Prop :=
  match px with
  | One it => okb 2 it = true
  | Choice e _ _ _ near far1 far2 => expr_ok e = true /\ okb 2 near = true /\ okb 2 far1 = true /\ okb 2 far2 = true
  end.
Lemma dummy_ok : expr_ok dummy = true. Proof. reflexivity. Qed.
Lemma instantiate_good t args pimm :
  template_okb (snd t) = true -> arity_ok (fst t) args = true ->
  negb (uses_parsed (snd t)) || pimm_fine pimm = true ->
  good pexp_ok (instantiate t args pimm).
Proof.
  intros T A P. unfold instantiate. rewrite A. destruct (snd t) as [i|e g lo hi near f1 f2].
  - destruct (inst_item args dummy i) as [it|] eqn:E; [|exact I]. simpl. eapply inst_item_ok; eauto. apply dummy_ok.
  - cbn [template_okb] in T. apply andb_prop in T. destruct T as [T T3]. apply andb_prop in T. destruct T as [T1 T2].
    eapply good_bind with (Q := fun pe => expr_ok pe = true).
    + destruct e; try (destruct (inst_expr args dummy _) as [x|] eqn:Ex; [|exact I]; simpl; eapply inst_expr_ok; eauto; apply dummy_ok).
      cbn [uses_parsed negb orb] in P. destruct pimm as [x|[l'|y]]; simpl in *; auto. discriminate.
    + intros pe Hpe.
      destruct (inst_item args pe near) as [a|] eqn:Ea; [|exact I].
      destruct (inst_item args pe f1) as [b|] eqn:Eb; [|exact I].
      destruct (inst_item args pe f2) as [c|] eqn:Ec; [|exact I].
      simpl. split; [exact Hpe|]. split; [exact (inst_item_ok _ _ _ _ Hpe T1 Ea)|].
      split; [exact (inst_item_ok _ _ _ _ Hpe T2 Eb)|exact (inst_item_ok _ _ _ _ Hpe T3 Ec)].
Qed.
Lemma pseudo_rule_good consts l it p ls : okb 1 it = true -> is_label it = None -> good (oki 2) (pseudo_rule consts l it p ls).
Proof.
  intros H _. destruct it; cbn [pseudo_rule];
    try (apply good_done; constructor; [apply ok_1_2; auto; exact I|constructor]).
  cbn [okb Nat.leb andb] in H. unfold pseudo_okb in H.
  eapply good_bind with (Q := pexp_ok).
  - rewrite expand_pseudo_table. destruct (assoc_str name pseudo_table) as [t|] eqn:Et; [|exact I].
    apply andb_prop in H. destruct H as [Ha Hp]. apply instantiate_good; auto.
    pose proof templates_ok as F. rewrite forallb_forall in F. exact (F _ (assoc_in _ _ _ Et)).
  - intros [it'|e target lo hi near far1 far2] Hx; simpl in Hx.
    + apply good_done. constructor; auto.
    + destruct Hx as (He & Hn & H1 & H2).
      eapply good_bind with (Q := fun _ => True).
      { unfold of_pres. destruct (eeval _ _ _ _ _ _ e) as [z|[l'|x]] eqn:E; try exact I.
        exfalso. eapply (eeval_no_raw relocate_hi relocate_lo l p (chain_get consts ls) e x); eauto. }
      intros v _. cbv zeta.
      eapply good_bind with (Q := fun _ => True).
      { destruct target; [exact I|]. unfold is_settled. destruct (is_position_relative e); [exact I|].
        unfold eval_consts.
        destruct (eeval _ _ _ _ _ _ e) as [z|[l'|x]] eqn:E; try exact I.
        exfalso. eapply (eeval_no_raw relocate_hi relocate_lo l p (fun k => assoc_str k consts) e x); eauto. }
      intros stable _. destruct (stable && _ && _); apply good_done; repeat constructor; auto.
Qed.

(* ---- transform_compressible ----------------------------------------------------------------------------------------- *)
Definition ok_va {A} (r : res A) : Prop :=
  match r with Ok _ => True | Err ValueError => True | Err AssemblerError => True | Err _ => False end.
Lemma ok_va_bind {A B} (r : res A) (k : A -> res B) : ok_va r -> (forall a, ok_va (k a)) -> ok_va (a <- r ;; k a).
Proof. destruct r as [a|[]]; simpl; auto; contradiction. Qed.
Lemma lookup_register_va r c : ok_va (lookup_register r c).
Proof.
  unfold lookup_register.
  destruct (assoc_key _ REGISTERS) as [v|]; [|exact I]. cbn [bind].
  destruct c; [|exact I]. unfold guard. destruct (_ || _); exact I.
Qed.

Definition regkey (keys : list string) (f : string) : bool :=
  mem_str f keys && negb (String.eqb f "imm") && negb (is_flag_key f) && negb (is_ghost_key f).
Definition pred_okb (keys : list string) (p : pred) : bool :=
  match p with
  | PNameEquals _ => true
  | PRegEquals f _ | PRegNotEquals f _ | PRegBetween f _ _ => regkey keys f
  | PRegsMatch a b => regkey keys a && regkey keys b
  | PImmEquals _ | PImmNotEquals _ | PImmDivisibleBy _ | PImmBetween _ _ => mem_str "imm" keys
  end.

Lemma mem_str_in k l : mem_str k l = true -> In k l.
Proof.
  induction l as [|x r IH]; simpl; intro H; try discriminate.
  destruct (String.eqb k x) eqn:E. apply String.eqb_eq in E. auto. auto.
Qed.
Lemma flag_neq k k0 : is_flag_key k = false -> is_flag_key k0 = true -> String.eqb k k0 = false.
Proof. intros A B. destruct (String.eqb k k0) eqn:E; auto. apply String.eqb_eq in E. subst. congruence. Qed.
Lemma ghost_neq k k0 : is_ghost_key k = false -> is_ghost_key k0 = true -> String.eqb k k0 = false.
Proof. intros A B. destruct (String.eqb k k0) eqn:E; auto. apply String.eqb_eq in E. subst. congruence. Qed.
Lemma shape_get_reg : forall fs keys k,
  shape_okb false keys fs = true -> In k keys -> is_flag_key k = false -> is_ghost_key k = false -> String.eqb k "imm" = false ->
  exists a, assoc_str k fs = Some (FReg a).
Proof.
  induction fs as [|[k0 v] r IH]; intros keys k H Hin F G E.
  - destruct keys; [contradiction|discriminate].
  - cbn [shape_okb] in H. cbn [assoc_str].
    destruct (is_flag_key k0) eqn:F0. { rewrite (flag_neq _ _ F F0). apply andb_prop in H. destruct H. eauto. }
    destruct (is_ghost_key k0) eqn:G0. { rewrite (ghost_neq _ _ G G0). eauto. }
    destruct keys as [|k' ks]; [discriminate|].
    apply andb_prop in H. destruct H as [A B]. apply andb_prop in A. destruct A as [A1 A2].
    apply String.eqb_eq in A1. subst k'.
    destruct (String.eqb k k0) eqn:Ek.
    + apply String.eqb_eq in Ek. subst k0. rewrite E in A2. destruct v; try discriminate. eauto.
    + destruct Hin as [->|Hin]. rewrite String.eqb_refl in Ek. discriminate. eauto.
Qed.
Lemma shape_get_imm : forall fs keys,
  shape_okb false keys fs = true -> In "imm"%string keys -> exists e, assoc_str "imm" fs = Some (FExpr e) /\ expr_ok e = true.
Proof.
  induction fs as [|[k0 v] r IH]; intros keys H Hin.
  - destruct keys; [contradiction|discriminate].
  - cbn [shape_okb] in H. cbn [assoc_str].
    destruct (is_flag_key k0) eqn:F0. { rewrite (flag_neq "imm" _ eq_refl F0). apply andb_prop in H. destruct H. eauto. }
    destruct (is_ghost_key k0) eqn:G0. { rewrite (ghost_neq "imm" _ eq_refl G0). eauto. }
    destruct keys as [|k' ks]; [discriminate|].
    apply andb_prop in H. destruct H as [A B]. apply andb_prop in A. destruct A as [A1 A2].
    apply String.eqb_eq in A1. subst k'. rewrite String.eqb_sym.
    destruct (String.eqb k0 "imm") eqn:Ek.
    + destruct v; try discriminate. simpl in A2. eauto.
    + destruct Hin as [->|Hin]. discriminate. eauto.
Qed.
Lemma shape_get_flag : forall fs keys a v,
  shape_okb false keys fs = true -> is_flag_key a = true -> assoc_str a fs = Some v -> exists b, v = FBool b.
Proof.
  induction fs as [|[k0 w] r IH]; intros keys a v H F A; [discriminate|].
  cbn [shape_okb] in H. cbn [assoc_str] in A.
  destruct (String.eqb a k0) eqn:Ek.
  - apply String.eqb_eq in Ek. subst k0. rewrite F in H. inversion A; subst w. apply andb_prop in H. destruct H as [H _].
    destruct v; try discriminate. eauto.
  - destruct (is_flag_key k0). { apply andb_prop in H. destruct H. eauto. }
    destruct (is_ghost_key k0). { eauto. }
    destruct keys as [|k' ks]; [discriminate|]. apply andb_prop in H. destruct H. eauto.
Qed.

Section View.
Variables (l : line) (pos : Z) (consts labels : envt) (name : string) (fs : list (string * fval)) (keys : list string).
Hypothesis Hs : shape_okb false keys fs = true.
Let i := view_of l pos consts labels name fs.
Lemma regkey_attr f : regkey keys f = true -> exists a, iv_attr i f = Ok a.
Proof.
  unfold regkey. intro H. apply andb_prop in H. destruct H as [H G]. apply andb_prop in H. destruct H as [H F].
  apply andb_prop in H. destruct H as [M E]. apply negb_true_iff in G, F, E.
  destruct (shape_get_reg _ _ _ Hs (mem_str_in _ _ M) F G E) as [a Ha]. exists a. simpl. unfold field_get. rewrite Ha. reflexivity.
Qed.
Lemma imm_va : mem_str "imm" keys = true -> ok_va (iv_imm i).
Proof.
  intro M. destruct (shape_get_imm _ _ Hs (mem_str_in _ _ M)) as (e & He & Hok). simpl. unfold field_get. rewrite He.
  destruct (eeval _ _ _ _ _ _ e) as [z|[l'|x]] eqn:E; simpl; try exact I.
  exfalso. eapply (eeval_no_raw relocate_hi relocate_lo l pos (chain_get consts labels) e x); eauto.
Qed.
Lemma pred_va p : pred_okb keys p = true -> ok_va (pred_sem p i).
Proof.
  destruct p; cbn [pred_okb pred_sem]; intro H; try exact I;
    try (destruct (regkey_attr _ H) as [a ->]; cbn [bind]; apply ok_va_bind; [apply lookup_register_va|intro; exact I]);
    try (apply ok_va_bind; [apply imm_va; exact H|intro; exact I]).
  apply andb_prop in H. destruct H as [Ha Hb].
  destruct (regkey_attr _ Ha) as [x ->]. cbn [bind]. apply ok_va_bind; [apply lookup_register_va|intro ra].
  destruct (regkey_attr _ Hb) as [y ->]. cbn [bind]. apply ok_va_bind; [apply lookup_register_va|intro; exact I].
Qed.
Lemma all_preds_va ps : forallb (pred_okb keys) ps = true -> ok_va (all_preds ps i).
Proof.
  induction ps as [|p r IH]; simpl; intro H. exact I. apply andb_prop in H. destruct H as [A B].
  apply ok_va_bind. apply pred_va; exact A. intros [|]; [apply IH; exact B|exact I].
Qed.
End View.

Definition notflag (k : string) : bool := negb (is_flag_key k).
Fixpoint cshape_okb (src : list string) (fnames : list string) (cfs : list cfield) : bool :=
  match fnames, cfs with
  | [], [] => true
  | fn :: fr, cf :: cr =>
      (if is_flag_key fn then match cf with FItem a => is_flag_key a | _ => false end
       else if is_ghost_key fn then false
       else if String.eqb fn "imm"
            then match cf with FItem a => String.eqb a "imm" && mem_str "imm" src | FArithReg a => regkey src a | FArith _ => false end
            else match cf with FItem a => regkey src a | _ => false end)
      && cshape_okb src fr cr
  | _, _ => false
  end.
Definition build_okb (src : list string) (rule : string) : bool :=
  match assoc_str rule construction with
  | Some (final, cls', cfs) =>
      match assoc_str cls' class_sig, assoc_str cls' class_fields with
      | Some (names', _), Some ("name" :: fnames)%string =>
          mem_str final names' && imm_once (filter notflag fnames) && cshape_okb src fnames cfs
      | _, _ => false
      end
  | None => true
  end.
Definition row_okb (row : string * list pred) : bool :=
  match snd row with
  | PNameEquals n :: rest =>
      forallb (fun c => if mem_str n (fst (snd c))
                        then match class_keys (fst c) with
                             | Some keys => forallb (pred_okb keys) rest && build_okb keys (fst row)
                             | None => false
                             end
                        else true) class_sig
  | _ => false
  end.
(* every rule of the GENERATED criteria / construction tables reads only operands its instruction class has, and builds a
   compressed instruction of the right shape *)
Lemma criteria_ok : forallb row_okb criteria = true.
Proof. vm_compute. reflexivity. Qed.

Lemma build_field_shape fs src : shape_okb false src fs = true -> forall fnames cfs nfs,
  cshape_okb src fnames cfs = true -> zip_fields fnames (map (build_field fs) cfs) = Some nfs ->
  shape_okb false (filter notflag fnames) nfs = true.
Proof.
  intros Hs. induction fnames as [|fn fr IH]; intros cfs nfs C Z.
  - destruct cfs; [|discriminate]. simpl in Z. inversion Z. reflexivity.
  - destruct cfs as [|cf cr]; [discriminate|]. cbn [cshape_okb] in C. apply andb_prop in C. destruct C as [C1 C2].
    cbn [map zip_fields] in Z. destruct (build_field fs cf) as [v|] eqn:Ev; try discriminate.
    destruct (zip_fields fr (map (build_field fs) cr)) as [rest|] eqn:Er; try discriminate. inversion Z; subst. clear Z.
    specialize (IH _ _ C2 Er). cbn [filter]. unfold notflag at 1. cbn [shape_okb].
    destruct (is_flag_key fn) eqn:F.
    + cbn [negb]. destruct cf; try discriminate. simpl in Ev. unfold field_get in Ev.
      destruct (shape_get_flag _ _ _ _ Hs C1 Ev) as [b ->]. simpl. exact IH.
    + cbn [negb shape_okb]. destruct (is_ghost_key fn); [discriminate|].
      rewrite String.eqb_refl, IH, andb_true_r. simpl.
      destruct (String.eqb fn "imm").
      * destruct cf; try discriminate.
        -- apply andb_prop in C1. destruct C1 as [A M]. apply String.eqb_eq in A. subst attr. simpl in Ev. unfold field_get in Ev.
           exact (shape_imm_val _ _ _ Hs Ev).
        -- simpl in Ev. destruct (field_get attr fs) as [[r| | |]|]; try discriminate.
           destruct (lookup_register r false); inversion Ev. reflexivity.
      * destruct cf; try discriminate. simpl in Ev. unfold field_get in Ev. unfold regkey in C1.
        apply andb_prop in C1. destruct C1 as [H G]. apply andb_prop in H. destruct H as [H F'].
        apply andb_prop in H. destruct H as [M E]. apply negb_true_iff in G, F', E.
        destruct (shape_get_reg _ _ _ Hs (mem_str_in _ _ M) F' G E) as [a Ha]. rewrite Ha in Ev. inversion Ev. reflexivity.
Qed.
Lemma build_compressed_ok st fs src rule it' :
  (st <= 3)%nat -> shape_okb false src fs = true -> build_okb src rule = true -> build_compressed rule fs = Some it' -> okb st it' = true.
Proof.
  intros Hst Hs B H. unfold build_compressed in H. unfold build_okb in B.
  destruct (assoc_str rule construction) as [[[final cls'] cfs]|]; try discriminate.
  destruct (assoc_str cls' class_sig) as [[names' kinds']|] eqn:Es; try discriminate.
  destruct (assoc_str cls' class_fields) as [[|n0 fnames]|] eqn:Ef; try discriminate.
  assert (n0 = "name"%string) as ->.
  { destruct n0 as [|c0 n0]; try discriminate. revert B. repeat (match goal with |- context[match ?x with _ => _ end] => destruct x; try discriminate end). reflexivity. }
  destruct (zip_fields fnames (map (build_field fs) cfs)) as [nfs|] eqn:Ez; try discriminate. inversion H; subst. clear H.
  apply andb_prop in B. destruct B as [B C]. apply andb_prop in B. destruct B as [Bn Bi].
  cbn [okb]. assert (Nat.leb st 4 = true) as -> by (apply Nat.leb_le; lia).
  assert (Nat.eqb st 4 = false) as -> by (apply Nat.eqb_neq; lia). cbn [andb].
  unfold instr_okb. rewrite Es. unfold class_keys. rewrite Ef. fold notflag.
  rewrite Bn, Bi. simpl. eapply build_field_shape; eauto.
Qed.

Lemma select_rule_va l pos consts labels cls name fs names kinds keys :
  assoc_str cls class_sig = Some (names, kinds) -> class_keys cls = Some keys -> mem_str name names = true ->
  shape_okb false keys fs = true ->
  forall cr, forallb row_okb cr = true ->
    ok_va (select_rule cr (view_of l pos consts labels name fs)) /\
    (forall rule, select_rule cr (view_of l pos consts labels name fs) = Ok (Some rule) -> build_okb keys rule = true).
Proof.
  intros Es Ek Hn Hs. induction cr as [|[rn ps] r IH]; intro H.
  - split. exact I. discriminate.
  - cbn [forallb] in H. apply andb_prop in H. destruct H as [Hrow Hr]. specialize (IH Hr). destruct IH as [IH1 IH2].
    unfold row_okb in Hrow. cbn [fst snd] in Hrow.
    destruct ps as [|[n| | | | | | | |] rest]; try discriminate.
    cbn [select_rule all_preds pred_sem bind]. cbn [view_of iv_name].
    destruct (String.eqb name n) eqn:En.
    + apply String.eqb_eq in En. subst n.
      rewrite forallb_forall in Hrow. specialize (Hrow _ (assoc_in _ _ _ Es)). cbn [fst snd] in Hrow.
      rewrite Hn, Ek in Hrow. apply andb_prop in Hrow. destruct Hrow as [Hp Hb].
      pose proof (all_preds_va l pos consts labels name fs keys Hs rest Hp) as V.
      destruct (all_preds rest (view_of l pos consts labels name fs)) as [[|]|e]; cbn [bind].
      * split. exact I. intros rule E. inversion E; subst. exact Hb.
      * split; assumption.
      * split. exact V. discriminate.
    + cbn [bind]. split; assumption.
Qed.

Lemma imm_unstable_good l pos consts cls fs keys :
  shape_okb false keys fs = true -> good (fun _ => True) (imm_unstable l pos consts cls fs).
Proof.
  intro Hs. unfold imm_unstable, field_get. destruct (assoc_str "imm" fs) as [v|] eqn:Ei; [|exact I].
  pose proof (shape_imm_val _ _ _ Hs Ei) as Hv. destruct v; try discriminate. simpl in Hv.
  destruct (_ && _); [exact I|].
  eapply good_bind with (Q := fun _ => True); [|intros; exact I].
  unfold is_settled. destruct (is_position_relative e); [exact I|]. unfold eval_consts.
  destruct (eeval _ _ _ _ _ _ e) as [z|[l'|x]] eqn:E; try exact I.
  exfalso. eapply (eeval_no_raw relocate_hi relocate_lo l pos (fun k => assoc_str k consts) e x); eauto.
Qed.
Lemma compress_rule_good st consts l it p ls :
  (1 <= st <= 3)%nat -> okb st it = true -> is_label it = None -> good (oki st) (compress_rule consts l it p ls).
Proof.
  intros Hst H _. destruct it; cbn [compress_rule]; try (apply good_done; constructor; [exact H|constructor]).
  pose proof H as H0. cbn [okb] in H. apply andb_prop in H. destruct H as [_ H].
  assert (Nat.eqb st 4 = false) as E4 by (apply Nat.eqb_neq; lia). rewrite E4 in H.
  unfold instr_okb in H.
  destruct (assoc_str cls class_sig) as [[names kinds]|] eqn:Es; try discriminate.
  destruct (class_keys cls) as [keys|] eqn:Ek; try discriminate.
  apply andb_prop in H. destruct H as [H Hs]. apply andb_prop in H. destruct H as [Hn _].
  eapply good_bind. eapply imm_unstable_good; eauto. intros u _.
  destruct u. { apply good_done. constructor; [exact H0|constructor]. }
  destruct (select_rule_va l p consts ls cls name fields names kinds keys Es Ek Hn Hs criteria criteria_ok) as [V B].
  destruct (select_rule criteria _) as [[rule|]|e] eqn:Er.
  - destruct (build_compressed rule fields) as [it'|] eqn:Eb; [|exact I].
    apply good_done. constructor; [|constructor]. eapply build_compressed_ok; eauto. lia.
  - apply good_done. constructor; [exact H0|constructor].
  - unfold perr_of_pred. destruct e; simpl in V; try contradiction; exact I.
Qed.

(* ---- THE THEOREM ---------------------------------------------------------------------------------------------------- *)
Section Main.
Hypothesis Henc : forall cls name args names kinds,
  assoc_str cls class_sig = Some (names, kinds) -> mem_str name names = true -> Forall2 kind_ok kinds args ->
  only_ve (encode_call cls name args).

Lemma compress_opt_good st (cmp : bool) its consts labels :
  (1 <= st <= 3)%nat -> oks st its ->
  good (fun p => oks st (fst p)) (if cmp then transform_compressible its consts labels else Done (its, labels)).
Proof.
  intros Hst H. destruct cmp; [|exact H]. unfold transform_compressible.
  apply gpass_good with (st := st); auto. intros. apply compress_rule_good; auto.
Qed.

Theorem assemble_good its consts0 labels0 compress :
  oks 0 its -> good (fun _ => True) (assemble_items its consts0 labels0 compress).
Proof.
  intro H0. unfold assemble_items.
  eapply good_bind with (Q := fun p => oks 1 (fst p)).
  { pose proof (constants_good its consts0 [] H0) as G.
    destruct (resolve_constants_lr its consts0 []) as [[o c]|[l|x]|] eqn:E; try exact I; try contradiction.
    simpl. rewrite (resolve_constants_filter _ _ _ _ _ E). simpl. apply filter_ok_0_1. exact H0. }
  intros [its1 consts] H1. cbn [fst] in H1.
  eapply good_bind with (Q := fun _ => True). { unfold resolve_labels. eapply labels_good; eauto. }
  intros labels _.
  eapply good_bind. { apply compress_opt_good with (st := 1%nat). lia. apply aliases_ok. exact H1. }
  intros [its3 lab3] H3. cbn [fst] in H3.
  eapply good_bind with (Q := fun p => oks 2 (fst p)).
  { unfold transform_pseudo. apply gpass_good with (st := 1%nat); auto. intros. apply pseudo_rule_good; auto. }
  intros [its4 lab4] H4. cbn [fst] in H4.
  eapply good_bind. { apply compress_opt_good with (st := 2%nat). lia. apply aliases_ok. exact H4. }
  intros [its6 lab6] H6. cbn [fst] in H6.
  eapply good_bind with (Q := fun p => oks 3 (fst p)).
  { unfold resolve_aligns. apply gpass_good with (st := 2%nat); auto. intros. apply align_rule_good; auto. }
  intros [its7 lab7] H7. cbn [fst] in H7.
  eapply good_bind. { apply immediates_good. exact H7. constructor. }
  intros its8 H8.
  eapply good_bind. { apply instructions_good. exact Henc. exact H8. constructor. }
  intros its9 H9.
  eapply good_bind. { apply sequences_good. apply strings_ok. exact H9. constructor. }
  intros its11 H11.
  eapply good_bind. { apply shorthand_good. exact H11. constructor. }
  intros its12 H12.
  eapply good_bind. { apply packs_good. exact H12. constructor. }
  intros its13 H13.
  eapply good_bind. { apply include_bytes_good. exact H13. constructor. }
  intros its14 H14.
  eapply good_bind. { apply blobs_good. exact H14. }
  intros chunks _. exact I.
Qed.
End Main.
