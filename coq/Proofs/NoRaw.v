(* C15, second half: NO raw (internal) exception leaves the pipeline model on well-formed items.
   `okb st it`: what the parser hands over (stage 0) and what each group of passes leaves behind (stages 1..9).
   `good Q r`: r is Done a with Q a, or the assembler's own error, or outside the model -- never Fail (PRaw _). *)
From Coq Require Import ZArith List Bool String Arith Lia.
From BB Require Import Base.PyBase Gen.Encoders Gen.Criteria Gen.Pseudo Model.Items Model.Encode Model.Passes
  Proofs.Layout Proofs.Pipeline Proofs.Errors Proofs.EncSig Proofs.PseudoTable.
Import ListNotations.
Open Scope Z_scope.

(* ---- the outcome monad, "never raw" ------------------------------------------------------------------------------- *)
Definition good {A} (Q : A -> Prop) (r : outcome A) : Prop :=
  match r with Done a => Q a | Fail (PRaw _) => False | Fail (PAsm _) => True | Unsupported => True end.
Lemma good_bind {A B} (Q : A -> Prop) (R : B -> Prop) (r : outcome A) (k : A -> outcome B) :
  good Q r -> (forall a, Q a -> good R (k a)) -> good R (obind r k).
Proof. destruct r as [a|[l|x]|]; simpl; auto; contradiction. Qed.
Lemma good_weaken {A} (Q R : A -> Prop) r : good Q r -> (forall a, Q a -> R a) -> good R r.
Proof. destruct r as [a|[l|x]|]; simpl; auto. Qed.
Lemma good_done {A} (Q : A -> Prop) a : Q a -> good Q (Done a).
Proof. auto. Qed.
Lemma good_no_raw {A} (Q : A -> Prop) r x : good Q r -> r <> Fail (PRaw x).
Proof. intros G E. rewrite E in G. exact G. Qed.

(* ---- well-formed fields / instructions ---------------------------------------------------------------------------- *)
Definition is_ghost_key (k : string) : bool := String.eqb (substring 0 1 k) "#".
Definition is_flag_key (k : string) : bool := String.eqb k "is_auipc_jump".
Definition val_okb (post : bool) (v : fval) : bool :=
  match v with FExpr e => negb post && expr_ok e | FInt _ => post | _ => false end.
Definition is_reg (v : fval) : bool := match v with FReg _ => true | _ => false end.
(* the fields of an instruction, against the operand keys of its class (in args() order); flag and ghost fields may stand anywhere *)
Fixpoint shape_okb (post : bool) (keys : list string) (fs : list (string * fval)) : bool :=
  match fs with
  | [] => match keys with [] => true | _ => false end
  | (k, v) :: r =>
      if is_flag_key k then (match v with FBool _ => true | _ => false end) && shape_okb post keys r
      else if is_ghost_key k then shape_okb post keys r
      else match keys with
           | k' :: ks => String.eqb k k' && (if String.eqb k "imm" then val_okb post v else is_reg v) && shape_okb post ks r
           | [] => false
           end
  end.
Definition kind_of_key (k : string) : okind := if String.eqb k "imm" then KI else KR.
Definition imm_once (keys : list string) : bool := Nat.leb (count_occ string_dec keys "imm"%string) 1.
(* the operand keys of a class, in args() order: the generated class_fields without "name" and the flag *)
Definition class_keys (cls : string) : option (list string) :=
  match assoc_str cls class_fields with
  | Some ("name" :: r)%string => Some (filter (fun k => negb (is_flag_key k)) r)
  | _ => None
  end.
Definition instr_okb (post : bool) (cls name : string) (fs : list (string * fval)) : bool :=
  match assoc_str cls class_sig, class_keys cls with
  | Some (names, kinds), Some keys =>
      mem_str name names && imm_once keys && shape_okb post keys fs
  | _, _ => false
  end.
Definition okind_eqb (a b : okind) : bool := match a, b with KR, KR | KI, KI => true | _, _ => false end.
Fixpoint kinds_match (keys : list string) (kinds : list okind) : bool :=
  match keys, kinds with
  | [], [] => true
  | k :: ks, d :: ds => okind_eqb (kind_of_key k) d && kinds_match ks ds
  | _, _ => false
  end.
Lemma kinds_match_eq keys : forall kinds, kinds_match keys kinds = true -> kinds = map kind_of_key keys.
Proof.
  induction keys as [|k ks IH]; intros [|d ds] H; simpl in H; try discriminate; auto.
  apply andb_prop in H. destruct H as [A B]. simpl. f_equal; auto. destruct (kind_of_key k), d; auto; discriminate.
Qed.
(* the kinds of class_sig are the kinds of the keys of the generated class_fields *)
Lemma sig_keys_agree :
  forallb (fun c => match class_keys (fst c) with
                    | Some keys => kinds_match keys (snd (snd c))
                    | None => false end) class_sig = true.
Proof. vm_compute. reflexivity. Qed.
Lemma assoc_in {V} k (l : list (string * V)) v : assoc_str k l = Some v -> In (k, v) l.
Proof.
  induction l as [|[k' v'] r IH]; simpl; intro H; try discriminate.
  destruct (String.eqb k k') eqn:E. apply String.eqb_eq in E. inversion H; subst. auto. auto.
Qed.
Lemma sig_kinds cls names kinds keys :
  assoc_str cls class_sig = Some (names, kinds) -> class_keys cls = Some keys -> kinds = map kind_of_key keys.
Proof.
  intros A K. pose proof sig_keys_agree as F. rewrite forallb_forall in F.
  specialize (F _ (assoc_in _ _ _ A)). simpl in F. rewrite K in F. apply kinds_match_eq. exact F.
Qed.

(* ---- well-formed items, by stage ---------------------------------------------------------------------------------- *)
Definition uses_parsed (t : ttemplate) : bool :=
  match t with TChoice TParsed _ _ _ _ _ _ => true | _ => false end.
Definition pimm_fine (p : pres expr) : bool :=
  match p with POk e => expr_ok e | PErr (PAsm _) => true | PErr (PRaw _) => false end.
Definition pseudo_okb (name : string) (args : list string) (pimm : pres expr) : bool :=
  match assoc_str name pseudo_table with
  | Some t => arity_ok (fst t) args && (negb (uses_parsed (snd t)) || pimm_fine pimm)
  | None => true                                     (* 'no translation for pseudo-instruction': AssemblerError *)
  end.
Definition some_b {A} (o : option A) : bool := match o with Some _ => true | None => false end.
Definition okb (st : nat) (it : item) : bool :=
  match it with
  | ILabel _ => true
  | IConst _ e => Nat.eqb st 0 && expr_ok e
  | IInstr cls name fs _ => Nat.leb st 4 && instr_okb (Nat.eqb st 4) cls name fs
  | IPseudo name args pimm => Nat.leb st 1 && pseudo_okb name args pimm
  | IAlign n => Nat.leb st 2 && (1 <=? n)
  | IString _ => Nat.leb st 5
  | ISeq name _ => Nat.leb st 6 && some_b (seq_fmt name)
  | IShort name v => Nat.leb st 7 && some_b (short_fmt name) && val_okb (Nat.leb 4 st) v
  | IPack _ v => Nat.leb st 8 && val_okb (Nat.leb 4 st) v
  | IIncBytes _ sz actual => match actual with Some n => Z.eqb n sz | None => false end
  | IBlob _ | IZeros _ | IFill _ _ => true
  end.
Definition oks (st : nat) (its : list litem) : Prop := Forall (fun x => okb st (snd x) = true) its.
Definition oki (st : nat) (its : list item) : Prop := Forall (fun x => okb st x = true) its.

Lemma oks_app st a b : oks st a -> oks st b -> oks st (app a b).
Proof. unfold oks. intros. apply Forall_app. auto. Qed.
Lemma oks_map st l rs : oki st rs -> oks st (map (fun x => (l, x)) rs).
Proof. unfold oks, oki. induction 1; simpl; constructor; auto. Qed.

(* ---- size() never raises on a well-formed item -------------------------------------------------------------------- *)
Lemma seq_width_fmt n : some_b (seq_fmt n) = true -> exists w, seq_width n = Some w.
Proof.
  unfold seq_fmt, seq_width. cbn [assoc_str].
  repeat (destruct (String.eqb n _); [eexists; reflexivity|]). discriminate.
Qed.
Lemma short_width_fmt n : some_b (short_fmt n) = true -> exists w, short_width n = Some w.
Proof.
  unfold short_fmt, short_width. cbn [assoc_str].
  repeat (destruct (String.eqb n _); [eexists; reflexivity|]). discriminate.
Qed.
Lemma size_good st it : okb st it = true -> good (fun _ => True) (size_o it).
Proof.
  unfold size_o. destruct it; cbn [okb Passes.size]; intro H; try exact I.
  - apply andb_prop in H. destruct H as [_ H]. destruct (seq_width_fmt _ H) as [w ->]. exact I.
  - destruct (calcsize fmt); exact I.
  - apply andb_prop in H. destruct H as [H _]. apply andb_prop in H. destruct H as [_ H].
    destruct (short_width_fmt _ H) as [w ->]. exact I.
Qed.
Lemma sizes_good st rs : oki st rs -> good (fun _ => True) (sizes rs).
Proof.
  induction 1 as [|it r H _ IH]; simpl. exact I.
  eapply good_bind. eapply size_good; eauto. intros a _.
  eapply good_bind. exact IH. intros b _. exact I.
Qed.

(* ---- the generic pass --------------------------------------------------------------------------------------------- *)
Section GP.
Variable rule : rule_t.
Variables st st' : nat.
Hypothesis Hrule : forall l it p ls, okb st it = true -> is_label it = None -> good (oki st') (rule l it p ls).
Lemma gp_good its : forall pos ls, oks st its -> good (fun p => oks st' (fst p)) (gp rule its pos ls).
Proof.
  induction its as [|[l it] r IH]; intros pos ls H; simpl.
  - constructor.
  - inversion H as [|? ? H1 H2]; subst. simpl in H1.
    destruct (is_label it) as [n|] eqn:El.
    + eapply good_bind. apply IH; exact H2. intros [o ls1] Ho. simpl. constructor; auto.
    + eapply good_bind. eapply size_good; eauto. intros old _.
      eapply good_bind. apply Hrule; auto. intros rs Hrs.
      eapply good_bind. eapply sizes_good; eauto. intros new _.
      eapply good_bind. apply IH; exact H2. intros [o ls1] Ho. simpl.
      apply oks_app; [apply oks_map; exact Hrs|exact Ho].
Qed.
Lemma gpass_good its pos ls : oks st its -> good (fun p => oks st' (fst p)) (gpass rule its pos ls []).
Proof.
  intro H. rewrite gpass_gp. eapply good_bind. apply gp_good; exact H. intros [o ls1] Ho. simpl. exact Ho.
Qed.
End GP.

(* ---- stage changes that keep an item as it is ---------------------------------------------------------------------- *)
Lemma ok_0_1 it : okb 0 it = true -> (match it with IConst _ _ => False | _ => True end) -> okb 1 it = true.
Proof. destruct it; simpl; auto; contradiction. Qed.
Lemma ok_1_2 it : okb 1 it = true -> (match it with IPseudo _ _ _ => False | _ => True end) -> okb 2 it = true.
Proof. destruct it; simpl; auto; try discriminate; contradiction. Qed.
Lemma ok_2_3 it : okb 2 it = true -> (match it with IAlign _ => False | _ => True end) -> okb 3 it = true.
Proof. destruct it; simpl; auto; try discriminate; contradiction. Qed.

(* ---- resolve_constants --------------------------------------------------------------------------------------------- *)
Lemma aeval_expr_no_raw hi lo l pos has get e x :
  match e with EArith _ => True | _ => False end -> eeval hi lo l pos has get e <> PErr (PRaw x).
Proof. destruct e; simpl; try contradiction. intros _. destruct (aeval get a); discriminate. Qed.
Lemma constants_good its : forall consts acc, oks 0 its -> good (fun _ => True) (resolve_constants_lr its consts acc).
Proof.
  induction its as [|[l it] r IH]; intros consts acc H. exact I.
  inversion H as [|? ? H1 H2]; subst. simpl in H1.
  destruct it; cbn [resolve_constants_lr]; try (apply IH; exact H2).
  destruct e; try exact I.
  - destruct (mem_str name reg_names); [exact I|]. destruct (is_int name); [exact I|].
    eapply good_bind with (Q := fun _ => True).
    + unfold of_pres. cbn [eeval]. destruct (aeval _ a); exact I.
    + intros v _. apply IH; exact H2.
  - simpl in H1. discriminate.
Qed.
Lemma filter_ok_0_1 its : oks 0 its -> oks 1 (filter not_const its).
Proof.
  unfold oks. induction 1 as [|[l it] r H _ IH]; simpl. constructor.
  unfold not_const at 1. simpl. destruct it; simpl; try (constructor; [apply ok_0_1; auto; exact I|exact IH]). exact IH.
Qed.

(* ---- resolve_labels ------------------------------------------------------------------------------------------------ *)
Lemma labels_good st its : forall pos ls defd, oks st its -> good (fun _ => True) (resolve_labels_from its pos ls defd).
Proof.
  induction its as [|[l it] r IH]; intros pos ls defd H. exact I.
  inversion H as [|? ? H1 H2]; subst. simpl in H1.
  destruct it; cbn [resolve_labels_from];
    try (eapply good_bind; [eapply size_good; eauto|intros sz0 _; apply IH; exact H2]).
  destruct (mem_str name defd); [exact I|apply IH; exact H2].
Qed.

(* ---- resolve_register_aliases --------------------------------------------------------------------------------------- *)
Lemma alias_shape post consts : forall fs keys,
  shape_okb post keys fs = true -> shape_okb post keys (map (alias_field consts) fs) = true.
Proof.
  induction fs as [|[k v] r IH]; intros keys H; [exact H|].
  change (map (alias_field consts) ((k, v) :: r)) with (alias_field consts (k, v) :: map (alias_field consts) r).
  cbn [shape_okb] in H.
  assert (E : alias_field consts (k, v) = (k, v) \/ exists z, alias_field consts (k, v) = (k, FReg (AInt z)) /\ is_reg v = true).
  { unfold alias_field. destruct v as [[z|s0]| | |]; auto. destruct (mem_str k REGS); auto.
    destruct (assoc_str s0 consts); auto. right. eauto. }
  destruct E as [->|(z & -> & Hr)]; cbn [shape_okb].
  - destruct (is_flag_key k). { apply andb_prop in H. destruct H as [A B]. rewrite A. simpl. auto. }
    destruct (is_ghost_key k); auto. destruct keys as [|k' ks]; auto.
    apply andb_prop in H. destruct H as [A B]. rewrite A. simpl. auto.
  - destruct v; try discriminate.
    destruct (is_flag_key k). { apply andb_prop in H. destruct H; discriminate. }
    destruct (is_ghost_key k); auto. destruct keys as [|k' ks]; auto.
    apply andb_prop in H. destruct H as [A B]. apply andb_prop in A. destruct A as [A1 A2]. rewrite A1.
    destruct (String.eqb k "imm"); try discriminate. simpl. auto.
Qed.
Lemma alias_instr_ok post consts cls name fs :
  instr_okb post cls name fs = true -> instr_okb post cls name (map (alias_field consts) fs) = true.
Proof.
  unfold instr_okb. destruct (assoc_str cls class_sig) as [[names kinds]|]; auto. destruct (class_keys cls) as [keys|]; auto.
  intro H. apply andb_prop in H. destruct H as [H H3]. rewrite H. simpl. apply alias_shape. exact H3.
Qed.
Lemma aliases_ok st its consts : oks st its -> oks st (resolve_register_aliases its consts).
Proof.
  unfold oks, resolve_register_aliases. induction 1 as [|[l it] r H _ IH]; simpl; constructor; auto.
  destruct it; simpl in *; auto.
  apply andb_prop in H. destruct H as [Ha Hb]. rewrite Ha. simpl. apply alias_instr_ok. exact Hb.
Qed.

(* ---- resolve_aligns ------------------------------------------------------------------------------------------------- *)
Lemma align_rule_good l it p ls : okb 2 it = true -> is_label it = None -> good (oki 3) (align_rule l it p ls).
Proof.
  intros H _. destruct it; cbn [align_rule];
    try (apply good_done; constructor; [apply ok_2_3; auto; exact I|constructor]).
  simpl in H. apply Z.leb_le in H.
  destruct (n =? 0) eqn:E. apply Z.eqb_eq in E. lia.
  cbv zeta. destruct ((if _ =? n then 0 else _) =? 0); apply good_done; repeat constructor.
Qed.

(* ---- resolve_immediates --------------------------------------------------------------------------------------------- *)
Lemma oks_rev st a : oks st a -> oks st (rev a).
Proof. unfold oks. apply Forall_rev. Qed.
Lemma imm_of_good l pos consts labels v : val_okb false v = true -> good (fun _ => True) (imm_of l pos consts labels v).
Proof.
  destruct v; simpl; try discriminate. intro H. unfold eval_here, of_pres.
  destruct (eeval _ _ _ _ _ _ e) as [z|[l'|x]] eqn:E; try exact I.
  exfalso. eapply (eeval_no_raw relocate_hi relocate_lo l pos (chain_get consts labels) e x); eauto.
Qed.
Lemma imm_not_flag k : String.eqb k "imm" = true -> is_flag_key k = false /\ is_ghost_key k = false.
Proof. intro E. apply String.eqb_eq in E. subst. split; reflexivity. Qed.
Lemma shape_imm_val : forall fs keys v,
  shape_okb false keys fs = true -> assoc_str "imm" fs = Some v -> val_okb false v = true.
Proof.
  induction fs as [|[k w] r IH]; intros keys v H A; [discriminate|].
  cbn [assoc_str] in A. cbn [shape_okb] in H. rewrite String.eqb_sym in A.
  destruct (String.eqb k "imm") eqn:E.
  - inversion A; subst w. destruct (imm_not_flag _ E) as [F G]. rewrite F, G in H.
    destruct keys as [|k' ks]; [discriminate|]. apply andb_prop in H. destruct H as [H _]. apply andb_prop in H. tauto.
  - destruct (is_flag_key k). { apply andb_prop in H. destruct H. eauto. }
    destruct (is_ghost_key k). { eauto. }
    destruct keys as [|k' ks]; [discriminate|]. apply andb_prop in H. destruct H. eauto.
Qed.
Lemma shape_post_noimm : forall fs keys,
  count_occ string_dec keys "imm"%string = 0%nat -> shape_okb false keys fs = true -> shape_okb true keys fs = true.
Proof.
  induction fs as [|[k w] r IH]; intros keys C H; [exact H|]. cbn [shape_okb] in *.
  destruct (is_flag_key k). { apply andb_prop in H. destruct H as [A B]. rewrite A. simpl. auto. }
  destruct (is_ghost_key k). { auto. }
  destruct keys as [|k' ks]; [discriminate|].
  apply andb_prop in H. destruct H as [A B]. apply andb_prop in A. destruct A as [A1 A2]. rewrite A1. simpl.
  apply String.eqb_eq in A1. subst k'. simpl in C. destruct (string_dec k "imm") as [->|Hn]; [discriminate|].
  apply String.eqb_neq in Hn. rewrite Hn in *. rewrite A2. simpl. auto.
Qed.
Lemma shape_post_set z : forall fs keys,
  imm_once keys = true -> shape_okb false keys fs = true -> shape_okb true keys (field_set "imm" (FInt z) fs) = true.
Proof.
  induction fs as [|[k w] r IH]; intros keys C H; [exact H|]. cbn [field_set]. cbn [shape_okb] in H.
  destruct (String.eqb k "imm") eqn:E.
  - destruct (imm_not_flag _ E) as [F G]. cbn [shape_okb]. rewrite F, G in *. rewrite E in *.
    destruct keys as [|k' ks]; [discriminate|].
    apply andb_prop in H. destruct H as [A B]. apply andb_prop in A. destruct A as [A1 A2]. rewrite A1. simpl.
    apply shape_post_noimm; auto.
    apply String.eqb_eq in A1, E. subst. unfold imm_once in C. simpl in C.
    destruct (string_dec "imm" "imm"); [|congruence]. apply Nat.leb_le in C. lia.
  - cbn [shape_okb]. destruct (is_flag_key k). { apply andb_prop in H. destruct H as [A B]. rewrite A. simpl. auto. }
    destruct (is_ghost_key k). { auto. }
    destruct keys as [|k' ks]; [discriminate|].
    apply andb_prop in H. destruct H as [A B]. apply andb_prop in A. destruct A as [A1 A2]. rewrite A1, E in *. rewrite A2. simpl.
    apply IH; auto. apply String.eqb_eq in A1. subst k'. unfold imm_once in *. simpl in C.
    destruct (string_dec k "imm") as [->|Hn]; auto. rewrite String.eqb_refl in E. discriminate.
Qed.
Lemma shape_post_none : forall fs keys,
  assoc_str "imm" fs = None -> shape_okb false keys fs = true -> shape_okb true keys fs = true.
Proof.
  induction fs as [|[k w] r IH]; intros keys A H; [exact H|]. cbn [shape_okb] in *. cbn [assoc_str] in A.
  rewrite String.eqb_sym in A. destruct (String.eqb k "imm") eqn:E; [discriminate|].
  destruct (is_flag_key k). { apply andb_prop in H. destruct H as [P Q]. rewrite P. simpl. auto. }
  destruct (is_ghost_key k). { auto. }
  destruct keys as [|k' ks]; [discriminate|].
  apply andb_prop in H. destruct H as [P Q]. rewrite P. simpl. auto.
Qed.
Lemma ok_3_4 it : okb 3 it = true ->
  (match it with IInstr _ _ _ _ | IPack _ _ | IShort _ _ => False | _ => True end) -> okb 4 it = true.
Proof. destruct it; simpl; auto; try discriminate; contradiction. Qed.
Lemma immediates_good its : forall pos consts labels acc,
  oks 3 its -> oks 4 acc -> good (oks 4) (resolve_immediates its pos consts labels acc).
Proof.
  induction its as [|[l it] r IH]; intros pos consts labels acc H Ha. { simpl. apply oks_rev. exact Ha. }
  inversion H as [|? ? H1 H2]; subst. simpl in H1.
  destruct it; cbn [resolve_immediates];
    try (eapply good_bind; [eapply size_good; eauto|intros sz0 _; apply IH; auto; constructor; auto; apply ok_3_4; auto; exact I]).
  - (* IInstr *)
    cbn [okb Nat.leb Nat.eqb andb] in H1. unfold instr_okb in H1.
    destruct (assoc_str cls class_sig) as [[names kinds]|] eqn:Es; try discriminate.
    destruct (class_keys cls) as [keys|] eqn:Ek; try discriminate.
    apply andb_prop in H1. destruct H1 as [H1 Hs]. apply andb_prop in H1. destruct H1 as [Hn Hc].
    unfold field_get. destruct (assoc_str "imm" fields) as [v|] eqn:Ei.
    + eapply good_bind. apply imm_of_good. eapply shape_imm_val; eauto. intros imm _.
      apply IH; auto. constructor; auto. cbn [snd okb Nat.leb Nat.eqb andb]. unfold instr_okb. rewrite Es, Ek, Hn, Hc. simpl.
      apply shape_post_set; auto.
    + apply IH; auto. constructor; auto. cbn [snd okb Nat.leb Nat.eqb andb]. unfold instr_okb. rewrite Es, Ek, Hn, Hc. simpl.
      apply shape_post_none; auto.
  - (* IPack *)
    cbn [okb Nat.leb andb] in H1.
    eapply good_bind. apply imm_of_good. exact H1. intros z _.
    eapply good_bind. eapply (size_good 3). simpl. exact H1. intros sz0 _.
    apply IH; auto. constructor; auto.
  - (* IShort *)
    cbn [okb Nat.leb andb] in H1. apply andb_prop in H1. destruct H1 as [Hf Hv].
    eapply good_bind. apply imm_of_good. exact Hv. intros z _.
    eapply good_bind. eapply (size_good 3). simpl. rewrite Hf. exact Hv. intros sz0 _.
    apply IH; auto. constructor; auto. simpl. rewrite Hf. reflexivity.
Qed.

(* ---- resolve_instructions ------------------------------------------------------------------------------------------- *)
Lemma shape_args : forall fs keys, shape_okb true keys fs = true -> Forall2 kind_ok (map kind_of_key keys) (args_of fs).
Proof.
  induction fs as [|[k v] r IH]; intros keys H.
  - destruct keys; [constructor|discriminate].
  - cbn [shape_okb] in H. cbn [args_of]. fold (is_flag_key k). fold (is_ghost_key k).
    destruct (is_flag_key k). { apply andb_prop in H. destruct H. auto. }
    destruct (is_ghost_key k). { auto. }
    destruct keys as [|k' ks]; [discriminate|].
    apply andb_prop in H. destruct H as [A B]. apply andb_prop in A. destruct A as [A1 A2].
    apply String.eqb_eq in A1. subst k'. cbn [map]. unfold kind_of_key at 1.
    destruct (String.eqb k "imm").
    + destruct v; try discriminate. simpl. constructor; auto. simpl. eauto.
    + destruct v; try discriminate. simpl. constructor; auto. exact I.
Qed.
Section Instr.
Hypothesis Henc : forall cls name args names kinds,
  assoc_str cls class_sig = Some (names, kinds) -> mem_str name names = true -> Forall2 kind_ok kinds args ->
  only_ve (encode_call cls name args).
Lemma encode_item_good l cls name fs c : instr_okb true cls name fs = true -> good (fun _ => True) (encode_item l cls name fs c).
Proof.
  unfold instr_okb. destruct (assoc_str cls class_sig) as [[names kinds]|] eqn:Es; try discriminate.
  destruct (class_keys cls) as [keys|] eqn:Ek; try discriminate.
  intro H. apply andb_prop in H. destruct H as [H Hs]. apply andb_prop in H. destruct H as [Hn _].
  pose proof (Henc cls name (args_of fs) names kinds Es Hn) as E.
  rewrite (sig_kinds _ _ _ _ Es Ek) in E. specialize (E (shape_args _ _ Hs)).
  unfold encode_item. unfold encode_call in E.
  destruct (if is_atomic_cls cls then _ else _) as [code|[]]; simpl in E; try contradiction; exact I.
Qed.
Lemma ok_4_5 it : okb 4 it = true -> (match it with IInstr _ _ _ _ => False | _ => True end) -> okb 5 it = true.
Proof. destruct it; simpl; auto; try discriminate; contradiction. Qed.
Lemma instructions_good its : forall acc, oks 4 its -> oks 5 acc -> good (oks 5) (resolve_instructions its acc).
Proof.
  induction its as [|[l it] r IH]; intros acc H Ha. { simpl. apply oks_rev. exact Ha. }
  inversion H as [|? ? H1 H2]; subst. simpl in H1.
  destruct it; cbn [resolve_instructions]; try (apply IH; auto; constructor; auto; apply ok_4_5; auto; exact I).
  eapply good_bind. apply encode_item_good. exact H1. intros bs _. apply IH; auto. constructor; auto.
Qed.
End Instr.

(* ---- data passes ---------------------------------------------------------------------------------------------------- *)
Lemma strings_ok its : oks 5 its -> oks 6 (resolve_strings its).
Proof.
  unfold oks, resolve_strings. induction 1 as [|[l it] r H _ IH]; simpl; constructor; auto.
  destruct it; simpl in *; auto; discriminate.
Qed.
Lemma ok_6_7 it : okb 6 it = true -> (match it with ISeq _ _ => False | _ => True end) -> okb 7 it = true.
Proof. destruct it; simpl; auto; try discriminate; contradiction. Qed.
Lemma sequences_good its : forall acc, oks 6 its -> oks 7 acc -> good (oks 7) (resolve_sequences its acc).
Proof.
  induction its as [|[l it] r IH]; intros acc H Ha. { simpl. apply oks_rev. exact Ha. }
  inversion H as [|? ? H1 H2]; subst. cbn [snd] in H1.
  destruct it; cbn [okb Nat.leb Nat.eqb andb] in H1; cbn [resolve_sequences]; try (apply IH; auto; constructor; auto; apply ok_6_7; auto; exact I).
  destruct (negb (all_ints vals)); [exact I|].
  destruct (seq_fmt name) as [f|]; [|discriminate].
  eapply good_bind with (Q := fun _ => True).
  - destruct (seq_bytes l f vals) as [bs|[l'|x]|] eqn:E; try exact I. exfalso. eapply seq_bytes_no_raw; eauto.
  - intros bs _. apply IH; auto. constructor; auto.
Qed.
Lemma ok_7_8 it : okb 7 it = true -> (match it with IShort _ _ => False | _ => True end) -> okb 8 it = true.
Proof. destruct it; simpl; auto; try discriminate; contradiction. Qed.
Lemma shorthand_good its : forall acc, oks 7 its -> oks 8 acc -> good (oks 8) (transform_shorthand its acc).
Proof.
  induction its as [|[l it] r IH]; intros acc H Ha. { simpl. apply oks_rev. exact Ha. }
  inversion H as [|? ? H1 H2]; subst. cbn [snd] in H1.
  destruct it; cbn [okb Nat.leb Nat.eqb andb] in H1; cbn [transform_shorthand]; try (apply IH; auto; constructor; auto; apply ok_7_8; auto; exact I).
  apply andb_prop in H1. destruct H1 as [Hf Hv]. destruct imm; try discriminate.
  destruct (short_fmt name) as [f|]; [|discriminate]. apply IH; auto. constructor; auto.
Qed.
Lemma ok_8_9 it : okb 8 it = true -> (match it with IPack _ _ => False | _ => True end) -> okb 9 it = true.
Proof. destruct it; simpl; auto; try discriminate; contradiction. Qed.
Lemma packs_good its : forall acc, oks 8 its -> oks 9 acc -> good (oks 9) (resolve_packs its acc).
Proof.
  induction its as [|[l it] r IH]; intros acc H Ha. { simpl. apply oks_rev. exact Ha. }
  inversion H as [|? ? H1 H2]; subst. cbn [snd] in H1.
  destruct it; cbn [okb Nat.leb Nat.eqb andb] in H1; cbn [resolve_packs]; try (apply IH; auto; constructor; auto; apply ok_8_9; auto; exact I).
  destruct imm; try exact I. destruct (struct_pack fmt z) as [[bs|e]|]; try exact I. apply IH; auto. constructor; auto.
Qed.
Lemma include_bytes_good its : forall acc, oks 9 its -> oks 9 acc -> good (oks 9) (resolve_include_bytes its acc).
Proof.
  induction its as [|[l it] r IH]; intros acc H Ha. { simpl. apply oks_rev. exact Ha. }
  inversion H as [|? ? H1 H2]; subst. cbn [snd] in H1.
  destruct it; cbn [okb Nat.leb Nat.eqb andb] in H1; cbn [resolve_include_bytes]; try (apply IH; auto; constructor; auto).
  destruct actual as [n|]; [|discriminate]. rewrite H1. apply IH; auto. constructor; auto.
Qed.
Lemma blobs_good its : oks 9 its -> good (fun _ => True) (resolve_blobs its).
Proof.
  induction 1 as [|[l it] r H _ IH]. exact I. simpl in H.
  destruct it; cbn [resolve_blobs]; try discriminate; try exact IH;
    (eapply good_bind; [exact IH|intros; exact I]).
Qed.
