(* C12, positive half -- one instruction item and the generated encoders: acceptance as a property of the argument list,
   the immediate is the last argument, the registers an accepted 32-bit instruction names are valid. *)
From Coq Require Import ZArith List Bool Lia String Arith.
From BB Require Import Base.Bits Base.PyBase Gen.Encoders Gen.Criteria Spec.RV32 Spec.RVC Spec.Operands Spec.Legal
  Model.Items Model.Encode Model.Passes Proofs.Regs Proofs.Layout Proofs.Errors Proofs.EncSig Proofs.NoRaw Proofs.Rules Proofs.RulesMain
  Proofs.C06Main Proofs.C01Main Proofs.AcceptMono Proofs.AcceptCompress.
Import ListNotations.
Open Scope Z_scope.
Local Open Scope list_scope.

Lemma encode_item_accepts l cls name fs c : is_atomic_cls cls = false ->
  ((exists bs, encode_item l cls name fs c = Done bs) <-> accepts name (args_of fs)).
Proof.
  intro Ha. unfold encode_item, accepts. rewrite Ha. split.
  - intros [bs H]. destruct (encode name (args_of fs) []) as [w|e]; eauto. destruct e; try discriminate; destruct conv_instr_ve; discriminate.
  - intros [w ->]. eauto.
Qed.

(* ---- the immediate is the last argument ---------------------------------------------------------------------------------------- *)
Lemma flag_not_imm k : is_flag_key k = true -> String.eqb k "imm" = false.
Proof. unfold is_flag_key. intro H. apply String.eqb_eq in H. subst. reflexivity. Qed.
Lemma ghost_not_imm k : is_ghost_key k = true -> String.eqb k "imm" = false.
Proof. intro H. destruct (String.eqb k "imm") eqn:E; auto. apply String.eqb_eq in E. subst. discriminate. Qed.
Lemma args_nokeys post : forall fs, shape_okb post [] fs = true -> args_of fs = [].
Proof.
  induction fs as [|[k v] r IH]; intro H. reflexivity. cbn [shape_okb] in H. cbn [args_of]. fold (is_flag_key k). fold (is_ghost_key k).
  destruct (is_flag_key k). { apply andb_prop in H. destruct H. auto. }
  destruct (is_ghost_key k). { auto. } discriminate.
Qed.
Lemma args_set_imm : forall fs rk, shape_okb false (rk ++ ["imm"%string]) fs = true -> ~ In "imm"%string rk ->
  exists pre, forall z, args_of (field_set "imm" (FInt z) fs) = pre ++ [AInt z].
Proof.
  induction fs as [|[k v] r IH]; intros rk H N.
  - destruct rk; discriminate.
  - cbn [shape_okb] in H. cbn [field_set].
    destruct (is_flag_key k) eqn:F.
    { apply andb_prop in H. destruct H as [_ H]. destruct (IH _ H N) as [pre Hp]. exists pre. intro z.
      rewrite (flag_not_imm _ F). cbn [args_of]. fold (is_flag_key k). rewrite F. apply Hp. }
    destruct (is_ghost_key k) eqn:G.
    { destruct (IH _ H N) as [pre Hp]. exists pre. intro z.
      rewrite (ghost_not_imm _ G). cbn [args_of]. fold (is_flag_key k). fold (is_ghost_key k). rewrite F, G. apply Hp. }
    destruct rk as [|k1 rk]; cbn [app] in H.
    + apply andb_prop in H. destruct H as [A B]. apply andb_prop in A. destruct A as [A1 A2].
      rewrite A1. exists []. intro z. cbn [args_of app]. change (String.eqb "imm" "is_auipc_jump") with false.
      change (String.eqb (substring 0 1 "imm") "#") with false. cbv iota. cbn [arg_of_fval].
      apply String.eqb_eq in A1. subst k. rewrite (args_nokeys _ _ B). reflexivity.
    + apply andb_prop in H. destruct H as [A B]. apply andb_prop in A. destruct A as [A1 A2].
      apply String.eqb_eq in A1. subst k1.
      assert (E : String.eqb k "imm" = false).
      { destruct (String.eqb k "imm") eqn:E; auto. apply String.eqb_eq in E. subst. exfalso. apply N. left. reflexivity. }
      rewrite E in *. destruct (IH _ B (fun X => N (or_intror X))) as [pre Hp].
      destruct v; try discriminate. exists (a :: pre). intro z. cbn [args_of]. fold (is_flag_key k). fold (is_ghost_key k). rewrite F, G.
      cbn [arg_of_fval app]. f_equal. apply Hp.
Qed.

(* keys of the form rk ++ [imm] *)
Definition imm_last (keys : list string) : Prop := exists rk, keys = rk ++ ["imm"%string] /\ ~ In "imm"%string rk.

Theorem jump_mono l cls name fs c keys z z' :
  imm_last keys -> shape_okb false keys fs = true -> is_atomic_cls cls = false -> In name jnames ->
  (exists bs, encode_item l cls name (field_set "imm" (FInt z) fs) c = Done bs) -> imm_legal name z' = true ->
  exists bs, encode_item l cls name (field_set "imm" (FInt z') fs) c = Done bs.
Proof.
  intros (rk & -> & N) Hs Ha Hn He Hl. destruct (args_set_imm _ _ Hs N) as [pre Hp].
  apply (encode_item_accepts l cls name _ c Ha). apply (encode_item_accepts l cls name _ c Ha) in He.
  rewrite Hp in *. eapply enc_imm_mono; eauto.
Qed.
Theorem jump_legal l cls name fs c keys z :
  imm_last keys -> shape_okb false keys fs = true -> is_atomic_cls cls = false -> In name jnames ->
  (exists bs, encode_item l cls name (field_set "imm" (FInt z) fs) c = Done bs) -> imm_legal name z = true.
Proof.
  intros (rk & -> & N) Hs Ha Hn He. destruct (args_set_imm _ _ Hs N) as [pre Hp].
  apply (encode_item_accepts l cls name _ c Ha) in He. rewrite Hp in He. eapply enc_imm_legal; eauto.
Qed.

(* ---- the registers of an accepted 32-bit instruction ------------------------------------------------------------------------- *)
Definition keys_plain (keys : list string) : bool := forallb (fun k => negb (is_flag_key k) && negb (is_ghost_key k)) keys.
Fixpoint nodupb (l : list string) : bool := match l with [] => true | x :: r => negb (mem_str x r) && nodupb r end.
Lemma nodupb_NoDup l : nodupb l = true -> NoDup l.
Proof.
  induction l as [|x r IH]; cbn [nodupb]; intro H. constructor. apply andb_prop in H. destruct H as [A B].
  constructor; auto. intro Hin. apply negb_true_iff in A. assert (mem_str x r = true); [|congruence].
  unfold mem_str. apply existsb_exists. exists x. split; auto. apply String.eqb_refl.
Qed.
Fixpoint kr_okb (keys : list string) (ks : list Operands.okind) : bool :=
  match keys, ks with
  | [], [] => true
  | k :: keys', kd :: ks' => (String.eqb k "imm" || match kd with KReg => true | _ => false end) && kr_okb keys' ks'
  | _, _ => false
  end.
Definition rule_mnems : list string :=
  ["addi"; "andi"; "lw"; "jalr"; "sw"; "beq"; "bne"; "lui"; "jal"; "add"; "sub"; "xor"; "or"; "and"; "slli"; "srli"; "srai"; "ebreak"]%string.
Lemma orig_in n ofs : orig_fields n = Some ofs -> In n rule_mnems.
Proof.
  unfold orig_fields. intro H.
  destruct (mem_str n ["addi"; "andi"; "lw"; "jalr"]%string) eqn:E1.
  { apply mem_in in E1. cbn [In] in E1. intuition (subst; apply mem_in; vm_compute; reflexivity). }
  destruct (mem_str n ["sw"; "beq"; "bne"]%string) eqn:E2.
  { apply mem_in in E2. cbn [In] in E2. intuition (subst; apply mem_in; vm_compute; reflexivity). }
  destruct (mem_str n ["lui"; "jal"]%string) eqn:E3.
  { apply mem_in in E3. cbn [In] in E3. intuition (subst; apply mem_in; vm_compute; reflexivity). }
  destruct (mem_str n ["add"; "sub"; "xor"; "or"; "and"; "slli"; "srli"; "srai"]%string) eqn:E4.
  { apply mem_in in E4. cbn [In] in E4. intuition (subst; apply mem_in; vm_compute; reflexivity). }
  destruct (mem_str n ["ebreak"]%string) eqn:E5.
  { apply mem_in in E5. cbn [In] in E5. intuition (subst; apply mem_in; vm_compute; reflexivity). }
  discriminate.
Qed.
Lemma orig_table :
  forallb (fun n => match orig_fields n, sassoc n kinds32 with
                    | Some ofs, Some (ks, false) => kr_okb ofs ks && keys_plain ofs && nodupb ofs && mem_str n base_mnemonics
                    | _, _ => false end) rule_mnems = true.
Proof. vm_compute. reflexivity. Qed.

Lemma Forall2_impl_in {A B} (R S : A -> B -> Prop) l1 l2 :
  (forall a b, In a l1 -> R a b -> S a b) -> Forall2 R l1 l2 -> Forall2 S l1 l2.
Proof. intros H F. induction F; constructor. apply H; [left; reflexivity|assumption]. apply IHF. intros; apply H; [right|]; assumption. Qed.

Definition arg_of (v : fval) : arg := match arg_of_fval v with Some a => a | None => AStr "<expr>" end.
Lemma shape_args_fields post : forall fs keys, shape_okb post keys fs = true -> keys_plain keys = true -> NoDup keys ->
  Forall2 (fun k a => exists v, field_get k fs = Some v /\ a = arg_of v) keys (args_of fs).
Proof.
  unfold field_get. induction fs as [|[k0 v] r IH]; intros keys H P D.
  - destruct keys; [constructor|discriminate].
  - cbn [shape_okb] in H. cbn [args_of]. fold (is_flag_key k0). fold (is_ghost_key k0).
    assert (Lift : forall ks, keys_plain ks = true -> (is_flag_key k0 = true \/ is_ghost_key k0 = true) ->
              Forall2 (fun k a => exists v0, assoc_str k r = Some v0 /\ a = arg_of v0) ks (args_of r) ->
              Forall2 (fun k a => exists v0, assoc_str k ((k0, v) :: r) = Some v0 /\ a = arg_of v0) ks (args_of r)).
    { intros ks Pk FG. apply Forall2_impl_in. intros k a Hin (v0 & E & Ea). exists v0. split; auto. cbn [assoc_str].
      unfold keys_plain in Pk. rewrite forallb_forall in Pk. specialize (Pk _ Hin). apply andb_prop in Pk. destruct Pk as [P1 P2].
      apply negb_true_iff in P1, P2. destruct FG as [F|G].
      - rewrite (flag_neq _ _ P1 F). exact E.
      - rewrite (ghost_neq _ _ P2 G). exact E. }
    destruct (is_flag_key k0) eqn:F. { apply andb_prop in H. destruct H as [_ H]. apply Lift; auto. }
    destruct (is_ghost_key k0) eqn:G. { apply Lift; auto. }
    destruct keys as [|k' ks]; [discriminate|].
    apply andb_prop in H. destruct H as [A B]. apply andb_prop in A. destruct A as [A1 A2]. apply String.eqb_eq in A1. subst k'.
    cbn [keys_plain forallb] in P. apply andb_prop in P. destruct P as [_ P]. inversion D as [|? ? D1 D2]; subst.
    assert (Eav : (match arg_of_fval v with Some a => a :: args_of r | None => AStr "<expr>" :: args_of r end) = arg_of v :: args_of r)
      by (unfold arg_of; destruct (arg_of_fval v); reflexivity).
    rewrite Eav. constructor.
    + exists v. cbn [assoc_str]. rewrite String.eqb_refl. split; reflexivity.
    + eapply Forall2_impl_in; [|apply (IH ks B P D2)]. intros k a Hin (v0 & E & Ea). exists v0. split; auto. cbn [assoc_str].
      destruct (String.eqb k k0) eqn:Ek; auto. apply String.eqb_eq in Ek. subst. contradiction.
Qed.
Lemma reads_regs fs : forall keys args, Forall2 (fun k a => exists v, field_get k fs = Some v /\ a = arg_of v) keys args ->
  forall ks ops, read_ops ks args = Some ops -> kr_okb keys ks = true ->
  forall k a, In k keys -> String.eqb k "imm" = false -> field_get k fs = Some (FReg a) -> exists n, regnum a = Some n.
Proof.
  induction 1 as [|k0 a0 keys args (v0 & E0 & A0) _ IH]; intros ks ops R K k a Hin Ei Hg. contradiction.
  destruct ks as [|kd ks]; [discriminate|]. cbn [kr_okb] in K. apply andb_prop in K. destruct K as [K1 K2].
  cbn [read_ops] in R. destruct (read_op kd a0) as [x|] eqn:Rx; try discriminate. destruct (read_ops ks args) as [xs|] eqn:Rs; try discriminate.
  destruct Hin as [<-|Hin].
  - rewrite Ei in K1. cbn [orb] in K1. destruct kd; try discriminate. rewrite Hg in E0. inversion E0; subst v0. cbn in A0. subst a0.
    cbn [read_op] in Rx. eauto.
  - eapply IH; eauto.
Qed.

Theorem regs_from_encode cls name fs w :
  instr_okb true cls name fs = true -> orig_fields name <> None -> encode name (args_of fs) [] = Ok w -> regs_valid fs.
Proof.
  intros Hok Ho He. unfold instr_okb in Hok.
  destruct (assoc_str cls class_sig) as [[names kinds]|] eqn:Es; try discriminate.
  destruct (class_keys cls) as [keys|] eqn:Ek; try discriminate.
  apply andb_prop in Hok. destruct Hok as [Hok Hs]. apply andb_prop in Hok. destruct Hok as [Hn _].
  destruct (orig_fields name) as [ofs|] eqn:Eo; [|congruence].
  pose proof (orig_keys _ _ _ _ _ _ Es Hn Ek Eo) as ->.
  pose proof orig_table as T. rewrite forallb_forall in T. specialize (T _ (orig_in _ _ Eo)). cbv beta in T. rewrite Eo in T.
  destruct (sassoc name kinds32) as [[ks [|]]|] eqn:Ekd; try discriminate.
  apply andb_prop in T. destruct T as [T Tb]. apply andb_prop in T. destruct T as [T Tn]. apply andb_prop in T. destruct T as [Tk Tp].
  destruct (decode_encode _ _ _ _ (mem_in _ _ Tb) He) as (_ & ops & ins & Hops & _).
  unfold operands32 in Hops. rewrite Ekd in Hops.
  pose proof (shape_args_fields _ _ _ Hs Tp (nodupb_NoDup _ Tn)) as F.
  intros k a Rk Hg. destruct (regfield_not_imm _ Rk) as [NI NF].
  assert (Hin : In k ofs).
  { destruct (in_dec string_dec k ofs) as [Hin|Hnin]; auto. exfalso.
    assert (X : assoc_str k fs = None).
    { eapply shape_absent; eauto. unfold is_ghost_key. unfold is_regfield, mem_str in Rk. cbn [existsb] in Rk.
      destruct (String.eqb k "rd") eqn:E1. apply String.eqb_eq in E1; subst; reflexivity.
      destruct (String.eqb k "rs1") eqn:E2. apply String.eqb_eq in E2; subst; reflexivity.
      destruct (String.eqb k "rs2") eqn:E3. apply String.eqb_eq in E3; subst; reflexivity. discriminate. }
    unfold field_get in Hg. rewrite X in Hg. discriminate. }
  destruct (reads_regs fs _ _ F _ _ Hops Tk k a Hin NI Hg) as [n Rn]. exists n. apply lookup_register_spec. exact Rn.
Qed.

(* ---- the classes of the transfer mnemonics have the immediate as their last operand ------------------------------------------- *)
Definition imm_lastb (keys : list string) : bool :=
  match rev keys with k :: r => String.eqb k "imm" && negb (mem_str "imm" r) | [] => false end.
Lemma imm_lastb_ok keys : imm_lastb keys = true -> imm_last keys.
Proof.
  unfold imm_lastb. destruct (rev keys) as [|k r] eqn:E; [discriminate|]. intro H. apply andb_prop in H. destruct H as [A B].
  apply String.eqb_eq in A. subst k. exists (rev r). split.
  - rewrite <- (rev_involutive keys), E. reflexivity.
  - intro Hin. apply in_rev in Hin. apply negb_true_iff in B.
    assert (mem_str "imm" r = true); [|congruence]. unfold mem_str. apply existsb_exists. exists "imm"%string. split; auto.
Qed.
Lemma jump_keys_table :
  forallb (fun c => if existsb (fun n => mem_str n jnames) (fst (snd c))
                    then match class_keys (fst c) with Some keys => imm_lastb keys && negb (is_atomic_cls (fst c)) | None => false end
                    else true) class_sig = true.
Proof. vm_compute. reflexivity. Qed.
Lemma jump_cls_keys cls names kinds name :
  assoc_str cls class_sig = Some (names, kinds) -> mem_str name names = true -> In name jnames ->
  exists keys, class_keys cls = Some keys /\ imm_last keys /\ is_atomic_cls cls = false.
Proof.
  intros A M J. pose proof jump_keys_table as T. rewrite forallb_forall in T. specialize (T _ (assoc_in _ _ _ A)). cbn [fst snd] in T.
  assert (E : existsb (fun n => mem_str n jnames) names = true).
  { apply existsb_exists. exists name. split. apply mem_in; exact M. unfold mem_str. apply existsb_exists. exists name. split; auto. apply String.eqb_refl. }
  rewrite E in T. destruct (class_keys cls) as [keys|]; [|discriminate]. apply andb_prop in T. destruct T as [T1 T2].
  exists keys. split. reflexivity. split. apply imm_lastb_ok; exact T1. apply negb_true_iff in T2. exact T2.
Qed.
