From Coq Require Import ZArith List Bool Lia ZifyBool String.
From BB Require Import Base.Bits Base.PyBase Gen.Encoders Spec.RV32 Spec.Operands Spec.Legal Model.Encode
  Proofs.EncTac Proofs.Enc32 Proofs.Regs Proofs.C01Tac Proofs.C06Tac.
Import ListNotations.
Open Scope Z_scope.
Lemma acc_csrrw : acc_ok "csrrw". Proof. acc "csrrw"%string nf_ic. Qed.
Lemma acc_csrrs : acc_ok "csrrs". Proof. acc "csrrs"%string nf_ic. Qed.
Lemma acc_csrrc : acc_ok "csrrc". Proof. acc "csrrc"%string nf_ic. Qed.
Lemma acc_csrrwi : acc_ok "csrrwi". Proof. acc "csrrwi"%string nf_ic. Qed.
Lemma acc_csrrsi : acc_ok "csrrsi". Proof. acc "csrrsi"%string nf_ic. Qed.
Lemma acc_csrrci : acc_ok "csrrci". Proof. acc "csrrci"%string nf_ic. Qed.
Lemma acc_ecall : acc_ok "ecall". Proof. acc "ecall"%string nf_i. Qed.
Lemma acc_ebreak : acc_ok "ebreak". Proof. acc "ebreak"%string nf_i. Qed.
Lemma acc_fence_i : acc_ok "fence.i". Proof. acc "fence.i"%string nf_i. Qed.
Lemma acc_fence : acc_ok "fence". Proof. acc "fence"%string nf_fence. Qed.
