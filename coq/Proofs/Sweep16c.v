From Coq Require Import ZArith List Bool String.
From BB Require Import Spec.RVC Proofs.Sweep16.
Import ListNotations.
Lemma sweep_c_addi4spn : sweep_name "c.addi4spn" = true. Proof. vm_cast_no_check (eq_refl true). Qed.
Lemma sweep_c_beqz : sweep_name "c.beqz" = true. Proof. vm_cast_no_check (eq_refl true). Qed.
Lemma sweep_c_bnez : sweep_name "c.bnez" = true. Proof. vm_cast_no_check (eq_refl true). Qed.
Lemma sweep_c_lwsp : sweep_name "c.lwsp" = true. Proof. vm_cast_no_check (eq_refl true). Qed.
Lemma sweep_c_swsp : sweep_name "c.swsp" = true. Proof. vm_cast_no_check (eq_refl true). Qed.
