From Coq Require Import ZArith List Bool String.
From BB Require Import Spec.RVC Proofs.Sweep16.
Import ListNotations.
Lemma sweep_c_nop : sweep_name "c.nop" = true. Proof. vm_cast_no_check (eq_refl true). Qed.
Lemma sweep_c_addi : sweep_name "c.addi" = true. Proof. vm_cast_no_check (eq_refl true). Qed.
Lemma sweep_c_jal : sweep_name "c.jal" = true. Proof. vm_cast_no_check (eq_refl true). Qed.
Lemma sweep_c_li : sweep_name "c.li" = true. Proof. vm_cast_no_check (eq_refl true). Qed.
Lemma sweep_c_addi16sp : sweep_name "c.addi16sp" = true. Proof. vm_cast_no_check (eq_refl true). Qed.
Lemma sweep_c_lui : sweep_name "c.lui" = true. Proof. vm_cast_no_check (eq_refl true). Qed.
Lemma sweep_c_srli : sweep_name "c.srli" = true. Proof. vm_cast_no_check (eq_refl true). Qed.
Lemma sweep_c_srai : sweep_name "c.srai" = true. Proof. vm_cast_no_check (eq_refl true). Qed.
Lemma sweep_c_andi : sweep_name "c.andi" = true. Proof. vm_cast_no_check (eq_refl true). Qed.
Lemma sweep_c_sub : sweep_name "c.sub" = true. Proof. vm_cast_no_check (eq_refl true). Qed.
Lemma sweep_c_xor : sweep_name "c.xor" = true. Proof. vm_cast_no_check (eq_refl true). Qed.
Lemma sweep_c_or : sweep_name "c.or" = true. Proof. vm_cast_no_check (eq_refl true). Qed.
Lemma sweep_c_and : sweep_name "c.and" = true. Proof. vm_cast_no_check (eq_refl true). Qed.
Lemma sweep_c_j : sweep_name "c.j" = true. Proof. vm_cast_no_check (eq_refl true). Qed.
Lemma sweep_c_slli : sweep_name "c.slli" = true. Proof. vm_cast_no_check (eq_refl true). Qed.
Lemma sweep_c_jr : sweep_name "c.jr" = true. Proof. vm_cast_no_check (eq_refl true). Qed.
Lemma sweep_c_mv : sweep_name "c.mv" = true. Proof. vm_cast_no_check (eq_refl true). Qed.
Lemma sweep_c_ebreak : sweep_name "c.ebreak" = true. Proof. vm_cast_no_check (eq_refl true). Qed.
Lemma sweep_c_jalr : sweep_name "c.jalr" = true. Proof. vm_cast_no_check (eq_refl true). Qed.
Lemma sweep_c_add : sweep_name "c.add" = true. Proof. vm_cast_no_check (eq_refl true). Qed.
