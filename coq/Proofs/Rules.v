(* The compression rule table (GENERATED: Gen/Criteria.v criteria + construction) against the Spec:
   numeric views, numeric predicate semantics (linked to the generated pred_sem), selection, and the check that a
   selected rule yields a legal compressed instruction of the same meaning.  The finite sweeps are in RulesSweep*.v. *)
From Coq Require Import ZArith List Bool Lia String.
From BB Require Import Base.Bits Base.PyBase Gen.Encoders Gen.Criteria Spec.RV32 Spec.RVC Spec.Operands Spec.Legal
  Model.Items Model.Encode Model.Passes.
Import ListNotations.
Open Scope Z_scope.
Open Scope string_scope.

Record nview := { nv_name : string; nv_rd : Z; nv_rs1 : Z; nv_rs2 : Z; nv_imm : Z }.
Definition nreg (v : nview) (f : string) : Z :=
  if String.eqb f "rd" then nv_rd v else if String.eqb f "rs1" then nv_rs1 v else if String.eqb f "rs2" then nv_rs2 v else 0.
Definition is_regfield (f : string) : bool := mem_str f ["rd"; "rs1"; "rs2"].

(* numeric meaning of the nine predicate constructors *)
Definition pred_num (p : pred) (v : nview) : bool :=
  match p with
  | PNameEquals value => String.eqb (nv_name v) value
  | PRegEquals name value => Z.eqb (nreg v name) value
  | PRegNotEquals name value => negb (Z.eqb (nreg v name) value)
  | PRegBetween name lo hi => Z.geb (nreg v name) lo && Z.leb (nreg v name) hi
  | PRegsMatch a b => Z.eqb (nreg v a) (nreg v b)
  | PImmEquals value => Z.eqb (nv_imm v) value
  | PImmNotEquals value => negb (Z.eqb (nv_imm v) value)
  | PImmDivisibleBy value => Z.eqb (Z.modulo (nv_imm v) value) 0
  | PImmBetween lo hi => Z.geb (nv_imm v) lo && Z.leb (nv_imm v) hi
  end.
Definition all_num (ps : list pred) (v : nview) : bool := forallb (fun p => pred_num p v) ps.
Fixpoint select_num (cr : list (string * list pred)) (v : nview) : option string :=
  match cr with
  | [] => None
  | (n, ps) :: r => if all_num ps v then Some n else select_num r v
  end.

(* every register field a predicate names is rd / rs1 / rs2 *)
Definition pred_fields_ok (p : pred) : bool :=
  match p with
  | PRegEquals n _ | PRegNotEquals n _ | PRegBetween n _ _ => is_regfield n
  | PRegsMatch a b => is_regfield a && is_regfield b
  | _ => true
  end.
Definition criteria_fields_ok : bool := forallb (fun r => forallb pred_fields_ok (snd r)) criteria.
Lemma criteria_fields : criteria_fields_ok = true. Proof. vm_compute. reflexivity. Qed.

(* ---- link with the GENERATED predicate semantics over item views ------------------------------------------------- *)
Definition reg_of (i : iview) (f : string) : Z :=
  match iv_attr i f with Ok a => match lookup_register a false with Ok n => n | Err _ => 0 end | Err _ => 0 end.
Definition nview_of (i : iview) : nview :=
  {| nv_name := iv_name i; nv_rd := reg_of i "rd"; nv_rs1 := reg_of i "rs1"; nv_rs2 := reg_of i "rs2";
     nv_imm := match iv_imm i with Ok z => z | Err _ => 0 end |}.

Lemma nreg_of i f : is_regfield f = true -> nreg (nview_of i) f = reg_of i f.
Proof.
  unfold is_regfield, mem_str, nreg. simpl.
  destruct (String.eqb f "rd") eqn:E1. apply String.eqb_eq in E1; subst; reflexivity.
  destruct (String.eqb f "rs1") eqn:E2. apply String.eqb_eq in E2; subst; reflexivity.
  destruct (String.eqb f "rs2") eqn:E3. apply String.eqb_eq in E3; subst; reflexivity.
  discriminate.
Qed.

Lemma pred_link p i b : pred_fields_ok p = true -> pred_sem p i = Ok b -> pred_num p (nview_of i) = b.
Proof.
  destruct p; simpl; intros Hf H.
  - inversion H; reflexivity.
  - rewrite (nreg_of _ _ Hf). unfold reg_of. destruct (iv_attr i name) as [a|e]; simpl in H; try discriminate.
    destruct (lookup_register a false) as [n|e]; simpl in H; try discriminate. inversion H; reflexivity.
  - rewrite (nreg_of _ _ Hf). unfold reg_of. destruct (iv_attr i name) as [a|e]; simpl in H; try discriminate.
    destruct (lookup_register a false) as [n|e]; simpl in H; try discriminate. inversion H; reflexivity.
  - rewrite (nreg_of _ _ Hf). unfold reg_of. destruct (iv_attr i name) as [a|e]; simpl in H; try discriminate.
    destruct (lookup_register a false) as [n|e]; simpl in H; try discriminate. inversion H; reflexivity.
  - apply andb_prop in Hf. destruct Hf as [Ha Hb]. rewrite (nreg_of _ _ Ha), (nreg_of _ _ Hb). unfold reg_of.
    destruct (iv_attr i a) as [x|e]; simpl in H; try discriminate.
    destruct (lookup_register x false) as [n|e]; simpl in H; try discriminate.
    destruct (iv_attr i b0) as [y|e]; simpl in H; try discriminate.
    destruct (lookup_register y false) as [m|e]; simpl in H; try discriminate. inversion H; reflexivity.
  - destruct (iv_imm i) as [z|e]; simpl in H; try discriminate. inversion H; reflexivity.
  - destruct (iv_imm i) as [z|e]; simpl in H; try discriminate. inversion H; reflexivity.
  - destruct (iv_imm i) as [z|e]; simpl in H; try discriminate. inversion H; reflexivity.
  - destruct (iv_imm i) as [z|e]; simpl in H; try discriminate. inversion H; reflexivity.
Qed.

Lemma all_link ps i b : forallb pred_fields_ok ps = true -> all_preds ps i = Ok b -> all_num ps (nview_of i) = b.
Proof.
  revert b. induction ps as [|p ps IH]; intros b Hf H; simpl in *.
  - inversion H; reflexivity.
  - apply andb_prop in Hf. destruct Hf as [Hp Hps].
    destruct (pred_sem p i) as [x|e] eqn:Ep; simpl in H; try discriminate.
    rewrite (pred_link _ _ _ Hp Ep). destruct x; simpl; auto. inversion H; reflexivity.
Qed.

Lemma select_link' cr i r :
  forallb (fun x => forallb pred_fields_ok (snd x)) cr = true ->
  select_rule cr i = Ok r -> select_num cr (nview_of i) = r.
Proof.
  revert r. induction cr as [|[n ps] cr IH]; intros r Hf H; simpl in *.
  - inversion H; reflexivity.
  - apply andb_prop in Hf. destruct Hf as [Hp Hcr].
    destruct (all_preds ps i) as [x|e] eqn:Ea; simpl in H; try discriminate.
    rewrite (all_link _ _ _ Hp Ea). destruct x. inversion H; reflexivity. auto.
Qed.
(* what the GENERATED selection answers on an item is what the numeric selection answers on its numeric view *)
Theorem select_link i r : select_rule criteria i = Ok r -> select_num criteria (nview_of i) = r.
Proof. apply select_link'. exact criteria_fields. Qed.

(* ---- the 32-bit operand order of the mnemonics that have rules ----------------------------------------------------- *)
Definition orig_fields (name : string) : option (list string) :=
  if mem_str name ["addi"; "andi"; "lw"; "jalr"] then Some ["rd"; "rs1"; "imm"]
  else if mem_str name ["sw"; "beq"; "bne"] then Some ["rs1"; "rs2"; "imm"]
  else if mem_str name ["lui"; "jal"] then Some ["rd"; "imm"]
  else if mem_str name ["add"; "sub"; "xor"; "or"; "and"; "slli"; "srli"; "srai"] then Some ["rd"; "rs1"; "rs2"]
  else if mem_str name ["ebreak"] then Some []
  else None.
Definition fval_num (v : nview) (f : string) : Z := if String.eqb f "imm" then nv_imm v else nreg v f.
Definition cfield_num (v : nview) (c : cfield) : option Z :=
  match c with
  | FItem a => if String.eqb a "is_auipc_jump" then None else Some (fval_num v a)
  | FArith a => Some (fval_num v a)
  | FArithReg a => Some (nreg v a)
  end.
Definition somes {A} (l : list (option A)) : list A := flat_map (fun o => match o with Some x => [x] | None => [] end) l.

(* same meaning: identical, or `add rd, x0, rs` (expansion of c.mv) for `addi rd, rs, 0` *)
Definition equiv_b (a b : instr) : bool :=
  match a, b with
  | Op ADD rd z rs, OpImm ADDI rd' rs' i => Z.eqb z 0 && Z.eqb i 0 && Z.eqb rd rd' && Z.eqb rs rs'
  | _, _ =>
      let (n1, o1) := name_ops a in let (n2, o2) := name_ops b in
      String.eqb n1 n2 && Nat.eqb (List.length o1) (List.length o2) && forallb (fun p => Z.eqb (fst p) (snd p)) (combine o1 o2)
  end.

(* a selected rule, applied to the numeric view: the compressed operands are LEGAL (so the generated encoder accepts
   them: C06) and name an instruction whose expansion means the same as the 32-bit instruction *)
Definition rule_check (v : nview) (rule : string) : bool :=
  match orig_fields (nv_name v), assoc_str rule construction with
  | Some fs, Some (final, _, cfs) =>
      let pos32 := map (fun f => AInt (fval_num v f)) fs in
      let pos16 := map AInt (somes (map (cfield_num v) cfs)) in
      match operands32 (nv_name v) pos32 [], operands16 final pos16 with
      | Some o32, Some o16 =>
          legal16 final o16 &&
          match denote32 (nv_name v) o32, denote16 final o16 with
          | Some i, Some c => equiv_b (expand_c c) i
          | _, _ => false
          end
      | _, _ => false
      end
  | _, _ => false
  end.

(* ---- sweep domains ---------------------------------------------------------------------------------------------------- *)
Fixpoint zrange_n (lo : Z) (n : nat) : list Z := match n with O => [] | S k => lo :: zrange_n (lo + 1) k end.
Definition zrange (lo hi : Z) : list Z := zrange_n lo (Z.to_nat (hi - lo + 1)).
Lemma in_zrange_n lo n z : lo <= z < lo + Z.of_nat n -> In z (zrange_n lo n).
Proof.
  revert lo. induction n as [|n IH]; intros lo H. simpl in H; lia.
  simpl. destruct (Z.eq_dec lo z); auto. right. apply IH. lia.
Qed.
Lemma in_zrange lo hi z : lo <= z <= hi -> In z (zrange lo hi).
Proof. intro H. unfold zrange. apply in_zrange_n. rewrite Z2Nat.id by lia. lia. Qed.

Definition regs32 : list Z := zrange 0 31.
Fixpoint imm_cands (ps : list pred) : option (list Z) :=
  match ps with
  | [] => None
  | PImmBetween lo hi :: _ => Some (zrange lo hi)
  | PImmEquals v :: _ => Some [v]
  | _ :: r => imm_cands r
  end.
Fixpoint rule_name (ps : list pred) : option string :=
  match ps with [] => None | PNameEquals n :: _ => Some n | _ :: r => rule_name r end.

Definition dom_of (fs : list string) (f : string) (l : list Z) : list Z := if mem_str f fs then l else [0].
Definition domain (ps : list pred) : option (list nview) :=
  match rule_name ps with
  | Some name =>
      match orig_fields name with
      | Some fs =>
          let imms := if mem_str "imm" fs then imm_cands ps else Some [0] in
          match imms with
          | Some is_ =>
              Some (flat_map (fun rd => flat_map (fun rs1 => flat_map (fun rs2 => map (fun imm =>
                      {| nv_name := name; nv_rd := rd; nv_rs1 := rs1; nv_rs2 := rs2; nv_imm := imm |}) is_)
                    (dom_of fs "rs2" regs32)) (dom_of fs "rs1" regs32)) (dom_of fs "rd" regs32))
          | None => None
          end
      | None => None
      end
  | None => None
  end.
(* views: fields the mnemonic does not have are 0 (what nview_of gives for an item of the mnemonic's class) *)
Definition wf_view (v : nview) : Prop :=
  match orig_fields (nv_name v) with
  | Some fs => (mem_str "rd" fs = false -> nv_rd v = 0) /\ (mem_str "rs1" fs = false -> nv_rs1 v = 0) /\
               (mem_str "rs2" fs = false -> nv_rs2 v = 0) /\ (mem_str "imm" fs = false -> nv_imm v = 0)
  | None => True
  end.
Definition regs_ok (v : nview) : Prop := 0 <= nv_rd v <= 31 /\ 0 <= nv_rs1 v <= 31 /\ 0 <= nv_rs2 v <= 31.

Lemma all_num_name ps v name : rule_name ps = Some name -> all_num ps v = true -> nv_name v = name.
Proof.
  induction ps as [|p ps IH]; simpl; intros Hn Ha. discriminate.
  apply andb_prop in Ha. destruct Ha as [Hp Hps].
  destruct p; try (apply IH; assumption). inversion Hn; subst. simpl in Hp. apply String.eqb_eq in Hp. exact Hp.
Qed.
Lemma all_num_imm ps v l : imm_cands ps = Some l -> all_num ps v = true -> In (nv_imm v) l.
Proof.
  induction ps as [|p ps IH]; simpl; intros Hc Ha. discriminate.
  apply andb_prop in Ha. destruct Ha as [Hp Hps].
  destruct p; try (apply IH; assumption).
  - inversion Hc; subst. simpl in Hp. apply Z.eqb_eq in Hp. left; auto.
  - inversion Hc; subst. simpl in Hp. apply andb_prop in Hp. destruct Hp as [H1 H2].
    apply in_zrange. rewrite Z.geb_le in H1. apply Z.leb_le in H2. lia.
Qed.

Lemma in_dom fs f z : (mem_str f fs = false -> z = 0) -> 0 <= z <= 31 -> In z (dom_of fs f regs32).
Proof.
  intros H0 Hr. unfold dom_of. destruct (mem_str f fs). apply in_zrange; lia. left. symmetry; auto.
Qed.

Lemma in_domain ps v d :
  domain ps = Some d -> all_num ps v = true -> wf_view v -> regs_ok v -> In v d.
Proof.
  unfold domain. destruct (rule_name ps) as [name|] eqn:En; try discriminate.
  destruct (orig_fields name) as [fs|] eqn:Ef; try discriminate.
  destruct (if mem_str "imm" fs then imm_cands ps else Some [0]) as [is_|] eqn:Ei; try discriminate.
  intros Hd Ha Hw (R1 & R2 & R3). inversion Hd; subst d; clear Hd.
  pose proof (all_num_name _ _ _ En Ha) as Hname.
  unfold wf_view in Hw. rewrite Hname, Ef in Hw. destruct Hw as (W1 & W2 & W3 & W4).
  assert (Himm : In (nv_imm v) is_).
  { destruct (mem_str "imm" fs) eqn:Em. eapply all_num_imm; eauto. inversion Ei; subst. left. symmetry; auto. }
  apply in_flat_map. exists (nv_rd v). split. apply in_dom; auto.
  apply in_flat_map. exists (nv_rs1 v). split. apply in_dom; auto.
  apply in_flat_map. exists (nv_rs2 v). split. apply in_dom; auto.
  apply in_map_iff. exists (nv_imm v). split; auto. destruct v; simpl in *; subst; reflexivity.
Qed.

(* the sweep of one rule: every view of its domain that passes its predicates AND is the first rule to do so ...
   (first-match is what select_num implements; soundness is checked for the rule's own predicates alone) *)
Definition sweep_rule (r : string * list pred) : bool :=
  match domain (snd r) with
  | Some d => forallb (fun v => if all_num (snd r) v then rule_check v (fst r) else true) d
  | None => false
  end.

Lemma sweep_rule_sound r v :
  sweep_rule r = true -> all_num (snd r) v = true -> wf_view v -> regs_ok v -> rule_check v (fst r) = true.
Proof.
  unfold sweep_rule. destruct (domain (snd r)) as [d|] eqn:Ed; try discriminate.
  intros Hs Ha Hw Hr. rewrite forallb_forall in Hs. specialize (Hs v (in_domain _ _ _ Ed Ha Hw Hr)).
  rewrite Ha in Hs. exact Hs.
Qed.

Lemma select_num_in cr v r : select_num cr v = Some r -> exists ps, In (r, ps) cr /\ all_num ps v = true.
Proof.
  induction cr as [|[n ps] cr IH]; simpl; intro H. discriminate.
  destruct (all_num ps v) eqn:Ea. inversion H; subst. exists ps; auto.
  destruct (IH H) as (ps' & Hi & Ha). exists ps'; auto.
Qed.

(* ---- completeness: the expansion of every legal halfword is selected by some rule ----------------------------------- *)
Definition set_field (v : nview) (f : string) (z : Z) : nview :=
  if String.eqb f "rd" then {| nv_name := nv_name v; nv_rd := z; nv_rs1 := nv_rs1 v; nv_rs2 := nv_rs2 v; nv_imm := nv_imm v |}
  else if String.eqb f "rs1" then {| nv_name := nv_name v; nv_rd := nv_rd v; nv_rs1 := z; nv_rs2 := nv_rs2 v; nv_imm := nv_imm v |}
  else if String.eqb f "rs2" then {| nv_name := nv_name v; nv_rd := nv_rd v; nv_rs1 := nv_rs1 v; nv_rs2 := z; nv_imm := nv_imm v |}
  else if String.eqb f "imm" then {| nv_name := nv_name v; nv_rd := nv_rd v; nv_rs1 := nv_rs1 v; nv_rs2 := nv_rs2 v; nv_imm := z |}
  else v.
(* the numeric view of a 32-bit instruction written with canonical operands *)
Definition view_of_ops (name : string) (ops : list Z) : option nview :=
  match orig_fields name with
  | Some fs =>
      if Nat.eqb (List.length fs) (List.length ops)
      then Some (fold_left (fun v fz => set_field v (fst fz) (snd fz)) (combine fs ops)
                           {| nv_name := name; nv_rd := 0; nv_rs1 := 0; nv_rs2 := 0; nv_imm := 0 |})
      else None
  | None => None
  end.
Definition selected_ok (v : nview) : bool :=
  match select_num criteria v with Some r => rule_check v r | None => false end.
Definition complete_h (h : Z) : bool :=
  match decode16 h with
  | None => true
  | Some c =>
      let (n, ops) := name_ops (expand_c c) in
      match view_of_ops n ops with
      | Some v =>
          selected_ok v &&
          (* lui: the documented second spelling 0x80000..0xfffff of the negative values *)
          match expand_c c with
          | Lui rd imm => if Z.ltb imm 0 then
                            match view_of_ops n [rd; imm + 1048576] with Some v' => selected_ok v' | None => false end
                          else true
          | _ => true
          end
      | None => false
      end
  end.
