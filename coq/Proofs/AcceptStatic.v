(* C12, positive half -- static facts about one instruction item: `ready` (what the uncompressed run shows about an instruction
   of its final list) and `cbuilt` (what the compression rule builds out of a ready instruction). *)
From Coq Require Import ZArith List Bool Lia String Arith.
From BB Require Import Base.Bits Base.PyBase Gen.Encoders Gen.Criteria Spec.RV32 Spec.RVC Spec.Operands Spec.Legal
  Model.Items Model.Encode Model.Passes Proofs.Regs Proofs.Layout Proofs.Errors Proofs.EncSig Proofs.NoRaw Proofs.Rules Proofs.RulesMain
  Proofs.Stable Proofs.AcceptMono Proofs.AcceptCompress Proofs.AcceptItem.
Import ListNotations.
Open Scope Z_scope.
Local Open Scope list_scope.

Definition cjn : list string := ["c.j"; "c.jal"; "c.beqz"; "c.bnez"]%string.

(* ---- tables ------------------------------------------------------------------------------------------------------------------- *)
Definition arith_reg (cfs : list cfield) : option string :=
  match find (fun cf => match cf with FArithReg _ => true | _ => false end) cfs with Some (FArithReg a) => Some a | _ => None end.
Definition opt_str_eqb (a b : option string) : bool :=
  match a, b with Some x, Some y => String.eqb x y | None, None => true | _, _ => false end.
Definition row_one (cfs : list cfield) : bool :=
  forallb (fun cf => match cf with
                     | FArithReg a => opt_str_eqb (arith_reg cfs) (Some a)
                     | FItem a => negb (String.eqb a "imm") || opt_str_eqb (arith_reg cfs) None
                     | _ => true end) cfs.
Lemma rows_one : forallb (fun row => row_one (snd (snd row))) construction = true.
Proof. vm_compute. reflexivity. Qed.
Definition jump_mnems : list string :=
  match assoc_str "BTypeInstruction" class_sig, assoc_str "JTypeInstruction" class_sig with
  | Some (a, _), Some (b, _) => a ++ b | _, _ => [] end.
Lemma jump_rows :
  forallb (fun row => match rule_name (snd row) with
                      | Some n => negb (mem_str n jump_mnems) ||
                                  match assoc_str (fst row) construction with
                                  | Some (final, _, _) => mem_str final cjn && negb (rule_uses_flag (fst row))
                                  | None => false end
                      | None => false end) criteria = true.
Proof. vm_compute. reflexivity. Qed.
Lemma c_not_rule : forallb (fun n => match orig_fields n with None => negb (String.eqb n "jalr") | Some _ => false end) c_mnemonics = true.
Proof. vm_compute. reflexivity. Qed.

Lemma jump_mnems_in cls names kinds name :
  assoc_str cls class_sig = Some (names, kinds) -> (String.eqb cls "BTypeInstruction" || String.eqb cls "JTypeInstruction") = true ->
  mem_str name names = true -> mem_str name jump_mnems = true.
Proof.
  intros A J M. apply orb_prop in J. destruct J as [J|J]; apply String.eqb_eq in J; subst cls; vm_compute in A; inversion A; subst names;
    apply mem_in in M; cbn [In] in M; intuition (subst; vm_compute; reflexivity).
Qed.

Section Static.
Variables (consts : envt) (labs : list string).

(* ---- alias resolution ------------------------------------------------------------------------------------------------------- *)
Definition alias_item (x : litem) : litem :=
  match x with (l, IInstr cls name fs c) => (l, IInstr cls name (map (alias_field consts) fs) c) | _ => x end.
Lemma aliases_map its : resolve_register_aliases its consts = map alias_item its.
Proof. unfold resolve_register_aliases. apply map_ext. intros [l it]; destruct it; reflexivity. Qed.
Definition alias_fixed (fs : list (string * fval)) : Prop := map (alias_field consts) fs = fs.
Lemma alias_idem kv : alias_field consts (alias_field consts kv) = alias_field consts kv.
Proof.
  destruct kv as [k [[z|s]| | |]]; try reflexivity. cbn [alias_field].
  destruct (mem_str k REGS) eqn:E; [|cbn [alias_field]; rewrite E; reflexivity].
  destruct (assoc_str s consts) eqn:A; cbn [alias_field]; rewrite ?E, ?A; reflexivity.
Qed.
Lemma alias_fixed_map fs : alias_fixed (map (alias_field consts) fs).
Proof. unfold alias_fixed. rewrite map_map. apply map_ext. apply alias_idem. Qed.
Lemma alias_fst kv : fst (alias_field consts kv) = fst kv.
Proof. destruct kv as [k [[z|s]| | |]]; try reflexivity. cbn [alias_field]. destruct (mem_str k REGS); [destruct (assoc_str s consts)|]; reflexivity. Qed.
Lemma alias_get k fs : mem_str k REGS = false -> field_get k (map (alias_field consts) fs) = field_get k fs.
Proof.
  intro H. unfold field_get. induction fs as [|[k0 v] r IH]. reflexivity.
  cbn [map]. destruct (alias_field consts (k0, v)) as [k1 v1] eqn:E.
  pose proof (alias_fst (k0, v)) as F. rewrite E in F. cbn [fst] in F. subst k1. cbn [assoc_str].
  destruct (String.eqb k k0) eqn:Ek; [|exact IH]. apply String.eqb_eq in Ek. subst k0.
  destruct v as [[z|s]| | |]; cbn [alias_field] in E; try (inversion E; reflexivity). rewrite H in E. inversion E. reflexivity.
Qed.
Lemma fixed_reg fs a s : alias_fixed fs -> field_get a fs = Some (FReg (AStr s)) -> mem_str a REGS = true -> assoc_str s consts = None.
Proof.
  unfold alias_fixed, field_get. induction fs as [|[k0 v] r IH]; intros F G M. discriminate.
  cbn [map] in F. inversion F as [[F1 F2]]. cbn [assoc_str] in G. destruct (String.eqb a k0) eqn:E.
  - apply String.eqb_eq in E. subst k0. inversion G; subst v. unfold REGS, mem_str in M. cbn [existsb] in M. rewrite M in F1.
    destruct (assoc_str s consts); [discriminate|reflexivity].
  - apply IH; auto.
Qed.
Lemma regfield_REGS a : is_regfield a = true -> mem_str a REGS = true.
Proof.
  unfold is_regfield, REGS, mem_str. cbn [existsb]. intro H.
  destruct (String.eqb a "rd"); [reflexivity|]. destruct (String.eqb a "rs1"); [reflexivity|].
  destruct (String.eqb a "rs2"); [reflexivity|]. discriminate.
Qed.

(* ---- what an instruction of the uncompressed run's final list is known to satisfy ---------------------------------------------- *)
Definition tform (e : expr) (L : string) : Prop := e = EOff L \/ e = EHi (EOff L) \/ e = ELo (EOff L).
Definition is_target (L : string) : Prop := In L labs /\ assoc_str L consts = None.
Definition ready (x : litem) : Prop :=
  match x with
  | (l, IInstr cls name fs c) =>
      instr_okb false cls name fs = true /\ alias_fixed fs /\ (orig_fields name <> None -> regs_valid fs) /\
      (name = "jalr"%string -> field_get "is_auipc_jump" fs <> None) /\
      match field_get "imm" fs with
      | None => exists bs, encode_item l cls name fs c = Done bs
      | Some (FExpr e) =>
          (exists z, is_position_relative e = false /\ eval_consts l 0 consts e = POk z /\
                     exists bs, encode_item l cls name (field_set "imm" (FInt z) fs) c = Done bs)
          \/ (exists L, tform e L /\ is_target L /\ ~ In name cjn)
      | Some _ => False
      end
  | _ => True
  end.
(* ... and what the compression rule builds *)
Definition cbuilt (x : litem) : Prop :=
  match x with
  | (l, IInstr cls' final nfs c) =>
      c = true /\ In final c_mnemonics /\ is_atomic_cls cls' = false /\ instr_okb false cls' final nfs = true /\ alias_fixed nfs /\
      match field_get "imm" nfs with
      | None => accepts final (args_of nfs)
      | Some (FExpr e) =>
          (exists z, (forall pos labels, eval_here l pos consts labels e = Done z) /\
                     accepts final (args_of (field_set "imm" (FInt z) nfs)))
          \/ (exists L d0, e = EOff L /\ is_target L /\ In final cjn /\ field_get "is_auipc_jump" nfs = None /\
                           accepts final (args_of (field_set "imm" (FInt d0) nfs)))
      | Some _ => False
      end
  | _ => False
  end.

Lemma ready_tgt l cls name fs c ls : ready (l, IInstr cls name fs c) ->
  (forall L, In L labs -> exists d, assoc_str L ls = Some d) -> tgt_ok consts ls fs.
Proof.
  intros (_ & _ & _ & _ & Hi) K r Hr Hc. rewrite Hr in Hi. destruct Hi as [(z & Hp & _)|(L & Hf & [HL _] & _)]. discriminate.
  destruct Hf as [E|[E|E]]; inversion E; subst. auto.
Qed.
Lemma cbuilt_tgt l cls name fs c ls : cbuilt (l, IInstr cls name fs c) ->
  (forall L, In L labs -> exists d, assoc_str L ls = Some d) -> tgt_ok consts ls fs.
Proof.
  intros (_ & _ & _ & _ & _ & Hi) K r Hr Hc. rewrite Hr in Hi. destruct Hi as [(z & Hz & _)|(L & d0 & E & [HL _] & _)].
  - exfalso. pose proof (Hz 0 []) as A. pose proof (Hz 1 []) as B. unfold eval_here in A, B. cbn [eeval] in A, B.
    unfold chain_get in A, B. rewrite Hc in A, B. cbn [assoc_str] in A, B. discriminate.
  - inversion E; subst. auto.
Qed.

(* ---- the fields of a built instruction ---------------------------------------------------------------------------------------- *)
Section Zip.
Variables (l : line) (pos : Z) (ls : envt) (name : string) (fs : list (string * fval)) (src : list string).
Hypothesis Hs : shape_okb false src fs = true.
Hypothesis Hr : regs_valid fs.
Let i := view_of l pos consts ls name fs.

Lemma built_imm : forall fnames cfs ks nfs e', cshape_okb src fnames cfs = true -> ck fnames cfs ks = true ->
  zip_fields fnames (map (build_field fs) cfs) = Some nfs -> field_get "imm" nfs = Some (FExpr e') ->
  (In (FItem "imm") cfs /\ field_get "imm" fs = Some (FExpr e')) \/ (exists a, In (FArithReg a) cfs /\ e' = EArith (ANum (reg_of i a))).
Proof.
  induction fnames as [|fn fr IH]; intros cfs ks nfs e' C K Z G.
  - destruct cfs; [|discriminate]. cbn in Z. inversion Z; subst. discriminate.
  - destruct cfs as [|cf cr]; [discriminate|]. cbn [cshape_okb] in C. apply andb_prop in C. destruct C as [C1 C2].
    cbn [map zip_fields] in Z. destruct (build_field fs cf) as [v0|] eqn:Ev; try discriminate.
    destruct (zip_fields fr (map (build_field fs) cr)) as [rest|] eqn:Er; try discriminate. inversion Z; subst nfs. clear Z.
    unfold field_get in G. cbn [assoc_str] in G. cbn [ck] in K.
    assert (Rec : forall ks', ck fr cr ks' = true -> assoc_str "imm" rest = Some (FExpr e') ->
              (In (FItem "imm") (cf :: cr) /\ field_get "imm" fs = Some (FExpr e')) \/
              (exists a, In (FArithReg a) (cf :: cr) /\ e' = EArith (ANum (reg_of i a)))).
    { intros ks' K' G'. destruct (IH _ _ _ _ C2 K' Er G') as [[A B]|(a & A & B)]; [left; split; [right; exact A|exact B]|right; exists a; split; [right; exact A|exact B]]. }
    destruct (is_flag_key fn) eqn:F.
    { rewrite String.eqb_sym, (flag_not_imm _ F) in G. eauto. }
    destruct (is_ghost_key fn); [discriminate|]. destruct ks as [|k ks']; [discriminate|].
    apply andb_prop in K. destruct K as [K1 K2]. rewrite String.eqb_sym in G.
    destruct (String.eqb fn "imm") eqn:Ei; [|eauto].
    inversion G; subst v0. destruct cf; try discriminate.
    + apply String.eqb_eq in K1. subst attr. cbn [build_field] in Ev. left. split. left; reflexivity. exact Ev.
    + cbn [build_field] in Ev. destruct (regkey_field _ _ _ Hs C1) as [r Ha]. rewrite Ha in Ev.
      destruct (Hr _ _ K1 Ha) as [n Hn]. rewrite Hn in Ev. inversion Ev; subst. right. exists attr. split. left; reflexivity.
      unfold reg_of, i. rewrite view_attr, Ha, Hn. reflexivity.
Qed.
Lemma built_flag : forall fnames cfs nfs, cshape_okb src fnames cfs = true ->
  zip_fields fnames (map (build_field fs) cfs) = Some nfs -> field_get "is_auipc_jump" nfs <> None ->
  existsb (fun cf => match cf with FItem a => is_flag_key a | _ => false end) cfs = true.
Proof.
  induction fnames as [|fn fr IH]; intros cfs nfs C Z G.
  - destruct cfs; [|discriminate]. cbn in Z. inversion Z; subst. exfalso. apply G. reflexivity.
  - destruct cfs as [|cf cr]; [discriminate|]. cbn [cshape_okb] in C. apply andb_prop in C. destruct C as [C1 C2].
    cbn [map zip_fields] in Z. destruct (build_field fs cf) as [v0|] eqn:Ev; try discriminate.
    destruct (zip_fields fr (map (build_field fs) cr)) as [rest|] eqn:Er; try discriminate. inversion Z; subst nfs. clear Z.
    unfold field_get in G. cbn [assoc_str] in G. cbn [existsb].
    destruct (is_flag_key fn) eqn:F.
    + destruct cf; try discriminate. rewrite C1. reflexivity.
    + assert (E : String.eqb "is_auipc_jump" fn = false).
      { destruct (String.eqb "is_auipc_jump" fn) eqn:E; auto. apply String.eqb_eq in E. subst fn. discriminate. }
      rewrite E in G. rewrite (IH _ _ C2 Er G). apply orb_true_r.
Qed.
Lemma built_fixed : alias_fixed fs -> forall fnames cfs ks nfs, cshape_okb src fnames cfs = true -> ck fnames cfs ks = true ->
  zip_fields fnames (map (build_field fs) cfs) = Some nfs -> alias_fixed nfs.
Proof.
  intro Hf. unfold alias_fixed. induction fnames as [|fn fr IH]; intros cfs ks nfs C K Z.
  - destruct cfs; [|discriminate]. cbn in Z. inversion Z; subst. reflexivity.
  - destruct cfs as [|cf cr]; [discriminate|]. cbn [cshape_okb] in C. apply andb_prop in C. destruct C as [C1 C2].
    cbn [map zip_fields] in Z. destruct (build_field fs cf) as [v0|] eqn:Ev; try discriminate.
    destruct (zip_fields fr (map (build_field fs) cr)) as [rest|] eqn:Er; try discriminate. inversion Z; subst nfs. clear Z.
    cbn [ck] in K. cbn [map].
    assert (Hd : alias_field consts (fn, v0) = (fn, v0) /\ exists ks', ck fr cr ks' = true);
      [|destruct Hd as [Hd [ks' K']]; rewrite Hd, (IH _ _ _ C2 K' Er); reflexivity].
    destruct (is_flag_key fn) eqn:F.
    { split; [|eauto]. unfold is_flag_key in F. apply String.eqb_eq in F. subst fn.
      destruct v0 as [[z|s]| | |]; reflexivity. }
    destruct (is_ghost_key fn); [discriminate|]. destruct ks as [|k ks']; [discriminate|].
    apply andb_prop in K. destruct K as [K1 K2]. split; [|eauto].
    destruct (String.eqb fn "imm") eqn:Ei.
    { apply String.eqb_eq in Ei. subst fn. destruct v0 as [[z|s]| | |]; reflexivity. }
    destruct cf; try discriminate. destruct k; try discriminate. cbn [build_field] in Ev.
    destruct v0 as [[z|s]| | |]; try reflexivity. cbn [alias_field]. destruct (mem_str fn REGS); [|reflexivity].
    rewrite (fixed_reg fs attr s Hf Ev (regfield_REGS _ K1)). reflexivity.
Qed.
End Zip.

(* ---- from a ready instruction and a selected rule to a built one ---------------------------------------------------------------- *)
Lemma opt_str_eqb_eq a b : opt_str_eqb a b = true -> a = b.
Proof. destruct a, b; cbn; try discriminate; auto. intro H. apply String.eqb_eq in H. congruence. Qed.

Theorem cprod_facts l cls name fs c pos ls rule y :
  ready (l, IInstr cls name fs c) -> tgt_ok consts ls fs ->
  imm_unstable l pos consts cls fs = Done false ->
  select_rule criteria (view_of l pos consts ls name fs) = Ok (Some rule) ->
  build_compressed rule fs = Some y ->
  cbuilt (l, y) /\
  (forall cls' final nfs L, y = IInstr cls' final nfs true -> field_get "imm" nfs = Some (FExpr (EOff L)) ->
     is_target L -> exists d, assoc_str L ls = Some d /\ imm_legal final (d - pos) = true).
Proof.
  intros (Hok & Hfix & Hrv & Hflag & Himm) Ht Eu Es Eb.
  unfold instr_okb in Hok.
  destruct (assoc_str cls class_sig) as [[names kinds]|] eqn:Ecs; try discriminate.
  destruct (class_keys cls) as [keys|] eqn:Ek; try discriminate.
  apply andb_prop in Hok. destruct Hok as [Hok Hs]. apply andb_prop in Hok. destruct Hok as [Hn _].
  destruct (selected_row l consts _ _ _ _ _ Es) as (ps & Hin & Rn & On). specialize (Hrv On).
  destruct (built_row l consts pos ls cls name fs names kinds keys rule y Ecs Ek Hn Hs Es Eb)
    as (final & cls' & cfs & fnames & ks & nfs & Bc & Ek16 & Kck & Csh & Io & Ez & -> & Hat & Hc & Ok3).
  set (i := view_of l pos consts ls name fs) in *.
  set (z := match arith_reg cfs with Some a => reg_of i a | None => nv_imm (nview_of i) end).
  pose proof rows_one as T1. rewrite forallb_forall in T1. specialize (T1 _ (assoc_in _ _ _ Bc)). cbn [snd] in T1.
  unfold row_one in T1. rewrite forallb_forall in T1.
  assert (ZA : forall a, In (FArithReg a) cfs -> z = reg_of i a).
  { intros a Ha. specialize (T1 _ Ha). cbv beta iota in T1. apply opt_str_eqb_eq in T1. unfold z. rewrite T1. reflexivity. }
  assert (ZI : In (FItem "imm") cfs -> z = nv_imm (nview_of i)).
  { intro Ha. specialize (T1 _ Ha). cbv beta iota in T1. cbn [String.eqb Ascii.eqb Bool.eqb andb negb orb] in T1.
    apply opt_str_eqb_eq in T1. unfold z. rewrite T1. reflexivity. }
  destruct (built_accepts l consts pos ls cls name fs names kinds keys rule _ z Ecs Ek Hn Hs Hrv Es Eb) as
      (cls2 & final2 & nfs2 & Ey & Hacc & _).
  { intros f2 c2 cfs2 Bc2. rewrite Bc in Bc2. inversion Bc2; subst. split; assumption. }
  inversion Ey; subst cls2 final2 nfs2. clear Ey.
  assert (Hok' : instr_okb false cls' final nfs = true).
  { specialize (Ok3 1%nat ltac:(lia)). cbn [okb Nat.leb Nat.eqb andb] in Ok3. exact Ok3. }
  assert (Hfx : alias_fixed nfs) by (eapply built_fixed; eauto).
  assert (Hnf : mem_str name jump_mnems = true -> In final cjn /\ field_get "is_auipc_jump" nfs = None).
  { intro Hj. pose proof jump_rows as T. rewrite forallb_forall in T. specialize (T _ Hin). cbn [fst snd] in T.
    rewrite Rn, Hj, Bc in T. cbn [negb orb] in T. apply andb_prop in T. destruct T as [Ta Tb]. split. apply mem_in; exact Ta.
    destruct (field_get "is_auipc_jump" nfs) eqn:G; auto. exfalso.
    assert (X : existsb (fun cf => match cf with FItem a => is_flag_key a | _ => false end) cfs = true).
    { eapply (built_flag fs keys); eauto. rewrite G. discriminate. }
    unfold rule_uses_flag in Tb. rewrite Bc, X in Tb. discriminate. }
  (* the immediate of the built instruction *)
  assert (Himm' : forall e', field_get "imm" nfs = Some (FExpr e') ->
            (field_get "imm" fs = Some (FExpr e') /\ z = nv_imm (nview_of i)) \/ (forall p lb, eval_here l p consts lb e' = Done z)).
  { intros e' G. destruct (built_imm l pos ls name fs keys Hs Hrv _ _ _ _ _ Csh Kck Ez G) as [[A B]|(a & A & ->)].
    - left. split. exact B. apply ZI. exact A.
    - right. intros p lb. rewrite (ZA a A). reflexivity. }
  (* the source immediate, when selection went ahead *)
  assert (Hsrc : forall e, field_get "imm" fs = Some (FExpr e) ->
            (exists zs, (forall p lb, eval_here l p consts lb e = Done zs) /\ nv_imm (nview_of i) = zs) \/
            (exists L d, e = EOff L /\ is_target L /\ mem_str name jump_mnems = true /\ assoc_str L ls = Some d /\ nv_imm (nview_of i) = d - pos)).
  { intros e He. rewrite He in Himm. destruct Himm as [(zs & Hp & Hz & _)|(L & Hf & HL & _)].
    - left. exists zs. assert (Hall : forall p lb, eval_here l p consts lb e = Done zs) by (intros; eapply settled_value; eauto).
      split. exact Hall. specialize (Hall pos ls). unfold eval_here in Hall. unfold i. cbn [nview_of nv_imm view_of iv_imm]. rewrite He.
      destruct (eeval _ _ _ _ _ _ e) as [w|x]; cbn [of_pres] in Hall; inversion Hall. reflexivity.
    - right. unfold imm_unstable in Eu. rewrite He in Eu. cbv zeta in Eu.
      assert (Hj : e = EOff L /\ (String.eqb cls "BTypeInstruction" || String.eqb cls "JTypeInstruction") = true).
      { destruct Hf as [-> | [-> | ->]]; [|exfalso|exfalso].
        - split. reflexivity. destruct (String.eqb cls "BTypeInstruction" || String.eqb cls "JTypeInstruction"); auto.
          cbn [andb] in Eu. unfold is_settled in Eu. cbn [is_position_relative obind negb] in Eu. discriminate.
        - rewrite andb_false_r in Eu. unfold is_settled in Eu. cbn [is_position_relative obind negb] in Eu. discriminate.
        - rewrite andb_false_r in Eu. unfold is_settled in Eu. cbn [is_position_relative obind negb] in Eu. discriminate. }
      destruct Hj as [-> Hj]. destruct HL as [HL1 HL2]. destruct (Ht L He HL2) as [d Hd].
      exists L, d. split. reflexivity. split. split; assumption. split.
      { eapply jump_mnems_in; eauto. }
      split. exact Hd. unfold i. cbn [nview_of nv_imm view_of iv_imm]. rewrite He. cbn [eeval]. unfold chain_get. rewrite HL2, Hd. reflexivity. }
  split.
  - cbn [cbuilt]. split. reflexivity. split. exact Hc. split. exact Hat. split. exact Hok'. split. exact Hfx.
    destruct (field_get "imm" nfs) as [v|] eqn:G.
    + assert (Hv : val_okb false v = true).
      { unfold instr_okb in Hok'. destruct (assoc_str cls' class_sig) as [[n2 k2]|]; try discriminate.
        destruct (class_keys cls') as [keys2|]; try discriminate. apply andb_prop in Hok'. destruct Hok' as [_ S2].
        eapply shape_imm_val; eauto. }
      destruct v as [|e'| |]; try discriminate.
      destruct (Himm' e' eq_refl) as [[A B]|A].
      * destruct (Hsrc e' A) as [(zs & Hall & Hz)|(L & d & -> & HL & Hj & Hd & Hz)].
        -- left. exists zs. split. exact Hall. rewrite <- Hz, <- B. exact Hacc.
        -- right. destruct (Hnf Hj) as [N1 N2]. exists L, z. repeat split; auto; apply HL.
      * left. exists z. split; assumption.
    + rewrite field_set_absent in Hacc by exact G. exact Hacc.
  - intros cls2 final2 nfs2 L Ey G HL. inversion Ey; subst cls2 final2 nfs2.
    destruct (Himm' _ G) as [[A B]|A].
    + destruct (Hsrc _ A) as [(zs & Hall & Hz)|(L' & d & EL & _ & Hj & Hd & Hz)].
      * exfalso. pose proof (Hall 0 []) as P0. pose proof (Hall 1 []) as P1. unfold eval_here in P0, P1. cbn [eeval] in P0, P1.
        unfold chain_get in P0, P1. destruct HL as [_ HL]. rewrite HL in P0, P1. cbn [assoc_str] in P0, P1. discriminate.
      * inversion EL; subst L'. exists d. split. exact Hd. destruct (Hnf Hj) as [N1 N2].
        rewrite <- Hz, <- B.
        unfold instr_okb in Hok'. destruct (assoc_str cls' class_sig) as [[n2 k2]|] eqn:E2; try discriminate.
        destruct (class_keys cls') as [keys2|] eqn:K2; try discriminate. apply andb_prop in Hok'. destruct Hok' as [Hok' S2].
        apply andb_prop in Hok'. destruct Hok' as [Hn2 _].
        assert (J : In final jnames).
        { clear - N1. unfold cjn in N1. unfold jnames. cbn [In] in *. intuition. }
        destruct (jump_cls_keys _ _ _ _ E2 Hn2 J) as (keys3 & K3 & (rk & -> & Nrk) & _). rewrite K2 in K3. inversion K3; subst keys2.
        destruct (args_set_imm _ _ S2 Nrk) as [pre Hp]. rewrite Hp in Hacc. eapply enc_imm_legal; eauto.
    + exfalso. pose proof (A 0 []) as P0. pose proof (A 1 []) as P1. unfold eval_here in P0, P1. cbn [eeval] in P0, P1.
      unfold chain_get in P0, P1. destruct HL as [_ HL]. rewrite HL in P0, P1. cbn [assoc_str] in P0, P1. discriminate.
Qed.
End Static.
