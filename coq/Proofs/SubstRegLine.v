(* C11, register sites, for a SOURCE LINE of the three-register class (add / sub / ... / mul ... and the shifts slli / srli / srai, whose
   shift amount is the third "register"): the token line with constants and the token line with literals parse (parser model) to
   related items, and putting either into any program gives the same result of all passes.  Universally quantified counterpart of the
   computed text examples of Proofs/SubstReg.v, for the class the property's own examples (`add W, W, a1`, `slli a0, a0, SH`) live in. *)
From Coq Require Import ZArith List Bool String.
From BB Require Import Base.PyBase Gen.Encoders Model.Items Model.Passes Model.PyExpr Model.Parser
  Proofs.NoRaw Proofs.EndToEnd Proofs.SubstReg.
Import ListNotations.
Open Scope string_scope.

Lemma r_item_ok name rd rs1 rs2 g :
  In name r3_names ->
  okb 0 (IInstr "RTypeInstruction" name [("rd", R rd); ("rs1", R rs1); ("rs2", R rs2); ("#rs2", FExpr g)] false) = true.
Proof.
  intro Hn. unfold r3_names in Hn. vm_compute in Hn.
  repeat (destruct Hn as [<-|Hn]; [vm_compute; reflexivity|]). contradiction.
Qed.

Lemma r_items_related cs name rd rs1 rs2 rd' rs1' rs2' g g' :
  In name r3_names -> arel cs rd rd' -> arel cs rs1 rs1' -> arel cs rs2 rs2' ->
  irel cs true 0
    (IInstr "RTypeInstruction" name [("rd", R rd); ("rs1", R rs1); ("rs2", R rs2); ("#rs2", FExpr g)] false)
    (IInstr "RTypeInstruction" name [("rd", R rd'); ("rs1", R rs1'); ("rs2", R rs2'); ("#rs2", FExpr g')] false).
Proof.
  intros Hn A B C. split; [|right; apply r_item_ok; exact Hn].
  constructor. unfold R.
  constructor; [split; [reflexivity|cbn [fst snd]; apply (st_rel cs); [reflexivity|exact A]]|].
  constructor; [split; [reflexivity|cbn [fst snd]; apply (st_rel cs); [reflexivity|exact B]]|].
  constructor; [split; [reflexivity|cbn [fst snd]; apply (st_rel cs); [reflexivity|exact C]]|].
  constructor; [split; [reflexivity|cbn [fst snd]; apply rr_ghost; reflexivity]|constructor].
Qed.

Lemma lsrel_app R a a' b b' : lsrel R a a' -> lsrel R b b' -> lsrel R (a ++ b) (a' ++ b').
Proof. apply Forall2_app. Qed.

(* [arel cs t t']: t' = t, or t is a constant of cs and t' a literal for its value (a token that is not a constant name and that
   lookup_register reads like that value: SubstReg.lit, SubstReg.lit_of_lookup) *)
Theorem r_line_subst_reg : forall cs l name rd rs1 rs2 rd' rs1' rs2' a a',
  In name r3_names -> String.eqb rd "=" = false -> String.eqb rd' "=" = false ->
  arith_of_string rs2 = Some a -> arith_of_string rs2' = Some a' ->
  arel cs rd rd' -> arel cs rs1 rs1' -> arel cs rs2 rs2' ->
  exists it it',
    parse_item l [name; rd; rs1; rs2] = FOk it /\ parse_item l [name; rd'; rs1'; rs2'] = FOk it' /\
    forall pre post c0 l0 cmp i1,
      resolve_constants_lr (pre ++ (l, it) :: post) c0 [] = Done (i1, cs) ->
      assemble_items (pre ++ (l, it') :: post) c0 l0 cmp = assemble_items (pre ++ (l, it) :: post) c0 l0 cmp.
Proof.
  intros cs l name rd rs1 rs2 rd' rs1' rs2' a a' Hn E E' Ha Ha' A B C.
  eexists. eexists. split. { apply r_line_parses; eauto. } split. { apply r_line_parses; eauto. }
  intros pre post c0 l0 cmp i1 Hc. eapply assemble_subst_reg; eauto.
  apply lsrel_app. apply lsrel_refl.
  constructor; [|apply lsrel_refl]. split; [reflexivity|]. cbn [snd]. apply r_items_related; auto.
Qed.
