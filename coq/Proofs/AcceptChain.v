(* C12, positive half -- the two runs side by side, stage by stage: items of the class, the pseudo pass of both runs, alias
   resolution. *)
From Coq Require Import ZArith List Bool Lia String Arith.
From BB Require Import Base.Bits Base.PyBase Gen.Encoders Gen.Criteria Spec.RV32 Spec.RVC Spec.Operands Spec.Legal
  Model.Items Model.Encode Model.Passes Proofs.Regs Proofs.Layout Proofs.LayoutInst Proofs.Pipeline Proofs.Errors Proofs.EncSig Proofs.NoRaw
  Proofs.Rules Proofs.RulesMain Proofs.Stable Proofs.Monotone
  Proofs.AcceptLayout Proofs.AcceptTail Proofs.AcceptMono Proofs.AcceptCompress Proofs.AcceptItem Proofs.AcceptClass Proofs.AcceptStatic
  Proofs.AcceptPass Proofs.AcceptU.
Import ListNotations.
Open Scope Z_scope.
Local Open Scope list_scope.

(* ---- a pass, grouped, with the key set of the label table each rule call saw ---------------------------------------------- *)
Definition pass_groupK (rule : rule_t) (K : list string) (x : litem) (g : list litem) : Prop :=
  match is_label (snd x) with
  | Some n => g = [(fst x, ILabel n)]
  | None => exists p ls0 rs, map fst ls0 = K /\ rule (fst x) (snd x) p ls0 = Done rs /\ g = map (fun y => (fst x, y)) rs
  end.
Lemma gp_groupedK rule its : forall pos ls o ls',
  gp rule its pos ls = Done (o, ls') -> grouped (pass_groupK rule (map fst ls)) its o.
Proof.
  induction its as [|[l it] r IH]; intros pos ls o ls' Hp; cbn [gp] in Hp.
  - inversion Hp; subst. constructor.
  - destruct (is_label it) as [n|] eqn:El.
    + destruct (gp rule r pos ls) as [[o1 ls1]| |] eqn:E; cbn [obind] in Hp; try discriminate. inversion Hp; subst.
      change ((l, ILabel n) :: o1) with ([(l, ILabel n)] ++ o1). constructor.
      * unfold pass_groupK. cbn [snd fst]. rewrite El. reflexivity.
      * eapply IH; eauto.
    + destruct (size_o it) as [old| |] eqn:Eo; cbn [obind] in Hp; try discriminate.
      destruct (rule l it pos ls) as [rs| |] eqn:Er; cbn [obind] in Hp; try discriminate.
      destruct (sizes rs) as [new| |] eqn:En; cbn [obind] in Hp; try discriminate. cbv zeta in Hp.
      fold (shifted pos old new ls) in Hp.
      destruct (gp rule r (pos + new) _) as [[o1 ls1]| |] eqn:E; cbn [obind] in Hp; try discriminate.
      inversion Hp; subst. constructor.
      * unfold pass_groupK. cbn [snd fst]. rewrite El. exists pos, ls, rs. auto.
      * specialize (IH _ _ _ _ E). rewrite shifted_keys in IH. exact IH.
Qed.
Lemma gpass_groupedK rule its ls o ls' :
  gpass rule its 0 ls [] = Done (o, ls') -> grouped (pass_groupK rule (map fst ls)) its o.
Proof.
  intro H. rewrite gpass_gp in H. destruct (gp rule its 0 ls) as [[o1 ls1]| |] eqn:E; cbn [obind] in H; try discriminate.
  inversion H; subst. eapply gp_groupedK; eauto.
Qed.
Lemma grouped_in (S : litem -> list litem -> Prop) a b : grouped S a b -> forall x, In x a -> exists g, S x g /\ incl g b.
Proof.
  induction 1 as [|y a g b' Hy G IH]; intros x Hin. contradiction.
  destruct Hin as [<-|Hin].
  - exists g. split. exact Hy. apply incl_appl, incl_refl.
  - destruct (IH _ Hin) as (g' & Sg & I). exists g'. split. exact Sg. apply incl_appr. exact I.
Qed.
Lemma grouped_forall (S : litem -> list litem -> Prop) (P Q : litem -> Prop) a b :
  grouped S a b -> Forall P a -> (forall x g, P x -> S x g -> Forall Q g) -> Forall Q b.
Proof.
  intros G F H. induction G as [|y a g b' Hy G IH]. constructor. inversion F; subst. apply Forall_app. split; eauto.
Qed.
Lemma sizes_plain rs : Forall plain rs -> exists n, sizes rs = Done n /\ n = 4 * Z.of_nat (List.length rs).
Proof.
  induction 1 as [|t rs Ht _ (n & E & En)]. exists 0. split; reflexivity.
  destruct (plain_size _ Ht) as (S1 & _). cbn [sizes]. rewrite S1. cbn [obind]. rewrite E. cbn [obind].
  eexists. split. reflexivity. cbn [List.length]. lia.
Qed.

Section Chain.
Variables (consts : envt) (labs cn : list string).
Hypothesis Htgt : forall L, target_ok labs cn L = true -> In L labs /\ assoc_str L consts = None.
Notation alias_item := (alias_item consts).
Notation ready := (ready consts labs).
Notation cbuilt := (cbuilt consts labs).
Notation ucls := (ucls consts labs cn).
Notation crel := (crel consts labs).
Notation cgood := (cgood consts labs).

(* an item of the list after alias resolution, as the class shapes it *)
Definition src_ok (calls : bool) (x : litem) : Prop :=
  0 <= isz (snd x) /\
  match snd x with
  | IPseudo n a p => pseudo_okb n a p = true /\ pseudo_cls calls labs cn (fst x) n a p = true
  | _ => ucls true x
  end.

Lemma src_of_class calls x0 : okb 0 (snd x0) = true -> 0 <= isz (snd x0) -> item_cls calls labs cn x0 = true -> not_const x0 = true ->
  src_ok calls (alias_item x0).
Proof.
  destruct x0 as [l it]. unfold not_const, item_cls, src_ok. cbn [snd fst].
  destruct it; cbn [okb alias_item snd fst AcceptU.ucls]; intros Hk H0 Hc Hn; try discriminate; try (split; [exact H0|exact I]).
  - (* IInstr *) cbn [Nat.leb Nat.eqb andb] in Hk. split. exact H0. 
    destruct (instr_cls_tcls labs cn _ _ _ Hc) as [A B].
    split. apply alias_instr_ok; exact Hk. split. intros _; apply alias_fixed_map. split. apply tcls_alias; exact A.
    rewrite has_flag_alias. exact B.
  - (* IPseudo *) cbn [Nat.leb andb] in Hk. split. exact H0. split; assumption.
  - (* IPack *) split. exact H0. unfold data_cls in Hc. destruct imm; try discriminate. exists e. split. reflexivity.
    apply orb_prop in Hc. destruct Hc as [Hc|Hc]; [left; exact Hc|right]. destruct e; try discriminate. destruct a; try discriminate. eauto.
  - (* IShort *) split. exact H0. unfold data_cls in Hc. destruct imm; try discriminate. exists e. split. reflexivity.
    apply orb_prop in Hc. destruct Hc as [Hc|Hc]; [left; exact Hc|right]. destruct e; try discriminate. destruct a; try discriminate. eauto.
Qed.

(* the group the pseudo pass makes of a source item *)
Lemma pseudo_group calls K x g : src_ok calls x -> pass_groupK (pseudo_rule consts) K x g ->
  Forall (ucls false) g /\ ((forall n a p, snd x <> IPseudo n a p) -> g = [x]).
Proof.
  destruct x as [l it]. unfold src_ok, pass_groupK. cbn [fst snd]. intros [H0 Hs] H.
  destruct (is_label it) as [n|] eqn:El.
  - subst g. rewrite (is_label_inv _ _ El). split. constructor; [exact I|constructor]. intros _. reflexivity.
  - destruct H as (p & ls0 & rs & _ & Hr & ->).
    assert (Keep : (forall n a p, it <> IPseudo n a p) -> rs = [it]).
    { intro N. pose proof (pseudo_rule_keep _ _ _ _ _ _ Hr) as Kp. destruct it; auto. exfalso. eapply N; reflexivity. }
    destruct it; try (rewrite Keep by (intros; discriminate); split; [constructor; [|constructor]|intros _; reflexivity]);
      try exact I; try contradiction.
    + (* IInstr *) destruct Hs as (A & B & C & D). cbn [AcceptU.ucls snd]. split. exact A. split. discriminate. auto.
    + (* IPseudo *) destruct Hs as [A B]. split.
      * pose proof (pseudo_templates consts labs cn calls l name args pimm p ls0 rs A B Hr) as T.
        clear - T. induction T; cbn [map]; constructor; auto.
      * intros N. exfalso. eapply N. reflexivity.
    + exact Hs.
    + exact Hs.
Qed.

(* the pseudo rule does not depend on the position or the label values (call / tail excluded) *)
Lemma pseudo_indep l name args pimm p1 ls1 rs p2 ls2 :
  pseudo_okb name args pimm = true -> pseudo_cls false labs cn l name args pimm = true ->
  (forall s, assoc_str s ls1 <> None -> In s labs) ->
  pseudo_rule consts l (IPseudo name args pimm) p1 ls1 = Done rs ->
  pseudo_rule consts l (IPseudo name args pimm) p2 ls2 = Done rs.
Proof.
  intros Hok Hc K Hr. cbv beta iota delta [pseudo_rule] in *. unfold pseudo_cls in Hc.
  destruct (expand_pseudo l name args pimm) as [px| |] eqn:Ex; cbn [obind] in *; try discriminate.
  destruct px as [it'|e target lo hi near f1 f2]. exact Hr.
  destruct target as [r|]; [discriminate|].
  destruct (of_pres _) as [v| |] eqn:Ev; cbn [obind] in Hr; try discriminate.
  destruct (lf_value labs l p1 consts ls1 e v Hc K Ev) as (_ & _ & Hall).
  specialize (Hall p2 ls2). unfold eval_here in Hall. rewrite Hall. cbn [obind].
  rewrite (is_settled_pos l p2 p1 consts e). exact Hr.
Qed.

Lemma crel_refl x : crel x x.
Proof. split. reflexivity. left. reflexivity. Qed.
Lemma crel_refl_list l : Forall2 crel l l.
Proof. induction l; constructor; auto using crel_refl. Qed.
Lemma cbuilt_is_instr x : cbuilt x -> is_instr (snd x).
Proof. intro H. destruct (cbuilt_instr _ _ _ H) as (l & c & f & n & ->). unfold is_instr. cbn [snd]. eauto. Qed.

(* the pseudo pass of the two runs, side by side *)
Lemma pseudo_pair K K' : (forall ls0 : envt, map fst ls0 = K -> forall s, assoc_str s ls0 <> None -> In s labs) ->
  forall s s', Forall2 crel s s' -> Forall (src_ok false) s ->
  forall u c, grouped (pass_groupK (pseudo_rule consts) K) s u -> grouped (pass_groupK (pseudo_rule consts) K') s' c ->
  Forall2 crel u c.
Proof.
  intros HK. induction 1 as [|x x' s s' Hx _ IH]; intros Fs u c Gu Gc.
  - inversion Gu; inversion Gc; subst. constructor.
  - inversion Gu as [|? ? gu u' Hgu Gu']; subst. inversion Gc as [|? ? gc c' Hgc Gc']; subst. inversion Fs as [|? ? Sx Fs']; subst.
    apply Forall2_app; [|eapply IH; eauto].
    destruct (pseudo_group false K x gu Sx Hgu) as [_ Keep].
    destruct Hx as [Hl [->|(Ix & Rx & Bx)]].
    + (* the same item in both runs *)
      destruct x as [l it]. unfold pass_groupK in Hgu, Hgc. cbn [fst snd] in *. destruct (is_label it) as [n|] eqn:El.
      * subst. apply crel_refl_list.
      * destruct Hgu as (p & ls0 & rs & E0 & Hr & ->). destruct Hgc as (p' & ls0' & rs' & E0' & Hr' & ->).
        assert (rs' = rs); [|subst; apply crel_refl_list].
        destruct it; try (pose proof (pseudo_rule_keep _ _ _ _ _ _ Hr) as A; pose proof (pseudo_rule_keep _ _ _ _ _ _ Hr') as A';
                          cbn beta iota in A, A'; congruence).
        destruct Sx as [_ [A B]]. cbn [fst snd] in A, B.
        pose proof (pseudo_indep l name args pimm p ls0 rs p' ls0' A B (HK _ E0) Hr) as Hr2. congruence.
    + (* an instruction the compressed run has compressed *)
      assert (gu = [x]).
      { apply Keep. destruct Ix as (c0 & n0 & f0 & k0 & E). intros n a p. rewrite E. discriminate. }
      subst gu. destruct (cbuilt_instr _ _ _ Bx) as (l' & c1 & f1 & n1 & ->).
      unfold pass_groupK in Hgc. cbn [fst snd is_label] in Hgc. destruct Hgc as (p' & ls0' & rs' & _ & Hr' & ->).
      cbv beta iota delta [pseudo_rule] in Hr'. inversion Hr'; subst rs'. cbn [map]. constructor; [|constructor].
      split. exact Hl. right. auto.
Qed.

Lemma ready_alias t : ready t -> alias_item t = t.
Proof. destruct t as [l it]. destruct it; try reflexivity. intros (_ & F & _). cbn [AcceptStatic.alias_item]. rewrite F. reflexivity. Qed.
Lemma cbuilt_alias t : cbuilt t -> alias_item t = t.
Proof. destruct t as [l it]. destruct it; try contradiction. intros (_ & _ & _ & _ & F & _). cbn [AcceptStatic.alias_item]. rewrite F. reflexivity. Qed.
Lemma alias_fst t : fst (alias_item t) = fst t.
Proof. destruct t as [l it]. destruct it; reflexivity. Qed.
Lemma crel_alias t y : crel t y -> crel (alias_item t) (alias_item y).
Proof.
  intros [Hl [->|(I & R & B)]]. apply crel_refl. rewrite (ready_alias _ R), (cbuilt_alias _ B). split. exact Hl. right. auto.
Qed.
Lemma crel_trans t y1 y2 : crel t y1 -> crel y1 y2 -> crel t y2.
Proof.
  intros [H1 [->|(I & R & B)]] [H2 H]. { split; [congruence|exact H]. }
  destruct H as [->|(_ & _ & B2)]. { split; [congruence|right; auto]. } split. congruence. right. auto.
Qed.
Lemma F2_crel_trans a : forall b c, Forall2 crel a b -> Forall2 crel b c -> Forall2 crel a c.
Proof. induction a; intros b c H1 H2; inversion H1; subst; inversion H2; subst; constructor; eauto using crel_trans. Qed.
(* sizes: a related pair shrinks by 0 or 2 *)
Lemma crel_shr t y : 0 <= isz (snd t) -> crel t y -> shr t [y].
Proof.
  intros H0 [Hl [->|(I & R & B)]]. apply shr_same; exact H0.
  destruct I as (c0 & n0 & f0 & k0 & E). destruct (cbuilt_instr _ _ _ B) as (l' & c1 & f1 & n1 & ->).
  unfold shr. rewrite E. cbn [is_label]. split. constructor; [reflexivity|constructor].
  unfold total. cbn [fold_right snd]. rewrite !isz_instr. destruct k0; split; try lia; [exists 0|exists 1]; lia.
Qed.
Lemma crel_gsh a b : nonneg a -> Forall2 crel a b -> gsh a b.
Proof.
  intros Hn F. apply grouped_gsh. induction F as [|x x' a o Hx _ IH]. constructor.
  inversion Hn as [|? ? [H0 _] Hn']; subst. change (x' :: o) with ([x'] ++ o). constructor; auto. apply crel_shr; auto.
Qed.
End Chain.

(* ---- small list lemmas ------------------------------------------------------------------------------------------------------ *)
Lemma assoc_in_keys {V} k (l : list (string * V)) : assoc_str k l <> None -> In k (map fst l).
Proof.
  induction l as [|[k' v] r IH]; cbn [assoc_str map fst]; intro H. congruence.
  destruct (String.eqb k k') eqn:E. left. apply String.eqb_eq in E. auto. right. auto.
Qed.
Lemma no_align_forall its : (forall x n, In x its -> snd x <> IAlign n) -> no_align its = true.
Proof.
  induction its as [|[l it] r IH]; intro H. reflexivity.
  assert (Hr : no_align r = true) by (apply IH; intros x n Hx; apply H; right; exact Hx).
  destruct it; cbn [no_align]; auto. exfalso. eapply (H (l, IAlign n)). left; reflexivity. reflexivity.
Qed.
Lemma gp_sizes rule its : forall pos ls o ls', gp rule its pos ls = Done (o, ls') ->
  forall x, In x its -> exists n, size_o (snd x) = Done n.
Proof.
  induction its as [|[l it] r IH]; intros pos ls o ls' H x Hin. contradiction.
  cbn [gp] in H. destruct (is_label it) as [n|] eqn:El.
  - destruct (gp rule r pos ls) as [[o1 ls1]| |] eqn:E; cbn [obind] in H; try discriminate.
    destruct Hin as [<-|Hin]; [|eapply IH; eauto]. cbn [snd]. rewrite (is_label_inv _ _ El). eexists; reflexivity.
  - destruct (size_o it) as [old| |] eqn:Eo; cbn [obind] in H; try discriminate.
    destruct (rule l it pos ls) as [rs| |]; cbn [obind] in H; try discriminate.
    destruct (sizes rs) as [new| |]; cbn [obind] in H; try discriminate. cbv zeta in H.
    destruct (gp rule r _ _) as [[o1 ls1]| |] eqn:E; cbn [obind] in H; try discriminate.
    destruct Hin as [<-|Hin]; [eauto|eapply IH; eauto].
Qed.
Lemma F2_in_r {A B} (R : A -> B -> Prop) a b : Forall2 R a b -> forall y, In y b -> exists x, In x a /\ R x y.
Proof.
  induction 1 as [|x y' a b Hxy _ IH]; intros y Hin. contradiction.
  destruct Hin as [<-|Hin]. exists x. split; [left; reflexivity|exact Hxy].
  destruct (IH _ Hin) as (x' & A1 & A2). exists x'. split; [right; exact A1|exact A2].
Qed.
Lemma F2_forall_r {A B} (R : A -> B -> Prop) (P : B -> Prop) a b :
  Forall2 R a b -> (forall x y, In x a -> R x y -> P y) -> Forall P b.
Proof.
  induction 1 as [|x y a b Hxy _ IH]; intro H. constructor.
  constructor. apply (H x y); [left; reflexivity|exact Hxy]. apply IH. intros x' y' Hin. apply H. right. exact Hin.
Qed.
Lemma Forall2_map2 {A B} (R R' : A -> B -> Prop) (f : A -> A) (g : B -> B) a b :
  Forall2 R a b -> (forall x y, R x y -> R' (f x) (g y)) -> Forall2 R' (map f a) (map g b).
Proof. induction 1 as [|x y a b Hxy _ IH]; intro Hf; cbn [map]; constructor; auto. Qed.
Lemma grouped_impl_in (R S : litem -> list litem -> Prop) a b :
  (forall x g, In x a -> R x g -> S x g) -> grouped R a b -> grouped S a b.
Proof.
  intros H G. induction G as [|x l g b' Hx G IH]; constructor.
  - apply H; [left; reflexivity|exact Hx].
  - apply IH. intros y g' Hin. apply H. right. exact Hin.
Qed.
Lemma grouped_map (S : litem -> list litem -> Prop) (f : litem -> litem) a :
  (forall x, In x a -> S x [f x]) -> grouped S a (map f a).
Proof.
  induction a as [|x a IH]; intro H; cbn [map]. constructor.
  change (f x :: map f a) with ([f x] ++ map f a). constructor. apply H; left; reflexivity. apply IH. intros y Hy. apply H. right. exact Hy.
Qed.
Lemma pseudo_other consts l it pos ls : (forall n a p, it <> IPseudo n a p) -> pseudo_rule consts l it pos ls = Done [it].
Proof. intro N. destruct it; try reflexivity. exfalso. eapply N. reflexivity. Qed.
Lemma shr_alias consts x : 0 <= isz (snd x) -> shr x [alias_item consts x].
Proof.
  intro H0. destruct x as [l it]. destruct it; try (apply shr_same; exact H0).
  unfold shr. cbn [snd is_label alias_item]. split. constructor; [reflexivity|constructor].
  unfold total. cbn [fold_right snd]. rewrite !isz_instr. split. destruct compressed; lia. exists 0. lia.
Qed.
Lemma not_cj_ready consts labs y L final : ready consts labs y -> ~ is_cj y L final.
Proof.
  destruct y as [l it]. intros R (cls & nfs & E & Hc & Hi). cbn [snd] in E. subst it.
  destruct R as (_ & _ & _ & _ & R). rewrite Hi in R. destruct R as [(z & Hp & _)|(L' & _ & _ & N)]. discriminate. contradiction.
Qed.
Lemma size_alias consts x n : size_o (snd x) = Done n -> size_o (snd (alias_item consts x)) = Done n.
Proof. destruct x as [l it]. destruct it; auto. Qed.

Lemma nonneg_in l x : nonneg l -> In x l -> wfi (snd x).
Proof. unfold nonneg. rewrite Forall_forall. auto. Qed.

