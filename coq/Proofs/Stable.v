(* Early decisions are taken only on values that can no longer change: a SETTLED immediate (is_settled of asm.py,
   modelled in Model/Passes.v) evaluates to the same value at every position and under every label table. *)
From Coq Require Import ZArith List Bool Lia String.
From BB Require Import Base.PyBase Gen.Encoders Model.Items Model.Encode Model.Passes.
Import ListNotations.
Open Scope Z_scope.

Lemma aeval_mono (g1 g2 : string -> option Z) :
  (forall s z, g1 s = Some z -> g2 s = Some z) ->
  forall a v, aeval g1 a = Some v -> aeval g2 a = Some v.
Proof.
  intros Hg. induction a as [z|s|o x IHx y IHy|o x IHx|ords| |]; intros v H; simpl in *; auto.
  - destruct (aeval g1 x) as [u|]; try discriminate. destruct (aeval g1 y) as [w|]; try discriminate.
    rewrite (IHx u eq_refl), (IHy w eq_refl). exact H.
  - destruct (aeval g1 x) as [u|]; try discriminate. rewrite (IHx u eq_refl). exact H.
Qed.

Lemma chain_consts consts labels s z : assoc_str s consts = Some z -> chain_get consts labels s = Some z.
Proof. unfold chain_get. intros ->. reflexivity. Qed.

(* evaluation against the constants alone succeeded and the expression is not position-relative:
   same value at any position, with any labels *)
Lemma settled_value l pos consts e v :
  is_position_relative e = false -> eval_consts l pos consts e = POk v ->
  forall pos' labels, eval_here l pos' consts labels e = Done v.
Proof.
  unfold eval_consts, eval_here. revert v.
  induction e as [a|z|r e' IH|r|e' IH|e' IH]; intros v Hp H pos' labels; simpl in *; try discriminate.
  - destruct (aeval _ a) as [u|] eqn:Ea; try discriminate. inversion H; subst.
    rewrite (aeval_mono _ (chain_get consts labels) (chain_consts consts labels) a v Ea). reflexivity.
  - destruct (assoc_str r consts) as [dest|] eqn:Er; try discriminate.
    rewrite (chain_consts _ labels _ _ Er).
    destruct (eeval _ _ _ _ _ _ e') as [base|err] eqn:Ee; simpl in H; try discriminate. inversion H; subst.
    specialize (IH base Hp eq_refl pos' labels).
    destruct (eeval relocate_hi relocate_lo l (Some pos') _ (chain_get consts labels) e') as [b'|err']; simpl in IH; inversion IH; subst.
    reflexivity.
  - destruct (eeval _ _ _ _ _ _ e') as [x|err] eqn:Ee; simpl in H; try discriminate. inversion H; subst.
    specialize (IH x Hp eq_refl pos' labels).
    destruct (eeval relocate_hi relocate_lo l (Some pos') _ (chain_get consts labels) e') as [b'|err']; simpl in IH; inversion IH; subst.
    reflexivity.
  - destruct (eeval _ _ _ _ _ _ e') as [x|err] eqn:Ee; simpl in H; try discriminate. inversion H; subst.
    specialize (IH x Hp eq_refl pos' labels).
    destruct (eeval relocate_hi relocate_lo l (Some pos') _ (chain_get consts labels) e') as [b'|err']; simpl in IH; inversion IH; subst.
    reflexivity.
Qed.

Theorem settled_stable l pos consts e :
  is_settled l pos consts e = Done true ->
  exists v, forall pos' labels, eval_here l pos' consts labels e = Done v.
Proof.
  unfold is_settled. destruct (is_position_relative e) eqn:Ep; try discriminate.
  destruct (eval_consts l pos consts e) as [v|[ln|ex]] eqn:Ee; try discriminate. intros _.
  exists v. eapply settled_value; eauto.
Qed.

(* the near form of li is taken only on a settled value in [-2048, 2047]: the value the addi finally carries is the
   one the decision saw *)
Theorem li_near_final consts l pos labels name args pimm e lo hi near f1 f2 :
  expand_pseudo l name args pimm = Done (Choice e None lo hi near f1 f2) ->
  pseudo_rule consts l (IPseudo name args pimm) pos labels = Done [near] ->
  exists v, lo <= c_int32 v <= hi /\ forall pos' labels', eval_here l pos' consts labels' e = Done v.
Proof.
  intros Hx Hr. cbv beta iota delta [pseudo_rule] in Hr. rewrite Hx in Hr. cbv beta iota delta [obind] in Hr.
  destruct (of_pres _) as [v| |] eqn:Ev; try discriminate.
  destruct (is_settled l pos consts e) as [st| |] eqn:Es; try discriminate. cbv zeta in Hr.
  destruct st; simpl in Hr.
  - destruct (settled_stable _ _ _ _ Es) as [w Hw].
    assert (v = w).
    { specialize (Hw pos labels). unfold eval_here in Hw. rewrite Ev in Hw. inversion Hw; reflexivity. }
    subst w. exists v. split; auto.
    destruct (c_int32 v >=? lo) eqn:E1; simpl in Hr.
    + destruct (c_int32 v <=? hi) eqn:E2. lia. inversion Hr.
    + inversion Hr.
  - inversion Hr.
Qed.

(* compression decides only on settled immediates, or on the distance from a jump / branch to a label *)
Definition jump_to_label (consts : envt) (cls : string) (e : expr) : Prop :=
  (cls = "BTypeInstruction" \/ cls = "JTypeInstruction")%string /\ exists r, e = EOff r /\ assoc_str r consts = None.
Theorem compress_decides_on_settled l pos consts cls fs e :
  field_get "imm" fs = Some (FExpr e) -> imm_unstable l pos consts cls fs = Done false ->
  jump_to_label consts cls e \/ exists v, forall pos' labels, eval_here l pos' consts labels e = Done v.
Proof.
  intros Hf. unfold imm_unstable. rewrite Hf. cbv zeta.
  destruct ((String.eqb cls "BTypeInstruction" || String.eqb cls "JTypeInstruction") &&
            match e with EOff r => negb (in_consts consts r) | _ => false end) eqn:Ej.
  - intros _. left. apply andb_prop in Ej. destruct Ej as [E1 E2]. split.
    + apply orb_prop in E1. destruct E1 as [E1|E1]; apply String.eqb_eq in E1; auto.
    + destruct e; try discriminate. exists ref. split; auto. unfold in_consts in E2.
      destruct (assoc_str ref consts); simpl in E2; try discriminate. reflexivity.
  - destruct (is_settled l pos consts e) as [st| |] eqn:Es; cbn [obind]; try discriminate.
    destruct st; simpl; intro H; inversion H. right. eapply settled_stable; eauto.
Qed.
