(* Sequential constant resolution (pass model) and character literals (whole model path, kernel sweep) for C11.
   Order relations are written Z.le / Z.lt (independent of the bind notations of Model.Passes). *)
From Coq Require Import ZArith List Bool String Ascii Lia.
From BB Require Import Base.Bits Base.PyBase Gen.Encoders Model.Items Model.Lexer Model.PyExpr Model.Parser Model.Passes.
Import ListNotations.
Open Scope Z_scope.
Open Scope list_scope.

(* ---- sequential constant resolution --------------------------------------------------------------------------- *)
Definition is_const (x : litem) : bool := match snd x with IConst _ _ => true | _ => false end.
Definition legal_name (n : string) : Prop := mem_str n reg_names = false /\ is_int n = false.
Inductive defines : list litem -> envt -> envt -> Prop :=
| D_nil env : defines [] env env
| D_const l n a v r env env' :
    legal_name n -> aeval (chain_get env reg_env) a = Some v -> defines r (dict_set n v env) env' ->
    defines ((l, IConst n (EArith a)) :: r) env env'
| D_other x r env env' : is_const x = false -> defines r env env' -> defines (x :: r) env env'.

Lemma resolve_constants_defines its : forall c0 acc out c,
  resolve_constants_lr its c0 acc = Done (out, c) ->
  defines its c0 c /\ out = rev acc ++ filter (fun x => negb (is_const x)) its.
Proof.
  induction its as [|[l it] r IH]; intros c0 acc out c H.
  - simpl in H. inversion H; subst. split; [constructor | rewrite app_nil_r; reflexivity].
  - destruct it; try (cbn [resolve_constants_lr] in H; apply IH in H; destruct H as [H1 H2]; split;
      [apply D_other; [reflexivity | assumption]
      | rewrite H2; cbn [filter is_const snd negb rev]; rewrite <- app_assoc; reflexivity]).
    cbn [resolve_constants_lr] in H. destruct e; try discriminate H.
    + destruct (mem_str name reg_names) eqn:E1; [discriminate H|].
      destruct (is_int name) eqn:E2; [discriminate H|].
      cbn [eeval] in H. destruct (aeval (chain_get c0 reg_env) a) as [v|] eqn:E3; [|discriminate H].
      cbn [of_pres obind] in H. apply IH in H. destruct H as [H1 H2]. split.
      * econstructor; [split; assumption | exact E3 | exact H1].
      * rewrite H2. reflexivity.
    + destruct (mem_str name reg_names); [discriminate H|]. destruct (is_int name); discriminate H.
Qed.
Lemma defines_resolve its c0 c : defines its c0 c ->
  forall acc, resolve_constants_lr its c0 acc = Done (rev acc ++ filter (fun x => negb (is_const x)) its, c).
Proof.
  induction 1 as [env | l n a v r env env' [L1 L2] Hv _ IH | [l it] r env env' Hx _ IH]; intros acc.
  - simpl. rewrite app_nil_r. reflexivity.
  - cbn [resolve_constants_lr]. rewrite L1, L2. cbn [eeval]. rewrite Hv. cbn [of_pres obind]. rewrite IH. reflexivity.
  - destruct it; try discriminate Hx; cbn [resolve_constants_lr]; rewrite IH;
      cbn [filter is_const snd negb rev]; rewrite <- app_assoc; reflexivity.
Qed.
Lemma dict_set_same {V} n (v : V) env : assoc_str n (dict_set n v env) = Some v.
Proof.
  induction env as [|[k x] r IH]; simpl.
  - rewrite String.eqb_refl. reflexivity.
  - destruct (String.eqb n k) eqn:E; simpl; rewrite E; [reflexivity | exact IH].
Qed.
Lemma dict_set_other {V} n m (v : V) env : n <> m -> assoc_str m (dict_set n v env) = assoc_str m env.
Proof.
  intros Hne. induction env as [|[k x] r IH]; simpl.
  - destruct (String.eqb_spec m n); [congruence | reflexivity].
  - destruct (String.eqb_spec n k); simpl.
    + subst k. destruct (String.eqb_spec m n); [congruence | reflexivity].
    + destruct (String.eqb m k); [reflexivity | exact IH].
Qed.

(* ---- character literals: the whole model path for the line  X = 'c'  ----------------------------------------- *)
Definition L1 : line := {| lfile := "<string>"; lnum := 1 |}.
(* the value the model gives the constant X defined by the line (None: error / not a constant) *)
Definition const_value_of_line (text : list ascii) : option Z :=
  match front_line L1 (unchars text) with
  | FOk (Some it) =>
      match resolve_constants_lr [(L1, it)] [] [] with
      | Done (_, env) => assoc_str "X"%string env
      | _ => None
      end
  | _ => None
  end.
Definition char_line (c : Z) : list ascii :=
  chars "X = " ++ [c_quote; ascii_of_N (Z.to_N c); c_quote].
Definition char_ok (c : Z) : bool :=
  match const_value_of_line (char_line c) with Some v => Z.eqb v c | None => false end.
(* the backslash is an escape introducer: it is written '\\' *)
Definition char_exception (c : Z) : bool := (c =? 92).
Lemma char_sweep : forallb (fun c => char_exception c || char_ok c) (zrange 32 95) = true.
Proof. vm_compute. reflexivity. Qed.
Lemma char_literals c : Z.le 32 c -> Z.le c 126 -> char_exception c = false -> const_value_of_line (char_line c) = Some c.
Proof.
  intros Hc1 Hc2 He. assert (Hin : In c (zrange 32 95)) by (apply zrange_in; simpl; lia).
  pose proof (proj1 (forallb_forall _ _) char_sweep c Hin) as H. cbv beta in H. rewrite He in H. simpl in H.
  unfold char_ok in H. destruct (const_value_of_line (char_line c)) as [v|]; [|discriminate].
  apply Z.eqb_eq in H. congruence.
Qed.
Lemma char_all c : Z.le 32 c -> Z.le c 126 -> c <> 92 -> const_value_of_line (char_line c) = Some c.
Proof.
  intros H1 H2 H3. apply char_literals; auto. unfold char_exception. apply Z.eqb_neq. exact H3.
Qed.
(* the characters that used to be eaten by the lexer (comma, #, parentheses, blank) *)
Lemma char_former_exceptions :
  const_value_of_line (char_line 44) = Some 44 /\ const_value_of_line (char_line 35) = Some 35 /\
  const_value_of_line (char_line 40) = Some 40 /\ const_value_of_line (char_line 41) = Some 41 /\
  const_value_of_line (char_line 32) = Some 32.
Proof. vm_compute. auto 6. Qed.
Lemma char_backslash_escaped :
  const_value_of_line (chars "X = " ++ [c_quote; c_bsl; c_bsl; c_quote]) = Some 92.
Proof. vm_compute. reflexivity. Qed.
