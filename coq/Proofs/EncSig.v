(* Operand signatures of the instruction classes: which mnemonics a class holds (the GENERATED tables the parser dispatches on)
   and what each positional operand is at resolve_instructions time.  Definitions only. *)
From Coq Require Import ZArith List Bool String.
From BB Require Import Base.PyBase Gen.Encoders Model.Encode Model.Items Model.Passes.
Import ListNotations.
Open Scope string_scope.

(* KR: register-like operand -- ANY arg (a token, or an int after alias resolution); KI: immediate -- an AInt *)
Inductive okind := KR | KI.
Definition kind_ok (k : okind) (a : arg) : Prop := match k with KR => True | KI => exists z, a = AInt z end.
Definition kind_okb (k : okind) (a : arg) : bool := match k, a with KR, _ => true | KI, AInt _ => true | KI, AStr _ => false end.

Definition class_sig : list (string * (list string * list okind)) :=
  [("RTypeInstruction", (map fst R_TYPE_INSTRUCTIONS_final, [KR; KR; KR]));
   ("ITypeInstruction", (map fst I_TYPE_INSTRUCTIONS_final, [KR; KR; KI]));
   ("IETypeInstruction", (map fst IE_TYPE_INSTRUCTIONS_final, []));
   ("STypeInstruction", (map fst S_TYPE_INSTRUCTIONS_final, [KR; KR; KI]));
   ("BTypeInstruction", (map fst B_TYPE_INSTRUCTIONS_final, [KR; KR; KI]));
   ("UTypeInstruction", (map fst U_TYPE_INSTRUCTIONS_final, [KR; KI]));
   ("JTypeInstruction", (map fst J_TYPE_INSTRUCTIONS_final, [KR; KI]));
   ("FenceInstruction", (map fst FENCE_INSTRUCTIONS_final, [KR; KR]));
   ("ATypeInstruction", (map fst A_TYPE_INSTRUCTIONS_final, [KR; KR; KR; KR; KR]));
   ("ALTypeInstruction", (map fst AL_TYPE_INSTRUCTIONS_final, [KR; KR; KR; KR]));
   ("CRTypeInstruction", (map fst CR_TYPE_INSTRUCTIONS_final, [KR; KR]));
   ("CRJTypeInstruction", (map fst CRJ_TYPE_INSTRUCTIONS_final, [KR]));
   ("CRETypeInstruction", (map fst CRE_TYPE_INSTRUCTIONS_final, []));
   ("CITypeInstruction", (map fst CI_TYPE_INSTRUCTIONS_final, [KR; KI]));
   ("CIATypeInstruction", (map fst CIA_TYPE_INSTRUCTIONS_final, [KI]));
   ("CINTypeInstruction", (map fst CIN_TYPE_INSTRUCTIONS_final, []));
   ("CSSTypeInstruction", (map fst CSS_TYPE_INSTRUCTIONS_final, [KR; KI]));
   ("CIWTypeInstruction", (map fst CIW_TYPE_INSTRUCTIONS_final, [KR; KI]));
   ("CLTypeInstruction", (map fst CL_TYPE_INSTRUCTIONS_final, [KR; KR; KI]));
   ("CSTypeInstruction", (map fst CS_TYPE_INSTRUCTIONS_final, [KR; KR; KI]));
   ("CATypeInstruction", (map fst CA_TYPE_INSTRUCTIONS_final, [KR; KR]));
   ("CBTypeInstruction", (map fst CB_TYPE_INSTRUCTIONS_final, [KR; KI]));
   ("CJTypeInstruction", (map fst CJ_TYPE_INSTRUCTIONS_final, [KI]))].

(* the call resolve_instructions makes: INSTRUCTIONS[name] applied to the positional args ; atomics pass aq / rl as keywords *)
Definition encode_call (cls name : string) (args : list arg) : res Z :=
  if is_atomic_cls cls then
    match split_last2 args with
    | Some (pos, aq, rl) => encode name pos [("aq", aq); ("rl", rl)]
    | None => Err ValueError
    end
  else encode name args [].

Definition only_ve {A} (r : res A) : Prop := match r with Ok _ => True | Err ValueError => True | Err _ => False end.
