(* Lemmas about the Spec machine (Spec/Sem.v): register file, the instructions the pseudo expansions use,
   fetch of a 32-bit word from the byte memory, memory writes, observational equality. *)
From Coq Require Import ZArith List Bool Lia ZifyBool.
From BB Require Import Base.Bits Spec.RV32 Spec.RVC Spec.Sem.
Import ListNotations.
Open Scope Z_scope.

Lemma wrap_range v : 0 <= wrap v < 2^32.
Proof. unfold wrap. apply Z.mod_pos_bound. reflexivity. Qed.
Lemma wrap_wrap v : wrap (wrap v) = wrap v.
Proof. unfold wrap. apply Z.mod_mod. discriminate. Qed.
Lemma wrap_small v : 0 <= v < 2^32 -> wrap v = v.
Proof. unfold wrap. apply Z.mod_small. Qed.
Lemma wrap_add_l a b : wrap (wrap a + b) = wrap (a + b).
Proof. unfold wrap. apply Zplus_mod_idemp_l. Qed.
Lemma wrap_add_r a b : wrap (a + wrap b) = wrap (a + b).
Proof. unfold wrap. apply Zplus_mod_idemp_r. Qed.
Lemma wrap_eq_mod a b : a mod 2^32 = b mod 2^32 -> wrap a = wrap b.
Proof. auto. Qed.

Lemma getr_range s r : 0 <= getr s r < 2^32.
Proof. unfold getr. destruct (r =? 0); [split; [lia|reflexivity]|apply wrap_range]. Qed.
Lemma getr_x0 s : getr s 0 = 0.
Proof. reflexivity. Qed.
Lemma wrap_getr s r : wrap (getr s r) = getr s r.
Proof. apply wrap_small, getr_range. Qed.

(* ---- the register update ------------------------------------------------------------------------------ *)
Lemma getr_upd_same s rd v npc : rd <> 0 -> getr (upd s rd v npc) rd = wrap v.
Proof.
  intros H. unfold getr, upd, setr. cbn [regs].
  destruct (Z.eqb_spec rd 0); [contradiction|]. rewrite Z.eqb_refl. cbn. apply wrap_wrap.
Qed.
Lemma getr_upd_other s rd v npc r : r <> rd -> getr (upd s rd v npc) r = getr s r.
Proof.
  intros H. unfold getr, upd, setr. cbn [regs].
  destruct (Z.eqb_spec r rd); [contradiction|]. reflexivity.
Qed.
Lemma getr_upd_x0 s v npc r : getr (upd s 0 v npc) r = getr s r.
Proof. unfold getr, upd, setr. cbn [regs]. rewrite andb_false_r. reflexivity. Qed.

Lemma only_reg_upd s rd v npc : only_reg s (upd s rd v npc) rd (wrap v).
Proof.
  unfold only_reg. repeat split.
  - destruct (Z.eqb_spec rd 0) as [->|H]; [apply getr_upd_x0|apply getr_upd_same; auto].
  - intros r Hr. apply getr_upd_other; auto.
Qed.
Lemma only_reg_val s s' rd v v' : v = v' -> only_reg s s' rd v -> only_reg s s' rd v'.
Proof. intros ->. auto. Qed.
Lemma no_reg_same s npc : no_reg s {| regs := regs s; pc := npc; mem := mem s |}.
Proof. split; reflexivity. Qed.
Lemma only_reg_x0_no_reg s s' v : only_reg s s' 0 v -> no_reg s s'.
Proof.
  intros (A & B & C). split; [|exact C]. intros r.
  destruct (Z.eq_dec r 0) as [->|H]; [reflexivity|auto].
Qed.

(* ---- signed reading ------------------------------------------------------------------------------------- *)
Lemma signed_zero : signed 0 = 0.
Proof. reflexivity. Qed.
Lemma signed_neg_iff v : 0 <= v < 2^32 -> (signed v <? 0) = (2^31 <=? v).
Proof. intros H. unfold signed. change (2^31) with 2147483648 in *. change (2^32) with 4294967296 in *. destruct (v <? 2147483648) eqn:E; lia. Qed.

(* ---- the instructions the expansions use ------------------------------------------------------------- *)
Lemma lxor_m1 a : Z.lxor a (-1) = - a - 1.
Proof. rewrite Z.lxor_m1_r. unfold Z.lnot. lia. Qed.

Lemma step_addi0 rd rs len s :
  exists s', step (OpImm ADDI rd rs 0) len s = Some s' /\ pc s' = wrap (pc s + len) /\ only_reg s s' rd (getr s rs).
Proof.
  eexists. split; [reflexivity|]. split; [reflexivity|].
  eapply only_reg_val; [|apply only_reg_upd]. cbn [alu_i]. rewrite Z.add_0_r, !wrap_getr. reflexivity.
Qed.
Lemma step_addi_x0 rd imm len s :
  exists s', step (OpImm ADDI rd 0 imm) len s = Some s' /\ pc s' = wrap (pc s + len) /\ only_reg s s' rd (wrap imm).
Proof.
  eexists. split; [reflexivity|]. split; [reflexivity|].
  eapply only_reg_val; [|apply only_reg_upd]. cbn [alu_i]. rewrite getr_x0, Z.add_0_l, wrap_wrap. reflexivity.
Qed.
Lemma step_addi rd rs imm len s :
  exists s', step (OpImm ADDI rd rs imm) len s = Some s' /\ pc s' = wrap (pc s + len) /\
             only_reg s s' rd (wrap (getr s rs + imm)).
Proof.
  eexists. split; [reflexivity|]. split; [reflexivity|].
  eapply only_reg_val; [|apply only_reg_upd]. cbn [alu_i]. apply wrap_wrap.
Qed.
Lemma step_xori_m1 rd rs len s :
  exists s', step (OpImm XORI rd rs (-1)) len s = Some s' /\ pc s' = wrap (pc s + len) /\
             only_reg s s' rd (2^32 - 1 - getr s rs).
Proof.
  eexists. split; [reflexivity|]. split; [reflexivity|].
  eapply only_reg_val; [|apply only_reg_upd]. cbn [alu_i]. rewrite wrap_wrap, lxor_m1.
  pose proof (getr_range s rs). unfold wrap.
  symmetry. apply Z.mod_unique with (q := -1); lia.
Qed.
Lemma step_sub_x0 rd rs len s :
  exists s', step (Op SUB rd 0 rs) len s = Some s' /\ pc s' = wrap (pc s + len) /\ only_reg s s' rd (wrap (- getr s rs)).
Proof.
  eexists. split; [reflexivity|]. split; [reflexivity|].
  eapply only_reg_val; [|apply only_reg_upd]. cbn [alu_r]. rewrite getr_x0, wrap_wrap. reflexivity.
Qed.
Lemma step_sltiu1 rd rs len s :
  exists s', step (OpImm SLTIU rd rs 1) len s = Some s' /\ pc s' = wrap (pc s + len) /\
             only_reg s s' rd (if getr s rs =? 0 then 1 else 0).
Proof.
  eexists. split; [reflexivity|]. split; [reflexivity|].
  eapply only_reg_val; [|apply only_reg_upd]. cbn [alu_i]. pose proof (getr_range s rs).
  change (wrap 1) with 1.
  destruct (getr s rs <? 1) eqn:E1; destruct (getr s rs =? 0) eqn:E2; try lia; reflexivity.
Qed.
Lemma step_sltu_x0 rd rs len s :
  exists s', step (Op SLTU rd 0 rs) len s = Some s' /\ pc s' = wrap (pc s + len) /\
             only_reg s s' rd (if getr s rs =? 0 then 0 else 1).
Proof.
  eexists. split; [reflexivity|]. split; [reflexivity|].
  eapply only_reg_val; [|apply only_reg_upd]. cbn [alu_r]. rewrite getr_x0. pose proof (getr_range s rs).
  destruct (0 <? getr s rs) eqn:E1; destruct (getr s rs =? 0) eqn:E2; try lia; reflexivity.
Qed.
Lemma step_slt_rs_x0 rd rs len s :
  exists s', step (Op SLT rd rs 0) len s = Some s' /\ pc s' = wrap (pc s + len) /\
             only_reg s s' rd (if signed (getr s rs) <? 0 then 1 else 0).
Proof.
  eexists. split; [reflexivity|]. split; [reflexivity|].
  eapply only_reg_val; [|apply only_reg_upd]. cbn [alu_r]. rewrite getr_x0, signed_zero.
  destruct (signed (getr s rs) <? 0); reflexivity.
Qed.
Lemma step_slt_x0_rs rd rs len s :
  exists s', step (Op SLT rd 0 rs) len s = Some s' /\ pc s' = wrap (pc s + len) /\
             only_reg s s' rd (if signed (getr s rs) >? 0 then 1 else 0).
Proof.
  eexists. split; [reflexivity|]. split; [reflexivity|].
  eapply only_reg_val; [|apply only_reg_upd]. cbn [alu_r]. rewrite getr_x0, signed_zero.
  rewrite Z.gtb_ltb. destruct (0 <? signed (getr s rs)); reflexivity.
Qed.
Lemma step_lui rd imm len s :
  exists s', step (Lui rd imm) len s = Some s' /\ pc s' = wrap (pc s + len) /\ only_reg s s' rd (wrap (imm * 4096)).
Proof. eexists. split; [reflexivity|]. split; [reflexivity|]. apply only_reg_upd. Qed.
Lemma step_auipc rd imm len s :
  exists s', step (Auipc rd imm) len s = Some s' /\ pc s' = wrap (pc s + len) /\
             only_reg s s' rd (wrap (pc s + imm * 4096)).
Proof. eexists. split; [reflexivity|]. split; [reflexivity|]. apply only_reg_upd. Qed.
Lemma step_jal rd off len s :
  exists s', step (Jal rd off) len s = Some s' /\ pc s' = wrap (pc s + off) /\ only_reg s s' rd (wrap (pc s + len)).
Proof. eexists. split; [reflexivity|]. split; [reflexivity|]. apply only_reg_upd. Qed.
Lemma step_jalr rd rs imm len s :
  exists s', step (Jalr rd rs imm) len s = Some s' /\
             pc s' = wrap (getr s rs + imm) - wrap (getr s rs + imm) mod 2 /\ only_reg s s' rd (wrap (pc s + len)).
Proof. eexists. split; [reflexivity|]. split; [reflexivity|]. apply only_reg_upd. Qed.
Lemma step_branch c rs1 rs2 off len s :
  exists s', step (Branch c rs1 rs2 off) len s = Some s' /\
             pc s' = (if cond_holds c (getr s rs1) (getr s rs2) then wrap (pc s + off) else wrap (pc s + len)) /\
             no_reg s s'.
Proof. eexists. split; [reflexivity|]. split; [reflexivity|]. apply no_reg_same. Qed.
Lemma step_fence fm p q len s :
  exists s', step (Fence fm p q) len s = Some s' /\ pc s' = wrap (pc s + len) /\ no_reg s s'.
Proof. eexists. split; [reflexivity|]. split; [reflexivity|]. apply no_reg_same. Qed.

(* ---- memory: an instruction writes only the addresses [writes] names ------------------------------------ *)
Lemma store_le_other n : forall m a v x, ~ In x (written n a) -> store_le n m a v x = m x.
Proof.
  induction n; intros m a v x H; [reflexivity|].
  cbn [store_le]. rewrite IHn.
  - unfold setb. destruct (Z.eqb_spec x (wrap a)) as [->|]; [|reflexivity].
    exfalso. apply H. unfold written. cbn [seq map]. left. rewrite Z.add_0_r. reflexivity.
  - intros Hin. apply H. unfold written in *. cbn [seq map]. right.
    rewrite <- seq_shift, map_map. apply in_map_iff in Hin. destruct Hin as (k & Hk & Hin).
    apply in_map_iff. exists k. split; [|exact Hin]. rewrite <- Hk. f_equal. lia.
Qed.
Theorem step_writes i len s s' x : step i len s = Some s' -> ~ In x (writes i s) -> mem s' x = mem s x.
Proof.
  intros H Hx. destruct i; cbn [step] in H; try discriminate; apply Some_inj in H; subst s'; try reflexivity.
  cbn [mem]. apply store_le_other. exact Hx.
Qed.

(* ---- fetch of a 32-bit instruction word -------------------------------------------------------------- *)
Ltac Zify.zify_post_hook ::= Z.to_euclidean_division_equations.
Lemma mod128_mod4 w : (w mod 128) mod 4 = w mod 4.
Proof. lia. Qed.
Ltac Zify.zify_post_hook ::= idtac.
Lemma decode32_low w i : decode32 w = Some i -> w mod 4 = 3.
Proof.
  intros H.
  assert (Hk: forall k, bits w 0 7 = k -> k mod 4 = 3 -> w mod 4 = 3).
  { intros k Hb Hm. unfold bits in Hb. rewrite Z.pow_0_r, Z.div_1_r in Hb. subst k.
    rewrite <- Hm. change (2^7) with 128. symmetry. apply mod128_mod4. }
  unfold decode32 in H.
  destruct (negb ((0 <=? w) && (w <? 4294967296))); [discriminate|].
  cbv zeta in H.
  repeat match type of H with
         | context[if (bits w 0 7 =? ?c) then _ else _] =>
             destruct (Z.eqb_spec (bits w 0 7) c) as [E|_]; [exact (Hk c E eq_refl)|]
         end.
  discriminate.
Qed.
Lemma decode32_range w i : decode32 w = Some i -> 0 <= w < 2^32.
Proof.
  unfold decode32. destruct ((0 <=? w) && (w <? 4294967296)) eqn:E; cbn [negb]; [|discriminate].
  intros _. change (2^32) with 4294967296. lia.
Qed.

(* little-endian bytes of a word, as the model's resolve_instructions packs them (Model.Passes.le_bytes) *)
Definition word_bytes (w : Z) : list Z := [w mod 256; (w / 256) mod 256; (w / 256 / 256) mod 256; (w / 256 / 256 / 256) mod 256].

Ltac Zify.zify_post_hook ::= Z.to_euclidean_division_equations.

Lemma word_bytes_sum w : 0 <= w < 2^32 ->
  (w mod 256) mod 256 + 256 * ((w / 256) mod 256 mod 256) +
    65536 * ((w / 256 / 256) mod 256 mod 256 + 256 * ((w / 256 / 256 / 256) mod 256 mod 256)) = w.
Proof. change (2^32) with 4294967296. intros H. lia. Qed.
Lemma low_mod4 w : ((w mod 256) mod 256 + 256 * ((w / 256) mod 256 mod 256)) mod 4 = w mod 4.
Proof. lia. Qed.

Ltac Zify.zify_post_hook ::= idtac.

Lemma fetch_word s w i : loaded s (word_bytes w) -> decode32 w = Some i -> fetch (mem s) (pc s) = Some (i, 4).
Proof.
  intros L D. pose proof (decode32_range _ _ D) as R. pose proof (decode32_low _ _ D) as Lo.
  unfold fetch, getb.
  assert (B0: mem s (wrap (pc s)) = w mod 256).
  { specialize (L 0). rewrite Z.add_0_r in L. apply L. cbn. lia. }
  assert (B1: mem s (wrap (pc s + 1)) = (w / 256) mod 256) by (apply (L 1); cbn; lia).
  assert (B2: mem s (wrap (pc s + 2)) = (w / 256 / 256) mod 256) by (apply (L 2); cbn; lia).
  assert (B3: mem s (wrap (pc s + 3)) = (w / 256 / 256 / 256) mod 256) by (apply (L 3); cbn; lia).
  rewrite B0, B1, B2, B3.
  rewrite low_mod4, Lo. cbn [Z.eqb Pos.eqb].
  rewrite word_bytes_sum by exact R. rewrite D. reflexivity.
Qed.

(* the second word of an 8-byte sequence, seen from the state after a first instruction that fell through *)
Lemma loaded_app_l s a b : loaded s (a ++ b) -> loaded s a.
Proof.
  intros L k Hk. rewrite (L k) by (rewrite app_length; lia).
  apply app_nth1. lia.
Qed.
Lemma loaded_app_r s s' a b :
  loaded s (a ++ b) -> mem s' = mem s -> pc s' = wrap (pc s + Z.of_nat (length a)) -> loaded s' b.
Proof.
  intros L Hm Hp k Hk. rewrite Hm, Hp, wrap_add_l.
  replace (pc s + Z.of_nat (length a) + k) with (pc s + (Z.of_nat (length a) + k)) by lia.
  rewrite (L (Z.of_nat (length a) + k)) by (rewrite app_length; lia).
  rewrite app_nth2 by lia. f_equal. lia.
Qed.

(* ---- observational equality ----------------------------------------------------------------------------- *)
Lemma state_eq_refl s : state_eq s s.
Proof. repeat split. Qed.
Lemma state_eq_sym s t : state_eq s t -> state_eq t s.
Proof. intros (A & B & C). repeat split; intros; symmetry; auto. Qed.
Lemma state_eq_trans s t u : state_eq s t -> state_eq t u -> state_eq s u.
Proof. intros (A & B & C) (A' & B' & C'). repeat split; intros; etransitivity; eauto. Qed.
Lemma sem_equiv_refl i : sem_equiv i i.
Proof. intros len s. destruct (step i len s); cbn; [apply state_eq_refl|exact I]. Qed.
Lemma sem_equiv_sym i j : sem_equiv i j -> sem_equiv j i.
Proof.
  intros H len s. specialize (H len s). destruct (step i len s), (step j len s); cbn in *; auto using state_eq_sym.
Qed.
Lemma sem_equiv_trans i j k : sem_equiv i j -> sem_equiv j k -> sem_equiv i k.
Proof.
  intros H1 H2 len s. specialize (H1 len s). specialize (H2 len s).
  destruct (step i len s), (step j len s), (step k len s); cbn in *; try contradiction; eauto using state_eq_trans.
Qed.
(* the compressed rendering of mv: c.mv rd, rs expands to add rd, x0, rs -- the same as addi rd, rs, 0 *)
Lemma mv_forms_equiv rd rs : sem_equiv (OpImm ADDI rd rs 0) (Op ADD rd 0 rs).
Proof.
  intros len s. cbn [step ostate_eq]. unfold state_eq, upd. cbn [pc mem regs]. repeat split.
  intros r. unfold getr, setr. cbn [regs alu_i alu_r].
  change (if 0 =? 0 then 0 else wrap (regs s 0)) with 0.
  rewrite Z.add_0_r, Z.add_0_l. reflexivity.
Qed.
