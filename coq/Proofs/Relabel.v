(* The passes use the `line` attached to an item ONLY to report errors: renaming the lines of a program (other file
   names, other physical line numbers -- what extra blank lines, comments or moving text into an included file do)
   renames the lines in the result and in the error, and changes nothing else: same chunks, labels, constants. *)
From Coq Require Import ZArith List Bool Lia String.
From BB Require Import Base.PyBase Gen.Encoders Gen.Criteria Model.Items Model.Encode Model.Passes Proofs.Layout.
Import ListNotations.
Open Scope Z_scope.

Section Relabel.
Variable f : line -> line.

Definition fperr (e : perr) : perr := match e with PAsm l => PAsm (f l) | PRaw x => PRaw x end.
Definition fpres {A} (r : pres A) : pres A := match r with POk a => POk a | PErr e => PErr (fperr e) end.
Definition fitem (it : item) : item := match it with IPseudo n a p => IPseudo n a (fpres p) | _ => it end.
Definition flit (x : litem) : litem := (f (fst x), fitem (snd x)).
Definition fout {A} (g : A -> A) (o : outcome A) : outcome A :=
  match o with Done a => Done (g a) | Fail e => Fail (fperr e) | Unsupported => Unsupported end.
Definition fchunks (cs : list (line * chunk)) : list (line * chunk) := map (fun c => (f (fst c), snd c)) cs.
Definition fresult (r : result) : result :=
  {| r_chunks := fchunks (r_chunks r); r_consts := r_consts r; r_labels := r_labels r |}.

Lemma fout_bind {A B} (g : A -> A) (h : B -> B) (o : outcome A) (k k' : A -> outcome B) :
  (forall a, k' (g a) = fout h (k a)) -> obind (fout g o) k' = fout h (obind o k).
Proof. intro H. destruct o; simpl; auto. Qed.

Lemma eeval_relabel hi lo l pos has get e :
  eeval hi lo (f l) pos has get e = fpres (eeval hi lo l pos has get e).
Proof.
  induction e as [a|z|r e' IH|r|e' IH|e' IH]; simpl.
  - destruct (aeval get a); reflexivity.
  - reflexivity.
  - destruct (has r); [|reflexivity]. destruct (get r); [|reflexivity]. rewrite IH.
    destruct (eeval hi lo l pos has get e') as [b|x]; reflexivity.
  - destruct (has r); [|reflexivity]. destruct (get r), pos; reflexivity.
  - rewrite IH. destruct (eeval hi lo l pos has get e') as [b|x]; reflexivity.
  - rewrite IH. destruct (eeval hi lo l pos has get e') as [b|x]; reflexivity.
Qed.
Lemma of_pres_relabel {A} (r : pres A) : of_pres (fpres r) = fout (fun a => a) (of_pres r).
Proof. destruct r as [a|[l|x]]; reflexivity. Qed.

Lemma size_fitem it : size (fitem it) = size it. Proof. destruct it; reflexivity. Qed.
Lemma size_o_fitem it : size_o (fitem it) = size_o it. Proof. unfold size_o. rewrite size_fitem. reflexivity. Qed.
Lemma is_label_fitem it : is_label (fitem it) = is_label it. Proof. destruct it; reflexivity. Qed.
Lemma fout_id {A} (o : outcome A) : (forall l, o <> Fail (PAsm l)) -> fout (fun a => a) o = o.
Proof. destruct o as [a|[l|x]|]; simpl; auto. intro H. exfalso. apply (H l). reflexivity. Qed.
Lemma size_o_noasm it l : size_o it <> Fail (PAsm l).
Proof. unfold size_o. destruct (size it) as [[?|?]|]; discriminate. Qed.
Lemma sizes_map rs : sizes (map fitem rs) = sizes rs.
Proof. induction rs as [|x rs IH]; simpl; auto. rewrite size_o_fitem, IH. reflexivity. Qed.
Lemma sizes_noasm rs l : sizes rs <> Fail (PAsm l).
Proof.
  induction rs as [|x rs IH]; simpl; try discriminate.
  destruct (size_o x) as [a|[l1|x1]|] eqn:E; simpl; try discriminate.
  - destruct (sizes rs) as [b|[l2|x2]|]; simpl; try discriminate. intro H; inversion H; subst. apply IH; reflexivity.
  - exfalso. eapply size_o_noasm; eauto.
Qed.

(* ---- the generic pass -------------------------------------------------------------------------------------------------- *)
Definition rule_eq (rule : rule_t) : Prop :=
  forall l it pos ls, rule (f l) (fitem it) pos ls = fout (map fitem) (rule l it pos ls).

Lemma gp_relabel rule (Hr : rule_eq rule) its : forall pos ls,
  gp rule (map flit its) pos ls = fout (fun p => (map flit (fst p), snd p)) (gp rule its pos ls).
Proof.
  induction its as [|[l it] r IH]; intros pos ls; simpl. reflexivity.
  rewrite is_label_fitem. destruct (is_label it) as [n|] eqn:El.
  - rewrite IH. destruct (gp rule r pos ls) as [[o ls1]|e|]; simpl; auto.
  - rewrite size_o_fitem. destruct (size_o it) as [old|e|] eqn:Es; simpl; auto.
    + rewrite Hr. destruct (rule l it pos ls) as [rs|e|]; simpl; auto.
      rewrite sizes_map. destruct (sizes rs) as [new|e|] eqn:En; simpl; auto.
      * rewrite IH. destruct (gp rule r (pos + new) _) as [[o ls1]|e|]; simpl; auto.
        f_equal. f_equal. rewrite map_app, !map_map. reflexivity.
      * destruct e as [l1|x]; auto. exfalso. eapply sizes_noasm; eauto.
    + destruct e as [l1|x]; auto. exfalso. eapply size_o_noasm; eauto.
Qed.
Lemma gpass_relabel rule (Hr : rule_eq rule) its ls :
  gpass rule (map flit its) 0 ls [] = fout (fun p => (map flit (fst p), snd p)) (gpass rule its 0 ls []).
Proof.
  rewrite !gpass_gp, (gp_relabel rule Hr). destruct (gp rule its 0 ls) as [[o ls1]|e|]; reflexivity.
Qed.

(* ---- the three rules ------------------------------------------------------------------------------------------------------ *)
Lemma eval_consts_relabel l pos consts e : eval_consts (f l) pos consts e = fpres (eval_consts l pos consts e).
Proof. apply eeval_relabel. Qed.
Lemma is_settled_relabel l pos consts e : is_settled (f l) pos consts e = fout (fun b => b) (is_settled l pos consts e).
Proof.
  unfold is_settled. destruct (is_position_relative e); [reflexivity|]. rewrite eval_consts_relabel.
  destruct (eval_consts l pos consts e) as [v|[l1|x]]; reflexivity.
Qed.
Lemma imm_unstable_relabel l pos consts cls fs :
  imm_unstable (f l) pos consts cls fs = fout (fun b => b) (imm_unstable l pos consts cls fs).
Proof.
  unfold imm_unstable. destruct (field_get "imm" fs) as [[a|e|z|b]|]; try reflexivity.
  cbv zeta. destruct (_ && _); [reflexivity|]. rewrite is_settled_relabel.
  destruct (is_settled l pos consts e) as [st|[l1|x]|]; reflexivity.
Qed.
Lemma view_relabel l pos consts labels name fs : view_of (f l) pos consts labels name fs = view_of l pos consts labels name fs.
Proof.
  unfold view_of. f_equal. destruct (field_get "imm" fs) as [[a|e|z|b]|]; try reflexivity.
  rewrite eeval_relabel. destruct (eeval _ _ l _ _ _ e) as [v|[l1|x]]; reflexivity.
Qed.
Lemma perr_of_pred_relabel l e : perr_of_pred (f l) e = fperr (perr_of_pred l e).
Proof. unfold perr_of_pred. destruct e; try reflexivity; try (destruct select_converts_value_error; reflexivity). Qed.

Lemma build_compressed_plain rule fs it' : build_compressed rule fs = Some it' -> fitem it' = it'.
Proof.
  unfold build_compressed. intro Eb.
  repeat match type of Eb with
         | match ?x with _ => _ end = Some _ => destruct x; cbv beta iota in Eb; try discriminate Eb
         end.
  inversion Eb. reflexivity.
Qed.
Lemma compress_rule_eq consts : rule_eq (compress_rule consts).
Proof.
  intros l it pos ls. destruct it; try reflexivity. cbn [fitem compress_rule].
  rewrite imm_unstable_relabel. destruct (imm_unstable l pos consts cls fields) as [u|[l1|x]|]; cbn [fout obind]; auto.
  destruct u; [reflexivity|]. rewrite view_relabel.
  destruct (select_rule criteria _) as [[rule|]|e]; cbn [fout].
  - destruct (build_compressed rule fields) as [it'|] eqn:Eb; cbn [fout map]; auto.
    rewrite (build_compressed_plain _ _ _ Eb). reflexivity.
  - reflexivity.
  - rewrite perr_of_pred_relabel. reflexivity.
Qed.

Lemma expand_pseudo_relabel l name args pimm :
  expand_pseudo (f l) name args (fpres pimm) = fout (fun px => px) (expand_pseudo l name args pimm).
Proof.
  unfold expand_pseudo.
  repeat match goal with
         | |- context[if String.eqb name ?s then _ else _] => destruct (String.eqb name s)
         end;
  repeat match goal with
         | |- context[match args with _ => _ end] => destruct args as [|? args]
         end;
  try reflexivity;
  try (destruct pimm as [e|[l1|x]]; reflexivity).
Qed.
Lemma pexp_items_plain px name l args pimm : expand_pseudo l name args pimm = Done px ->
  match px with One it => fitem it = it | Choice _ _ _ _ a b c => fitem a = a /\ fitem b = b /\ fitem c = c end.
Proof.
  unfold expand_pseudo.
  repeat match goal with
         | |- context[if String.eqb name ?s then _ else _] => destruct (String.eqb name s)
         end;
  repeat match goal with
         | |- context[match args with _ => _ end] => destruct args as [|? args]
         end;
  try (intro H; discriminate H);
  try (destruct pimm as [e|[l1|x]]; simpl);
  intro H; inversion H; subst; simpl; auto.
Qed.

Lemma pseudo_rule_eq consts : rule_eq (pseudo_rule consts).
Proof.
  intros l it pos ls. destruct it; try reflexivity. cbn [fitem pseudo_rule].
  rewrite expand_pseudo_relabel. destruct (expand_pseudo l name args pimm) as [px|[l1|x]|] eqn:Ex; simpl; auto.
  pose proof (pexp_items_plain _ _ _ _ _ Ex) as Hp.
  destruct px as [it'|e target lo hi near f1 f2].
  - simpl. rewrite Hp. reflexivity.
  - destruct Hp as (P1 & P2 & P3). rewrite eeval_relabel, of_pres_relabel.
    destruct (of_pres _) as [v|[l1|x]|]; simpl; auto.
    destruct target as [r|]; simpl.
    + cbv zeta. destruct (_ && _ && _); simpl; rewrite ?P1, ?P2, ?P3; reflexivity.
    + rewrite is_settled_relabel. destruct (is_settled l pos consts e) as [st|[l1|x]|]; simpl; auto.
      cbv zeta. destruct (_ && _ && _); simpl; rewrite ?P1, ?P2, ?P3; reflexivity.
Qed.

Lemma align_rule_eq : rule_eq align_rule.
Proof.
  intros l it pos ls. destruct it; try reflexivity. cbn [fitem align_rule].
  destruct (n =? 0); [reflexivity|]. cbv zeta. destruct (_ =? 0); reflexivity.
Qed.
End Relabel.

(* ---- the item-wise passes ------------------------------------------------------------------------------------------------ *)
Section Relabel2.
Variable f : line -> line.
Notation FL := (map (flit f)).
Notation FO := (fout f).

Ltac acc_step l acc IH :=
  first [ match goal with |- context[(f l, IPseudo ?n ?a (fpres f ?p)) :: map (flit f) acc] =>
            change ((f l, IPseudo n a (fpres f p)) :: map (flit f) acc) with (map (flit f) ((l, IPseudo n a p) :: acc)) end
        | match goal with |- context[flit f ?p :: map (flit f) acc] => change (flit f p :: map (flit f) acc) with (map (flit f) (p :: acc)) end
        | match goal with |- context[(f l, ?X) :: map (flit f) acc] => change ((f l, X) :: map (flit f) acc) with (map (flit f) ((l, X) :: acc)) end ];
  apply IH.

Lemma rev_FL (acc : list litem) : rev (FL acc) = FL (rev acc). Proof. symmetry. apply map_rev. Qed.

Lemma constants_relabel its : forall consts acc,
  resolve_constants_lr (FL its) consts (FL acc) = FO (fun p => (FL (fst p), snd p)) (resolve_constants_lr its consts acc).
Proof.
  induction its as [|[l it] r IH]; intros consts acc; [simpl; rewrite rev_FL; reflexivity|]. cbn [map].
  destruct it; cbn [fitem flit fst snd resolve_constants_lr];
    try (acc_step l acc IH).
  destruct e; try reflexivity;
    (destruct (mem_str name reg_names); [reflexivity|]; destruct (is_int name); [reflexivity|];
     rewrite eeval_relabel, of_pres_relabel;
     match goal with |- context[of_pres ?x] => destruct (of_pres x) as [v|[l1|x1]|] end; cbn [fout obind]; auto).
Qed.

Lemma labels_relabel its : forall pos ls d,
  resolve_labels_from (FL its) pos ls d = FO (fun x => x) (resolve_labels_from its pos ls d).
Proof.
  induction its as [|[l it] r IH]; intros pos ls d; [reflexivity|]. cbn [map].
  destruct it; cbn [fitem flit fst snd resolve_labels_from];
    try match goal with |- context[size_o (IPseudo ?n ?a (fpres f ?p))] => change (size_o (IPseudo n a (fpres f p))) with (size_o (IPseudo n a p)) end;
    try (match goal with |- context[size_o ?i] => destruct (size_o i) as [k|[l1|x]|] eqn:Es; cbn [obind fout]; auto;
           try apply IH; try (exfalso; eapply size_o_noasm; eauto) end).
  destruct (mem_str name d); [reflexivity|]. apply IH.
Qed.

Lemma aliases_relabel its consts : resolve_register_aliases (FL its) consts = FL (resolve_register_aliases its consts).
Proof.
  unfold resolve_register_aliases. rewrite !map_map. apply map_ext. intros [l it]. destruct it; reflexivity.
Qed.

Lemma imm_of_relabel l p consts labels v : imm_of (f l) p consts labels v = FO (fun z => z) (imm_of l p consts labels v).
Proof.
  unfold imm_of, eval_here. destruct v; try reflexivity. rewrite eeval_relabel. apply of_pres_relabel.
Qed.

Lemma immediates_relabel its : forall pos consts labels acc,
  resolve_immediates (FL its) pos consts labels (FL acc) = FO FL (resolve_immediates its pos consts labels acc).
Proof.
  induction its as [|[l it] r IH]; intros pos consts labels acc; [simpl; rewrite rev_FL; reflexivity|]. cbn [map].
  destruct it; cbn [fitem flit fst snd resolve_immediates];
    try match goal with |- context[size_o (IPseudo ?n ?a (fpres f ?p))] => change (size_o (IPseudo n a (fpres f p))) with (size_o (IPseudo n a p)) end;
    try (match goal with |- context[size_o ?i] => destruct (size_o i) as [k|[l1|x]|] eqn:Es; cbn [obind fout]; auto;
           [ acc_step l acc IH | exfalso; eapply size_o_noasm; eauto ] end).
  - destruct (field_get "imm" fields) as [v|].
    + rewrite imm_of_relabel. destruct (imm_of l _ consts labels v) as [imm|[l1|x]|]; cbn [obind fout]; auto.
      acc_step l acc IH.
    + acc_step l acc IH.
  - rewrite imm_of_relabel. destruct (imm_of l pos consts labels imm) as [v|[l1|x]|]; cbn [obind fout]; auto.
    destruct (size_o (IPack fmt imm)) as [k|[l1|x]|] eqn:Es; cbn [obind fout]; auto.
    + acc_step l acc IH.
    + exfalso; eapply size_o_noasm; eauto.
  - rewrite imm_of_relabel. destruct (imm_of l pos consts labels imm) as [v|[l1|x]|]; cbn [obind fout]; auto.
    destruct (size_o (IShort name imm)) as [k|[l1|x]|] eqn:Es; cbn [obind fout]; auto.
    + acc_step l acc IH.
    + exfalso; eapply size_o_noasm; eauto.
Qed.

Lemma encode_item_relabel l cls name fs c : encode_item (f l) cls name fs c = FO (fun b => b) (encode_item l cls name fs c).
Proof.
  unfold encode_item. destruct (if is_atomic_cls cls then _ else _) as [code|e]; [reflexivity|]. destruct e; reflexivity.
Qed.

Lemma instructions_relabel its : forall acc,
  resolve_instructions (FL its) (FL acc) = FO FL (resolve_instructions its acc).
Proof.
  induction its as [|[l it] r IH]; intros acc; [simpl; rewrite rev_FL; reflexivity|]. cbn [map].
  destruct it; cbn [fitem flit fst snd resolve_instructions]; try (acc_step l acc IH).
  rewrite encode_item_relabel. destruct (encode_item l cls name fields compressed) as [bs|[l1|x]|]; cbn [obind fout]; auto.
  acc_step l acc IH.
Qed.
Lemma strings_relabel its : resolve_strings (FL its) = FL (resolve_strings its).
Proof. unfold resolve_strings. rewrite !map_map. apply map_ext. intros [l it]. destruct it; reflexivity. Qed.
Lemma seq_bytes_relabel l fm vals : seq_bytes (f l) fm vals = FO (fun b => b) (seq_bytes l fm vals).
Proof.
  induction vals as [|v vals IH]; simpl. reflexivity.
  destruct (py_int_lit v) as [z|]; [|reflexivity].
  destruct (struct_pack _ z) as [[bs|e]|]; try reflexivity.
  rewrite IH. destruct (seq_bytes l fm vals) as [rest|[l1|x]|]; reflexivity.
Qed.
Lemma sequences_relabel its : forall acc,
  resolve_sequences (FL its) (FL acc) = FO FL (resolve_sequences its acc).
Proof.
  induction its as [|[l it] r IH]; intros acc; [simpl; rewrite rev_FL; reflexivity|]. cbn [map].
  destruct it; cbn [fitem flit fst snd resolve_sequences]; try (acc_step l acc IH).
  destruct (negb (all_ints vals)); [reflexivity|]. destruct (seq_fmt name) as [fm|]; [|reflexivity].
  rewrite seq_bytes_relabel. destruct (seq_bytes l fm vals) as [bs|[l1|x]|]; cbn [obind fout]; auto.
  acc_step l acc IH.
Qed.
Lemma shorthand_relabel its : forall acc,
  transform_shorthand (FL its) (FL acc) = FO FL (transform_shorthand its acc).
Proof.
  induction its as [|[l it] r IH]; intros acc; [simpl; rewrite rev_FL; reflexivity|]. cbn [map].
  destruct it; cbn [fitem flit fst snd transform_shorthand]; try (acc_step l acc IH).
  destruct imm; try reflexivity. destruct (short_fmt name); [|reflexivity]. acc_step l acc IH.
Qed.
Lemma packs_relabel its : forall acc,
  resolve_packs (FL its) (FL acc) = FO FL (resolve_packs its acc).
Proof.
  induction its as [|[l it] r IH]; intros acc; [simpl; rewrite rev_FL; reflexivity|]. cbn [map].
  destruct it; cbn [fitem flit fst snd resolve_packs]; try (acc_step l acc IH).
  destruct imm; try reflexivity. destruct (struct_pack fmt z) as [[bs|e]|]; try reflexivity. acc_step l acc IH.
Qed.
Lemma include_bytes_relabel its : forall acc,
  resolve_include_bytes (FL its) (FL acc) = FO FL (resolve_include_bytes its acc).
Proof.
  induction its as [|[l it] r IH]; intros acc; [simpl; rewrite rev_FL; reflexivity|]. cbn [map].
  destruct it; cbn [fitem flit fst snd resolve_include_bytes]; try (acc_step l acc IH).
  destruct actual as [n|]; [|reflexivity]. destruct (n =? size); [|reflexivity]. acc_step l acc IH.
Qed.
Lemma blobs_relabel its : resolve_blobs (FL its) = FO (fchunks f) (resolve_blobs its).
Proof.
  induction its as [|[l it] r IH]; simpl. reflexivity.
  destruct it; cbn [fitem flit fst snd resolve_blobs]; try reflexivity; try exact IH;
    rewrite IH; destruct (resolve_blobs r) as [rest|[l1|x]|]; reflexivity.
Qed.

(* ---- THE THEOREM ------------------------------------------------------------------------------------------------------------ *)
Theorem assemble_relabel its c0 l0 cmp :
  assemble_items (FL its) c0 l0 cmp = FO (fresult f) (assemble_items its c0 l0 cmp).
Proof.
  unfold assemble_items.
  change (@nil litem) with (FL []) at 1. rewrite constants_relabel.
  destruct (resolve_constants_lr its c0 []) as [[i1 consts]|[l1|x]|]; cbn [fout obind fst snd]; auto.
  unfold resolve_labels. rewrite labels_relabel.
  destruct (resolve_labels_from i1 0 l0 []) as [labels|[l1|x]|]; cbn [fout obind]; auto.
  rewrite aliases_relabel.
  assert (E3 : (if cmp then transform_compressible (FL (resolve_register_aliases i1 consts)) consts labels
                else Done (FL (resolve_register_aliases i1 consts), labels)) =
               FO (fun p => (FL (fst p), snd p))
                  (if cmp then transform_compressible (resolve_register_aliases i1 consts) consts labels
                   else Done (resolve_register_aliases i1 consts, labels))).
  { destruct cmp; [|reflexivity]. unfold transform_compressible. apply gpass_relabel. apply compress_rule_eq. }
  rewrite E3. clear E3.
  destruct (if cmp then _ else _) as [[i3 lab3]|[l1|x]|]; cbn [fout obind fst snd]; auto.
  unfold transform_pseudo. rewrite (gpass_relabel f _ (pseudo_rule_eq f consts)).
  destruct (gpass (pseudo_rule consts) i3 0 lab3 []) as [[i4 lab4]|[l1|x]|]; cbn [fout obind fst snd]; auto.
  rewrite aliases_relabel.
  assert (E6 : (if cmp then transform_compressible (FL (resolve_register_aliases i4 consts)) consts lab4
                else Done (FL (resolve_register_aliases i4 consts), lab4)) =
               FO (fun p => (FL (fst p), snd p))
                  (if cmp then transform_compressible (resolve_register_aliases i4 consts) consts lab4
                   else Done (resolve_register_aliases i4 consts, lab4))).
  { destruct cmp; [|reflexivity]. unfold transform_compressible. apply gpass_relabel. apply compress_rule_eq. }
  rewrite E6. clear E6.
  destruct (if cmp then _ else _) as [[i6 lab6]|[l1|x]|]; cbn [fout obind fst snd]; auto.
  unfold resolve_aligns. rewrite (gpass_relabel f _ (align_rule_eq f)).
  destruct (gpass align_rule i6 0 lab6 []) as [[i7 lab7]|[l1|x]|]; cbn [fout obind fst snd]; auto.
  change (@nil litem) with (FL []) at 1. rewrite immediates_relabel.
  destruct (resolve_immediates i7 0 consts lab7 []) as [i8|[l1|x]|]; cbn [fout obind]; auto.
  change (@nil litem) with (FL []) at 1. rewrite instructions_relabel.
  destruct (resolve_instructions i8 []) as [i9|[l1|x]|]; cbn [fout obind]; auto.
  rewrite strings_relabel.
  change (@nil litem) with (FL []) at 1. rewrite sequences_relabel.
  destruct (resolve_sequences (resolve_strings i9) []) as [i11|[l1|x]|]; cbn [fout obind]; auto.
  change (@nil litem) with (FL []) at 1. rewrite shorthand_relabel.
  destruct (transform_shorthand i11 []) as [i12|[l1|x]|]; cbn [fout obind]; auto.
  change (@nil litem) with (FL []) at 1. rewrite packs_relabel.
  destruct (resolve_packs i12 []) as [i13|[l1|x]|]; cbn [fout obind]; auto.
  change (@nil litem) with (FL []) at 1. rewrite include_bytes_relabel.
  destruct (resolve_include_bytes i13 []) as [i14|[l1|x]|]; cbn [fout obind]; auto.
  rewrite blobs_relabel.
  destruct (resolve_blobs i14) as [chunks|[l1|x]|]; cbn [fout obind]; auto.
Qed.
End Relabel2.

(* what this means for a successful run: bytes, labels, constants do not depend on the lines at all *)
Corollary relabel_success f its c0 l0 cmp r :
  assemble_items its c0 l0 cmp = Done r ->
  exists r', assemble_items (map (flit f) its) c0 l0 cmp = Done r' /\
             map snd (r_chunks r') = map snd (r_chunks r) /\ r_labels r' = r_labels r /\ r_consts r' = r_consts r.
Proof.
  intro H. exists (fresult f r). rewrite assemble_relabel, H. split; [reflexivity|].
  split; [|split; reflexivity]. unfold fresult, fchunks. simpl. rewrite map_map. reflexivity.
Qed.
(* ... and a failing run fails in the same way, naming the renamed line *)
Corollary relabel_failure f its c0 l0 cmp e :
  assemble_items its c0 l0 cmp = Fail e -> assemble_items (map (flit f) its) c0 l0 cmp = Fail (fperr f e).
Proof. intro H. rewrite assemble_relabel, H. reflexivity. Qed.
