(* The decisions of Model/Items.v (eeval) and Model/Passes.v (is_position_relative, is_settled, imm_unstable, the position at which
   resolve_immediates evaluates, resolve_labels, resolve_constants) are EQUAL to the interpretation of the tables that
   tools/units_guards.py regenerates from asm.py on every run (Gen/Guards.v).  An edit of one of these decisions in the source --
   `is_settled(.., env, ..)` instead of `constants`, a reference test against `env`, `position - dest`, another class in
   `is_position_relative`, `position - 2` for the auipc pair -- changes the generated table and breaks the equality here. *)
From Coq Require Import ZArith List Bool String Lia.
From BB Require Import Base.PyBase Gen.Encoders Gen.Guards Model.Items Model.Passes.
Import ListNotations.
Open Scope Z_scope.

(* ---- how the tables are read -------------------------------------------------------------------------------------- *)
Definition ecls (e : expr) : string :=
  match e with
  | EArith _ | EArithInt _ => "Arithmetic" | EPos _ _ => "Position" | EOff _ => "Offset" | EHi _ => "Hi" | ELo _ => "Lo"
  end%string.

Fixpoint gen_posrel (e : expr) : bool :=
  if mem_str (ecls e) posrel_true then true
  else if mem_str (ecls e) posrel_rec then
    match e with EPos _ e' | EHi e' | ELo e' => gen_posrel e' | _ => false end
  else false.

(* a dictionary expression of the source, by name: `constants`, or `env` = ChainMap(cg_env) *)
Definition has_of (get : string -> option Z) (k : string) : bool := match get k with Some _ => true | None => false end.
Definition pick_get (chain : list string) (n : string) (consts labels : envt) : option (string -> option Z) :=
  if String.eqb n "constants" then Some (fun k => assoc_str k consts)
  else if String.eqb n "labels" then Some (fun k => assoc_str k labels)
  else if String.eqb n "env" then
    match chain with
    | [a; b]%list => if String.eqb a "constants" && String.eqb b "labels" then Some (chain_get consts labels) else None
    | _ => None
    end
  else None.
Definition pick_pos (n : string) (pos : Z) : option (option Z) :=
  if String.eqb n "position" then Some (Some pos) else if String.eqb n "None" then Some None else None.

Fixpoint index_of (x : string) (l : list string) : option nat :=
  match l with [] => None | y :: r => if String.eqb x y then Some O else option_map S (index_of x r) end.
(* the actual argument a call site hands in for the parameter that is_settled passes on as the k-th argument of eval *)
Definition settled_actual (k : nat) (call_args : list string) : option string :=
  match nth_error settled_eval_args k with
  | Some p => match index_of p settled_params with Some i => nth_error call_args i | None => None end
  | None => None
  end.

Definition gen_is_settled (chain call_args : list string) (l : line) (pos : Z) (consts labels : envt) (e : expr) : outcome bool :=
  if gen_posrel e then Done false
  else
    match settled_actual 0 call_args, settled_actual 1 call_args with
    | Some pn, Some en =>
        match pick_pos pn pos, pick_get chain en consts labels with
        | Some p, Some get =>
            match eeval relocate_hi relocate_lo l p (has_of get) get e with
            | POk _ => Done true
            | PErr (PAsm _) => if mem_str "AssemblerError" settled_catches then Done false else Fail (PRaw AssemblerError)
            | PErr e' => Fail e'
            end
        | _, _ => Unsupported
        end
    | _, _ => Unsupported
    end.

Definition gen_imm_unstable (l : line) (pos : Z) (consts labels : envt) (cls : string) (fs : list (string * fval)) : outcome bool :=
  match field_get "imm" fs with
  | Some (FExpr e) =>
      let jump := mem_str cls cg_jump_classes in
      let to_label :=
        String.eqb (ecls e) cg_imm_class &&
        match e, pick_get cg_env cg_ref_not_in consts labels with
        | EOff r, Some get => negb (has_of get r)
        | _, _ => false
        end in
      if jump && to_label then Done false
      else (st <<- gen_is_settled cg_env cg_settled_args l pos consts labels e ;;; Done (negb st))
  | Some _ => Fail (PRaw AttributeError)
  | None => Done false
  end.

(* ---- the model's functions ARE these interpretations ------------------------------------------------------------------ *)
Lemma posrel_from_source e : is_position_relative e = gen_posrel e.
Proof. induction e as [a|z|r e IH|r|e IH|e IH]; cbn; try reflexivity; exact IH. Qed.

Lemma has_of_consts consts k : has_of (fun k => assoc_str k consts) k = in_consts consts k.
Proof. reflexivity. Qed.

Lemma settled_from_source l pos consts labels e :
  is_settled l pos consts e = gen_is_settled cg_env cg_settled_args l pos consts labels e.
Proof.
  unfold is_settled, gen_is_settled. rewrite <- posrel_from_source.
  destruct (is_position_relative e); [reflexivity|].
  cbn [settled_actual settled_eval_args settled_params cg_settled_args nth_error index_of String.eqb Ascii.eqb Bool.eqb option_map].
  cbv beta iota. unfold eval_consts, has_of.
  change (pick_pos "position" pos) with (Some (Some pos)).
  change (pick_get cg_env "constants" consts labels) with (Some (fun k => assoc_str k consts)).
  cbv beta iota.
  destruct (eeval _ _ _ _ _ _ e) as [v|[ln|x]]; reflexivity.
Qed.

Lemma guard_from_source l pos consts labels cls fs :
  imm_unstable l pos consts cls fs = gen_imm_unstable l pos consts labels cls fs.
Proof.
  unfold imm_unstable, gen_imm_unstable.
  destruct (field_get "imm" fs) as [[a|e|z|b]|]; try reflexivity.
  rewrite <- (settled_from_source l pos consts labels e).
  change (mem_str cls cg_jump_classes)
    with (String.eqb cls "BTypeInstruction" || (String.eqb cls "JTypeInstruction" || false)).
  rewrite orb_false_r.
  destruct e as [a|z|r e|r|e|e]; try reflexivity.
Qed.

(* the expression classes evaluate as their eval methods say *)
Definition fn_by_name (n : string) : option (Z -> Z) :=
  if String.eqb n "relocate_hi" then Some relocate_hi else if String.eqb n "relocate_lo" then Some relocate_lo else None.

Definition eval_from_source_stmt : Prop := forall (l : line) (position : option Z) (has : string -> bool) (get : string -> option Z),
  mem_str "Offset" ref_checked = true /\ mem_str "Position" ref_checked = true /\
  (forall c, In c ["Position"; "Hi"; "Lo"]%string -> assoc_str c inner_eval_args = Some ["position"; "env"; "line"]%string) /\
  (forall r d p, has r = true -> get r = Some d -> position = Some p ->
     eeval relocate_hi relocate_lo l position has get (EOff r) = POk (offset_eval d p)) /\
  (forall r, has r = false -> eeval relocate_hi relocate_lo l position has get (EOff r) = PErr (PAsm l)
                              /\ forall e, eeval relocate_hi relocate_lo l position has get (EPos r e) = PErr (PAsm l)) /\
  (forall r e d b, has r = true -> get r = Some d -> eeval relocate_hi relocate_lo l position has get e = POk b ->
     forall p, eeval relocate_hi relocate_lo l position has get (EPos r e) = POk (position_eval b d p)) /\
  (forall e b, eeval relocate_hi relocate_lo l position has get e = POk b ->
     exists fh fl, fn_by_name hi_fn = Some fh /\ fn_by_name lo_fn = Some fl /\
       eeval relocate_hi relocate_lo l position has get (EHi e) = POk (fh b) /\
       eeval relocate_hi relocate_lo l position has get (ELo e) = POk (fl b)).
Lemma eval_from_source : eval_from_source_stmt.
Proof.
  intros l position has get. split; [reflexivity|]. split; [reflexivity|].
  split. { intros c [<-|[<-|[<-|[]]]]; reflexivity. }
  split. { intros r d p Hh Hg ->. cbn. rewrite Hh, Hg. reflexivity. }
  split. { intros r Hh. split; [|intro e]; cbn; rewrite Hh; reflexivity. }
  split. { intros r e d b Hh Hg He p. cbn. rewrite Hh, Hg, He. reflexivity. }
  intros e b He. exists relocate_hi, relocate_lo. split; [reflexivity|]. split; [reflexivity|].
  cbn. rewrite He. split; reflexivity.
Qed.

(* resolve_immediates: position of the evaluation (the second half of an auipc / lui pair is evaluated at the first), environment *)
Definition resolve_immediates_from_source_stmt : Prop :=
  ri_env = ["constants"; "labels"]%string /\ ri_skip_without_imm = true /\ ri_stores_imm = true /\
  ri_advance = ["position += new_item.size()"]%string /\
  forall l cls name fs c r pos consts labels acc v,
    field_get "imm" fs = Some v ->
    let back := match field_get "is_auipc_jump" fs with Some (FBool true) => true | _ => false end in
    resolve_immediates ((l, IInstr cls name fs c) :: r) pos consts labels acc =
    (imm <<- imm_of l (if back then ri_auipc_position pos else ri_plain_position pos) consts labels v ;;;
     resolve_immediates r (pos + (if c then 2 else 4)) consts labels ((l, IInstr cls name (field_set "imm" (FInt imm) fs) c) :: acc)).
Lemma resolve_immediates_from_source : resolve_immediates_from_source_stmt.
Proof.
  repeat (split; [reflexivity|]).
  intros l cls name fs c r pos consts labels acc v Hv back. cbn [resolve_immediates]. rewrite Hv.
  subst back. unfold ri_auipc_position, ri_plain_position.
  destruct (field_get "is_auipc_jump" fs) as [[a|e|z|[|]]|]; try (replace (pos - 0) with pos by lia); reflexivity.
Qed.

(* resolve_labels: a label is bound to the running position, which starts at 0 and advances by item.size(); a second definition is refused *)
Definition resolve_labels_from_source_stmt : Prop :=
  rl_duplicate_check = true /\ rl_value = "position"%string /\ rl_starts_at_zero = true /\ rl_fresh_defined = true /\
  (forall l name r pos labels defined,
     resolve_labels_from ((l, ILabel name) :: r) pos labels defined =
     if mem_str name defined then Fail (PAsm l) else resolve_labels_from r pos (dict_set name pos labels) (name :: defined)) /\
  (forall its labels, resolve_labels its 0 labels = resolve_labels_from its 0 labels []).
Lemma resolve_labels_from_source : resolve_labels_from_source_stmt.
Proof. repeat (split; [reflexivity|]). split; reflexivity. Qed.

(* resolve_constants: evaluated with position None against ChainMap(constants, REGISTERS) -- no labels --, after the three refusals *)
Definition resolve_constants_from_source_stmt : Prop :=
  rc_env = ["constants"; "REGISTERS"]%string /\ rc_eval_args = ["None"; "env"; "item.line"]%string /\ rc_stores = true /\
  rc_tests = ["not isinstance(item.expr, Arithmetic)"; "item.name in REGISTERS"; "is_int(item.name)"]%string /\
  forall l name a r consts acc,
    resolve_constants_lr ((l, IConst name (EArith a)) :: r) consts acc =
    if mem_str name reg_names then Fail (PAsm l) else if is_int name then Fail (PAsm l)
    else (v <<- of_pres (eeval relocate_hi relocate_lo l None (fun _ => false) (chain_get consts reg_env) (EArith a)) ;;;
          resolve_constants_lr r (dict_set name v consts) acc).
Lemma resolve_constants_from_source : resolve_constants_from_source_stmt.
Proof. repeat (split; [reflexivity|]). reflexivity. Qed.

(* the skip in front of the compression guard and the arguments the predicates get *)
Lemma compress_frame_from_source :
  cg_env = ["constants"; "labels"]%string /\ cg_pred_args = ["item"; "position"; "env"]%string /\
  cg_skip = "not isinstance(item, Instruction) or isinstance(item, PseudoInstruction)"%string.
Proof. repeat split; reflexivity. Qed.

(* resolve_register_aliases: the item is rebuilt from ALL its fields (vars(item), in order; a field that is one of the register keys
   and whose value is a key of `constants` gets the constant's value, every other field -- immediate, is_auipc_jump, aq / rl, fence
   sets -- is handed back to the constructor as it was); an item without such a field is kept as it is *)
Definition register_aliases_from_source_stmt : Prop :=
  (forall k, mem_str k REGS = mem_str k ra_regs) /\
  ra_fields_from = "d = copy.deepcopy(vars(item))"%string /\
  ra_skip_tests = ["key not in REGS"; "value not in constants"]%string /\
  ra_assigns = ["reg = constants[value]"; "resolved_regs[key] = reg"]%string /\
  ra_updates_fields = true /\ ra_rebuild = "new_item = item.__class__(*d.values())"%string /\
  ra_keeps_item_when = ["not set(d.keys()) & REGS"; "not modified"]%string /\ ra_appends_rebuilt = true /\
  (forall consts k s, alias_field consts (k, FReg (AStr s)) =
     if mem_str k ra_regs then match assoc_str s consts with Some v => (k, FReg (AInt v)) | None => (k, FReg (AStr s)) end
     else (k, FReg (AStr s))) /\
  (forall consts k v, (forall s, v <> FReg (AStr s)) -> alias_field consts (k, v) = (k, v)) /\
  (forall consts l cls name fs c r,
     resolve_register_aliases ((l, IInstr cls name fs c) :: r) consts =
     (l, IInstr cls name (map (alias_field consts) fs) c) :: resolve_register_aliases r consts) /\
  (forall consts fs, map fst (map (alias_field consts) fs) = map fst fs).
Lemma register_aliases_from_source : register_aliases_from_source_stmt.
Proof.
  split. { intro k. unfold mem_str, REGS, ra_regs. cbn [existsb].
           destruct (String.eqb k "rd"), (String.eqb k "rs1"), (String.eqb k "rs2"), (String.eqb k "rd_rs1"); reflexivity. }
  repeat (split; [reflexivity|]).
  split. { intros consts k s. unfold alias_field.
           replace (mem_str k ra_regs) with (mem_str k REGS).
           - destruct (mem_str k REGS); [destruct (assoc_str s consts)|]; reflexivity.
           - unfold mem_str, REGS, ra_regs. cbn [existsb].
             destruct (String.eqb k "rd"), (String.eqb k "rs1"), (String.eqb k "rs2"), (String.eqb k "rd_rs1"); reflexivity. }
  split. { intros consts k v Hv. destruct v as [[z|s]|e|z|b]; try reflexivity. exfalso. exact (Hv s eq_refl). }
  split. { intros. reflexivity. }
  intros consts fs. induction fs as [|[k v] fs IH]; [reflexivity|]. cbn [map fst]. rewrite IH. f_equal.
  unfold alias_field. destruct v as [[z|s]|e|z|b]; try reflexivity.
  destruct (mem_str k REGS); [destruct (assoc_str s consts)|]; reflexivity.
Qed.

(* Arithmetic.eval: the expression text goes to the builtin eval AS WRITTEN, with no builtins and with exactly the environment the caller
   hands in; the position of the item plays no part (an arithmetic expression is not position relative: Proofs/Stable.v, Monotone.v
   eeval_pos_indep rest on it -- the model's `EArith a` is evaluated by `aeval get a` whatever the position); SyntaxError / TypeError /
   anything else become AssemblerError at the line; the result must be an int; a quoted single character is its code point *)
Definition arithmetic_eval_from_source_stmt : Prop :=
  ae_uses_position = false /\
  ae_eval_args = ["self.expr"; "{'__builtins__': None}"; "env"]%string /\
  ae_try_body = ["result = eval(self.expr, {'__builtins__': None}, env)"]%string /\
  ae_handlers = ["SyntaxError -> AssemblerError"; "TypeError -> AssemblerError"; "bare -> AssemblerError"]%string /\
  ae_int_tests = ["type(result) != int"]%string /\ ae_returns = "return result"%string /\
  ae_statements = ["If"; "Try"; "If"; "Return"]%string /\
  List.length ae_char_branch = 5%nat /\
  (forall l p p' has get a, eeval relocate_hi relocate_lo l p has get (EArith a) = eeval relocate_hi relocate_lo l p' has get (EArith a)) /\
  (forall l p has get a, eeval relocate_hi relocate_lo l p has get (EArith a) =
                         match aeval get a with Some v => POk v | None => PErr (PAsm l) end).
Lemma arithmetic_eval_from_source : arithmetic_eval_from_source_stmt.
Proof. repeat (split; [reflexivity|]). split; intros; reflexivity. Qed.
