(* C12, positive half -- THE THEOREM: a program of the class (Proofs/AcceptClass.v accept_class) that assembles without
   compression also assembles with it. *)
From Coq Require Import ZArith List Bool Lia String Arith.
From BB Require Import Base.Bits Base.PyBase Gen.Encoders Gen.Criteria Spec.RV32 Spec.RVC Spec.Operands Spec.Legal
  Model.Items Model.Encode Model.Passes Proofs.Regs Proofs.Layout Proofs.LayoutInst Proofs.Pipeline Proofs.Errors Proofs.EncSig Proofs.NoRaw
  Proofs.Rules Proofs.RulesMain Proofs.Stable Proofs.Monotone
  Proofs.AcceptLayout Proofs.AcceptTail Proofs.AcceptMono Proofs.AcceptCompress Proofs.AcceptItem Proofs.AcceptClass Proofs.AcceptStatic
  Proofs.AcceptPass Proofs.AcceptU Proofs.AcceptChain.
Import ListNotations.
Open Scope Z_scope.
Local Open Scope list_scope.

Lemma jump_mnems_direct : forallb (fun n => mem_str n jnames && direct_name n) jump_mnems = true.
Proof. vm_compute. reflexivity. Qed.
Lemma cjn_jnames final : In final cjn -> In final jnames.
Proof. unfold cjn, jnames. cbn [In]. intuition. Qed.

Lemma eval_off l p consts ls L d : assoc_str L consts = None -> assoc_str L ls = Some d ->
  eval_here l p consts ls (EOff L) = Done (d - p).
Proof. intros Hc Hd. unfold eval_here. cbn [eeval]. unfold chain_get. rewrite Hc, Hd. reflexivity. Qed.

Lemma eval_name l p consts ls L d : assoc_str L consts = None -> assoc_str L ls = Some d ->
  eval_here l p consts ls (EArith (AName L)) = Done d.
Proof. intros Hc Hd. unfold eval_here. cbn [eeval aeval]. unfold chain_get. rewrite Hc, Hd. reflexivity. Qed.
Lemma eval_hi l p consts ls L d : assoc_str L consts = None -> assoc_str L ls = Some d ->
  eval_here l p consts ls (EHi (EOff L)) = Done (relocate_hi (d - p)).
Proof. intros Hc Hd. unfold eval_here. cbn [eeval]. unfold chain_get. rewrite Hc, Hd. reflexivity. Qed.
Lemma eval_lo l p consts ls L d : assoc_str L consts = None -> assoc_str L ls = Some d ->
  eval_here l p consts ls (ELo (EOff L)) = Done (relocate_lo (d - p)).
Proof. intros Hc Hd. unfold eval_here. cbn [eeval]. unfold chain_get. rewrite Hc, Hd. reflexivity. Qed.

Section Final.
Variables (consts : envt) (labs cn : list string).
Hypothesis Htgt : forall L, target_ok labs cn L = true -> In L labs /\ assoc_str L consts = None.
Notation ready := (ready consts labs).
Notation cbuilt := (cbuilt consts labs).
Notation ucls := (ucls consts labs cn).
Notation crel := (crel consts labs).
Notation cj_inv := (cj_inv consts labs).

Variables (FU : list litem) (labU : envt).
Hypothesis XU : exact FU labU.
Hypothesis NU : nonneg FU.
Hypothesis KU : forall s, assoc_str s labU <> None -> In s labs.
Hypothesis CutU : forall a1 x a2, FU = a1 ++ x :: a2 -> exists y, Rimm consts labU (total a1) x y /\ tgood8 y.
Hypothesis ClsU : Forall (ucls true) FU.
Hypothesis LabsU : forall L, In L labs -> In L (gnames FU).

(* one cut of the compressed run's final list, facing the cut of the uncompressed run's list it comes from *)
Theorem final_case u1 t u2 c1 y c2 labC :
  FU = u1 ++ t :: u2 -> exact (c1 ++ y :: c2) labC -> cj_inv (c1 ++ y :: c2) -> gsh u1 c1 -> gsh (t :: u2) (y :: c2) -> crel t y ->
  exists y', Rimm consts labC (total c1) y y' /\ tgood8 y'.
Proof.
  intros EU XC CJ G1 G2 Ct. rewrite EU in XU, NU, CutU, ClsU, LabsU.
  destruct (CutU u1 t u2 eq_refl) as (yU & RU & TU).
  assert (Ut : ucls true t). { rewrite Forall_forall in ClsU. apply ClsU. apply in_or_app. right. left. reflexivity. }
  assert (GN : gnames (c1 ++ y :: c2) = gnames (u1 ++ t :: u2)).
  { symmetry. apply gsh_gnames. apply gsh_app; assumption. }
  assert (DistOf : forall L, In L labs -> exists dU dC, dist L u1 (t :: u2) = Some dU /\ dist L c1 (y :: c2) = Some dC /\ closer dC dU /\
                    assoc_str L labU = Some (total u1 + dU) /\ assoc_str L labC = Some (total c1 + dC)).
  { intros L HL. destruct (dist_defined _ _ _ (LabsU L HL)) as [dU HdU].
    destruct (dist_shrink L _ _ _ _ dU G1 G2 HdU) as (dC & HdC & Hcl). exists dU, dC.
    split. exact HdU. split. exact HdC. split. exact Hcl. split. eapply dist_exact; eauto. eapply dist_exact; eauto. }
  assert (AbsOf : forall L, In L labs -> exists qU qC, assoc_str L labU = Some qU /\ assoc_str L labC = Some qC /\ 0 <= qC <= qU).
  { intros L HL. destruct (in_goff _ _ (LabsU L HL)) as [qU HqU].
    destruct (gsh_fwd L _ _ (gsh_app _ _ _ _ G1 G2) _ HqU) as (qC & HqC & Hb & _). exists qU, qC. auto. }
  destruct Ct as [Hl [->|(It & Rt & By)]].
  - (* the item of the uncompressed run *)
    destruct t as [l it]. destruct RU as [RUl RUy]. cbn [fst snd] in RUl, RUy. destruct yU as [lU itU]. cbn [fst snd] in *. subst lU.
    destruct it; try (exists (l, itU); split; [split; [reflexivity|exact RUy]|exact TU]).
    + (* IInstr *)
      destruct Ut as (Hok & _ & Ht & _). cbn [snd] in Hok, Ht. unfold tcls in Ht.
      destruct (field_get "imm" fields) as [v|] eqn:Ei.
      2:{ exists (l, itU). split; [split; [reflexivity|]|exact TU]. cbn [snd]. rewrite Ei. exact RUy. }
      destruct v as [|e| |]; try contradiction. destruct RUy as (zU & EzU & ->). cbn [imm_of] in EzU.
      destruct Ht as [Hlf|(L & HT & [(-> & Hj & Hnf)|[(-> & -> & Hnf)|(-> & -> & Hnf)]])].
      * destruct (lf_value labs l _ consts labU e zU Hlf KU EzU) as (_ & _ & Hall).
        exists (l, IInstr cls name (field_set "imm" (FInt zU) fields) compressed). split; [|exact TU].
        split. reflexivity. cbn [snd]. rewrite Ei. exists zU. split; [|reflexivity]. cbn [imm_of]. apply Hall.
      * destruct (Htgt L HT) as [HL Hc]. destruct (DistOf L HL) as (dU & dC & HdU & HdC & Hcl & AU & AC).
        assert (B0 : back_of fields = 0).
        { unfold back_of. unfold has_flag in Hnf. destruct (field_get "is_auipc_jump" fields); [discriminate|reflexivity]. }
        rewrite B0 in *. rewrite (eval_off l _ consts labU L _ Hc AU) in EzU. inversion EzU; subst zU.
        replace (total u1 + dU - (total u1 - 0)) with dU in TU by lia.
        unfold instr_okb in Hok. destruct (assoc_str cls class_sig) as [[names kinds]|] eqn:Es; try discriminate.
        destruct (class_keys cls) as [keys|] eqn:Ek; try discriminate.
        apply andb_prop in Hok. destruct Hok as [Hok Hs]. apply andb_prop in Hok. destruct Hok as [Hn _].
        pose proof (jump_mnems_in _ _ _ _ Es Hj Hn) as Jm. pose proof jump_mnems_direct as T. rewrite forallb_forall in T.
        specialize (T _ (mem_in _ _ Jm)). apply andb_prop in T. destruct T as [Tj Td]. apply mem_in in Tj.
        destruct (jump_cls_keys _ _ _ _ Es Hn Tj) as (keys' & Ek' & IL & Hat). rewrite Ek in Ek'. inversion Ek'; subst keys'.
        pose proof (proj1 (tgood8_instr _ _ _ _ _) TU) as EncU.
        pose proof (jump_legal l cls name fields compressed keys dU IL Hs Hat Tj EncU) as LU.
        pose proof (imm_legal_closer name dC dU Td Hcl LU) as LC.
        pose proof (jump_mono l cls name fields compressed keys dU dC IL Hs Hat Tj EncU LC) as EncC.
        exists (l, IInstr cls name (field_set "imm" (FInt dC) fields) compressed). split; [|apply tgood8_instr; exact EncC].
        split. reflexivity. cbn [snd]. rewrite Ei, B0. exists dC. split; [|reflexivity]. cbn [imm_of].
        rewrite (eval_off l _ consts labC L _ Hc AC). f_equal. lia.
      * (* auipc of a far pair *)
        destruct (Htgt L HT) as [HL Hc]. destruct (DistOf L HL) as (dU & dC & HdU & HdC & Hcl & AU & AC).
        assert (B0 : back_of fields = 0).
        { unfold back_of. unfold has_flag in Hnf. destruct (field_get "is_auipc_jump" fields); [discriminate|reflexivity]. }
        rewrite B0 in *. rewrite (eval_hi l _ consts labU L _ Hc AU) in EzU. inversion EzU; subst zU.
        unfold instr_okb in Hok. destruct (assoc_str cls class_sig) as [[names kinds]|] eqn:Es; try discriminate.
        destruct (class_keys cls) as [keys|] eqn:Ek; try discriminate.
        apply andb_prop in Hok. destruct Hok as [Hok Hs]. apply andb_prop in Hok. destruct Hok as [Hn _].
        assert (Tj : In "auipc"%string jnames) by (unfold jnames; cbn [In]; intuition).
        destruct (jump_cls_keys _ _ _ _ Es Hn Tj) as (keys' & Ek' & IL & Hat). rewrite Ek in Ek'. inversion Ek'; subst keys'.
        pose proof (proj1 (tgood8_instr _ _ _ _ _) TU) as EncU.
        pose proof (jump_mono l cls "auipc" fields compressed keys _ (relocate_hi (total c1 + dC - (total c1 - 0))) IL Hs Hat Tj EncU
                      (auipc_hi_legal _)) as EncC.
        eexists (l, IInstr cls "auipc" (field_set "imm" (FInt _) fields) compressed). split; [|apply tgood8_instr; exact EncC].
        split. reflexivity. cbn [snd]. rewrite Ei, B0. eexists. split; [|reflexivity]. cbn [imm_of].
        apply (eval_hi l _ consts labC L _ Hc AC).
      * (* jalr of a far pair: evaluated at the auipc in front of it *)
        destruct (Htgt L HT) as [HL Hc]. destruct (DistOf L HL) as (dU & dC & HdU & HdC & Hcl & AU & AC).
        assert (B4 : back_of fields = 4) by (unfold back_of; rewrite Hnf; reflexivity).
        rewrite B4 in *. rewrite (eval_lo l _ consts labU L _ Hc AU) in EzU. inversion EzU; subst zU.
        unfold instr_okb in Hok. destruct (assoc_str cls class_sig) as [[names kinds]|] eqn:Es; try discriminate.
        destruct (class_keys cls) as [keys|] eqn:Ek; try discriminate.
        apply andb_prop in Hok. destruct Hok as [Hok Hs]. apply andb_prop in Hok. destruct Hok as [Hn _].
        assert (Tj : In "jalr"%string jnames) by (unfold jnames; cbn [In]; intuition).
        destruct (jump_cls_keys _ _ _ _ Es Hn Tj) as (keys' & Ek' & IL & Hat). rewrite Ek in Ek'. inversion Ek'; subst keys'.
        pose proof (proj1 (tgood8_instr _ _ _ _ _) TU) as EncU.
        pose proof (jump_legal l cls "jalr" fields compressed keys _ IL Hs Hat Tj EncU) as LU.
        apply jalr_lo_legal in LU.
        assert (LC : imm_legal "jalr" (relocate_lo (total c1 + dC - (total c1 - 4))) = true).
        { apply jalr_lo_legal. eapply mult2_closer; [|exact LU]. destruct Hcl as [_ [k Hk]]. exists k. lia. }
        pose proof (jump_mono l cls "jalr" fields compressed keys _ _ IL Hs Hat Tj EncU LC) as EncC.
        eexists (l, IInstr cls "jalr" (field_set "imm" (FInt _) fields) compressed). split; [|apply tgood8_instr; exact EncC].
        split. reflexivity. cbn [snd]. rewrite Ei, B4. eexists. split; [|reflexivity]. cbn [imm_of].
        apply (eval_lo l _ consts labC L _ Hc AC).
    + (* IPack *)
      destruct Ut as (e & -> & [Hlf|(L & -> & HT)]); destruct RUy as (z & Ez & ->); cbn [imm_of] in Ez.
      * destruct (lf_value labs l _ consts labU e z Hlf KU Ez) as (_ & _ & Hall).
        exists (l, IPack fmt (FInt z)). split; [|exact TU]. split. reflexivity. cbn [snd]. exists z. split; [|reflexivity]. cbn [imm_of]. apply Hall.
      * destruct (Htgt L HT) as [HL Hc]. destruct (AbsOf L HL) as (qU & qC & AU & AC & Hq).
        rewrite (eval_name l _ consts labU L _ Hc AU) in Ez. inversion Ez; subst z.
        exists (l, IPack fmt (FInt qC)). split; [|eapply tgood8_pack_mono; eauto].
        split. reflexivity. cbn [snd]. exists qC. split; [|reflexivity]. cbn [imm_of]. apply (eval_name l _ consts labC L _ Hc AC).
    + (* IShort *)
      destruct Ut as (e & -> & [Hlf|(L & -> & HT)]); destruct RUy as (z & Ez & ->); cbn [imm_of] in Ez.
      * destruct (lf_value labs l _ consts labU e z Hlf KU Ez) as (_ & _ & Hall).
        exists (l, IShort name (FInt z)). split; [|exact TU]. split. reflexivity. cbn [snd]. exists z. split; [|reflexivity]. cbn [imm_of]. apply Hall.
      * destruct (Htgt L HT) as [HL Hc]. destruct (AbsOf L HL) as (qU & qC & AU & AC & Hq).
        rewrite (eval_name l _ consts labU L _ Hc AU) in Ez. inversion Ez; subst z.
        exists (l, IShort name (FInt qC)). split; [|eapply tgood8_short_mono; eauto].
        split. reflexivity. cbn [snd]. exists qC. split; [|reflexivity]. cbn [imm_of]. apply (eval_name l _ consts labC L _ Hc AC).
  - (* an instruction built by the compression rule *)
    destruct (cbuilt_instr _ _ _ By) as (l & cls' & final & nfs & ->). cbn [AcceptStatic.cbuilt] in By.
    destruct By as (_ & Hc & Hat & Hok & _ & Hi).
    assert (Fin : forall z, accepts final (args_of (field_set "imm" (FInt z) nfs)) ->
                  tgood8 (l, IInstr cls' final (field_set "imm" (FInt z) nfs) true)).
    { intros z A. apply tgood8_instr. apply (encode_item_accepts l cls' final _ true Hat). exact A. }
    destruct (field_get "imm" nfs) as [v|] eqn:Ei.
    + destruct v as [|e| |]; try contradiction. destruct Hi as [(z & Hall & Hacc)|(L & d0 & -> & HT & Hcj & Hnf & Hacc)].
      * exists (l, IInstr cls' final (field_set "imm" (FInt z) nfs) true). split; [|apply Fin; exact Hacc].
        split. reflexivity. cbn [snd]. rewrite Ei. exists z. split; [|reflexivity]. cbn [imm_of]. apply Hall.
      * destruct HT as [HL HcL]. destruct (DistOf L HL) as (dU & dC & HdU & HdC & Hcl & AU & AC).
        destruct (CJ c1 (l, IInstr cls' final nfs true) c2 L final eq_refl) as (d & Hd & Hleg).
        { exists cls', nfs. auto. } { split; assumption. }
        rewrite HdC in Hd. inversion Hd; subst d.
        unfold instr_okb in Hok. destruct (assoc_str cls' class_sig) as [[names kinds]|] eqn:Es; try discriminate.
        destruct (class_keys cls') as [keys|] eqn:Ek; try discriminate.
        apply andb_prop in Hok. destruct Hok as [Hok Hs]. apply andb_prop in Hok. destruct Hok as [Hn _].
        destruct (jump_cls_keys _ _ _ _ Es Hn (cjn_jnames _ Hcj)) as (keys' & Ek' & (rk & -> & Nrk) & _). rewrite Ek in Ek'. inversion Ek'; subst keys.
        destruct (args_set_imm _ _ Hs Nrk) as [pre Hp].
        assert (A : accepts final (args_of (field_set "imm" (FInt dC) nfs))).
        { rewrite Hp in *. eapply enc_imm_mono; eauto. apply cjn_jnames; exact Hcj. }
        exists (l, IInstr cls' final (field_set "imm" (FInt dC) nfs) true). split; [|apply Fin; exact A].
        split. reflexivity. cbn [snd]. rewrite Ei. unfold back_of. rewrite Hnf. exists dC. split; [|reflexivity]. cbn [imm_of].
        rewrite (eval_off l _ consts labC L _ HcL AC). f_equal. lia.
    + exists (l, IInstr cls' final nfs true). split. { split. reflexivity. cbn [snd]. rewrite Ei. reflexivity. }
      apply tgood8_instr. apply (encode_item_accepts l cls' final _ true Hat). exact Hi.
Qed.

Theorem final_cut FC labC c1 y c2 : exact FC labC -> Forall2 crel FU FC -> cj_inv FC ->
  FC = c1 ++ y :: c2 -> exists y', Rimm consts labC (total c1) y y' /\ tgood8 y'.
Proof.
  intros XC Rel CJ Ec. rewrite Ec in Rel, XC, CJ. destruct (Forall2_app_inv_r _ _ Rel) as (u1 & u2' & F1 & F2' & Eu).
  inversion F2' as [|t ? u2 ? Ct F2]; subst u2'. clear F2'.
  assert (Nu : nonneg u1 /\ nonneg (t :: u2)) by (rewrite Eu in NU; apply Forall_app in NU; exact NU). destruct Nu as [Nu1 Nu2].
  eapply final_case; eauto.
  - exact (crel_gsh consts labs cn Htgt _ _ Nu1 F1).
  - exact (crel_gsh consts labs cn Htgt _ _ Nu2 (Forall2_cons _ _ Ct F2)).
Qed.
End Final.

(* ---- THE THEOREM -------------------------------------------------------------------------------------------------------------- *)
Theorem accept_monotone its consts0 rU :
  accept_class (map fst consts0) its = true ->
  assemble_items its consts0 [] false = Done rU -> exists rC, assemble_items its consts0 [] true = Done rC.
Proof.
  intros Hcls HU.
  destruct (run_stages _ _ _ _ _ HU) as (consts & labels & i3u & lab3u & i4U & lab4U & i6U & lab6U & i7U & lab7U & i8U & chU & St).
  destruct St as (E1 & E2 & E3 & E4 & E6 & E7 & E8 & T8).
  set (labs := gnames its). set (cn := map fst consts0 ++ cnames its).
  set (i1 := filter not_const its) in *. set (i2 := resolve_register_aliases i1 consts) in *.
  inversion E3; subst i3u lab3u. inversion E6; subst i6U lab6U. clear E3 E6.
  set (FU := resolve_register_aliases i4U consts) in *.
  (* the class, item by item *)
  assert (Cl : forall x, In x its -> okb 0 (snd x) = true /\ 0 <= isz (snd x) /\ item_cls false labs cn x = true).
  { unfold accept_class, accept_class_gen in Hcls. rewrite forallb_forall in Hcls. intros x Hx. specialize (Hcls x Hx).
    apply andb_prop in Hcls. destruct Hcls as [A C]. apply andb_prop in A. destruct A as [A B]. apply Z.leb_le in B. auto. }
  assert (Htgt : forall L, target_ok labs cn L = true -> In L labs /\ assoc_str L consts = None).
  { intros L H. unfold target_ok in H. apply andb_prop in H. destruct H as [A B]. split. apply mem_in; exact A.
    apply negb_true_iff in B. destruct (assoc_str L consts) eqn:X; auto. exfalso.
    assert (In L cn).
    { destruct (constants_keys its consts0 [] _ consts L E1) as [C|C]. rewrite X; discriminate.
      - apply in_or_app. left. apply assoc_in_keys. exact C.
      - apply in_or_app. right. exact C. }
    assert (mem_str L cn = true); [|congruence]. unfold mem_str. apply existsb_exists. exists L. split; auto. apply String.eqb_refl. }
  assert (S2 : Forall (src_ok consts labs cn false) i2).
  { unfold i2. rewrite aliases_map. apply Forall_forall. intros x Hx. apply in_map_iff in Hx. destruct Hx as (x0 & <- & Hx0).
    unfold i1 in Hx0. apply filter_In in Hx0. destruct Hx0 as [Hin Hnc]. destruct (Cl x0 Hin) as (A & B & C). apply src_of_class; auto. }
  assert (NotAl : forall x n, src_ok consts labs cn false x -> snd x <> IAlign n).
  { intros [l it] n [_ H] E. cbn [snd] in *. subst it. exact H. }
  assert (N2 : nonneg i2).
  { eapply Forall_impl; [|exact S2]. intros x Sx. split. apply Sx. intros n E. exfalso. eapply NotAl; eauto. }
  (* labels *)
  pose proof (resolve_labels_nodup _ _ _ E2) as D1. pose proof (resolve_labels_exact _ _ _ E2) as X1.
  pose proof (aliases_same i1 consts) as Sa2. fold i2 in Sa2.
  assert (D2 : NoDup (gnames i2)) by (rewrite <- (same_gnames _ _ Sa2); exact D1).
  assert (X2 : exact i2 labels) by (eapply same_exact; eauto).
  assert (G2 : gnames i2 = labs). { rewrite <- (same_gnames _ _ Sa2). unfold i1. apply filter_gnames. }
  assert (K0 : forall s, assoc_str s labels <> None -> In s labs).
  { intros s H. destruct (in_dec string_dec s labs) as [Hin|Hnin]; auto. exfalso. apply H.
    unfold resolve_labels in E2. rewrite (rlf_other _ _ _ _ _ s E2). reflexivity. unfold i1. rewrite filter_gnames. exact Hnin. }
  assert (Kk : forall ls : envt, map fst ls = map fst labels -> forall s, assoc_str s ls <> None -> In s labs).
  { intros ls E s H. apply K0. intro N. apply H. apply (proj2 (keys_none _ _ E s)). exact N. }
  (* the uncompressed run *)
  unfold transform_pseudo in E4.
  destruct (gpass_stage _ (pseudo_rule_ok consts) (pseudo_group_keep consts) _ _ _ _ E4 N2 D2 X2) as (X4U & G4U & N4U & _).
  destruct (gpass_exact _ (pseudo_rule_ok consts) _ _ _ _ N2 D2 X2 E4) as (_ & _ & Ky4U & _).
  pose proof (gpass_groupedK _ _ _ _ _ E4) as GU.
  pose proof (aliases_same i4U consts) as SaU. fold FU in SaU.
  assert (XU : exact FU lab4U) by (eapply same_exact; eauto).
  assert (NU : nonneg FU) by (eapply same_nonneg; eauto).
  assert (GnU : gnames FU = labs) by (rewrite <- (same_gnames _ _ SaU), G4U; exact G2).
  assert (Cls4 : Forall (ucls consts labs cn false) i4U).
  { eapply grouped_forall; [exact GU|exact S2|]. intros x g Sx Hg. exact (proj1 (pseudo_group consts labs cn false _ x g Sx Hg)). }
  assert (ClsU : Forall (ucls consts labs cn true) FU).
  { unfold FU. rewrite aliases_map. rewrite Forall_forall in *. intros x Hx. apply in_map_iff in Hx. destruct Hx as (x0 & <- & Hx0).
    apply ucls_alias. auto. }
  assert (NAU : no_align FU = true).
  { apply no_align_forall. intros [l it] n Hx E. cbn [snd] in E. subst it. rewrite Forall_forall in ClsU. exact (ClsU _ Hx). }
  assert (SzU : forall x, In x FU -> exists n, size_o (snd x) = Done n).
  { unfold resolve_aligns in E7. rewrite gpass_gp in E7.
    destruct (gp align_rule FU 0 lab4U) as [[o1 ls1]| |] eqn:E; cbn [obind] in E7; try discriminate. eapply gp_sizes; eauto. }
  rewrite (aligns_id FU lab4U NAU SzU) in E7. inversion E7; subst i7U lab7U. clear E7.
  pose proof (immediates_cuts consts lab4U FU i8U chU E8 T8) as CutU.
  assert (KU : forall s, assoc_str s lab4U <> None -> In s labs) by (apply Kk; exact Ky4U).
  assert (RdU : forall x, In x FU -> is_instr (snd x) -> ready consts labs x).
  { intros [l it] Hx (cls & n & fs & c & E). cbn [snd] in E. subst it.
    destruct (in_split _ _ Hx) as (a1 & a2 & Ea). destruct (CutU a1 _ a2 Ea) as (y & Ry & Ty).
    rewrite Forall_forall in ClsU. eapply (ready_of_run consts labs cn Htgt lab4U); eauto. }
  assert (I2U : forall x, In x i2 -> is_instr (snd x) -> In x FU).
  { intros x Hx Ix. destruct (grouped_in _ _ _ GU x Hx) as (g & Hg & Inc).
    rewrite Forall_forall in S2. pose proof (S2 x Hx) as Sx.
    destruct (pseudo_group consts labs cn false _ x g Sx Hg) as [_ Keep].
    assert (g = [x]). { apply Keep. destruct Ix as (c0 & n0 & f0 & k0 & E). intros n a p. rewrite E. discriminate. }
    subst g. assert (Hx4 : In x i4U) by (apply Inc; left; reflexivity).
    assert (Ux : ucls consts labs cn true x).
    { destruct Sx as [_ Sx]. destruct x as [l it]. destruct Ix as (c0 & n0 & f0 & k0 & E). cbn [snd] in *. subst it. exact Sx. }
    rewrite <- (ucls_fixed_alias consts labs cn x Ux). unfold FU. rewrite aliases_map. apply in_map. exact Hx4. }
  (* ---- the compressed run: first compression pass ---- *)
  assert (Gd2 : Forall (cgood consts labs) i2).
  { apply Forall_forall. intros [l it] Hx. unfold cgood. cbn [snd]. destruct it; try exact I. left. apply RdU. apply I2U; auto.
    unfold is_instr; cbn [snd]; eauto. unfold is_instr; cbn [snd]; eauto. }
  assert (Lb2 : forall L, In L labs -> In L (gnames i2)) by (rewrite G2; auto).
  assert (Sz2 : forall x, In x i2 -> exists n, size_o (snd x) = Done n).
  { intros x Hx. unfold i2 in Hx. rewrite aliases_map in Hx. apply in_map_iff in Hx. destruct Hx as (x0 & <- & Hx0).
    unfold resolve_labels in E2. destruct (labels_sizes _ _ _ _ _ E2 x0 Hx0) as [n Hn]. exists n. apply size_alias. exact Hn. }
  assert (CJ2 : cj_inv consts labs i2).
  { intros o1 y o2 L final Eo Hcj HT. exfalso. assert (Hy : In y i2) by (rewrite Eo; apply in_or_app; right; left; reflexivity).
    destruct Hcj as (cls & nfs & Ey & Hc & Hi). eapply (not_cj_ready consts labs y L final).
    - apply RdU. apply I2U; auto. unfold is_instr. rewrite Ey. eauto. unfold is_instr. rewrite Ey. eauto.
    - exists cls, nfs. auto. }
  destruct (compress_pass consts labs i2 labels N2 X2 Gd2 Lb2 Sz2 CJ2) as (i3 & lab3 & Eg3 & R23 & Gd3 & CJ3 & R023).
  assert (E3 : transform_compressible i2 consts labels = Done (i3, lab3)).
  { unfold transform_compressible. rewrite gpass_gp, Eg3. reflexivity. }
  destruct (compress_stage true _ _ _ _ _ E3 N2 D2 X2) as (X3 & G3n & N3 & _).
  assert (D3 : NoDup (gnames i3)) by (rewrite G3n; exact D2).
  unfold transform_compressible in E3.
  destruct (gpass_exact _ (compress_rule_ok consts) _ _ _ _ N2 D2 X2 E3) as (_ & _ & Ky3 & _).
  (* ---- pseudo pass ---- *)
  assert (Ps : exists i4C lab4C, gpass (pseudo_rule consts) i3 0 lab3 [] = Done (i4C, lab4C)).
  { apply (gpass_total (pseudo_rule consts) (map fst lab3)); [|reflexivity].
    intros l it Hin El pos ls Els.
    destruct (F2_in_r _ _ _ R23 _ Hin) as (x & Hx & [Hl Hr]). rewrite Forall_forall in S2. pose proof (S2 x Hx) as Sx.
    destruct Hr as [Hr|(Ix & Rx & Bx)].
    - subst x. destruct (Sz2 _ Hx) as [old Ho]. cbn [snd] in Ho. exists old.
      destruct it; try (eexists [_], old; split; [exact Ho|split; [reflexivity|cbn [sizes]; rewrite Ho; cbn [obind]; f_equal; lia]]).
      destruct Sx as [_ [A B]]. cbn [fst snd] in A, B.
      destruct (grouped_in _ _ _ GU _ Hx) as (g & Hg & _). unfold pass_groupK in Hg. cbn [fst snd is_label] in Hg.
      destruct Hg as (p0 & ls0 & rs & E0 & Hr0 & _).
      pose proof (pseudo_indep consts labs cn l name args pimm p0 ls0 rs pos ls A B (Kk _ E0) Hr0) as Hr1.
      pose proof (pseudo_rule_keep _ _ _ _ _ _ Hr1) as Pl. cbn beta iota in Pl. destruct (sizes_plain _ Pl) as (n & En & _).
      exists rs, n. auto.
    - destruct (cbuilt_instr _ _ _ Bx) as (l' & c1 & f1 & n1 & E). inversion E; subst. 
      eexists _, [_], _. split. apply size_instr. split. reflexivity. cbn [sizes]. rewrite size_instr. cbn [obind]. reflexivity. }
  destruct Ps as (i4C & lab4C & E4C).
  destruct (gpass_stage _ (pseudo_rule_ok consts) (pseudo_group_keep consts) _ _ _ _ E4C N3 D3 X3) as (X4C & G4C & N4C & _).
  destruct (gpass_exact _ (pseudo_rule_ok consts) _ _ _ _ N3 D3 X3 E4C) as (_ & _ & Ky4C & _).
  pose proof (gpass_groupedK _ _ _ _ _ E4C) as GC.
  pose proof (pseudo_pair consts labs cn _ _ Kk i2 i3 R23 S2 i4U i4C GU GC) as R4.
  assert (CJ4 : cj_inv consts labs i4C).
  { apply (cj_inv_keeps consts labs i3 i4C); [|exact CJ3]. eapply grouped_impl_in; [|exact GC].
    intros [l it] g Hin Hg. unfold pass_groupK in Hg. cbn [fst snd] in Hg.
    assert (H0 : 0 <= isz it) by (apply (nonneg_in _ _ N3 Hin)).
    destruct (is_label it) as [n|] eqn:El.
    { subst g. rewrite <- (is_label_inv _ _ El). split. apply shr_same; exact H0. left; reflexivity. }
    destruct Hg as (p0 & ls0 & rs & _ & Hr0 & ->).
    destruct it; try (rewrite (pseudo_other consts l _ p0 ls0) in Hr0 by (intros; discriminate); inversion Hr0; subst rs;
                      split; [apply shr_same; exact H0|left; reflexivity]).
    (* a pseudo-instruction: its templates *)
    pose proof (pseudo_rule_keep _ _ _ _ _ _ Hr0) as Pl. cbn beta iota in Pl. destruct (sizes_plain _ Pl) as (new & En & Enew).
    assert (Hw : wfi (IPseudo name args pimm)) by (apply (nonneg_in _ _ N3 Hin)).
    assert (Eo : size_o (IPseudo name args pimm) = Done (if is_big_pseudo name then 8 else 4)) by reflexivity.
    destruct (pseudo_rule_ok consts l _ p0 ls0 rs _ new Hw eq_refl Eo Hr0 En) as [Hb _].
    pose proof (sizes_total l rs new En) as Tg.
    split.
    - unfold shr. cbn [snd is_label]. split. { clear - Pl. induction Pl as [|t rs (c & n & f & ->) _ IH]; cbn [map]; constructor; auto. }
      rewrite Tg. change (isz (IPseudo name args pimm)) with (if is_big_pseudo name then 8 else 4). split. lia.
      destruct (is_big_pseudo name); [exists (4 - 2 * Z.of_nat (List.length rs))|exists (2 - 2 * Z.of_nat (List.length rs))]; lia.
    - right. intros y L f Hy (cls & nfs & Ey & _). apply in_map_iff in Hy. destruct Hy as (t & <- & Ht).
      rewrite Forall_forall in Pl. destruct (Pl _ Ht) as (c & n & fs0 & ->). cbn [snd] in Ey. discriminate. }
  (* ---- alias resolution ---- *)
  set (i5 := resolve_register_aliases i4C consts).
  pose proof (aliases_same i4C consts) as Sa5. fold i5 in Sa5.
  assert (X5 : exact i5 lab4C) by (eapply same_exact; eauto).
  assert (N5 : nonneg i5) by (eapply same_nonneg; eauto).
  assert (Gn5 : gnames i5 = labs) by (rewrite <- (same_gnames _ _ Sa5), G4C, G3n; exact G2).
  assert (R5 : Forall2 (crel consts labs) FU i5).
  { unfold FU, i5. rewrite !aliases_map. eapply Forall2_map2; [exact R4|]. intros x y. apply crel_alias. }
  assert (Gd5 : Forall (cgood consts labs) i5).
  { eapply F2_forall_r; [exact R5|]. intros t y Ht [_ [->|(_ & _ & By)]].
    - unfold cgood. destruct t as [l it]. cbn [snd]. destruct it; try exact I. left. apply RdU; auto. unfold is_instr; cbn [snd]; eauto.
    - destruct (cbuilt_instr _ _ _ By) as (l & c1 & f1 & n1 & ->). unfold cgood. cbn [snd]. right. exact By. }
  assert (Sz5 : forall x, In x i5 -> exists n, size_o (snd x) = Done n).
  { intros y Hy. destruct (F2_in_r _ _ _ R5 _ Hy) as (t & Ht & [_ [->|(_ & _ & By)]]). auto.
    destruct (cbuilt_instr _ _ _ By) as (l & c1 & f1 & n1 & ->). eexists. apply size_instr. }
  assert (CJ5 : cj_inv consts labs i5).
  { apply (cj_inv_keeps consts labs i4C i5); [|exact CJ4]. unfold i5. rewrite aliases_map. apply grouped_map.
    intros y Hy. split. { apply shr_alias. apply (nonneg_in _ _ N4C Hy). }
    destruct (F2_in_r _ _ _ R4 _ Hy) as (t & Ht & [_ [->|(_ & _ & By)]]).
    - right. intros y' L f [<-|[]] Hcj.
      assert (Hin : In (alias_item consts t) FU) by (unfold FU; rewrite aliases_map; apply in_map; exact Ht).
      destruct Hcj as (cls & nfs & Ey & Hc & Hi). eapply (not_cj_ready consts labs (alias_item consts t) L f).
      + apply RdU; auto. unfold is_instr. rewrite Ey. eauto.
      + exists cls, nfs. auto.
    - left. rewrite (cbuilt_alias consts labs _ By). reflexivity. }
  assert (Lb5 : forall L, In L labs -> In L (gnames i5)) by (rewrite Gn5; auto).
  (* ---- second compression pass ---- *)
  destruct (compress_pass consts labs i5 lab4C N5 X5 Gd5 Lb5 Sz5 CJ5) as (i6 & lab6 & Eg6 & R56 & Gd6 & CJ6 & R056).
  assert (E6 : transform_compressible i5 consts lab4C = Done (i6, lab6)).
  { unfold transform_compressible. rewrite gpass_gp, Eg6. reflexivity. }
  assert (D5 : NoDup (gnames i5)) by (rewrite Gn5, <- G2; exact D2).
  destruct (compress_stage true _ _ _ _ _ E6 N5 D5 X5) as (X6 & G6n & N6 & _).
  pose proof (F2_crel_trans consts labs _ _ _ R5 R56) as R.
  assert (Sz6 : forall x, In x i6 -> exists n, size_o (snd x) = Done n).
  { intros y Hy. destruct (F2_in_r _ _ _ R _ Hy) as (t & Ht & [_ [->|(_ & _ & By)]]). auto.
    destruct (cbuilt_instr _ _ _ By) as (l & c1 & f1 & n1 & ->). eexists. apply size_instr. }
  assert (NA6 : no_align i6 = true).
  { apply no_align_forall. intros y n Hy E. destruct (F2_in_r _ _ _ R _ Hy) as (t & Ht & [_ [->|(_ & _ & By)]]).
    - rewrite Forall_forall in ClsU. pose proof (ClsU _ Ht) as U. unfold AcceptU.ucls in U. rewrite E in U. exact U.
    - destruct (cbuilt_instr _ _ _ By) as (l & c1 & f1 & n1 & ->). discriminate. }
  pose proof (aligns_id i6 lab6 NA6 Sz6) as E7C.
  (* ---- the final passes ---- *)
  assert (LbU : forall L, In L labs -> In L (gnames FU)) by (rewrite GnU; auto).
  destruct (immediates_total consts lab6 tgood8 i6 0 [] Sz6) as (out & E8C & Fout).
  { intros a1 x a2 Ea. rewrite Z.add_0_l.
    exact (final_cut consts labs cn Htgt FU lab4U XU NU KU CutU ClsU LbU i6 lab6 a1 x a2 X6 R CJ6 Ea). }
  cbn [rev app] in E8C.
  destruct (proj2 (tail8_iff out) Fout) as [chC T8C].
  eapply run_build. unfold stages. fold i1. fold i2.
  split. exact E1. split. exact E2. split. { unfold transform_compressible. exact E3. } split. exact E4C.
  split. exact E6. split. exact E7C. split. exact E8C. exact T8C.
Qed.
