From Coq Require Import ZArith List Bool Lia ZifyBool String.
From BB Require Import Base.Bits Base.PyBase Gen.Encoders Spec.RV32 Spec.Operands Model.Encode
  Proofs.EncTac Proofs.Enc32 Proofs.Dec32 Proofs.Regs Proofs.C01Tac.
Import ListNotations.
Open Scope Z_scope.
Lemma row_or : row_ok "or". Proof. row_r "or"%string. Qed.
Lemma row_and : row_ok "and". Proof. row_r "and"%string. Qed.
Lemma row_mul : row_ok "mul". Proof. row_r "mul"%string. Qed.
Lemma row_mulh : row_ok "mulh". Proof. row_r "mulh"%string. Qed.
Lemma row_mulhsu : row_ok "mulhsu". Proof. row_r "mulhsu"%string. Qed.
Lemma row_mulhu : row_ok "mulhu". Proof. row_r "mulhu"%string. Qed.
Lemma row_div : row_ok "div". Proof. row_r "div"%string. Qed.
Lemma row_divu : row_ok "divu". Proof. row_r "divu"%string. Qed.
Lemma row_rem : row_ok "rem". Proof. row_r "rem"%string. Qed.
Lemma row_remu : row_ok "remu". Proof. row_r "remu"%string. Qed.
