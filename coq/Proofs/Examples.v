(* Concrete programs used as non-vacuity witnesses of the pipeline theorems. *)
From Coq Require Import ZArith List String.
From BB Require Import Base.PyBase Model.Items Model.Passes Proofs.Layout.
Import ListNotations. Open Scope Z_scope. Open Scope string_scope.
Definition exL (n : Z) : line := {| lfile := "<string>"; lnum := n |}.
(* a:  j b / call a / align 8 / b: beq x8, zero, a / dw b *)
Definition ex_its : list litem :=
  [(exL 1, ILabel "a");
   (exL 2, IPseudo "j" ["b"] (PErr (PRaw OtherExn)));
   (exL 3, IPseudo "call" ["a"] (PErr (PRaw OtherExn)));
   (exL 4, IAlign 8);
   (exL 5, ILabel "b");
   (exL 6, IInstr "BTypeInstruction" "beq" [("rs1", FReg (AStr "x8")); ("rs2", FReg (AStr "zero")); ("imm", FExpr (EOff "a"))] false);
   (exL 7, IShort "dw" (FExpr (EPos "b" (EArith (ANum 0)))))].
Lemma ex_nonneg : nonneg ex_its.
Proof. repeat constructor; try (unfold isz; simpl; intro; discriminate); try (intros ? H; inversion H; subst; intro; discriminate);
  try (intros ? H; discriminate). Qed.
Lemma ex_nodup : NoDup (gnames ex_its).
Proof. simpl. repeat constructor; simpl; intuition discriminate. Qed.
Lemma ex_runs_c : exists r, assemble_items ex_its [] [] true = Done r /\ r_labels r = [("a", 0); ("b", 8)].
Proof. eexists. split. vm_compute. reflexivity. reflexivity. Qed.
Lemma ex_runs_u : exists r, assemble_items ex_its [] [] false = Done r /\ r_labels r = [("a", 0); ("b", 8)].
Proof. eexists. split. vm_compute. reflexivity. reflexivity. Qed.

(* C12: a branch whose target lies behind an `align` that absorbs what compression saves in front of the branch:
   add / add / beq L / align 4096 / dw 0 / L:   -- distance 4092 without compression, 4096 with it *)
Definition exR3 (n rd a b : string) : item :=
  IInstr "RTypeInstruction" n [("rd", FReg (AStr rd)); ("rs1", FReg (AStr a)); ("rs2", FReg (AStr b)); ("#rs2", FExpr (EArith (AName b)))] false.
Definition ex12 : list litem :=
  [(exL 1, exR3 "add" "x8" "x8" "x9"); (exL 2, exR3 "add" "x9" "x9" "x8");
   (exL 3, IInstr "BTypeInstruction" "beq" [("rs1", FReg (AStr "x1")); ("rs2", FReg (AStr "x2")); ("imm", FExpr (EOff "L"))] false);
   (exL 4, IAlign 4096); (exL 5, IShort "dw" (FExpr (EArith (ANum 0)))); (exL 6, ILabel "L")].
Lemma ex12_uncompressed_ok : exists r, assemble_items ex12 [] [] false = Done r.
Proof. eexists. vm_compute. reflexivity. Qed.
Lemma ex12_compressed_fails : assemble_items ex12 [] [] true = Fail (PAsm (exL 3)).
Proof. vm_compute. reflexivity. Qed.

(* C12, second family (known finding K2): the ABSOLUTE value of a label inside a non-transfer immediate at the edge of its range:
   add x8, x8, x9 / L: / addi x1, x0, 2050 - L   -- L = 4 without compression (2046: accepted), L = 2 with it (2048: refused) *)
Definition ex13 : list litem :=
  [(exL 1, exR3 "add" "x8" "x8" "x9"); (exL 2, ILabel "L");
   (exL 3, IInstr "ITypeInstruction" "addi" [("rd", FReg (AStr "x1")); ("rs1", FReg (AStr "x0"));
                                             ("imm", FExpr (EArith (ABin OSub (ANum 2050) (AName "L")))); ("is_auipc_jump", FBool false)] false)].
Lemma ex13_uncompressed_ok : exists r, assemble_items ex13 [] [] false = Done r.
Proof. eexists. vm_compute. reflexivity. Qed.
Lemma ex13_compressed_fails : assemble_items ex13 [] [] true = Fail (PAsm (exL 3)).
Proof. vm_compute. reflexivity. Qed.
