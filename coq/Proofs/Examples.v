(* Concrete programs used as non-vacuity witnesses of the pipeline theorems. *)
From Coq Require Import ZArith List String.
From BB Require Import Base.PyBase Model.Items Model.Passes Proofs.Layout.
Import ListNotations. Open Scope Z_scope. Open Scope string_scope.
Definition exL (n : Z) : line := {| lfile := "<string>"; lnum := n |}.
(* a:  j b / call a / align 8 / b: beq x8, zero, a / dw b *)
Definition ex_its : list litem :=
  [(exL 1, ILabel "a");
   (exL 2, IPseudo "j" ["b"] (PErr (PRaw OtherExn)));
   (exL 3, IPseudo "call" ["a"] (PErr (PRaw OtherExn)));
   (exL 4, IAlign 8);
   (exL 5, ILabel "b");
   (exL 6, IInstr "BTypeInstruction" "beq" [("rs1", FReg (AStr "x8")); ("rs2", FReg (AStr "zero")); ("imm", FExpr (EOff "a"))] false);
   (exL 7, IShort "dw" (FExpr (EPos "b" (EArith (ANum 0)))))].
Lemma ex_nonneg : nonneg ex_its.
Proof. repeat constructor; try (unfold isz; simpl; intro; discriminate); try (intros ? H; inversion H; subst; intro; discriminate);
  try (intros ? H; discriminate). Qed.
Lemma ex_nodup : NoDup (gnames ex_its).
Proof. simpl. repeat constructor; simpl; intuition discriminate. Qed.
Lemma ex_runs_c : exists r, assemble_items ex_its [] [] true = Done r /\ r_labels r = [("a", 0); ("b", 8)].
Proof. eexists. split. vm_compute. reflexivity. reflexivity. Qed.
Lemma ex_runs_u : exists r, assemble_items ex_its [] [] false = Done r /\ r_labels r = [("a", 0); ("b", 8)].
Proof. eexists. split. vm_compute. reflexivity. reflexivity. Qed.
