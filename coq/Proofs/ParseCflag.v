(* What the parser model returns carries the compressed flag of its class (the hypothesis cflag_ok of the C04 program theorems):
   the flag of an instruction item is true exactly for the classes whose name starts with "C". *)
From Coq Require Import ZArith List Bool String Arith Lia.
From BB Require Import Base.PyBase Gen.Encoders Gen.Criteria Gen.Pseudo Model.Items Model.Lexer Model.PyExpr Model.Parser
  Model.Encode Model.Passes Proofs.Errors Proofs.ParseErrors Proofs.EncSig Proofs.PseudoTable Proofs.NoRaw Proofs.ParseOk
  Proofs.CompressLit.
Import ListNotations.
Open Scope string_scope.

Lemma pseudo_cflag l name args it : pseudo l name args = FOk it -> cflag_ok it = true.
Proof. unfold pseudo. intro H. peel H; inversion H; subst; reflexivity. Qed.
Ltac cf H :=
  unfold instr, raise_asm, raise_raw, fbind, base_offset, imm_field, R in H; peel H;
  first [ solve [eapply pseudo_cflag; eassumption] | solve [inversion H; subst; reflexivity] ].

Theorem parse_item_cflag l tokens it : parse_item l tokens = FOk it -> cflag_ok it = true.
Proof.
  unfold parse_item. destruct tokens as [|t0 args]; [discriminate|]. cbv zeta.
  set (head := lower t0). set (n := List.length (t0 :: args)).
  intro H.
  destruct (Nat.eqb n 1 && ends_colon t0). { inversion H; subst. reflexivity. }
  destruct (Nat.leb 3 n && tok_is (nth_tok 1 (t0 :: args)) "=").
  { unfold fbind in H. destruct (parse_immediate _ l) as [e|e|] eqn:Ep; inversion H; subst. reflexivity. }
  destruct (String.eqb head "error"). { peel H. }
  destruct (String.eqb head "include_bytes"). { peel H. }
  destruct (String.eqb head "string"). { peel H. inversion H; subst. unfold string_item. cbv zeta. repeat match goal with |- context[match ?x with _ => _ end] => destruct x end; reflexivity. }
  destruct (mem_str head NUMERIC_SEQUENCE_NAMES_final). { inversion H; subst. reflexivity. }
  destruct (String.eqb head "pack").
  { peel H. unfold fbind in H. destruct (parse_immediate _ l) as [e|e|] eqn:Ep; inversion H; subst. reflexivity. }
  destruct (mem_str head SHORTHAND_PACK_NAMES_final).
  { unfold fbind in H. destruct (parse_immediate _ l) as [e|e|] eqn:Ep; inversion H; subst. reflexivity. }
  destruct (String.eqb head "align"). { peel H. inversion H; subst. reflexivity. }
  destruct (in_tab head R_TYPE_INSTRUCTIONS_final). { cf H. }
  destruct (in_tab head I_TYPE_INSTRUCTIONS_final). { cf H. }
  destruct (in_tab head IE_TYPE_INSTRUCTIONS_final). { cf H. }
  destruct (in_tab head S_TYPE_INSTRUCTIONS_final). { cf H. }
  destruct (in_tab head B_TYPE_INSTRUCTIONS_final). { cf H. }
  destruct (in_tab head U_TYPE_INSTRUCTIONS_final). { cf H. }
  destruct (in_tab head J_TYPE_INSTRUCTIONS_final). { cf H. }
  destruct (in_tab head FENCE_INSTRUCTIONS_final). { cf H. }
  destruct (in_tab head A_TYPE_INSTRUCTIONS_final). { cf H. }
  destruct (in_tab head AL_TYPE_INSTRUCTIONS_final). { cf H. }
  destruct (in_tab head CR_TYPE_INSTRUCTIONS_final). { cf H. }
  destruct (in_tab head CRJ_TYPE_INSTRUCTIONS_final). { cf H. }
  destruct (in_tab head CRE_TYPE_INSTRUCTIONS_final). { cf H. }
  destruct (in_tab head CI_TYPE_INSTRUCTIONS_final). { cf H. }
  destruct (in_tab head CIA_TYPE_INSTRUCTIONS_final). { cf H. }
  destruct (in_tab head CIN_TYPE_INSTRUCTIONS_final). { cf H. }
  destruct (in_tab head CSS_TYPE_INSTRUCTIONS_final). { cf H. }
  destruct (in_tab head CIW_TYPE_INSTRUCTIONS_final). { cf H. }
  destruct (in_tab head CL_TYPE_INSTRUCTIONS_final). { cf H. }
  destruct (in_tab head CS_TYPE_INSTRUCTIONS_final). { cf H. }
  destruct (in_tab head CA_TYPE_INSTRUCTIONS_final). { cf H. }
  destruct (in_tab head CB_TYPE_INSTRUCTIONS_final). { cf H. }
  destruct (in_tab head CJ_TYPE_INSTRUCTIONS_final). { cf H. }
  destruct (mem_str head PSEUDO_INSTRUCTIONS_final). { eapply pseudo_cflag; eauto. }
  discriminate.
Qed.
