(* C12, positive half -- what the class and the uncompressed run say about single items: the shape of every item of the list in
   front of the alignment pass (ucls), the pseudo-instruction templates, and `ready` for every instruction the run encoded. *)
From Coq Require Import ZArith List Bool Lia String Arith.
From BB Require Import Base.Bits Base.PyBase Gen.Encoders Gen.Criteria Spec.RV32 Spec.RVC Spec.Operands Spec.Legal
  Model.Items Model.Encode Model.Passes Proofs.Regs Proofs.Layout Proofs.LayoutInst Proofs.Pipeline Proofs.Errors Proofs.EncSig Proofs.NoRaw
  Proofs.Rules Proofs.RulesMain Proofs.Stable Proofs.Monotone
  Proofs.AcceptLayout Proofs.AcceptTail Proofs.AcceptMono Proofs.AcceptCompress Proofs.AcceptItem Proofs.AcceptClass Proofs.AcceptStatic
  Proofs.AcceptPass.
Import ListNotations.
Open Scope Z_scope.
Local Open Scope list_scope.

Lemma rule_cls_plain_table :
  forallb (fun c => negb (existsb (fun n => match orig_fields n with Some _ => true | None => false end) (fst (snd c)))
                    || negb (is_atomic_cls (fst c))) class_sig = true.
Proof. vm_compute. reflexivity. Qed.
Lemma rule_cls_plain cls names kinds name :
  assoc_str cls class_sig = Some (names, kinds) -> mem_str name names = true -> orig_fields name <> None -> is_atomic_cls cls = false.
Proof.
  intros A M O. pose proof rule_cls_plain_table as T. rewrite forallb_forall in T. specialize (T _ (assoc_in _ _ _ A)). cbn [fst snd] in T.
  assert (E : existsb (fun n => match orig_fields n with Some _ => true | None => false end) names = true).
  { apply existsb_exists. exists name. split. apply mem_in; exact M. destruct (orig_fields name); congruence. }
  rewrite E in T. cbn [negb orb] in T. apply negb_true_iff in T. exact T.
Qed.
Lemma jump_not_cjn : forallb (fun n => negb (mem_str n cjn)) jump_mnems = true.
Proof. vm_compute. reflexivity. Qed.

(* the forms of li *)
Lemma li_choice l name args pimm e lo hi near f1 f2 :
  expand_pseudo l name args pimm = Done (Choice e None lo hi near f1 f2) ->
  exists rd, near = mkI "addi" (St rd) (St "x0") (ELo e) false /\ f1 = mkU "lui" (St rd) (EHi e) /\
             f2 = mkI "addi" (St rd) (St rd) (ELo e) true.
Proof.
  unfold expand_pseudo.
  repeat match goal with
         | |- context[if String.eqb name ?s then _ else _] =>
             let E := fresh "E" in destruct (String.eqb name s) eqn:E; [ apply String.eqb_eq in E; subst name | ]
         end;
  try (intro H; discriminate H);
  repeat match goal with |- context[match args with _ => _ end] => destruct args as [|? args] end;
  try (intro H; discriminate H);
  try (destruct pimm as [x|x]; cbn [of_pres obind]; intro H; try discriminate H; inversion H; subst; eauto; fail);
  intro H; inversion H.
Qed.

Lemma call_shapes l name args pimm e r lo hi near f1 f2 :
  expand_pseudo l name args pimm = Done (Choice e (Some r) lo hi near f1 f2) ->
  exists rd ra, near = mkJ "jal" (St rd) (EOff r) /\ f1 = mkU "auipc" (St ra) (EHi (EOff r)) /\
                f2 = mkI "jalr" (St rd) (St ra) (ELo (EOff r)) true.
Proof.
  unfold expand_pseudo.
  repeat match goal with
         | |- context[if String.eqb name ?s then _ else _] =>
             let E := fresh "E" in destruct (String.eqb name s) eqn:E; [ apply String.eqb_eq in E; subst name | ]
         end;
  try (intro H; discriminate H);
  repeat match goal with |- context[match args with _ => _ end] => destruct args as [|? args] end;
  try (intro H; discriminate H);
  try (destruct pimm as [x|x]; cbn [of_pres obind]; intro H; discriminate H);
  intro H; inversion H; subst; unfold near_imm; eauto.
Qed.

Section U.
Variables (consts : envt) (labs cn : list string).
Hypothesis Htgt : forall L, target_ok labs cn L = true -> In L labs /\ assoc_str L consts = None.
Notation alias_item := (alias_item consts).
Notation alias_fixed := (alias_fixed consts).
Notation ready := (ready consts labs).

Definition tcls (cls name : string) (fs : list (string * fval)) : Prop :=
  match field_get "imm" fs with
  | None => True
  | Some (FExpr e) =>
      lf labs e = true \/
      (exists L, target_ok labs cn L = true /\
         ((e = EOff L /\ is_jump_cls cls = true /\ has_flag fs = false) \/
          (e = EHi (EOff L) /\ name = "auipc"%string /\ has_flag fs = false) \/
          (e = ELo (EOff L) /\ name = "jalr"%string /\ field_get "is_auipc_jump" fs = Some (FBool true))))
  | Some _ => False
  end.
Definition ucls (fixed : bool) (x : litem) : Prop :=
  match snd x with
  | IInstr cls name fs c =>
      instr_okb false cls name fs = true /\ (fixed = true -> alias_fixed fs) /\ tcls cls name fs /\ (name = "jalr"%string -> has_flag fs = true)
  | IPack _ v | IShort _ v => exists e, v = FExpr e /\ (lf labs e = true \/ exists L, e = EArith (AName L) /\ target_ok labs cn L = true)
  | IPseudo _ _ _ | IAlign _ | IConst _ _ => False
  | _ => True
  end.

Lemma instr_cls_tcls cls name fs : instr_cls labs cn cls name fs = true ->
  tcls cls name fs /\ (name = "jalr"%string -> has_flag fs = true).
Proof.
  unfold instr_cls, tcls. intro H. apply andb_prop in H. destruct H as [A B]. split.
  - destruct (field_get "imm" fs) as [[|e| |]|]; try discriminate; auto.
    unfold imm_cls in A. apply orb_prop in A. destruct A as [A|A]; [left; exact A|right].
    apply andb_prop in A. destruct A as [A1 A2]. destruct e; try discriminate.
    apply andb_prop in A1. destruct A1 as [J F]. apply negb_true_iff in F. exists ref. split. exact A2. left. auto.
  - intros ->. cbn in B. exact B.
Qed.

Lemma has_flag_alias fs : has_flag (map (alias_field consts) fs) = has_flag fs.
Proof. unfold has_flag. rewrite alias_get by reflexivity. reflexivity. Qed.
Lemma tcls_alias cls name fs : tcls cls name fs -> tcls cls name (map (alias_field consts) fs).
Proof. unfold tcls. rewrite alias_get by reflexivity. rewrite has_flag_alias. rewrite (alias_get consts "is_auipc_jump") by reflexivity. auto. Qed.
Lemma ucls_alias x : ucls false x -> ucls true (alias_item x).
Proof.
  destruct x as [l it]. destruct it; cbn [ucls snd alias_item]; auto.
  intros (A & _ & C & D). split. apply alias_instr_ok; exact A. split. intros _; apply alias_fixed_map.
  split. apply tcls_alias; exact C. rewrite has_flag_alias. exact D.
Qed.
Lemma ucls_fixed_alias x : ucls true x -> alias_item x = x.
Proof.
  destruct x as [l it]. destruct it; cbn [ucls snd alias_item]; auto.
  intros (_ & F & _). rewrite (F eq_refl). reflexivity.
Qed.

(* the templates *)
Lemma plain_ucls l t : plain t -> okb 2 t = true ->
  (forall cls n fs c, t = IInstr cls n fs c -> tcls cls n fs /\ (n = "jalr"%string -> has_flag fs = true)) -> ucls false (l, t).
Proof.
  intros (cls & n & fs & ->) Hk H. cbn [ucls snd]. cbn [okb Nat.leb Nat.eqb andb] in Hk.
  destruct (H _ _ _ _ eq_refl) as [A B]. split. exact Hk. split. discriminate. auto.
Qed.
Lemma lf_hilo e : lf labs (ELo e) = lf labs e /\ lf labs (EHi e) = lf labs e.
Proof. split; reflexivity. Qed.

Theorem pseudo_templates calls l name args pimm pos ls rs :
  pseudo_okb name args pimm = true -> pseudo_cls calls labs cn l name args pimm = true ->
  pseudo_rule consts l (IPseudo name args pimm) pos ls = Done rs -> Forall (fun t => ucls false (l, t)) rs.
Proof.
  intros Hok Hc Hr.
  pose proof (pseudo_rule_good consts l (IPseudo name args pimm) pos ls) as G. rewrite Hr in G. cbn [good] in G.
  assert (Ok2 : oki 2 rs). { apply G. cbn [okb Nat.leb andb]. exact Hok. reflexivity. }
  pose proof (pseudo_rule_keep _ _ _ _ _ _ Hr) as Pl. cbn beta iota in Pl.
  cbv beta iota delta [pseudo_rule] in Hr. unfold pseudo_cls in Hc.
  destruct (expand_pseudo l name args pimm) as [px| |] eqn:Ex; cbn [obind] in Hr; try discriminate.
  destruct px as [it'|e target lo hi near f1 f2].
  - inversion Hr; subst rs. inversion Ok2 as [|? ? O1 _]; subst. inversion Pl as [|? ? P1 _]; subst.
    constructor; [|constructor]. apply plain_ucls; auto. intros cls n fs c ->. apply instr_cls_tcls. exact Hc.
  - destruct target as [r|].
    { (* call / tail *)
      apply andb_prop in Hc. destruct Hc as [_ HT].
      destruct (call_shapes _ _ _ _ _ _ _ _ _ _ _ Ex) as (rd & ra & -> & -> & ->).
      destruct (of_pres _) as [v| |]; cbn [obind] in Hr; try discriminate. cbv zeta in Hr.
      assert (T : forall t, In t rs -> forall cls n fs c, t = IInstr cls n fs c -> tcls cls n fs /\ (n = "jalr"%string -> has_flag fs = true)).
      { intros t Hin cls n fs c Et.
        assert (Hc3 : t = mkJ "jal" (St rd) (EOff r) \/ t = mkU "auipc" (St ra) (EHi (EOff r)) \/ t = mkI "jalr" (St rd) (St ra) (ELo (EOff r)) true).
        { destruct (_ && _ && _); inversion Hr; subst rs; cbn [In] in Hin; intuition. }
        destruct Hc3 as [-> | [-> | ->]]; inversion Et; subst; (split; [unfold tcls; cbn; right; exists r; split; [exact HT|]|try discriminate; try reflexivity]).
        - left. auto. - right. left. auto. - right. right. auto. }
      rewrite Forall_forall. intros t Hin. unfold oki in Ok2. rewrite Forall_forall in Ok2, Pl. apply plain_ucls; auto. eapply T; eauto. }
    destruct (li_choice _ _ _ _ _ _ _ _ _ _ Ex) as (rd & -> & -> & ->).
    destruct (of_pres _) as [v| |]; cbn [obind] in Hr; try discriminate.
    destruct (is_settled l pos consts e) as [st| |]; cbn [obind] in Hr; try discriminate. cbv zeta in Hr.
    assert (T : forall t, In t rs -> forall cls n fs c, t = IInstr cls n fs c -> tcls cls n fs /\ (n = "jalr"%string -> has_flag fs = true)).
    { intros t Hin cls n fs c Et.
      assert (Hc3 : t = mkI "addi" (St rd) (St "x0") (ELo e) false \/ t = mkU "lui" (St rd) (EHi e) \/ t = mkI "addi" (St rd) (St rd) (ELo e) true).
      { destruct (st && _ && _); inversion Hr; subst rs; cbn [In] in Hin; intuition. }
      destruct Hc3 as [-> | [-> | ->]]; inversion Et; subst; (split; [unfold tcls; cbn; left; exact Hc|discriminate]). }
    rewrite Forall_forall. intros t Hin. unfold oki in Ok2. rewrite Forall_forall in Ok2, Pl. apply plain_ucls; auto. eapply T; eauto.
Qed.

(* ---- ready, from the shape and from the uncompressed run's success at the item --------------------------------------------- *)
Theorem ready_of_run labels l cls name fs c p y :
  ucls true (l, IInstr cls name fs c) ->
  (forall s, assoc_str s labels <> None -> In s labs) ->
  Rimm consts labels p (l, IInstr cls name fs c) y -> tgood8 y ->
  ready (l, IInstr cls name fs c).
Proof.
  intros (Hok & Hfx & Ht & Hfl) K [Hl Hy] Tg. cbn [fst snd] in Hl, Hy. destruct y as [l' ity]. cbn [fst snd] in *. subst l'.
  cbn [ready]. split. exact Hok. split. auto. 
  pose proof Hok as Hok0. unfold instr_okb in Hok.
  destruct (assoc_str cls class_sig) as [[names kinds]|] eqn:Es; try discriminate.
  destruct (class_keys cls) as [keys|] eqn:Ek; try discriminate.
  apply andb_prop in Hok. destruct Hok as [Hok Hs]. apply andb_prop in Hok. destruct Hok as [Hn Hio].
  assert (Hfl' : name = "jalr"%string -> field_get "is_auipc_jump" fs <> None).
  { intro E. specialize (Hfl E). unfold has_flag in Hfl. destruct (field_get "is_auipc_jump" fs); [discriminate|discriminate]. }
  (* the instruction the run encoded *)
  assert (Enc : exists fs', ity = IInstr cls name fs' c /\ (exists bs, encode_item l cls name fs' c = Done bs) /\
                            instr_okb true cls name fs' = true /\
                            match field_get "imm" fs with
                            | Some v => exists z, imm_of l (p - back_of fs) consts labels v = Done z /\ fs' = field_set "imm" (FInt z) fs
                            | None => fs' = fs end).
  { destruct (field_get "imm" fs) as [v|] eqn:Ei.
    - destruct Hy as (z & Ez & ->). exists (field_set "imm" (FInt z) fs). split. reflexivity.
      split. apply tgood8_instr; exact Tg. split; [|eauto].
      unfold instr_okb. rewrite Es, Ek, Hn, Hio. cbn [andb]. apply shape_post_set; auto.
    - subst ity. exists fs. split. reflexivity. split. apply tgood8_instr; exact Tg. split; [|reflexivity].
      unfold instr_okb. rewrite Es, Ek, Hn, Hio. cbn [andb]. apply shape_post_none; auto. }
  destruct Enc as (fs' & -> & [bs Hbs] & Hok' & Hfs').
  split.
  { intro On. pose proof (rule_cls_plain _ _ _ _ Es Hn On) as Hat.
    assert (A : accepts name (args_of fs')) by (apply (encode_item_accepts l cls name fs' c Hat); eauto).
    destruct A as [w Hw]. pose proof (regs_from_encode cls name fs' w Hok' On Hw) as R.
    destruct (field_get "imm" fs) as [v|]; [|subst fs'; exact R]. destruct Hfs' as (z & _ & ->). eapply regs_valid_unset; eauto. }
  split. exact Hfl'.
  unfold tcls in Ht. destruct (field_get "imm" fs) as [v|] eqn:Ei.
  - destruct v as [|e| |]; try contradiction. destruct Hfs' as (z & Ez & ->). cbn [imm_of] in Ez.
    destruct Ht as [Hlf|(L & HT & [(-> & Hj & Hnf)|[(-> & -> & Hnf)|(-> & -> & Hnf)]])].
    + left. destruct (lf_value labs l _ consts labels e z Hlf K Ez) as (A & B & _). exists z. split. exact A. split. exact B. eauto.
    + right. exists L. split. left; reflexivity. split. apply Htgt; exact HT.
      pose proof (jump_mnems_in _ _ _ _ Es Hj Hn) as Jm. pose proof jump_not_cjn as T. rewrite forallb_forall in T.
      specialize (T _ (mem_in _ _ Jm)). apply negb_true_iff in T. intro Hin.
      assert (mem_str name cjn = true); [|congruence]. unfold mem_str. apply existsb_exists. exists name. split; auto. apply String.eqb_refl.
    + right. exists L. split. right; left; reflexivity. split. apply Htgt; exact HT. unfold cjn. cbn [In]. intuition discriminate.
    + right. exists L. split. right; right; reflexivity. split. apply Htgt; exact HT. unfold cjn. cbn [In]. intuition discriminate.
  - subst fs'. eauto.
Qed.
End U.
