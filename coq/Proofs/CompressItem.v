(* C04, item level: ONE instruction item on which the compression pass selected a rule, followed through the rest of
   both pipelines (immediate resolution, the generated 32-bit / 16-bit encoder) and the Spec decoders.
   The rule-level theorems (Proofs/RulesMain.v) speak about numeric views; here they are tied to the ITEM:
   what `args_of` hands to the encoder (register spellings, resolved immediate) reads, operand by operand, as the
   numeric view the rule was checked on.  Table facts that are needed about the generated class / construction
   tables are computed (vm_compute) so that an edit of the tables breaks them. *)
From Coq Require Import ZArith List Bool Lia String Arith.
From BB Require Import Base.Bits Base.PyBase Gen.Encoders Gen.Criteria Spec.RV32 Spec.RVC Spec.Operands Spec.Legal
  Model.Items Model.Encode Model.Passes Proofs.Layout Proofs.LayoutInst Proofs.Pipeline Proofs.Regs Proofs.Rules
  Proofs.RulesMain Proofs.C01Main Proofs.C02Main Proofs.Stable Proofs.EncSig Proofs.NoRaw.
Import ListNotations.
Open Scope string_scope.
Open Scope Z_scope.

(* ---- args_of, read through the operand keys of the class --------------------------------------------------------------- *)
Definition argv (v : fval) : arg := match arg_of_fval v with Some a => a | None => AStr "<expr>" end.
Definition argk (fs : list (string * fval)) (k : string) : arg :=
  match field_get k fs with Some v => argv v | None => AStr "<none>" end.
Definition plain_key (k : string) : bool := negb (is_flag_key k) && negb (is_ghost_key k).
Fixpoint nodupb (l : list string) : bool := match l with [] => true | x :: r => negb (mem_str x r) && nodupb r end.

Lemma mem_str_false_neq k x r : mem_str x r = false -> In k r -> String.eqb k x = false.
Proof.
  intros H Hin. destruct (String.eqb k x) eqn:E; auto. apply String.eqb_eq in E. subst k.
  exfalso. unfold mem_str in H. assert (existsb (String.eqb x) r = true); [|congruence].
  apply existsb_exists. exists x. split; auto. apply String.eqb_refl.
Qed.

Lemma args_of_keys post : forall fs keys, shape_okb post keys fs = true -> nodupb keys = true ->
  forallb plain_key keys = true -> args_of fs = map (argk fs) keys.
Proof.
  induction fs as [|[k0 v] r IH]; intros keys H Hn Hp.
  - destruct keys; [reflexivity|discriminate].
  - cbn [shape_okb] in H. cbn [args_of]. fold (is_flag_key k0). fold (is_ghost_key k0).
    assert (Skip : forall ks, forallb plain_key ks = true -> (is_flag_key k0 = true \/ is_ghost_key k0 = true) ->
                   map (argk ((k0, v) :: r)) ks = map (argk r) ks).
    { intros ks Hk Hf. apply map_ext_in. intros k Hin. rewrite forallb_forall in Hk. specialize (Hk k Hin).
      unfold plain_key in Hk. apply andb_prop in Hk. destruct Hk as [A B]. apply negb_true_iff in A, B.
      unfold argk, field_get. cbn [assoc_str].
      destruct Hf as [Hf|Hf]; [rewrite (flag_neq _ _ A Hf)|rewrite (ghost_neq _ _ B Hf)]; reflexivity. }
    destruct (is_flag_key k0) eqn:F0.
    { apply andb_prop in H. destruct H as [_ H]. rewrite (Skip keys Hp (or_introl eq_refl)). apply IH; auto. }
    destruct (is_ghost_key k0) eqn:G0.
    { rewrite (Skip keys Hp (or_intror eq_refl)). apply IH; auto. }
    destruct keys as [|k' ks]; [discriminate|].
    apply andb_prop in H. destruct H as [A B]. apply andb_prop in A. destruct A as [A1 A2].
    apply String.eqb_eq in A1. subst k'.
    cbn [nodupb] in Hn. apply andb_prop in Hn. destruct Hn as [N1 N2]. apply negb_true_iff in N1.
    cbn [forallb] in Hp. apply andb_prop in Hp. destruct Hp as [P1 P2].
    cbn [map]. assert (E0 : argk ((k0, v) :: r) k0 = argv v).
    { unfold argk, field_get. cbn [assoc_str]. rewrite String.eqb_refl. reflexivity. }
    rewrite E0. assert (Er : map (argk ((k0, v) :: r)) ks = map (argk r) ks).
    { apply map_ext_in. intros k Hin. unfold argk, field_get. cbn [assoc_str].
      rewrite (mem_str_false_neq k k0 ks N1 Hin). reflexivity. }
    rewrite Er, <- (IH ks B N2 P2). unfold argv. destruct (arg_of_fval v); reflexivity.
Qed.

Lemma field_get_set_imm x : forall fs k, field_get k (field_set "imm" x fs) =
  if String.eqb k "imm" then (match field_get "imm" fs with Some _ => Some x | None => None end) else field_get k fs.
Proof.
  unfold field_get. induction fs as [|[k0 v] r IH]; intro k.
  - simpl. destruct (String.eqb k "imm"); reflexivity.
  - cbn [field_set]. destruct (String.eqb k0 "imm") eqn:E.
    + apply String.eqb_eq in E. subst k0. cbn [assoc_str]. rewrite String.eqb_refl.
      destruct (String.eqb k "imm"); reflexivity.
    + cbn [assoc_str]. rewrite IH. rewrite (String.eqb_sym "imm" k0), E.
      destruct (String.eqb k k0) eqn:Ek; [|reflexivity].
      apply String.eqb_eq in Ek. subst k0. rewrite E. reflexivity.
Qed.

(* ---- reading operands: a register operand counts through its number only ---------------------------------------------- *)
Definition resp (a : arg) (b : Z) : Prop := forall n, regnum a = Some n -> b = n.
Definition prel (isreg : bool) (a : arg) (b : Z) : Prop := if isreg then resp a b else a = AInt b.
Fixpoint arel (mask : list bool) (xs : list arg) (ys : list Z) : Prop :=
  match mask, xs, ys with
  | [], [], [] => True
  | m :: mask', a :: xs', b :: ys' => prel m a b /\ arel mask' xs' ys'
  | _, _, _ => False
  end.
Definition is_kreg (k : Operands.okind) : bool := match k with KReg => true | _ => false end.
Definition is_creg (k : ckind) : bool := match k with CReg => true | _ => false end.

Lemma regnum_int a n : regnum a = Some n -> regnum (AInt n) = Some n.
Proof.
  intro H. pose proof (regnum_range _ _ H) as R. simpl. unfold in_regs.
  assert (E : (0 <=? n) && (n <=? 31) = true) by (apply andb_true_intro; split; apply Z.leb_le; lia).
  rewrite E. reflexivity.
Qed.
Lemma read_ops_resp ks : forall xs ys ops, arel (map is_kreg ks) xs ys -> read_ops ks xs = Some ops ->
  read_ops ks (map AInt ys) = Some ops.
Proof.
  induction ks as [|k ks IH]; intros [|a xs] [|b ys] ops R H; simpl in R; try contradiction; try discriminate; auto.
  destruct R as [P R]. cbn [read_ops map] in *.
  destruct (read_op k a) as [z|] eqn:Ea; try discriminate.
  destruct (read_ops ks xs) as [rest|] eqn:Er; try discriminate.
  rewrite (IH _ _ _ R Er).
  assert (E : read_op k (AInt b) = Some z).
  { destruct k; simpl in P; try (subst a; exact Ea).
    simpl in Ea. rewrite (P z Ea). simpl. exact (regnum_int _ _ Ea). }
  rewrite E. exact H.
Qed.
Lemma read_cops_resp ks : forall xs ys ops, arel (map is_creg ks) xs ys -> read_cops ks xs = Some ops ->
  read_cops ks (map AInt ys) = Some ops.
Proof.
  induction ks as [|k ks IH]; intros [|a xs] [|b ys] ops R H; simpl in R; try contradiction; try discriminate; auto.
  destruct R as [P R]. cbn [read_cops map] in *.
  destruct (read_cop k a) as [z|] eqn:Ea; try discriminate.
  destruct (read_cops ks xs) as [rest|] eqn:Er; try discriminate.
  rewrite (IH _ _ _ R Er).
  assert (E : read_cop k (AInt b) = Some z).
  { destruct k; simpl in P; try (subst a; exact Ea).
    simpl in Ea. rewrite (P z Ea). simpl. exact (regnum_int _ _ Ea). }
  rewrite E. exact H.
Qed.

(* ---- table facts (computed over the GENERATED class tables and the Spec operand kinds) ------------------------------------ *)
Fixpoint lseqb (a b : list string) : bool :=
  match a, b with [], [] => true | x :: a', y :: b' => String.eqb x y && lseqb a' b' | _, _ => false end.
Lemma lseqb_eq a : forall b, lseqb a b = true -> a = b.
Proof.
  induction a as [|x a IH]; intros [|y b] H; simpl in H; try discriminate; auto.
  apply andb_prop in H. destruct H as [A B]. apply String.eqb_eq in A. subst. f_equal; auto.
Qed.
Fixpoint lbeqb (a b : list bool) : bool :=
  match a, b with [], [] => true | x :: a', y :: b' => Bool.eqb x y && lbeqb a' b' | _, _ => false end.
Lemma lbeqb_eq a : forall b, lbeqb a b = true -> a = b.
Proof.
  induction a as [|x a IH]; intros [|y b] H; simpl in H; try discriminate; auto.
  apply andb_prop in H. destruct H as [A B]. apply eqb_prop in A. subst. f_equal; auto.
Qed.
Definition fmask (fs0 : list string) : list bool := map (fun f => negb (String.eqb f "imm")) fs0.

(* a mnemonic that has compression rules, in a class that holds it: the class is a 32-bit, non-atomic class whose operand
   keys are exactly the operand order the rules are checked with (orig_fields), registers where the Spec reads a register *)
Definition name_ok32 (cls name : string) : bool :=
  match orig_fields name with
  | None => true
  | Some fs0 =>
      negb (is_atomic_cls cls) && negb (String.prefix "C" cls) && mem_str name base_mnemonics &&
      match class_keys cls, sassoc name kinds32 with
      | Some keys, Some (ks, false) =>
          lseqb keys fs0 && lbeqb (map is_kreg ks) (fmask fs0) && nodupb keys && forallb plain_key keys &&
          forallb (fun f => String.eqb f "imm" || is_regfield f) fs0
      | _, _ => false
      end
  end.
Lemma classes_ok32 : forallb (fun c => forallb (name_ok32 (fst c)) (fst (snd c))) class_sig = true.
Proof. vm_compute. reflexivity. Qed.

(* a construction row: the class it builds is a compressed, non-atomic class; its mnemonic has no rule of its own; the
   operand keys of the class read as the Spec's kinds (register <-> not "imm") *)
Definition row_ok16 (row : string * (string * string * list cfield)) : bool :=
  let '(_, (final, cls', _)) := row in
  negb (is_atomic_cls cls') && String.prefix "C" cls' && mem_str final c_mnemonics &&
  match orig_fields final with None => true | Some _ => false end &&
  match assoc_str cls' class_fields, sassoc final kinds16 with
  | Some ("name" :: fnames), Some ks =>
      nodupb fnames && forallb plain_key (filter notflag fnames) && lbeqb (map is_creg ks) (fmask (filter notflag fnames))
  | _, _ => false
  end.
Lemma construction_ok16 : forallb row_ok16 construction = true.
Proof. vm_compute. reflexivity. Qed.

Lemma name_ok32_spec cls name names kinds keys fs0 :
  assoc_str cls class_sig = Some (names, kinds) -> mem_str name names = true -> class_keys cls = Some keys ->
  orig_fields name = Some fs0 ->
  is_atomic_cls cls = false /\ String.prefix "C" cls = false /\ In name base_mnemonics /\ keys = fs0 /\
  (exists ks, sassoc name kinds32 = Some (ks, false) /\ map is_kreg ks = fmask fs0) /\
  nodupb fs0 = true /\ forallb plain_key fs0 = true /\ forallb (fun f => String.eqb f "imm" || is_regfield f) fs0 = true.
Proof.
  intros Es Hn Ek Hof. pose proof classes_ok32 as T. rewrite forallb_forall in T.
  specialize (T _ (assoc_in _ _ _ Es)). cbn [fst snd] in T. rewrite forallb_forall in T.
  specialize (T _ (NoRaw.mem_str_in _ _ Hn)). unfold name_ok32 in T. rewrite Hof, Ek in T.
  destruct (sassoc name kinds32) as [[ks [|]]|]; try (rewrite !andb_false_r in T; discriminate T).
  apply andb_prop in T. destruct T as [X Y].
  apply andb_prop in X. destruct X as [X X3]. apply andb_prop in X. destruct X as [X1 X2].
  apply andb_prop in Y. destruct Y as [Y Y5]. apply andb_prop in Y. destruct Y as [Y Y4].
  apply andb_prop in Y. destruct Y as [Y Y3]. apply andb_prop in Y. destruct Y as [Y1 Y2].
  apply negb_true_iff in X1, X2. apply lseqb_eq in Y1. subst keys. apply lbeqb_eq in Y2.
  repeat split; auto. apply NoRaw.mem_str_in; auto. eauto.
Qed.

Lemma shape_get_none post : forall fs keys k,
  shape_okb post keys fs = true -> mem_str k keys = false -> plain_key k = true -> field_get k fs = None.
Proof.
  unfold field_get. induction fs as [|[k0 w] r IH]; intros keys k H M P; [reflexivity|].
  cbn [shape_okb] in H. cbn [assoc_str]. unfold plain_key in P. apply andb_prop in P. destruct P as [PF PG].
  apply negb_true_iff in PF, PG.
  destruct (is_flag_key k0) eqn:F0. { rewrite (flag_neq _ _ PF F0). apply andb_prop in H. destruct H. eapply IH; eauto. unfold plain_key. rewrite PF, PG. reflexivity. }
  destruct (is_ghost_key k0) eqn:G0. { rewrite (ghost_neq _ _ PG G0). eapply IH; eauto. unfold plain_key. rewrite PF, PG. reflexivity. }
  destruct keys as [|k' ks]; [discriminate|].
  apply andb_prop in H. destruct H as [A B]. apply andb_prop in A. destruct A as [A1 A2]. apply String.eqb_eq in A1. subst k'.
  unfold mem_str in M. cbn [existsb] in M. apply orb_false_iff in M. destruct M as [M1 M2]. rewrite M1.
  eapply IH; eauto. unfold plain_key. rewrite PF, PG. reflexivity.
Qed.

(* an immediate field after resolve_immediates *)
Definition resolved (l : line) (p : Z) (consts labels : envt) (fs fs' : list (string * fval)) : Prop :=
  match field_get "imm" fs with
  | Some val => exists z, imm_of l p consts labels val = Done z /\ fs' = field_set "imm" (FInt z) fs
  | None => fs' = fs
  end.

Lemma of_pres_done {A} (r : pres A) a : of_pres r = Done a -> r = POk a.
Proof. destruct r; simpl; intro H; inversion H; reflexivity. Qed.

(* ---- the uncompressed side: an instruction item of a mnemonic that has rules ------------------------------------------ *)
Section Item.
Variables (consts : envt) (l : line) (p : Z) (ls : envt) (cls name : string) (fs : list (string * fval)).
Let i := view_of l p consts ls name fs.
Let v := nview_of i.
Variables (names : list string) (kinds : list EncSig.okind) (keys : list string).
Hypothesis Es : assoc_str cls class_sig = Some (names, kinds).
Hypothesis Ek : class_keys cls = Some keys.
Hypothesis Hn : mem_str name names = true.
Hypothesis Hio : imm_once keys = true.
Hypothesis Hs : shape_okb false keys fs = true.
Variable fs0 : list string.
Hypothesis Hof : orig_fields name = Some fs0.
(* the immediate (if any) is settled: one value at every position, under every label table *)
Variable v0 : Z.
Hypothesis Hset : forall e, field_get "imm" fs = Some (FExpr e) -> forall pos' labels', eval_here l pos' consts labels' e = Done v0.

Lemma keys_fs0 : keys = fs0.
Proof. destruct (name_ok32_spec _ _ _ _ _ _ Es Hn Ek Hof) as (_ & _ & _ & K & _). exact K. Qed.

Lemma reg_of_none k : field_get k fs = None -> reg_of i k = 0.
Proof. intro H. unfold reg_of, i, view_of. cbn [iv_attr]. rewrite H. reflexivity. Qed.
Lemma reg_of_reg k a : field_get k fs = Some (FReg a) -> reg_of i k = match lookup_register a false with Ok n => n | Err _ => 0 end.
Proof. intro H. unfold reg_of, i, view_of. cbn [iv_attr]. rewrite H. reflexivity. Qed.

Lemma view_wf : wf_view v.
Proof.
  destruct (name_ok32_spec _ _ _ _ _ _ Es Hn Ek Hof) as (_ & _ & _ & K & _ & _ & _ & _). subst fs0.
  unfold wf_view. change (nv_name v) with name. rewrite Hof.
  assert (R : forall k, plain_key k = true -> mem_str k keys = false -> reg_of i k = 0).
  { intros k P M. apply reg_of_none. eapply shape_get_none; eauto. }
  repeat split; intro M.
  - apply (R "rd"); auto.
  - apply (R "rs1"); auto.
  - apply (R "rs2"); auto.
  - unfold v, nview_of, i, view_of. cbn [nv_imm iv_imm].
    rewrite (shape_get_none false fs keys "imm" Hs M eq_refl). reflexivity.
Qed.

Lemma imm_value e : field_get "imm" fs = Some (FExpr e) -> nv_imm v = v0.
Proof.
  intro H. unfold v, nview_of, i, view_of. cbn [nv_imm iv_imm]. rewrite H.
  pose proof (Hset e H p ls) as E. unfold eval_here in E. apply of_pres_done in E. rewrite E. reflexivity.
Qed.

Lemma uside_rel pU labU fsU : resolved l pU consts labU fs fsU ->
  arel (fmask fs0) (map (argk fsU) fs0) (map (fval_num v) fs0).
Proof.
  intro Hr. destruct (name_ok32_spec _ _ _ _ _ _ Es Hn Ek Hof) as (_ & _ & _ & K & _ & Hnd & Hpl & Hrf). subst fs0.
  assert (G : forall sub, (forall f, In f sub -> In f keys) -> arel (fmask sub) (map (argk fsU) sub) (map (fval_num v) sub)).
  { induction sub as [|f sub IH]; intro Hin. exact I.
    cbn [fmask map arel]. split; [|apply IH; intros; apply Hin; right; assumption].
    assert (Hf : In f keys) by (apply Hin; left; reflexivity).
    rewrite forallb_forall in Hpl, Hrf. pose proof (Hpl _ Hf) as Pf. pose proof (Hrf _ Hf) as Rf.
    unfold plain_key in Pf. apply andb_prop in Pf. destruct Pf as [PF PG]. apply negb_true_iff in PF, PG.
    destruct (String.eqb f "imm") eqn:Ei; cbn [negb prel].
    - apply String.eqb_eq in Ei. subst f.
      destruct (shape_get_imm _ _ Hs Hf) as (e & He & _). fold (field_get "imm" fs) in He.
      unfold resolved in Hr. rewrite He in Hr. destruct Hr as (z & Hz & ->).
      unfold argk. rewrite field_get_set_imm, He. cbn [String.eqb Ascii.eqb Bool.eqb]. cbn [argv arg_of_fval].
      unfold fval_num. cbn [String.eqb Ascii.eqb Bool.eqb]. rewrite (imm_value e He).
      cbn [imm_of] in Hz. rewrite (Hset e He) in Hz. inversion Hz. reflexivity.
    - simpl in Rf. destruct (shape_get_reg _ _ _ Hs Hf PF PG Ei) as [a Ha]. fold (field_get f fs) in Ha.
      assert (Ea : argk fsU f = a).
      { unfold argk. unfold resolved in Hr. destruct (field_get "imm" fs) as [val|].
        - destruct Hr as (z & _ & ->). rewrite field_get_set_imm, Ei, Ha. reflexivity.
        - subst fsU. rewrite Ha. reflexivity. }
      rewrite Ea. unfold fval_num. rewrite Ei. unfold v. rewrite (nreg_of i f Rf), (reg_of_reg f a Ha).
      intros n Hrn. apply lookup_register_spec in Hrn. rewrite Hrn. reflexivity. }
  apply G. auto.
Qed.

Lemma shape_resolved pU labU fsU : resolved l pU consts labU fs fsU -> exists post, shape_okb post keys fsU = true.
Proof.
  unfold resolved. destruct (field_get "imm" fs) as [val|] eqn:E.
  - intros (z & _ & ->). exists true. apply shape_post_set; auto.
  - intros ->. exists false. exact Hs.
Qed.

Lemma uside pU labU fsU bsU :
  resolved l pU consts labU fs fsU -> encode_item l cls name fsU false = Done bsU ->
  exists w ops ins, bsU = le_bytes 4 w /\ 0 <= w < 2^32 /\
    operands32 name (pos32_of v fs0) [] = Some ops /\ denote32 name ops = Some ins /\ decode32 w = Some ins.
Proof.
  intros Hr He. pose proof (uside_rel _ _ _ Hr) as R. destruct (shape_resolved _ _ _ Hr) as [post Sh].
  destruct (name_ok32_spec _ _ _ _ _ _ Es Hn Ek Hof) as (Hat & _ & Hb & K & (ks & Hk & Hm) & Hnd & Hpl & _). subst fs0.
  unfold encode_item in He. rewrite Hat in He.
  destruct (encode name (args_of fsU) []) as [w|e] eqn:Ew; [|destruct e; try discriminate; destruct conv_instr_ve; discriminate].
  inversion He; subst bsU. clear He.
  destruct (decode_encode _ _ _ _ Hb Ew) as (Hw & ops & ins & Ho & Hd & Hdec).
  exists w, ops, ins. split; [reflexivity|]. split; [exact Hw|]. split; [|split; [exact Hd|exact Hdec]].
  unfold operands32 in *. rewrite Hk in *.
  rewrite (args_of_keys post fsU keys Sh Hnd Hpl) in Ho. rewrite <- Hm in R.
  pose proof (read_ops_resp ks _ _ _ R Ho) as Q. unfold pos32_of. rewrite map_map in Q. exact Q.
Qed.
End Item.

(* ---- the compressed side ----------------------------------------------------------------------------------------------------- *)
Lemma build_compressed_inv keys r fs y :
  build_okb keys r = true -> build_compressed r fs = Some y ->
  exists final cls' cfs names' kinds' fnames nfs,
    assoc_str r construction = Some (final, cls', cfs) /\ assoc_str cls' class_sig = Some (names', kinds') /\
    assoc_str cls' class_fields = Some ("name" :: fnames) /\ mem_str final names' = true /\
    imm_once (filter notflag fnames) = true /\ cshape_okb keys fnames cfs = true /\
    zip_fields fnames (map (build_field fs) cfs) = Some nfs /\ y = IInstr cls' final nfs true.
Proof.
  intros B H. unfold build_compressed in H. unfold build_okb in B.
  destruct (assoc_str r construction) as [[[final cls'] cfs]|]; try discriminate.
  destruct (assoc_str cls' class_sig) as [[names' kinds']|] eqn:Es; try discriminate.
  destruct (assoc_str cls' class_fields) as [[|n0 fnames]|] eqn:Ef; try discriminate.
  assert (n0 = "name"%string) as ->.
  { destruct n0 as [|c0 n0]; try discriminate. revert B.
    repeat (match goal with |- context[match ?x with _ => _ end] => destruct x; try discriminate end). reflexivity. }
  destruct (zip_fields fnames (map (build_field fs) cfs)) as [nfs|] eqn:Ez; try discriminate. inversion H; subst. clear H.
  apply andb_prop in B. destruct B as [B C]. apply andb_prop in B. destruct B as [Bn Bi].
  exists final, cls', cfs, names', kinds', fnames, nfs. repeat split; auto.
Qed.

Lemma zip_fields_get : forall fnames ovs nfs, zip_fields fnames ovs = Some nfs -> nodupb fnames = true ->
  forall fn ov, In (fn, ov) (combine fnames ovs) -> exists val, ov = Some val /\ field_get fn nfs = Some val.
Proof.
  induction fnames as [|a fnames IH]; intros [|[val|] ovs] nfs H Hn fn ov Hin; simpl in H, Hin; try discriminate; try contradiction.
  destruct (zip_fields fnames ovs) as [rest|] eqn:Ez; try discriminate. inversion H; subst. clear H.
  cbn [nodupb] in Hn. apply andb_prop in Hn. destruct Hn as [N1 N2]. apply negb_true_iff in N1.
  destruct Hin as [Hin|Hin].
  - inversion Hin; subst. exists val. split; auto. unfold field_get. cbn [assoc_str]. rewrite String.eqb_refl. reflexivity.
  - destruct (IH _ _ Ez N2 _ _ Hin) as (val' & -> & G). exists val'. split; auto.
    unfold field_get in *. cbn [assoc_str]. rewrite (mem_str_false_neq fn a fnames N1 (in_combine_l _ _ _ _ Hin)). exact G.
Qed.
Lemma in_combine_map {A B C} (f : B -> C) (a : list A) : forall (b : list B) x y,
  In (x, y) (combine a b) -> In (x, f y) (combine a (map f b)).
Proof.
  induction a as [|a0 a IH]; intros [|b0 b] x y H; simpl in *; try contradiction.
  destruct H as [H|H]. inversion H; subst. left; reflexivity. right; auto.
Qed.

Section ItemC.
Variables (consts : envt) (l : line) (p : Z) (ls : envt) (cls name : string) (fs : list (string * fval)).
Let i := view_of l p consts ls name fs.
Let v := nview_of i.
Variables (names : list string) (kinds : list EncSig.okind) (keys : list string).
Hypothesis Es : assoc_str cls class_sig = Some (names, kinds).
Hypothesis Ek : class_keys cls = Some keys.
Hypothesis Hn : mem_str name names = true.
Hypothesis Hs : shape_okb false keys fs = true.
Variable fs0 : list string.
Hypothesis Hof : orig_fields name = Some fs0.
Variable v0 : Z.
Hypothesis Hset : forall e, field_get "imm" fs = Some (FExpr e) -> forall pos' labels', eval_here l pos' consts labels' e = Done v0.
Variables (fnames : list string) (cfs : list cfield) (nfs : list (string * fval)).
Hypothesis Hz : zip_fields fnames (map (build_field fs) cfs) = Some nfs.
Hypothesis Hcs : cshape_okb keys fnames cfs = true.
Hypothesis Hnd : nodupb fnames = true.

Lemma regkey_spec a : regkey keys a = true ->
  In a keys /\ String.eqb a "imm" = false /\ is_flag_key a = false /\ is_ghost_key a = false /\ is_regfield a = true.
Proof.
  unfold regkey. intro H. apply andb_prop in H. destruct H as [H G]. apply andb_prop in H. destruct H as [H F].
  apply andb_prop in H. destruct H as [M E]. apply negb_true_iff in G, F, E.
  pose proof (NoRaw.mem_str_in _ _ M) as Hin. repeat split; auto.
  destruct (name_ok32_spec _ _ _ _ _ _ Es Hn Ek Hof) as (_ & _ & _ & K & _ & _ & _ & Hrf). subst fs0.
  rewrite forallb_forall in Hrf. specialize (Hrf _ Hin). rewrite E in Hrf. exact Hrf.
Qed.

Lemma cside_rel pC labC nfsC : resolved l pC consts labC nfs nfsC ->
  arel (fmask (filter notflag fnames)) (map (argk nfsC) (filter notflag fnames)) (somes (map (cfield_num v) cfs)).
Proof.
  intro Hr.
  assert (G : forall subF subC, cshape_okb keys subF subC = true ->
              (forall fn cf, In (fn, cf) (combine subF subC) -> In (fn, cf) (combine fnames cfs)) ->
              arel (fmask (filter notflag subF)) (map (argk nfsC) (filter notflag subF)) (somes (map (cfield_num v) subC))).
  { induction subF as [|fn subF IH]; intros [|cf subC] C Hin; simpl in C; try discriminate. exact I.
    apply andb_prop in C. destruct C as [C1 C2].
    assert (IH' := IH subC C2 (fun fn' cf' H => Hin fn' cf' (or_intror H))).
    destruct (zip_fields_get _ _ _ Hz Hnd fn (build_field fs cf) (in_combine_map (build_field fs) _ _ _ _ (Hin fn cf (or_introl eq_refl))))
      as (val & Hb & Hg).
    cbn [filter]. replace (notflag fn) with (negb (is_flag_key fn)) by reflexivity.
    unfold somes. cbn [map flat_map]. fold (somes (map (cfield_num v) subC)).
    destruct (is_flag_key fn) eqn:F; cbn [negb].
    - destruct cf as [a| |]; try discriminate. cbn [cfield_num]. unfold is_flag_key in C1. rewrite C1. cbn [app]. exact IH'.
    - destruct (is_ghost_key fn) eqn:Gk; [discriminate|]. cbn [fmask map].
      destruct (String.eqb fn "imm") eqn:Ei; cbn [negb].
      + apply String.eqb_eq in Ei. subst fn.
        destruct cf as [a|a|a]; try discriminate.
        * apply andb_prop in C1. destruct C1 as [Ea M]. apply String.eqb_eq in Ea. subst a.
          destruct (shape_get_imm _ _ Hs (NoRaw.mem_str_in _ _ M)) as (e & He & _). fold (field_get "imm" fs) in He.
          cbn [build_field] in Hb. rewrite He in Hb. inversion Hb; subst val.
          unfold resolved in Hr. rewrite Hg in Hr. destruct Hr as (z & Hzz & ->).
          cbn [cfield_num]. cbn [String.eqb Ascii.eqb Bool.eqb]. cbn [app arel]. split; [|exact IH'].
          cbn [prel]. unfold argk. rewrite field_get_set_imm, Hg. cbn [String.eqb Ascii.eqb Bool.eqb argv arg_of_fval].
          unfold fval_num. cbn [String.eqb Ascii.eqb Bool.eqb].
          unfold v, i. rewrite (imm_value consts l p ls name fs v0 Hset e He).
          cbn [imm_of] in Hzz. rewrite (Hset e He) in Hzz. inversion Hzz. reflexivity.
        * destruct (regkey_spec a C1) as (Hin' & Eai & Fa & Ga & Ra).
          destruct (shape_get_reg _ _ _ Hs Hin' Fa Ga Eai) as [r Hra]. fold (field_get a fs) in Hra.
          cbn [build_field] in Hb. rewrite Hra in Hb.
          destruct (lookup_register r false) as [n|] eqn:El; try discriminate. inversion Hb; subst val.
          unfold resolved in Hr. rewrite Hg in Hr. destruct Hr as (z & Hzz & ->).
          cbn [cfield_num app arel]. split; [|exact IH'].
          cbn [prel]. unfold argk. rewrite field_get_set_imm, Hg. cbn [String.eqb Ascii.eqb Bool.eqb argv arg_of_fval].
          unfold v. rewrite (nreg_of i a Ra). unfold i. rewrite (reg_of_reg consts l p ls name fs a r Hra), El.
          cbn [imm_of eval_here eeval aeval of_pres] in Hzz. inversion Hzz. reflexivity.
      + destruct cf as [a| |]; try discriminate.
        destruct (regkey_spec a C1) as (Hin' & Eai & Fa & Ga & Ra).
        destruct (shape_get_reg _ _ _ Hs Hin' Fa Ga Eai) as [r Hra]. fold (field_get a fs) in Hra.
        cbn [build_field] in Hb. rewrite Hra in Hb. inversion Hb; subst val.
        assert (Ea : argk nfsC fn = r).
        { unfold argk. unfold resolved in Hr. destruct (field_get "imm" nfs) as [val|].
          - destruct Hr as (z & _ & ->). rewrite field_get_set_imm, Ei, Hg. reflexivity.
          - subst nfsC. rewrite Hg. reflexivity. }
        cbn [cfield_num]. unfold is_flag_key in Fa. rewrite Fa. cbn [app arel]. split; [|exact IH'].
        cbn [prel]. rewrite Ea. unfold fval_num. rewrite Eai. unfold v.
        rewrite (nreg_of i a Ra). unfold i. rewrite (reg_of_reg consts l p ls name fs a r Hra).
        intros n Hrn. apply lookup_register_spec in Hrn. rewrite Hrn. reflexivity. }
  apply G; auto.
Qed.
End ItemC.

Lemma row_ok16_spec r final cls' cfs fnames :
  assoc_str r construction = Some (final, cls', cfs) -> assoc_str cls' class_fields = Some ("name" :: fnames) ->
  is_atomic_cls cls' = false /\ String.prefix "C" cls' = true /\ In final c_mnemonics /\ orig_fields final = None /\
  nodupb fnames = true /\ forallb plain_key (filter notflag fnames) = true /\
  exists ks, sassoc final kinds16 = Some ks /\ map is_creg ks = fmask (filter notflag fnames).
Proof.
  intros Hr Ef. pose proof construction_ok16 as T. rewrite forallb_forall in T.
  specialize (T _ (assoc_in _ _ _ Hr)). unfold row_ok16 in T. rewrite Ef in T.
  destruct (sassoc final kinds16) as [ks|]; try (rewrite !andb_false_r in T; discriminate T).
  apply andb_prop in T. destruct T as [X Y].
  apply andb_prop in X. destruct X as [X X4]. apply andb_prop in X. destruct X as [X X3].
  apply andb_prop in X. destruct X as [X1 X2].
  apply andb_prop in Y. destruct Y as [Y Y3]. apply andb_prop in Y. destruct Y as [Y1 Y2].
  apply negb_true_iff in X1. apply lbeqb_eq in Y3.
  destruct (orig_fields final); try discriminate.
  repeat split; auto. apply NoRaw.mem_str_in; auto. eauto.
Qed.

Lemma cside consts l p ls cls name fs names kinds keys fs0 v0 r final cls' cfs names' kinds' fnames nfs pC labC nfsC bsC :
  assoc_str cls class_sig = Some (names, kinds) -> class_keys cls = Some keys -> mem_str name names = true ->
  shape_okb false keys fs = true -> orig_fields name = Some fs0 ->
  (forall e, field_get "imm" fs = Some (FExpr e) -> forall pos' labels', eval_here l pos' consts labels' e = Done v0) ->
  assoc_str r construction = Some (final, cls', cfs) -> assoc_str cls' class_sig = Some (names', kinds') ->
  assoc_str cls' class_fields = Some ("name" :: fnames) ->
  imm_once (filter notflag fnames) = true -> cshape_okb keys fnames cfs = true ->
  zip_fields fnames (map (build_field fs) cfs) = Some nfs ->
  resolved l pC consts labC nfs nfsC -> encode_item l cls' final nfsC true = Done bsC ->
  exists h ops ci, bsC = le_bytes 2 h /\ 0 <= h < 2^16 /\
    operands16 final (pos16_of (nview_of (view_of l p consts ls name fs)) cfs) = Some ops /\
    denote16 final ops = Some ci /\ decode16 h = Some ci.
Proof.
  intros Es Ek Hn Hs Hof Hset Hr Es' Ef Hio Hcs Hz Hres He.
  destruct (row_ok16_spec _ _ _ _ _ Hr Ef) as (Hat & _ & Hc & _ & Hnd & Hpl & ks & Hk & Hm).
  pose proof (cside_rel consts l p ls cls name fs names kinds keys Es Ek Hn Hs fs0 Hof v0 Hset fnames cfs nfs Hz Hcs Hnd
                        pC labC nfsC Hres) as R.
  pose proof (build_field_shape fs keys Hs fnames cfs nfs Hcs Hz) as Sh.
  assert (ShC : exists post, shape_okb post (filter notflag fnames) nfsC = true).
  { unfold resolved in Hres. destruct (field_get "imm" nfs) as [val|].
    - destruct Hres as (z & _ & ->). exists true. apply shape_post_set; auto.
    - subst nfsC. exists false. exact Sh. }
  destruct ShC as [post ShC].
  unfold encode_item in He. rewrite Hat in He.
  destruct (encode final (args_of nfsC) []) as [h|e] eqn:Eh; [|destruct e; try discriminate; destruct conv_instr_ve; discriminate].
  inversion He; subst bsC. clear He.
  destruct (forward _ _ _ _ Hc Eh) as (Hh & ops & ci & Ho & _ & Hd & Hdec).
  exists h, ops, ci. split; [reflexivity|]. split; [exact Hh|]. split; [|split; [exact Hd|exact Hdec]].
  unfold operands16 in *. rewrite Hk in *.
  rewrite (args_of_keys post nfsC _ ShC) in Ho.
  - rewrite <- Hm in R. exact (read_cops_resp ks _ _ _ R Ho).
  - clear - Hnd. induction fnames as [|a f IH]; [reflexivity|]. cbn [nodupb] in Hnd. apply andb_prop in Hnd. destruct Hnd as [N1 N2].
    cbn [filter]. destruct (notflag a); [|auto]. cbn [nodupb]. rewrite (IH N2), andb_true_r.
    apply negb_true_iff in N1. apply negb_true_iff. unfold mem_str in *. clear - N1.
    induction f as [|b f IHf]; [reflexivity|]. cbn [existsb] in N1. apply orb_false_iff in N1. destruct N1 as [A B].
    cbn [filter]. destruct (notflag b); auto. cbn [existsb]. rewrite A. auto.
  - exact Hpl.
Qed.

(* a successful compress_rule either keeps the item or built the compressed item of a selected rule *)
Lemma compress_rule_inv consts l cls name fs c p ls rs :
  compress_rule consts l (IInstr cls name fs c) p ls = Done rs ->
  rs = [IInstr cls name fs c] \/
  exists r y, imm_unstable l p consts cls fs = Done false /\
              select_rule criteria (view_of l p consts ls name fs) = Ok (Some r) /\ build_compressed r fs = Some y /\ rs = [y].
Proof.
  intro Hr. cbv beta iota delta [compress_rule] in Hr.
  destruct (imm_unstable l p consts cls fs) as [u| |]; cbv beta iota delta [obind] in Hr; try discriminate.
  destruct u. { inversion Hr. left; reflexivity. }
  destruct (select_rule criteria _) as [[rule|]|e] eqn:Esel; try discriminate.
  - destruct (build_compressed rule fs) as [it'|] eqn:Eb; try discriminate. inversion Hr. right. eauto 8.
  - inversion Hr. left; reflexivity.
Qed.

(* THE ITEM THEOREM.  A well-formed 32-bit instruction item whose immediate is not position-relative, on which the
   compression pass selected a rule: whatever positions / label tables the two pipelines resolve the immediates with, if both
   encoders accept, the uncompressed run emits the 4 bytes of a word w and the compressed run the 2 bytes of a halfword h such
   that decode16 h expands to an instruction of the same meaning as decode32 w. *)
Theorem pair_sound consts l p ls cls name fs c r yC pU labU fsU bsU :
  instr_okb false cls name fs = true -> c = String.prefix "C" cls ->
  (forall e, field_get "imm" fs = Some (FExpr e) -> is_position_relative e = false) ->
  imm_unstable l p consts cls fs = Done false ->
  select_rule criteria (view_of l p consts ls name fs) = Ok (Some r) ->
  build_compressed r fs = Some yC ->
  resolved l pU consts labU fs fsU -> encode_item l cls name fsU c = Done bsU ->
  exists cls' final nfs, yC = IInstr cls' final nfs true /\ c = false /\ String.prefix "C" cls' = true /\
    forall pC labC nfsC bsC, resolved l pC consts labC nfs nfsC -> encode_item l cls' final nfsC true = Done bsC ->
    exists w h ci ins, bsU = le_bytes 4 w /\ bsC = le_bytes 2 h /\ 0 <= w < 2^32 /\ 0 <= h < 2^16 /\
       decode32 w = Some ins /\ decode16 h = Some ci /\ equiv_b (expand_c ci) ins = true.
Proof.
  intros Hok Hcf Hrel Hu Hsel Hb HrU HeU.
  unfold instr_okb in Hok.
  destruct (assoc_str cls class_sig) as [[names kinds]|] eqn:Es; try discriminate.
  destruct (class_keys cls) as [keys|] eqn:Ek; try discriminate.
  apply andb_prop in Hok. destruct Hok as [Hok Hs]. apply andb_prop in Hok. destruct Hok as [Hn Hio].
  destruct (select_rule_va l p consts ls cls name fs names kinds keys Es Ek Hn Hs criteria criteria_ok) as [_ B].
  specialize (B r Hsel).
  assert (Hset : exists v0, forall e, field_get "imm" fs = Some (FExpr e) ->
                  forall pos' labels', eval_here l pos' consts labels' e = Done v0).
  { destruct (field_get "imm" fs) as [[a|e|z|b]|] eqn:Ei; try (exists 0; intros e' He'; discriminate He').
    destruct (compress_decides_on_settled l p consts cls fs e Ei Hu) as [J|[v0 Hv]].
    - destruct J as (_ & r0 & -> & _). specialize (Hrel _ eq_refl). discriminate Hrel.
    - exists v0. intros e' He'. inversion He'; subst e'. exact Hv. }
  destruct Hset as [v0 Hset].
  set (v := nview_of (view_of l p consts ls name fs)).
  assert (Hw : wf_view v).
  { destruct (orig_fields name) as [fs0|] eqn:Hof.
    - exact (view_wf consts l p ls cls name fs names kinds keys Es Ek Hn Hs fs0 Hof).
    - unfold wf_view. change (nv_name v) with name. rewrite Hof. exact I. }
  pose proof (rule_sound_item _ _ Hsel Hw) as Hc. fold v in Hc.
  destruct (rule_check_spec _ _ Hc) as (fs0 & final & cls' & cfs & o32 & o16 & ins & ci & Hof & Hcon & O32 & O16 & _ & D32 & D16 & Heq).
  change (nv_name v) with name in Hof, O32, D32.
  destruct (build_compressed_inv keys r fs yC B Hb) as (final' & cls'' & cfs' & names' & kinds' & fnames & nfs & Hcon' & Es' & Ef & _ & Hio' & Hcs & Hz & ->).
  rewrite Hcon in Hcon'. inversion Hcon'; subst final' cls'' cfs'. clear Hcon'.
  destruct (name_ok32_spec _ _ _ _ _ _ Es Hn Ek Hof) as (_ & Hpc & _).
  destruct (row_ok16_spec _ _ _ _ _ Hcon Ef) as (_ & Hpc' & _).
  rewrite Hpc in Hcf. subst c.
  exists cls', final, nfs. split; [reflexivity|]. split; [reflexivity|]. split; [exact Hpc'|].
  intros pC labC nfsC bsC HrC HeC.
  destruct (uside consts l p ls cls name fs names kinds keys Es Ek Hn Hio Hs fs0 Hof v0 Hset pU labU fsU bsU HrU HeU)
    as (w & opsU & insU & -> & Hw32 & OU & DU & DecU).
  destruct (cside consts l p ls cls name fs names kinds keys fs0 v0 r final cls' cfs names' kinds' fnames nfs pC labC nfsC bsC
                  Es Ek Hn Hs Hof Hset Hcon Es' Ef Hio' Hcs Hz HrC HeC) as (h & opsC & ciC & -> & Hh16 & OC & DC & DecC).
  fold v in OU, OC. rewrite O32 in OU. inversion OU; subst opsU. rewrite D32 in DU. inversion DU; subst insU.
  rewrite O16 in OC. inversion OC; subst opsC. rewrite D16 in DC. inversion DC; subst ciC.
  exists w, h, ci, ins. split; [reflexivity|]. split; [reflexivity|]. split; [exact Hw32|]. split; [exact Hh16|].
  split; [exact DecU|]. split; [exact DecC|exact Heq].
Qed.

(* a compressed item is left alone by the compression pass (no rule is keyed on a compressed mnemonic) *)
Lemma compress_final_id consts l cls' final nfs c p ls rs :
  orig_fields final = None -> compress_rule consts l (IInstr cls' final nfs c) p ls = Done rs -> rs = [IInstr cls' final nfs c].
Proof.
  intros Hof Hr. destruct (compress_rule_inv _ _ _ _ _ _ _ _ _ Hr) as [->|(r & y & _ & Hsel & _ & _)]; [reflexivity|].
  exfalso. set (v := nview_of (view_of l p consts ls final nfs)).
  assert (Hw : wf_view v). { unfold wf_view. change (nv_name v) with final. rewrite Hof. exact I. }
  pose proof (rule_sound_item _ _ Hsel Hw) as Hc. fold v in Hc. unfold rule_check in Hc.
  change (nv_name v) with final in Hc. rewrite Hof in Hc. discriminate Hc.
Qed.

(* alias resolution has nothing left to do on the fields of a compressed item built from resolved fields *)
Definition afixed (consts : envt) (fs : list (string * fval)) : Prop := Forall (fun kv => alias_field consts kv = kv) fs.
Lemma regfield_REGS a : is_regfield a = true -> mem_str a REGS = true.
Proof.
  unfold is_regfield, REGS, mem_str. cbn [existsb]. intro H.
  destruct (String.eqb a "rd"); [reflexivity|]. destruct (String.eqb a "rs1"); [reflexivity|].
  destruct (String.eqb a "rs2"); [reflexivity|]. discriminate H.
Qed.
Lemma built_afixed consts cls name fs names kinds keys fs0 :
  assoc_str cls class_sig = Some (names, kinds) -> class_keys cls = Some keys -> mem_str name names = true ->
  shape_okb false keys fs = true -> orig_fields name = Some fs0 -> afixed consts fs ->
  forall fnames cfs nfs, cshape_okb keys fnames cfs = true -> zip_fields fnames (map (build_field fs) cfs) = Some nfs ->
  afixed consts nfs.
Proof.
  intros Es Ek Hn Hs Hof Hfix. unfold afixed in *.
  induction fnames as [|fn fnames IH]; intros [|cf cfs] nfs C Z; simpl in C, Z; try discriminate.
  - inversion Z. constructor.
  - apply andb_prop in C. destruct C as [C1 C2].
    destruct (build_field fs cf) as [val|] eqn:Eb; try discriminate.
    destruct (zip_fields fnames (map (build_field fs) cfs)) as [rest|] eqn:Er; try discriminate. inversion Z; subst nfs. clear Z.
    constructor; [|eapply IH; eauto].
    destruct val as [[z|s]| | |]; try reflexivity.
    assert (A : assoc_str s consts = None).
    { destruct (is_flag_key fn) eqn:F.
      - destruct cf as [a| |]; try discriminate. cbn [build_field] in Eb. unfold field_get in Eb.
        destruct (shape_get_flag _ _ _ _ Hs C1 Eb) as [b Hb]. discriminate.
      - destruct (is_ghost_key fn); [discriminate|]. destruct (String.eqb fn "imm").
        + destruct cf as [a|a|a]; try discriminate.
          * apply andb_prop in C1. destruct C1 as [Ea M]. apply String.eqb_eq in Ea. subst a. cbn [build_field] in Eb.
            destruct (shape_get_imm _ _ Hs (NoRaw.mem_str_in _ _ M)) as (e & He & _). fold (field_get "imm" fs) in He.
            rewrite He in Eb. discriminate.
          * cbn [build_field] in Eb. destruct (field_get a fs) as [[r| | |]|]; try discriminate.
            destruct (lookup_register r false); discriminate.
        + destruct cf as [a| |]; try discriminate.
          destruct (regkey_spec _ _ _ _ _ Es Ek Hn _ Hof a C1) as (_ & _ & _ & _ & Ra).
          cbn [build_field] in Eb. rewrite Forall_forall in Hfix. pose proof (Hfix _ (assoc_in _ _ _ Eb)) as Q.
          unfold alias_field in Q. rewrite (regfield_REGS a Ra) in Q.
          destruct (assoc_str s consts); [inversion Q|reflexivity]. }
    unfold alias_field. rewrite A. destruct (mem_str fn REGS); reflexivity.
Qed.

Definition alias1 (consts : envt) (it : item) : item :=
  match it with IInstr cls name fs c => IInstr cls name (map (alias_field consts) fs) c | _ => it end.
Lemma afixed_map consts fs : afixed consts fs -> map (alias_field consts) fs = fs.
Proof. induction 1; simpl; congruence. Qed.

(* what the compression pass returns for a well-formed instruction item whose register aliases are resolved: the item itself,
   or the compressed item of a selected rule -- which alias resolution and a second compression pass leave alone *)
Lemma compress_out_stable consts l cls name fs c p ls y :
  instr_okb false cls name fs = true -> afixed consts fs ->
  compress_rule consts l (IInstr cls name fs c) p ls = Done [y] ->
  y = IInstr cls name fs c \/
  (exists r, imm_unstable l p consts cls fs = Done false /\ select_rule criteria (view_of l p consts ls name fs) = Ok (Some r) /\
             build_compressed r fs = Some y) /\
  alias1 consts y = y /\ forall p' ls' rs, compress_rule consts l y p' ls' = Done rs -> rs = [y].
Proof.
  intros Hok Hfix Hr. destruct (compress_rule_inv _ _ _ _ _ _ _ _ _ Hr) as [E|(r & y' & Hu & Hsel & Hb & E)].
  { inversion E. left; reflexivity. }
  inversion E; subst y'. clear E. right. split; [eauto|].
  unfold instr_okb in Hok.
  destruct (assoc_str cls class_sig) as [[names kinds]|] eqn:Es; try discriminate.
  destruct (class_keys cls) as [keys|] eqn:Ek; try discriminate.
  apply andb_prop in Hok. destruct Hok as [Hok Hs]. apply andb_prop in Hok. destruct Hok as [Hn Hio].
  destruct (select_rule_va l p consts ls cls name fs names kinds keys Es Ek Hn Hs criteria criteria_ok) as [_ B].
  specialize (B r Hsel).
  set (v := nview_of (view_of l p consts ls name fs)).
  assert (Hw : wf_view v).
  { destruct (orig_fields name) as [fs0|] eqn:Hof.
    - exact (view_wf consts l p ls cls name fs names kinds keys Es Ek Hn Hs fs0 Hof).
    - unfold wf_view. change (nv_name v) with name. rewrite Hof. exact I. }
  pose proof (rule_sound_item _ _ Hsel Hw) as Hc. fold v in Hc.
  destruct (rule_check_spec _ _ Hc) as (fs0 & final & cls' & cfs & _ & _ & _ & _ & Hof & Hcon & _).
  change (nv_name v) with name in Hof.
  destruct (build_compressed_inv keys r fs y B Hb) as (final' & cls'' & cfs' & names' & kinds' & fnames & nfs & Hcon' & Es' & Ef & _ & _ & Hcs & Hz & ->).
  rewrite Hcon in Hcon'. inversion Hcon'; subst final' cls'' cfs'. clear Hcon'.
  destruct (row_ok16_spec _ _ _ _ _ Hcon Ef) as (_ & _ & _ & Hnone & _).
  pose proof (built_afixed consts cls name fs names kinds keys fs0 Es Ek Hn Hs Hof Hfix fnames cfs nfs Hcs Hz) as Fx.
  split.
  - cbn [alias1]. rewrite (afixed_map _ _ Fx). reflexivity.
  - intros p' ls' rs Hr'. eapply compress_final_id; eauto.
Qed.
