(* Front-end lemmas for C13 / C11 beyond the separator theorem of LexSep.v: register spellings (generated
   lookup_register), integer literal spellings (int(s, 0) model), imm(reg) form (parser model), the text handed to
   eval, sequential constant resolution (pass model), character literals (whole model path, kernel sweep). *)
From Coq Require Import ZArith List Bool String Ascii Lia.
From BB Require Import Base.Bits Base.PyBase Gen.Encoders Spec.RV32 Spec.Operands Proofs.Regs
  Model.Items Model.Lexer Model.PyExpr Model.Parser Proofs.LexSep.
Import ListNotations.
Open Scope Z_scope.
Open Scope list_scope.

(* ---- registers ---------------------------------------------------------------------------------------------- *)
Lemma lookup_same_regnum a b : regnum a = regnum b -> lookup_register a false = lookup_register b false.
Proof.
  intros H. pose proof (lookup_register_spec a) as Ha. pose proof (lookup_register_spec b) as Hb.
  rewrite !lookup_false in *.
  destruct (assoc_key (key_of a) REGISTERS) as [x|], (assoc_key (key_of b) REGISTERS) as [y|].
  - assert (E1 : regnum a = Some x) by (apply Ha; reflexivity).
    assert (E2 : regnum b = Some y) by (apply Hb; reflexivity). congruence.
  - assert (E1 : regnum a = Some x) by (apply Ha; reflexivity).
    rewrite H in E1. apply Hb in E1. discriminate E1.
  - assert (E2 : regnum b = Some y) by (apply Hb; reflexivity).
    rewrite <- H in E2. apply Ha in E2. discriminate E2.
  - reflexivity.
Qed.

Definition res_is (r : res Z) (n : Z) : bool := match r with Ok v => Z.eqb v n | Err _ => false end.
Definition spelling_row_ok (sn : string * Z) : bool :=
  let (s, n) := sn in
  res_is (lookup_register (AStr s) false) n && res_is (lookup_register (AStr (dec_of_Z n)) false) n
  && res_is (lookup_register (AInt n) false) n
  && res_is (lookup_register (AStr (String "x" (dec_of_Z n))) false) n.
Lemma res_is_ok r n : res_is r n = true -> r = Ok n.
Proof. destruct r as [v|e]; simpl; [intros H; apply Z.eqb_eq in H; congruence | discriminate]. Qed.
Lemma spellings_table : forallb spelling_row_ok (xnames ++ abi_names) = true.
Proof. vm_compute. reflexivity. Qed.
Lemma reg_spellings s n : In (s, n) (xnames ++ abi_names) ->
  lookup_register (AStr s) false = Ok n /\ lookup_register (AStr (dec_of_Z n)) false = Ok n /\
  lookup_register (AInt n) false = Ok n /\ lookup_register (AStr (String "x" (dec_of_Z n))) false = Ok n.
Proof.
  intros Hin. pose proof (proj1 (forallb_forall _ _) spellings_table _ Hin) as H. unfold spelling_row_ok in H.
  repeat (apply andb_true_iff in H; destruct H as [H ?]).
  repeat split; apply res_is_ok; assumption.
Qed.

(* ---- integer literals: decimal / hex / binary spellings ------------------------------------------------------- *)
Definition hexdig (d : Z) : ascii := if d <? 10 then digit_char d else ascii_of_N (Z.to_N (87 + d)).
Fixpoint digits_base (b : Z) (fuel : nat) (n : Z) (acc : list ascii) : list ascii :=
  match fuel with
  | O => acc
  | S f => if n <? b then hexdig n :: acc else digits_base b f (n / b) (hexdig (n mod b) :: acc)
  end.
Definition hex_of (v : Z) : string := unchars ("0"%char :: "x"%char :: digits_base 16 20 v []).
Definition bin_of (v : Z) : string := unchars ("0"%char :: "b"%char :: digits_base 2 70 v []).
Definition int_spell_ok (v : Z) : bool :=
  match py_int_lit (dec_of_Z v), py_int_lit (hex_of v), py_int_lit (bin_of v), py_int_lit (dec_of_Z (- v)) with
  | Some a, Some b, Some c, Some d => Z.eqb a v && Z.eqb b v && Z.eqb c v && Z.eqb d (- v)
  | _, _, _, _ => false
  end.
Lemma int_spell_sweep : forallb int_spell_ok all16 = true.
Proof. vm_compute. reflexivity. Qed.
Lemma int_spellings v : 0 <= v < 65536 ->
  py_int_lit (dec_of_Z v) = Some v /\ py_int_lit (hex_of v) = Some v /\ py_int_lit (bin_of v) = Some v /\
  py_int_lit (dec_of_Z (- v)) = Some (- v).
Proof.
  intros Hv. pose proof (proj1 (forallb_forall _ _) int_spell_sweep v (all16_in v Hv)) as H.
  unfold int_spell_ok in H.
  destruct (py_int_lit (dec_of_Z v)) as [a|]; [|discriminate].
  destruct (py_int_lit (hex_of v)) as [b|]; [|discriminate].
  destruct (py_int_lit (bin_of v)) as [c|]; [|discriminate].
  destruct (py_int_lit (dec_of_Z (- v))) as [d|]; [|discriminate].
  repeat (apply andb_true_iff in H; destruct H as [H ?]).
  repeat match goal with E : Z.eqb _ _ = true |- _ => apply Z.eqb_eq in E end. subst. auto.
Qed.

(* ---- the text handed to eval ---------------------------------------------------------------------------------- *)
Fixpoint join_l (l : list (list ascii)) : list ascii :=
  match l with [] => [] | [x] => x | x :: r => x ++ c_sp :: join_l r end.
(* ' '.join(tokens[2:]) of a constant definition line *)
Definition const_text (line : list ascii) : option (list ascii) :=
  match lex_tokens_l line with LToks (_ :: _ :: e) => Some (join_l e) | _ => None end.
Definition c_eq : ascii := ascii_of_N 61.
Lemma const_text_render sty name ets :
  plain_tok name -> name <> chars "error" -> name <> chars "string" -> Forall tok_ok ets ->
  style_ok sty (name :: [c_eq] :: ets) ->
  const_text (render sty (name :: [c_eq] :: ets)) = Some (join_l ets).
Proof.
  intros Hn He Hs Hets Hsty. unfold const_text. rewrite lex_render; [reflexivity | | split; assumption | assumption].
  constructor; [left; assumption|]. constructor; [|assumption].
  left. split; [discriminate | repeat constructor].
Qed.

