From Coq Require Import ZArith List Bool Lia ZifyBool String.
From BB Require Import Base.Bits Base.PyBase Gen.Encoders Spec.RV32 Spec.Operands Spec.Legal Model.Encode
  Proofs.EncTac Proofs.Enc32 Proofs.Regs Proofs.C01Tac Proofs.C06Tac.
Import ListNotations.
Open Scope Z_scope.
Lemma acc_lr_w : acc_ok "lr.w". Proof. acc "lr.w"%string nf_a. Qed.
Lemma acc_sc_w : acc_ok "sc.w". Proof. acc "sc.w"%string nf_a. Qed.
Lemma acc_amoswap_w : acc_ok "amoswap.w". Proof. acc "amoswap.w"%string nf_a. Qed.
Lemma acc_amoadd_w : acc_ok "amoadd.w". Proof. acc "amoadd.w"%string nf_a. Qed.
Lemma acc_amoxor_w : acc_ok "amoxor.w". Proof. acc "amoxor.w"%string nf_a. Qed.
Lemma acc_amoand_w : acc_ok "amoand.w". Proof. acc "amoand.w"%string nf_a. Qed.
Lemma acc_amoor_w : acc_ok "amoor.w". Proof. acc "amoor.w"%string nf_a. Qed.
Lemma acc_amomin_w : acc_ok "amomin.w". Proof. acc "amomin.w"%string nf_a. Qed.
Lemma acc_amomax_w : acc_ok "amomax.w". Proof. acc "amomax.w"%string nf_a. Qed.
Lemma acc_amominu_w : acc_ok "amominu.w". Proof. acc "amominu.w"%string nf_a. Qed.
Lemma acc_amomaxu_w : acc_ok "amomaxu.w". Proof. acc "amomaxu.w"%string nf_a. Qed.
