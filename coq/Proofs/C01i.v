From Coq Require Import ZArith List Bool Lia ZifyBool String.
From BB Require Import Base.Bits Base.PyBase Gen.Encoders Spec.RV32 Spec.Operands Model.Encode
  Proofs.EncTac Proofs.Enc32 Proofs.Dec32 Proofs.Regs Proofs.C01Tac.
Import ListNotations.
Open Scope Z_scope.
Lemma row_lb : row_ok "lb". Proof. row_i "lb"%string. Qed.
Lemma row_lh : row_ok "lh". Proof. row_i "lh"%string. Qed.
Lemma row_lw : row_ok "lw". Proof. row_i "lw"%string. Qed.
Lemma row_lbu : row_ok "lbu". Proof. row_i "lbu"%string. Qed.
Lemma row_lhu : row_ok "lhu". Proof. row_i "lhu"%string. Qed.
Lemma row_addi : row_ok "addi". Proof. row_i "addi"%string. Qed.
Lemma row_slti : row_ok "slti". Proof. row_i "slti"%string. Qed.
Lemma row_sltiu : row_ok "sltiu". Proof. row_i "sltiu"%string. Qed.
Lemma row_xori : row_ok "xori". Proof. row_i "xori"%string. Qed.
Lemma row_ori : row_ok "ori". Proof. row_i "ori"%string. Qed.
Lemma row_andi : row_ok "andi". Proof. row_i "andi"%string. Qed.
Lemma row_jalr : row_ok "jalr". Proof. row_ij "jalr"%string. Qed.
