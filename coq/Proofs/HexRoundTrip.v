(* C17, the HEX half: the writer model Model.HexWriter.bin2hex_model (intelhex.bin2hex) round-trips through the
   independent decoder Spec.Hex.hex_decode:

     bin2hex_roundtrip_model :  bytes all 0..255, 0 <= offset, offset + len <= 2^32  ->
                                hex_decode (bin2hex_model bytes offset) = Some (place_l offset bytes)

   Layers: digits (hexval (hexU d) = d) -> byte strings (hex_pairs (hex_bytes l) = l) -> one record line (split off
   by lines_a, parsed back by parse_record: length, checksum, address) -> one decoder step per record kind ->
   induction over the records of write_loop with the invariant "the decoder's base is the 64 KiB block of cur_addr,
   or the next record is a type-04 record that sets it". *)
From Coq Require Import ZArith List Bool String Ascii Lia.
From BB Require Import Spec.Hex Model.HexWriter.
Import ListNotations.
Open Scope Z_scope.

Definition byte (b : Z) : Prop := 0 <= b < 256.

(* ---- digits ------------------------------------------------------------------------------------------ *)
Lemma nibble_cases d : 0 <= d < 16 -> In d [0;1;2;3;4;5;6;7;8;9;10;11;12;13;14;15].
Proof. intros H. cbn [In]. lia. Qed.

Lemma hexval_hexU d : 0 <= d < 16 -> hexval (hexU d) = Some d.
Proof.
  intros H. apply nibble_cases in H. cbn [In] in H.
  repeat (destruct H as [<-|H]; [vm_compute; reflexivity|]). destruct H.
Qed.
Lemma hexU_not_nl d : 0 <= d < 16 -> (zc (hexU d) =? 10) = false /\ (zc (hexU d) =? 13) = false.
Proof.
  intros H. apply nibble_cases in H. cbn [In] in H.
  repeat (destruct H as [<-|H]; [vm_compute; split; reflexivity|]). destruct H.
Qed.

Lemma byte_hi b : byte b -> 0 <= b / 16 < 16.
Proof.
  intros [H0 H1]. split; [apply Z.div_pos; lia | apply Z.div_lt_upper_bound; lia].
Qed.
Lemma byte_lo b : 0 <= b mod 16 < 16.
Proof. apply Z.mod_pos_bound. lia. Qed.
Lemma byte_join b : b / 16 * 16 + b mod 16 = b.
Proof. pose proof (Z.div_mod b 16). lia. Qed.

(* ---- byte strings ------------------------------------------------------------------------------------ *)
Lemma hex_pairs_hex_bytes l : Forall byte l -> hex_pairs (hex_bytes l) = Some l.
Proof.
  induction 1 as [|b l Hb Hl IH]; [reflexivity|].
  cbn [hex_bytes hex_pairs].
  rewrite (hexval_hexU (b / 16) (byte_hi b Hb)), (hexval_hexU (b mod 16) (byte_lo b)), IH, byte_join.
  reflexivity.
Qed.

(* ---- splitting the text into lines ------------------------------------------------------------------- *)
Lemma append_nil_r s : (s ++ "")%string = s.
Proof. induction s as [|c s IH]; cbn; [reflexivity | rewrite IH; reflexivity]. Qed.
Lemma append_assoc (a b c : string) : ((a ++ b) ++ c)%string = (a ++ (b ++ c))%string.
Proof. induction a as [|x a IH]; cbn; [reflexivity | rewrite IH; reflexivity]. Qed.
Lemma sola_app a b : string_of_list_ascii (a ++ b) = (string_of_list_ascii a ++ string_of_list_ascii b)%string.
Proof. induction a as [|x a IH]; cbn; [reflexivity | rewrite IH; reflexivity]. Qed.
Lemma flush_push c cur s :
  (string_of_list_ascii (rev (c :: cur)) ++ s)%string = (string_of_list_ascii (rev cur) ++ String c s)%string.
Proof. cbn [rev]. rewrite sola_app, append_assoc. reflexivity. Qed.

Lemma lines_a_char c r cur :
  (zc c =? 10) = false -> (zc c =? 13) = false -> lines_a (String c r) cur = lines_a r (c :: cur).
Proof. intros H1 H2. cbn [lines_a]. rewrite H1, H2. reflexivity. Qed.
Lemma lines_a_lf rest c cur :
  lines_a (String LF rest) (c :: cur) = string_of_list_ascii (rev (c :: cur)) :: lines_a rest [].
Proof. reflexivity. Qed.

Lemma lines_a_hex_bytes l rest : forall cur, Forall byte l -> cur <> [] ->
  lines_a (hex_bytes l ++ String LF rest) cur = (string_of_list_ascii (rev cur) ++ hex_bytes l)%string :: lines_a rest [].
Proof.
  induction l as [|b l IH]; intros cur Hl Hc.
  - destruct cur as [|c cur]; [contradiction|].
    cbn [hex_bytes append]. rewrite lines_a_lf, append_nil_r. reflexivity.
  - inversion Hl as [|b' l' Hb Hl']; subst.
    cbn [hex_bytes append].
    destruct (hexU_not_nl (b / 16) (byte_hi b Hb)) as [A1 A2].
    destruct (hexU_not_nl (b mod 16) (byte_lo b)) as [B1 B2].
    rewrite (lines_a_char _ _ _ A1 A2), (lines_a_char _ _ _ B1 B2).
    rewrite IH by (assumption || discriminate).
    rewrite !flush_push. reflexivity.
Qed.

(* one line ':' hex(bytes) LF in front of the rest of the text *)
Lemma lines_a_record l rest : Forall byte l ->
  lines_a (String ":" (hex_bytes l ++ String LF rest)) [] = String ":" (hex_bytes l) :: lines_a rest [].
Proof.
  intros Hl. rewrite lines_a_char by reflexivity.
  rewrite lines_a_hex_bytes by (assumption || discriminate). reflexivity.
Qed.

(* ---- one record -------------------------------------------------------------------------------------- *)
Definition line_bytes (ty addr : Z) (data : list Z) : list Z :=
  let body := Z.of_nat (List.length data) :: addr / 256 :: addr mod 256 :: ty :: data in
  body ++ [(- lsum body) mod 256].

Lemma record_line_eq ty addr data :
  record_line ty addr data = String ":" (hex_bytes (line_bytes ty addr data) ++ String LF EmptyString).
Proof. reflexivity. Qed.

Lemma sum_app a b : sum (a ++ b) = sum a + sum b.
Proof. unfold sum. induction a as [|x a IH]; cbn [app fold_right]; [reflexivity | rewrite IH; lia]. Qed.
Lemma sum_single x : sum [x] = x.
Proof. unfold sum. cbn [fold_right]. lia. Qed.
Lemma cksum_zero s : (s + (- s) mod 256) mod 256 = 0.
Proof. rewrite Z.add_mod_idemp_r by lia. replace (s + - s) with 0 by lia. reflexivity. Qed.

Definition rec_ok (ty addr : Z) (data : list Z) : Prop :=
  byte ty /\ 0 <= addr < 65536 /\ Forall byte data /\ Z.of_nat (List.length data) < 256.

Lemma line_bytes_ok ty addr data : rec_ok ty addr data -> Forall byte (line_bytes ty addr data).
Proof.
  intros (Ht & Ha & Hd & Hl). unfold line_bytes. cbn [app].
  repeat apply Forall_cons.
  - unfold byte. lia.
  - unfold byte. split; [apply Z.div_pos; lia | apply Z.div_lt_upper_bound; lia].
  - unfold byte. apply Z.mod_pos_bound. lia.
  - exact Ht.
  - apply Forall_app. split; [exact Hd|]. constructor; [|constructor].
    unfold byte. apply Z.mod_pos_bound. lia.
Qed.

Lemma parse_record_line ty addr data : rec_ok ty addr data ->
  parse_record (String ":" (hex_bytes (line_bytes ty addr data))) =
  Some {| r_type := ty; r_addr := addr; r_data := data |}.
Proof.
  intros Hok. pose proof (line_bytes_ok _ _ _ Hok) as Hb. destruct Hok as (Ht & Ha & Hd & Hl).
  unfold parse_record. rewrite (hex_pairs_hex_bytes _ Hb).
  unfold line_bytes. cbn [app].
  set (ck := (- lsum _) mod 256).
  assert (E1 : (Z.of_nat (List.length (data ++ [ck])) =? Z.of_nat (List.length data) + 1) = true).
  { rewrite app_length. cbn [List.length]. apply Z.eqb_eq. lia. }
  assert (E2 : (sum (Z.of_nat (List.length data) :: addr / 256 :: addr mod 256 :: ty :: data ++ [ck]) mod 256 =? 0) = true).
  { apply Z.eqb_eq.
    change (Z.of_nat (List.length data) :: addr / 256 :: addr mod 256 :: ty :: data ++ [ck])
      with ((Z.of_nat (List.length data) :: addr / 256 :: addr mod 256 :: ty :: data) ++ [ck]).
    rewrite sum_app. subst ck.
    rewrite sum_single. apply cksum_zero. }
  rewrite E1, E2. cbn [andb].
  rewrite removelast_last.
  replace (addr / 256 * 256 + addr mod 256) with addr by (pose proof (Z.div_mod addr 256); lia).
  reflexivity.
Qed.

(* ---- one decoder step per record kind ---------------------------------------------------------------- *)
Lemma decode_data_step a d X base : rec_ok 0 a d ->
  decode_records (lines_a (render_rec (Data a d) ++ X) []) base =
  match decode_records (lines_a X []) base with
  | Some tl => Some (place_l (base + a) d ++ tl)
  | None => None
  end.
Proof.
  intros Hok. cbn [render_rec]. rewrite record_line_eq. cbn [append].
  rewrite append_assoc. cbn [append].
  rewrite lines_a_record by (apply line_bytes_ok; exact Hok).
  cbn [decode_records]. rewrite (parse_record_line _ _ _ Hok). reflexivity.
Qed.

Lemma decode_ela_step h X base : 0 <= h < 65536 ->
  decode_records (lines_a (render_rec (ExtLinear h) ++ X) []) base =
  decode_records (lines_a X []) (h * 65536).
Proof.
  intros Hh.
  assert (Hok : rec_ok 4 0 [h / 256; h mod 256]).
  { unfold rec_ok, byte. repeat split; try lia.
    repeat constructor; try (apply Z.div_pos; lia); try (apply Z.div_lt_upper_bound; lia);
      apply Z.mod_pos_bound; lia. }
  cbn [render_rec]. rewrite record_line_eq. cbn [append].
  rewrite append_assoc. cbn [append].
  rewrite lines_a_record by (apply line_bytes_ok; exact Hok).
  cbn [decode_records]. rewrite (parse_record_line _ _ _ Hok).
  cbn [r_type r_data Z.eqb]. cbv iota.
  replace (h / 256 * 256 + h mod 256) with h by (pose proof (Z.div_mod h 256); lia).
  reflexivity.
Qed.

Lemma decode_eof base : decode_records (lines_a eof_line []) base = Some [].
Proof. reflexivity. Qed.

(* ---- lists ------------------------------------------------------------------------------------------- *)
Lemma place_l_app a x y : place_l a (x ++ y) = place_l a x ++ place_l (a + Z.of_nat (List.length x)) y.
Proof.
  revert a. induction x as [|b x IH]; intros a.
  - cbn. rewrite Z.add_0_r. reflexivity.
  - cbn [app place_l List.length]. rewrite IH. f_equal. f_equal. f_equal. lia.
Qed.
Lemma Forall_firstn_b {A} (P : A -> Prop) n l : Forall P l -> Forall P (firstn n l).
Proof.
  revert l. induction n as [|n IH]; intros l H; [constructor|].
  destruct H; cbn [firstn]; constructor; auto.
Qed.
Lemma Forall_skipn_b {A} (P : A -> Prop) n l : Forall P l -> Forall P (skipn n l).
Proof.
  revert l. induction n as [|n IH]; intros l H; [exact H|].
  destruct H; cbn [skipn]; [constructor | auto].
Qed.

(* ---- the loop ---------------------------------------------------------------------------------------- *)
Definition chain (cur maxa : Z) : Z := Z.min 15 (Z.min (65535 - cur mod 65536) (maxa - cur)) + 1.

Lemma write_loop_emit f high cur maxa b l :
  write_loop (S f) true true high cur maxa (b :: l) =
  ExtLinear (cur / 65536) :: Data (cur mod 65536) (firstn (Z.to_nat (chain cur maxa)) (b :: l)) ::
  write_loop f true (cur / 65536 <? (cur + chain cur maxa) / 65536) (cur / 65536) (cur + chain cur maxa) maxa
             (skipn (Z.to_nat (chain cur maxa)) (b :: l)).
Proof. reflexivity. Qed.
Lemma write_loop_quiet f need outer high cur maxa b l : outer && need = false ->
  write_loop (S f) need outer high cur maxa (b :: l) =
  Data (cur mod 65536) (firstn (Z.to_nat (chain cur maxa)) (b :: l)) ::
  write_loop f need (high <? (cur + chain cur maxa) / 65536) high (cur + chain cur maxa) maxa
             (skipn (Z.to_nat (chain cur maxa)) (b :: l)).
Proof. intros H. cbn [write_loop]. rewrite H. reflexivity. Qed.

Definition len (l : list Z) : Z := Z.of_nat (List.length l).

Lemma write_loop_decode : forall fuel need outer high cur maxa l base,
  (List.length l <= fuel)%nat -> Forall byte l -> 0 <= cur -> maxa = cur + len l - 1 -> maxa < 2^32 ->
  (need = false -> maxa <= 65535) ->
  (l = [] \/ outer && need = true \/ (cur / 65536 = high /\ base = high * 65536)) ->
  decode_records (lines_a (cat_lines (map render_rec (write_loop fuel need outer high cur maxa l)) eof_line) []) base
  = Some (place_l cur l).
Proof.
  induction fuel as [|f IH]; intros need outer high cur maxa l base Hlen Hb Hcur Hmax Hlim Hneed Hinv.
  - destruct l; [|cbn in Hlen; lia]. reflexivity.
  - destruct l as [|b0 l0]; [reflexivity|].
    destruct Hinv as [Hnil | Hinv]; [discriminate|].
    set (l := b0 :: l0) in *.
    assert (Hl1 : 1 <= len l) by (unfold len, l; cbn [List.length]; lia).
    (* the 64 KiB block and the position in it *)
    pose proof (Z.div_mod cur 65536 ltac:(lia)) as Hdm.
    pose proof (Z.mod_pos_bound cur 65536 ltac:(lia)) as Hlow.
    assert (Hq0 : 0 <= cur / 65536) by (apply Z.div_pos; lia).
    (* the record length *)
    assert (Hc : 1 <= chain cur maxa <= 16 /\ chain cur maxa <= 65536 - cur mod 65536 /\ chain cur maxa <= len l)
      by (unfold chain; lia).
    destruct Hc as (Hc1 & Hc2 & Hc3).
    set (c := chain cur maxa) in *.
    set (n := Z.to_nat c).
    assert (Hn : (n <= List.length l)%nat) by (unfold n, len in *; lia).
    assert (Hfl : List.length (firstn n l) = n) by (apply firstn_length_le; exact Hn).
    assert (Hsl : List.length (skipn n l) = (List.length l - n)%nat) by apply skipn_length.
    assert (Hdata : rec_ok 0 (cur mod 65536) (firstn n l)).
    { unfold rec_ok. split; [unfold byte; lia | split; [lia | split]].
      - apply Forall_firstn_b. exact Hb.
      - rewrite Hfl. unfold n. lia. }
    pose proof (Z.div_mod (cur + c) 65536 ltac:(lia)) as Hdm'.
    pose proof (Z.mod_pos_bound (cur + c) 65536 ltac:(lia)) as Hlow'.
    (* what the recursive call needs, for the block number q = cur / 65536 in force after this record *)
    assert (Hrest : forall outer',
              outer' = (cur / 65536 <? (cur + c) / 65536) ->
              decode_records (lines_a (cat_lines (map render_rec
                  (write_loop f need outer' (cur / 65536) (cur + c) maxa (skipn n l))) eof_line) [])
                (cur / 65536 * 65536) = Some (place_l (cur + c) (skipn n l))).
    { intros outer' Ho. apply IH.
      - rewrite Hsl. unfold l in *. cbn [List.length] in *. unfold n. lia.
      - apply Forall_skipn_b. exact Hb.
      - lia.
      - unfold len in *. rewrite Hsl. unfold n. lia.
      - exact Hlim.
      - exact Hneed.
      - destruct (Z.ltb_spec (cur / 65536) ((cur + c) / 65536)) as [Hlt | Hge].
        + destruct need.
          * right. left. rewrite Ho. reflexivity.
          * left. specialize (Hneed eq_refl).
            assert (Hz : List.length (skipn n l) = 0%nat).
            { rewrite Hsl. unfold len, n in *. lia. }
            destruct (skipn n l); [reflexivity | discriminate].
        + right. right. split; [|reflexivity]. lia. }
    assert (Hjoin : place_l cur (firstn n l) ++ place_l (cur + c) (skipn n l) = place_l cur l).
    { rewrite <- (firstn_skipn n l) at 3. rewrite place_l_app. rewrite Hfl. unfold n.
      rewrite Z2Nat.id by lia. reflexivity. }
    destruct (outer && need) eqn:Hemit.
    + apply andb_true_iff in Hemit. destruct Hemit as [-> ->].
      unfold l at 1. rewrite write_loop_emit. fold l. fold c. fold n.
      cbn [map cat_lines fold_right].
      rewrite decode_ela_step by (split; [lia | apply Z.div_lt_upper_bound; lia]).
      rewrite decode_data_step by exact Hdata.
      unfold cat_lines in Hrest. rewrite (Hrest _ eq_refl).
      replace (cur / 65536 * 65536 + cur mod 65536) with cur by lia.
      rewrite Hjoin. reflexivity.
    + destruct Hinv as [Hinv | [Hq Hbase]]; [discriminate|].
      unfold l at 1. rewrite (write_loop_quiet _ _ _ _ _ _ _ _ Hemit). fold l. fold c. fold n.
      cbn [map cat_lines fold_right].
      rewrite decode_data_step by exact Hdata.
      subst high. subst base.
      unfold cat_lines in Hrest. rewrite (Hrest _ eq_refl).
      replace (cur / 65536 * 65536 + cur mod 65536) with cur by lia.
      rewrite Hjoin. reflexivity.
Qed.

(* ---- the round trip ---------------------------------------------------------------------------------- *)
Theorem bin2hex_roundtrip_model : forall (bytes : list Z) (offset : Z),
  Forall (fun b => 0 <= b < 256) bytes -> 0 <= offset -> offset + Z.of_nat (List.length bytes) <= 2^32 ->
  hex_decode (bin2hex_model bytes offset) = Some (place_l offset bytes).
Proof.
  intros bytes offset Hb Ho Hfit.
  unfold hex_decode, bin2hex_model, hex_records.
  apply write_loop_decode.
  - apply Nat.le_refl.
  - exact Hb.
  - exact Ho.
  - reflexivity.
  - lia.
  - intros Hn. apply Z.ltb_ge in Hn. exact Hn.
  - destruct bytes as [|b l]; [left; reflexivity | right].
    destruct (Z.ltb_spec 65535 (offset + Z.of_nat (List.length (b :: l)) - 1)) as [Hlt | Hge].
    + left. reflexivity.
    + right. split; [|reflexivity]. cbn [List.length] in Hge. apply Z.div_small. lia.
Qed.
