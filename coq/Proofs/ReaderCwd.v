(* C14: with an absolute top-level path and absolute include directories (what cli_main hands to assemble) the
   reader's result does not depend on the working directory. *)
From Coq Require Import ZArith List Bool String Ascii Lia.
From BB Require Import Base.PyBase Gen.Cli Model.Reader Model.Cli.
Import ListNotations.
Open Scope string_scope.
Open Scope Z_scope.

Definition all_abs (dirs : list string) : Prop := Forall (fun d => is_abs d = true) dirs.

Lemma join_abs cwd p : is_abs p = true -> join_path cwd p = p.
Proof. intros H. unfold join_path. rewrite H. reflexivity. Qed.

Lemma is_abs_app a b : is_abs a = true -> is_abs (a ++ b) = true.
Proof. destruct a as [|c a]; [discriminate|]. cbn. destruct c as [[] [] [] [] [] [] [] []]; auto. Qed.

Lemma join_keeps_abs d rel : is_abs d = true -> is_abs (join_path d rel) = true.
Proof.
  intros H. unfold join_path. destruct (is_abs rel) eqn:E; [exact E|].
  destruct d as [|c d]; [discriminate|]. cbn [nonempty negb].
  destruct (ends_slash (String c d)); apply is_abs_app; exact H.
Qed.

Lemma key_of_abs cs : is_abs (key_of cs) = true.
Proof. reflexivity. Qed.
Lemma abspath_abs cwd p : is_abs (abspath cwd p) = true.
Proof. reflexivity. Qed.
Lemma base_dir_abs cwd p : is_abs (base_dir cwd p) = true.
Proof. reflexivity. Qed.

(* every file-system operation on an absolute path ignores the working directory *)
Lemma resolve_cwd fs c1 c2 p : is_abs p = true -> resolve fs c1 p = resolve fs c2 p.
Proof. intros H. unfold resolve. rewrite !(join_abs _ p H). reflexivity. Qed.
Lemma fs_read_cwd fs c1 c2 p : is_abs p = true -> fs_read fs c1 p = fs_read fs c2 p.
Proof. intros H. unfold fs_read. rewrite (resolve_cwd fs c1 c2 p H). reflexivity. Qed.
Lemma fs_exists_cwd fs c1 c2 p : is_abs p = true -> fs_exists fs c1 p = fs_exists fs c2 p.
Proof. intros H. unfold fs_exists. rewrite (resolve_cwd fs c1 c2 p H). reflexivity. Qed.
Lemma fs_isfile_cwd fs c1 c2 p : is_abs p = true -> fs_isfile fs c1 p = fs_isfile fs c2 p.
Proof. intros H. unfold fs_isfile. rewrite (fs_read_cwd fs c1 c2 p H). reflexivity. Qed.
Lemma base_dir_cwd c1 c2 p : is_abs p = true -> base_dir c1 p = base_dir c2 p.
Proof. intros H. unfold base_dir, abs_comps. rewrite !(join_abs _ p H). reflexivity. Qed.

Lemma lookup_cwd fs c1 c2 rel dirs : all_abs dirs -> lookup fs c1 rel dirs = lookup fs c2 rel dirs.
Proof.
  induction 1 as [|d dirs Hd _ IH]; [reflexivity|]. cbn [lookup].
  rewrite (fs_isfile_cwd fs c1 c2 _ (join_keeps_abs d rel Hd)). rewrite IH. reflexivity.
Qed.
Lemma lookup_abs fs c rel dirs p : all_abs dirs -> lookup fs c rel dirs = Some p -> is_abs p = true.
Proof.
  induction 1 as [|d dirs Hd _ IH]; cbn [lookup]; [discriminate|].
  destruct (fs_isfile fs c (join_path d rel)); [|exact IH].
  intros H. injection H as <-. apply join_keeps_abs. exact Hd.
Qed.

Lemma read_numbered_cwd rec1 rec2 fs c1 c2 file dirs nls :
  all_abs dirs -> (forall p, is_abs p = true -> rec1 p = rec2 p) ->
  read_numbered rec1 fs c1 file dirs nls = read_numbered rec2 fs c2 file dirs nls.
Proof.
  intros Hd Hrec. induction nls as [|[i raw] nls IH]; [reflexivity|]. cbn [read_numbered].
  rewrite IH.
  destruct (is_blank raw); [reflexivity|].
  destruct (is_include raw).
  { destruct (include_target raw) as [rel|]; [|reflexivity].
    rewrite (lookup_cwd fs c1 c2 rel dirs Hd).
    destruct (lookup fs c2 rel dirs) as [p|] eqn:E; [|reflexivity].
    rewrite (Hrec p (lookup_abs fs c2 rel dirs p Hd E)). reflexivity. }
  destruct (is_include_bytes raw); [|reflexivity].
  destruct (bytes_target raw) as [rel|]; [|reflexivity].
  rewrite (lookup_cwd fs c1 c2 rel dirs Hd).
  destruct (lookup fs c2 rel dirs) as [p|] eqn:E; [|reflexivity].
  rewrite (fs_read_cwd fs c1 c2 p (lookup_abs fs c2 rel dirs p Hd E)). reflexivity.
Qed.

Lemma all_abs_app a b : all_abs a -> all_abs b -> all_abs (a ++ b).
Proof. intros; apply Forall_app; split; assumption. Qed.

Lemma read_file_cwd fuel fs c1 c2 incs p :
  all_abs incs -> is_abs p = true -> read_file fuel fs c1 incs p = read_file fuel fs c2 incs p.
Proof.
  intros Hi. revert p. induction fuel as [|f IH]; intros p Hp; [reflexivity|]. cbn [read_file].
  rewrite (fs_read_cwd fs c1 c2 p Hp). destruct (fs_read fs c2 p) as [src|]; [|reflexivity].
  rewrite (base_dir_cwd c1 c2 p Hp).
  apply read_numbered_cwd.
  - apply all_abs_app; [exact Hi|]. constructor; [apply base_dir_abs | constructor].
  - exact IH.
Qed.

Lemma read_lines_cwd fuel fs c1 c2 incs top :
  is_abs top = true -> all_abs incs -> fs_exists fs c1 top = true ->
  read_lines fuel fs c1 incs top = read_lines fuel fs c2 incs top.
Proof.
  intros Ht Hi He. unfold read_lines. rewrite <- (fs_exists_cwd fs c1 c2 top Ht). rewrite He.
  apply read_file_cwd; assumption.
Qed.

(* what cli_main hands to assemble is absolute (given that the package directory is) *)
Lemma cli_paths_abs defs_dir cwd o :
  is_abs defs_dir = true -> is_abs (abspath cwd (o_input o)) = true /\ all_abs (cli_dirs defs_dir cwd o).
Proof.
  intros Hd. split; [reflexivity|]. unfold cli_dirs. apply all_abs_app.
  - apply Forall_forall. intros d Hin. apply in_map_iff in Hin. destruct Hin as [x [<- _]]. reflexivity.
  - destruct (o_incdefs o); constructor; [exact Hd | constructor].
Qed.

(* include_bytes: opening the file the search FOUND is cwd-independent ... *)
Lemma open_found_cwd fs c1 c2 rel dirs : all_abs dirs -> open_found fs c1 rel dirs = open_found fs c2 rel dirs.
Proof.
  intros Hd. unfold open_found. rewrite (lookup_cwd fs c1 c2 rel dirs Hd).
  destruct (lookup fs c2 rel dirs) as [p|] eqn:E; [|reflexivity].
  apply fs_read_cwd. apply (lookup_abs fs c2 rel dirs p Hd E).
Qed.
(* ... opening the path AS WRITTEN on the line is not (D10): same tree, same absolute search path, the file is
   found from both directories, but open() sees it from one only *)
Definition d10_fs : fsys :=
  {| fs_files := [("/p/src/main.asm", "include_bytes blob.bin"); ("/p/src/blob.bin", "DATA")];
     fs_dirs := ["/"; "/p"; "/p/src"; "/q"] |}.
Lemma open_as_written_depends_on_cwd :
  all_abs ["/p/src"] /\
  open_found d10_fs "/p/src" "blob.bin" ["/p/src"] = Some "DATA" /\
  open_found d10_fs "/q" "blob.bin" ["/p/src"] = Some "DATA" /\
  open_as_written d10_fs "/p/src" "blob.bin" = Some "DATA" /\
  open_as_written d10_fs "/q" "blob.bin" = None.
Proof. split; [repeat constructor | vm_compute; repeat split; reflexivity]. Qed.
