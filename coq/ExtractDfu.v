(* Extraction of the DFU host model (Gen.Dfu + Model.DfuHost) together with the Spec device it talks to. *)
From Coq Require Import ZArith List String.
From Coq Require Import ExtrOcamlBasic ExtrOcamlString.
From BB Require Import Spec.DfuDev Gen.Dfu Model.DfuHost.
Extraction Language OCaml.
Separate Extraction
  BinInt.Z.add BinInt.Z.mul BinInt.Z.opp BinInt.Z.div_eucl BinInt.Z.eqb BinInt.Z.ltb
  DfuDev.init_dev DfuDev.on_request DfuDev.on_sleep DfuDev.run_trace DfuDev.spec_variants
  Dfu.gd32_vendor Dfu.gd32_product Dfu.serial_index Dfu.device_table Dfu.page_size
  DfuHost.cli_main.
