(* Extraction of the SPECIFICATION only (oracle of the falsifiers). *)
From Coq Require Import ZArith List String.
From Coq Require Import ExtrOcamlBasic ExtrOcamlString.
From BB Require Import Base.Bits Spec.RV32 Spec.RVC.
Extraction Language OCaml.
Separate Extraction
  BinInt.Z.add BinInt.Z.mul BinInt.Z.opp BinInt.Z.div_eucl BinInt.Z.eqb BinInt.Z.ltb
  RV32.decode32 RV32.name_ops RV32.denote32
  RVC.decode16 RVC.expand_c RVC.name_ops16 RVC.denote16.
