(* Hand-written model of the assembler's items and expressions (mirrors the classes of asm.py).
   No proofs in this file.  Tied to the code by the pipeline correspondence (tools/pipeline.py). *)
From Coq Require Import ZArith List Bool String Ascii.
From BB Require Import Base.PyBase.
Import ListNotations.
Open Scope Z_scope.

Record line := { lfile : string; lnum : Z }.

(* errors of the pipeline: the assembler's own error (with the line it names) or a raw Python exception *)
Inductive perr := PAsm (l : line) | PRaw (e : exn).
Inductive pres (A : Type) := POk (a : A) | PErr (e : perr).
Arguments POk {A}. Arguments PErr {A}.
Definition pbind {A B} (r : pres A) (f : A -> pres B) : pres B :=
  match r with POk a => f a | PErr e => PErr e end.
Notation "x <~ r ;; k" := (pbind r (fun x => k)) (at level 61, r at next level, right associativity).
Definition raw {A} (r : res A) : pres A := match r with Ok a => POk a | Err e => PErr (PRaw e) end.

(* ---- Python expression trees (the harness obtains them from Python's own parser, ast.parse) --------- *)
Inductive binop := OAdd | OSub | OMul | OFloorDiv | OMod | OLsh | ORsh | OAnd | OOr | OXor | OPow.
Inductive unop := UNeg | UPos | UInv.
Inductive aexp :=
| ANum (z : Z)
| AName (s : string)
| ABin (o : binop) (a b : aexp)
| AUn (o : unop) (a : aexp)
| AChar (ords : list Z)       (* 'text': char literal, the code points after unicode_escape *)
| ABadSyntax                  (* eval raises SyntaxError *)
| ANotInt.                    (* evaluates to a non-int (float / bool / str / tuple) or raises inside eval *)

Definition envt := list (string * Z).
Definition env_get (e : envt) (k : string) : option Z := assoc_str k e.
(* ChainMap(a, b): a first *)
Definition chain_get (a b : envt) (k : string) : option Z :=
  match assoc_str k a with Some v => Some v | None => assoc_str k b end.

Definition pow_ok (b e : Z) : option Z := if e <? 0 then None else if e >? 4096 then None else Some (b ^ e).
Fixpoint aeval (lookup : string -> option Z) (a : aexp) : option Z :=
  match a with
  | ANum z => Some z
  | AName s => lookup s
  | ABin o x y =>
      match aeval lookup x, aeval lookup y with
      | Some u, Some v =>
          match o with
          | OAdd => Some (u + v) | OSub => Some (u - v) | OMul => Some (u * v)
          | OFloorDiv => if v =? 0 then None else Some (u / v)
          | OMod => if v =? 0 then None else Some (u mod v)
          | OLsh => if (v <? 0) || (v >? 4096) then None else Some (Z.shiftl u v)
          | ORsh => if v <? 0 then None else Some (Z.shiftr u v)
          | OAnd => Some (Z.land u v) | OOr => Some (Z.lor u v) | OXor => Some (Z.lxor u v)
          | OPow => pow_ok u v
          end
      | _, _ => None
      end
  | AUn o x =>
      match aeval lookup x with
      | Some u => match o with UNeg => Some (- u) | UPos => Some u | UInv => Some (Z.lnot u) end
      | None => None
      end
  | AChar [c] => Some c
  | AChar _ => None
  | ABadSyntax => None
  | ANotInt => None
  end.

(* ---- the Expr classes --------------------------------------------------------------------------------- *)
Inductive expr :=
| EArith (a : aexp)                 (* Arithmetic(str) *)
| EArithInt (z : Z)                 (* Arithmetic(int): .startswith raises AttributeError *)
| EPos (ref : string) (e : expr)    (* Position(reference, expr) *)
| EOff (ref : string)               (* Offset(reference) *)
| EHi (e : expr)
| ELo (e : expr).

Section Eval.
Variable hi lo : Z -> Z.            (* relocate_hi / relocate_lo (the GENERATED functions are passed in) *)
Variable l : line.
Variable position : option Z.       (* None in resolve_constants *)
Variable has : string -> bool.      (* `reference in env` *)
Variable get : string -> option Z.  (* env[name] *)
Fixpoint eeval (e : expr) : pres Z :=
  match e with
  | EArith a => match aeval get a with Some v => POk v | None => PErr (PAsm l) end
  | EArithInt _ => PErr (PRaw AttributeError)
  | EPos r e' =>
      if has r then
        match get r with
        | Some dest => base <~ eeval e' ;; POk (base + dest)
        | None => PErr (PRaw KeyError)
        end
      else PErr (PAsm l)
  | EOff r =>
      if has r then
        match get r, position with
        | Some dest, Some p => POk (dest - p)
        | _, _ => PErr (PRaw TypeError)        (* dest - None *)
        end
      else PErr (PAsm l)
  | EHi e' => v <~ eeval e' ;; POk (hi v)
  | ELo e' => v <~ eeval e' ;; POk (lo v)
  end.
End Eval.

(* ---- items ------------------------------------------------------------------------------------------- *)
Inductive fval :=
| FReg (a : arg)          (* register-like operand: token text, or an int after alias resolution *)
| FExpr (e : expr)        (* immediate expression *)
| FInt (z : Z)            (* resolved immediate *)
| FBool (b : bool).       (* is_auipc_jump *)

Inductive item :=
| ILabel (name : string)
| IConst (name : string) (e : expr)
| IInstr (cls name : string) (fields : list (string * fval)) (compressed : bool)
| IPseudo (name : string) (args : list string) (pimm : pres expr)   (* pimm: parse_immediate(args[1:]) for li *)
| IAlign (n : Z)
| IString (bytes : list Z)                 (* the UTF-8 bytes of item.value *)
| ISeq (name : string) (vals : list string)
| IPack (fmt : string) (imm : fval)
| IShort (name : string) (imm : fval)
| IIncBytes (path : string) (size : Z) (actual : option Z)   (* actual: length of the file opened at resolve time *)
| IBlob (data : list Z)
| IZeros (n : Z)                           (* Blob(b'\x00' * n) produced by resolve_aligns (run-length form) *)
| IFill (b n : Z).                         (* String of n copies of the ASCII byte b (run-length form of a long gap) *)

Definition litem := (line * item)%type.

Definition field_get (f : string) (fs : list (string * fval)) : option fval := assoc_str f fs.
Fixpoint field_set (f : string) (v : fval) (fs : list (string * fval)) : list (string * fval) :=
  match fs with
  | [] => []
  | (k, x) :: r => if String.eqb k f then (k, v) :: r else (k, x) :: field_set f v r
  end.
