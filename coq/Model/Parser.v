(* Hand-written model of asm.parse_immediate / asm.parse_item, branch by branch, producing the `item` type of
   Model/Items.v that the pass model (Model/Passes.v) consumes.  Expression text is what the code hands to
   Arithmetic: ' '.join(tokens); its tree comes from Model/PyExpr.v.  The mnemonic dictionaries are the GENERATED
   ones (Gen.Encoders).  No proofs in this file.  Tied to the code by tools/frontend_engine.py: model item vs the
   serialisation (pipeline.ser_item) of the real parse_item(lex_tokens(line)). *)
From Coq Require Import ZArith List Bool String Ascii.
From BB Require Import Base.PyBase Gen.Encoders Model.Items Model.Lexer Model.PyExpr.
Import ListNotations.
Open Scope Z_scope.
Open Scope string_scope.

Inductive fres (A : Type) := FOk (a : A) | FErr (e : perr) | FUnsup.
Arguments FOk {A}. Arguments FErr {A}. Arguments FUnsup {A}.
Definition fbind {A B} (r : fres A) (f : A -> fres B) : fres B :=
  match r with FOk a => f a | FErr e => FErr e | FUnsup => FUnsup end.
Notation "x <! r ;; k" := (fbind r (fun x => k)) (at level 61, r at next level, right associativity).
Definition raise_raw {A} (e : exn) : fres A := FErr (PRaw e).
Definition raise_asm {A} (l : line) : fres A := FErr (PAsm l).

Fixpoint join_sp (l : list string) : string :=
  match l with [] => "" | [x] => x | x :: r => String.append x (String.append " " (join_sp r)) end.
Definition arith (toks : list string) : fres expr :=
  match arith_of_string (join_sp toks) with Some a => FOk (EArith a) | None => FUnsup end.

(* ---- parse_immediate ------------------------------------------------------------------------------------ *)
Definition nth_tok (n : nat) (l : list string) : option string := nth_error l n.
Definition tok_is (o : option string) (t : string) : bool := match o with Some s => String.eqb s t | None => false end.
(* fuel: the list gets shorter in every recursive call; length + 1 always suffices *)
Fixpoint parse_immediate_f (fuel : nat) (imm : list string) (l : line) : fres expr :=
  match fuel with
  | O => FUnsup
  | S f =>
      match imm with
      | [] => raise_asm l                                     (* 'empty immediate value' *)
      | h :: _ =>
          let head := lower h in
          let is_hilo := String.eqb head "%hi" || String.eqb head "%lo" in
          let is_mod := String.eqb head "%position" || String.eqb head "%offset" || is_hilo in
          (* parens = len(imm) > 1 and imm[1] == '(' ; the token-count check in front of the unpacking *)
          let parens := tok_is (nth_tok 1 imm) "(" in
          let shortest := ((if is_hilo then 1 else 2) + (if parens then 2 else 0))%nat in
          let n := List.length imm in
          if is_mod && (Nat.ltb n shortest || (String.eqb head "%offset" && negb (Nat.eqb n shortest))) then
            raise_asm l                                       (* 'malformed %... expression' *)
          else if String.eqb head "%position" then
            if parens then
              (* _, _, reference, *imm, _ = imm *)
              match imm with
              | _ :: _ :: ref :: x :: rest => e <! arith (removelast (x :: rest)) ;; FOk (EPos ref e)
              | _ => raise_raw ValueError
              end
            else
              match imm with
              | _ :: ref :: rest => e <! arith rest ;; FOk (EPos ref e)
              | _ => raise_raw ValueError
              end
          else if String.eqb head "%offset" then
            if parens then
              match imm with [_; _; ref; _] => FOk (EOff ref) | _ => raise_raw ValueError end
            else
              match imm with [_; ref] => FOk (EOff ref) | _ => raise_raw ValueError end
          else if is_hilo then
            let inner :=
              if parens then
                match imm with
                | _ :: _ :: x :: rest => FOk (removelast (x :: rest))
                | _ => raise_raw ValueError
                end
              else FOk (tl imm) in
            i <! inner ;;
            e <! parse_immediate_f f i l ;;
            FOk (if String.eqb head "%hi" then EHi e else ELo e)
          else arith imm
      end
  end.
Definition parse_immediate (imm : list string) (l : line) : fres expr :=
  parse_immediate_f (S (List.length imm)) imm l.

(* ---- helpers ----------------------------------------------------------------------------------------------- *)
Definition in_tab {V} (k : string) (t : list (string * V)) : bool := mem_str k (map fst t).
Fixpoint rstrip_colon_rev (l : list ascii) : list ascii :=     (* on the reversed text *)
  match l with c :: r => if is_c c (ascii_of_N 58) then rstrip_colon_rev r else l | [] => [] end.
Definition rstrip_colon (s : string) : string := unchars (rev (rstrip_colon_rev (rev (chars s)))).
Definition ends_colon (s : string) : bool := match rev (chars s) with c :: _ => is_c c (ascii_of_N 58) | [] => false end.
Definition R (s : string) : fval := FReg (AStr s).
Definition imm_field (e : expr) : string * fval := ("imm", FExpr e).
Definition instr (cls name : string) (fs : list (string * fval)) (c : bool) : fres item := FOk (IInstr cls name fs c).
(* String item: UTF-8 bytes (ASCII here); the harness serialises long runs of one byte in run-length form *)
Definition string_item (v : string) : item :=
  let bs := map zc (chars v) in
  match bs with
  | b :: _ => if Z.ltb 48 (Z.of_nat (List.length bs)) && forallb (Z.eqb b) bs then IFill b (Z.of_nat (List.length bs)) else IString bs
  | [] => IString []
  end.
(* int(tok, base=0) *)
Definition int_of (s : string) : option Z := py_int_lit s.

(* reference operand of branches / jumps: literal offset, else %offset *)
Definition ref_imm (reference : string) (l : line) : fres expr :=
  if is_int reference then parse_immediate [reference] l else parse_immediate ["%offset"; reference] l.
(* the operand tokens of c.beqz / c.bnez / c.j / c.jal: a single token that is no integer literal is a reference (%offset), as for
   the 32-bit branches and jal; integer literals and longer expressions are left as they are *)
Definition cref_imm (imm : list string) : list string :=
  match imm with [t] => if is_int t then imm else ["%offset"; t] | _ => imm end.

Definition pseudo (l : line) (name : string) (args : list string) : fres item :=
  if String.eqb name "li" then
    match parse_immediate (tl args) l with
    | FOk e => FOk (IPseudo name args (POk e))
    | FErr e => FOk (IPseudo name args (PErr e))
    | FUnsup => FUnsup
    end
  else FOk (IPseudo name args (PErr (PRaw OtherExn))).      (* pimm is only read for li *)

(* name, a, b, *imm = tokens ; or the base+offset form  name, a, offset, (, b, ) *)
Definition base_offset (l : line) (tokens : list string) (check_tab : bool) (head : string) : fres (string * string * list string) :=
  let alt := if check_tab then mem_str head BASE_OFFSET_INSTRUCTIONS_final else true in
  (* len(tokens) > 3 and tokens[3] == '(' ; then exactly six tokens or 'base offset form must be "offset(reg)"' *)
  if alt && tok_is (nth_tok 3 tokens) "(" then
    match tokens with
    | [_; a; off; _; b; _] => FOk (a, b, [off])
    | _ => raise_asm l
    end
  else
    match tokens with _ :: a :: b :: imm => FOk (a, b, imm) | _ => raise_raw ValueError end.

(* ---- parse_item -------------------------------------------------------------------------------------------- *)
Definition parse_item (l : line) (tokens : list string) : fres item :=
  match tokens with
  | [] => raise_raw OtherExn                                   (* tokens[0]: never called on an empty list *)
  | t0 :: args =>
      let head := lower t0 in
      let n := List.length tokens in
      if Nat.eqb n 1 && ends_colon t0 then FOk (ILabel (rstrip_colon t0))
      else if Nat.leb 3 n && tok_is (nth_tok 1 tokens) "=" then
        e <! parse_immediate (skipn 2 tokens) l ;; FOk (IConst t0 e)
      else if String.eqb head "error" then
        match tokens with [_; _] => raise_asm l | _ => raise_raw ValueError end
      else if String.eqb head "include_bytes" then
        if negb (Nat.eqb n 3) then raise_asm l else FUnsup       (* needs the file system: outside this model *)
      else if String.eqb head "string" then
        match tokens with [_; v] => FOk (string_item v) | _ => raise_raw ValueError end
      else if mem_str head NUMERIC_SEQUENCE_NAMES_final then FOk (ISeq head args)
      else if String.eqb head "pack" then
        match tokens with
        | _ :: fmt :: imm => e <! parse_immediate imm l ;; FOk (IPack fmt (FExpr e))
        | _ => raise_raw ValueError
        end
      else if mem_str head SHORTHAND_PACK_NAMES_final then
        e <! parse_immediate args l ;; FOk (IShort t0 (FExpr e))     (* the name is NOT lower-cased here *)
      else if String.eqb head "align" then
        match tokens with
        | [_; a] => match int_of a with Some z => if Z.ltb z 1 then raise_asm l else FOk (IAlign z) | None => raise_asm l end
        | _ => raise_raw ValueError
        end
      else if in_tab head R_TYPE_INSTRUCTIONS_final then
        match tokens with
        | [_; rd; rs1; rs2] =>
            match arith_of_string rs2 with
            | Some a => instr "RTypeInstruction" head [("rd", R rd); ("rs1", R rs1); ("rs2", R rs2); ("#rs2", FExpr (EArith a))] false
            | None => FUnsup
            end
        | _ => raise_asm l
        end
      else if in_tab head I_TYPE_INSTRUCTIONS_final then
        if Nat.eqb n 2 then pseudo l head args
        else
          p <! base_offset l tokens true head ;;
          let '(rd, rs1, imm) := p in
          e <! parse_immediate imm l ;;
          instr "ITypeInstruction" head [("rd", R rd); ("rs1", R rs1); imm_field e; ("is_auipc_jump", FBool false)] false
      else if in_tab head IE_TYPE_INSTRUCTIONS_final then
        match tokens with [_] => instr "IETypeInstruction" head [] false | _ => raise_raw ValueError end
      else if in_tab head S_TYPE_INSTRUCTIONS_final then
        p <! (if tok_is (nth_tok 3 tokens) "(" then
                match tokens with [_; rs2; off; _; rs1; _] => FOk (rs1, rs2, [off]) | _ => raise_asm l end
              else match tokens with _ :: rs1 :: rs2 :: imm => FOk (rs1, rs2, imm) | _ => raise_raw ValueError end) ;;
        let '(rs1, rs2, imm) := p in
        e <! parse_immediate imm l ;;
        instr "STypeInstruction" head [("rs1", R rs1); ("rs2", R rs2); imm_field e] false
      else if in_tab head B_TYPE_INSTRUCTIONS_final then
        match tokens with
        | [_; rs1; rs2; reference] =>
            e <! ref_imm reference l ;;
            instr "BTypeInstruction" head [("rs1", R rs1); ("rs2", R rs2); imm_field e] false
        | _ => raise_asm l
        end
      else if in_tab head U_TYPE_INSTRUCTIONS_final then
        match tokens with
        | _ :: rd :: imm => e <! parse_immediate imm l ;; instr "UTypeInstruction" head [("rd", R rd); imm_field e] false
        | _ => raise_raw ValueError
        end
      else if in_tab head J_TYPE_INSTRUCTIONS_final then
        if Nat.eqb n 2 then pseudo l head args
        else
          match tokens with
          | [_; rd; reference] => e <! ref_imm reference l ;; instr "JTypeInstruction" head [("rd", R rd); imm_field e] false
          | _ => raise_asm l
          end
      else if in_tab head FENCE_INSTRUCTIONS_final then
        if Nat.eqb n 1 then pseudo l head args
        else
          match tokens with
          | [_; succ; pred] => instr "FenceInstruction" head [("succ", R succ); ("pred", R pred)] false
          | _ => raise_asm l
          end
      else if in_tab head A_TYPE_INSTRUCTIONS_final then
        match tokens with
        | [_; rd; rs1; rs2] =>
            instr "ATypeInstruction" head [("rd", R rd); ("rs1", R rs1); ("rs2", R rs2); ("aq", FReg (AInt 0)); ("rl", FReg (AInt 0))] false
        | [_; rd; rs1; rs2; aq; rl] =>
            instr "ATypeInstruction" head [("rd", R rd); ("rs1", R rs1); ("rs2", R rs2); ("aq", R aq); ("rl", R rl)] false
        | _ :: _ :: _ :: _ :: _ => raise_asm l
        | _ => raise_raw ValueError
        end
      else if in_tab head AL_TYPE_INSTRUCTIONS_final then
        match tokens with
        | [_; rd; rs1] => instr "ALTypeInstruction" head [("rd", R rd); ("rs1", R rs1); ("aq", FReg (AInt 0)); ("rl", FReg (AInt 0))] false
        | [_; rd; rs1; aq; rl] => instr "ALTypeInstruction" head [("rd", R rd); ("rs1", R rs1); ("aq", R aq); ("rl", R rl)] false
        | _ :: _ :: _ :: _ => raise_asm l
        | _ => raise_raw ValueError
        end
      else if in_tab head CR_TYPE_INSTRUCTIONS_final then
        match tokens with
        | [_; a; b] => instr "CRTypeInstruction" head [("rd_rs1", R a); ("rs2", R b)] true
        | _ => raise_asm l
        end
      else if in_tab head CRJ_TYPE_INSTRUCTIONS_final then
        match tokens with
        | [_; a] => instr "CRJTypeInstruction" head [("rd_rs1", R a); ("is_auipc_jump", FBool false)] true
        | _ => raise_asm l
        end
      else if in_tab head CRE_TYPE_INSTRUCTIONS_final then
        match tokens with [_] => instr "CRETypeInstruction" head [] true | _ => raise_asm l end
      else if in_tab head CI_TYPE_INSTRUCTIONS_final then
        match tokens with
        | _ :: a :: imm => e <! parse_immediate imm l ;; instr "CITypeInstruction" head [("rd_rs1", R a); imm_field e] true
        | _ => raise_raw ValueError
        end
      else if in_tab head CIA_TYPE_INSTRUCTIONS_final then
        e <! parse_immediate args l ;; instr "CIATypeInstruction" head [imm_field e] true
      else if in_tab head CIN_TYPE_INSTRUCTIONS_final then
        match tokens with [_] => instr "CINTypeInstruction" head [] true | _ => raise_asm l end
      else if in_tab head CSS_TYPE_INSTRUCTIONS_final then
        match tokens with
        | _ :: a :: imm => e <! parse_immediate imm l ;; instr "CSSTypeInstruction" head [("rs2", R a); imm_field e] true
        | _ => raise_raw ValueError
        end
      else if in_tab head CIW_TYPE_INSTRUCTIONS_final then
        match tokens with
        | _ :: a :: imm => e <! parse_immediate imm l ;; instr "CIWTypeInstruction" head [("rd", R a); imm_field e] true
        | _ => raise_raw ValueError
        end
      else if in_tab head CL_TYPE_INSTRUCTIONS_final then
        p <! base_offset l tokens false head ;;
        let '(rd, rs1, imm) := p in
        e <! parse_immediate imm l ;;
        instr "CLTypeInstruction" head [("rd", R rd); ("rs1", R rs1); imm_field e] true
      else if in_tab head CS_TYPE_INSTRUCTIONS_final then
        p <! (if tok_is (nth_tok 3 tokens) "(" then
                match tokens with [_; rs2; off; _; rs1; _] => FOk (rs1, rs2, [off]) | _ => raise_asm l end
              else match tokens with _ :: rs1 :: rs2 :: imm => FOk (rs1, rs2, imm) | _ => raise_raw ValueError end) ;;
        let '(rs1, rs2, imm) := p in
        e <! parse_immediate imm l ;;
        instr "CSTypeInstruction" head [("rs1", R rs1); ("rs2", R rs2); imm_field e] true
      else if in_tab head CA_TYPE_INSTRUCTIONS_final then
        match tokens with
        | [_; a; b] => instr "CATypeInstruction" head [("rd_rs1", R a); ("rs2", R b)] true
        | _ => raise_asm l
        end
      else if in_tab head CB_TYPE_INSTRUCTIONS_final then
        match tokens with
        | _ :: a :: imm =>
            let imm := if String.eqb head "c.beqz" || String.eqb head "c.bnez" then cref_imm imm else imm in
            e <! parse_immediate imm l ;; instr "CBTypeInstruction" head [("rs1", R a); imm_field e] true
        | _ => raise_raw ValueError
        end
      else if in_tab head CJ_TYPE_INSTRUCTIONS_final then
        e <! parse_immediate (cref_imm args) l ;; instr "CJTypeInstruction" head [imm_field e] true
      else if mem_str head PSEUDO_INSTRUCTIONS_final then pseudo l head args
      else raise_asm l
  end.

(* ---- the front end of one line: lex, then parse (None: blank / comment-only line, no item) ------------------- *)
Definition front_line (l : line) (text : string) : fres (option item) :=
  match lex_tokens text with
  | None => FUnsup
  | Some [] => FOk None
  | Some ts => it <! parse_item l ts ;; FOk (Some it)
  end.

(* ---- structural equality (the harness compares the model item with the serialised real item inside Coq) ---- *)
Fixpoint list_eqb {A} (eqb : A -> A -> bool) (a b : list A) : bool :=
  match a, b with
  | [], [] => true
  | x :: a', y :: b' => eqb x y && list_eqb eqb a' b'
  | _, _ => false
  end.
Definition binop_eqb (a b : binop) : bool :=
  match a, b with
  | OAdd, OAdd | OSub, OSub | OMul, OMul | OFloorDiv, OFloorDiv | OMod, OMod | OLsh, OLsh | ORsh, ORsh | OAnd, OAnd
  | OOr, OOr | OXor, OXor | OPow, OPow => true
  | _, _ => false
  end.
Definition unop_eqb (a b : unop) : bool :=
  match a, b with UNeg, UNeg | UPos, UPos | UInv, UInv => true | _, _ => false end.
Fixpoint aexp_eqb (a b : aexp) : bool :=
  match a, b with
  | ANum x, ANum y => Z.eqb x y
  | AName x, AName y => String.eqb x y
  | ABin o x1 x2, ABin p y1 y2 => binop_eqb o p && aexp_eqb x1 y1 && aexp_eqb x2 y2
  | AUn o x, AUn p y => unop_eqb o p && aexp_eqb x y
  | AChar x, AChar y => list_eqb Z.eqb x y
  | ABadSyntax, ABadSyntax => true
  | ANotInt, ANotInt => true
  | _, _ => false
  end.
Fixpoint expr_eqb (a b : expr) : bool :=
  match a, b with
  | EArith x, EArith y => aexp_eqb x y
  | EArithInt x, EArithInt y => Z.eqb x y
  | EPos r x, EPos s y => String.eqb r s && expr_eqb x y
  | EOff r, EOff s => String.eqb r s
  | EHi x, EHi y => expr_eqb x y
  | ELo x, ELo y => expr_eqb x y
  | _, _ => false
  end.
Definition arg_eqb (a b : arg) : bool :=
  match a, b with AInt x, AInt y => Z.eqb x y | AStr x, AStr y => String.eqb x y | _, _ => false end.
Definition fval_eqb (a b : fval) : bool :=
  match a, b with
  | FReg x, FReg y => arg_eqb x y
  | FExpr x, FExpr y => expr_eqb x y
  | FInt x, FInt y => Z.eqb x y
  | FBool x, FBool y => Bool.eqb x y
  | _, _ => false
  end.
Definition line_eqb (a b : line) : bool := String.eqb (lfile a) (lfile b) && Z.eqb (lnum a) (lnum b).
Definition perr_eqb (a b : perr) : bool :=
  match a, b with PAsm x, PAsm y => line_eqb x y | PRaw x, PRaw y => exn_eqb x y | _, _ => false end.
Definition pimm_eqb (a b : pres expr) : bool :=
  match a, b with POk x, POk y => expr_eqb x y | PErr x, PErr y => perr_eqb x y | _, _ => false end.
Definition item_eqb (a b : item) : bool :=
  match a, b with
  | ILabel x, ILabel y => String.eqb x y
  | IConst x e, IConst y f => String.eqb x y && expr_eqb e f
  | IInstr c n fs k, IInstr c' n' fs' k' =>
      String.eqb c c' && String.eqb n n' && Bool.eqb k k'
      && list_eqb (fun p q => String.eqb (fst p) (fst q) && fval_eqb (snd p) (snd q)) fs fs'
  | IPseudo n a p, IPseudo n' a' p' => String.eqb n n' && list_eqb String.eqb a a' && pimm_eqb p p'
  | IAlign x, IAlign y => Z.eqb x y
  | IString x, IString y => list_eqb Z.eqb x y
  | ISeq n v, ISeq n' v' => String.eqb n n' && list_eqb String.eqb v v'
  | IPack f v, IPack f' v' => String.eqb f f' && fval_eqb v v'
  | IShort f v, IShort f' v' => String.eqb f f' && fval_eqb v v'
  | IFill b n, IFill b' n' => Z.eqb b b' && Z.eqb n n'
  | _, _ => false
  end.

(* what the real front end did with the line, as observed by the harness *)
Inductive observed := XItem (it : litem) | XNone | XAsm (l : line) | XRaw (e : exn).
Definition of_codes (l : list Z) : string := unchars (map (fun z => ascii_of_N (Z.to_N z)) l).
Definition front_check (file : string) (num : Z) (codes : list Z) (o : observed) : string :=
  let l := {| lfile := file; lnum := num |} in
  match front_line l (of_codes codes), o with
  | FUnsup, _ => "UNSUP"
  | FOk None, XNone => "SAME"
  | FOk (Some it), XItem (l', it') => if line_eqb l l' && item_eqb it it' then "SAME" else "DIFF"
  | FErr (PAsm a), XAsm b => if line_eqb a b then "SAME" else "DIFF"
  | FErr (PRaw a), XRaw b => if exn_eqb a b then "SAME" else "DIFF"
  | _, _ => "DIFF"
  end.
(* tokens only (lexer correspondence): the model tokens joined by the unit separator, or UNSUP *)
Definition sep31 : string := String (ascii_of_N 31) EmptyString.
Fixpoint join_with (s : string) (l : list string) : string :=
  match l with [] => "" | [x] => x | x :: r => String.append x (String.append s (join_with s r)) end.
Definition lex_check (codes : list Z) (expected : list (list Z)) : string :=
  match lex_tokens (of_codes codes) with
  | None => "UNSUP"
  | Some ts => if list_eqb String.eqb ts (map of_codes expected) then "SAME" else "DIFF"
  end.
(* value of an expression text over an environment: "V<z>" / "ERR" / "UNSUP" *)
Definition eval_check (codes : list Z) (env : envt) : string :=
  match arith_of_string (of_codes codes) with
  | None => "UNSUP"
  | Some a => match aeval (env_get env) a with Some v => String.append "V" (dec_of_Z v) | None => "ERR" end
  end.
