(* asm.cli_main as an interpreter of the GENERATED step list (Gen/Cli.v, regenerated from the AST of cli_main on
   every run) over the abstract file system of Model/Reader.v:   run_cli steps cwd opts fs = (fs', exit status).
   The assembler itself and intelhex.bin2hex are Section variables: the theorems hold for ANY assembler that may
   fail and for any bin2hex meeting the stated round-trip hypothesis.  No proofs in this file. *)
From Coq Require Import ZArith List Bool String Ascii.
From BB Require Import Base.PyBase Gen.Cli Model.Reader.
Import ListNotations.
Open Scope string_scope.
Open Scope Z_scope.

(* the parsed command line (argparse is not modelled: [o_argv_ok] says whether it accepts the arguments) *)
Record opts := {
  o_argv_ok : bool;
  o_version_first : bool;     (* sys.argv[1] == '--version' *)
  o_version : bool;           (* --version somewhere else *)
  o_verbose : bool;
  o_compress : bool;
  o_input : string;
  o_include : list string;    (* -i DIR ..., in order *)
  o_output : string;          (* -o, default Gen.Cli.default_output *)
  o_labels : string;          (* -l; "" = not given (an empty string is falsy in Python) *)
  o_hex : string;             (* --hex-offset; "" = not given *)
  o_incdefs : bool
}.

(* ---- '{} 0x{:08x}\n'.format(k, v) ----------------------------------------------------------------- *)
Fixpoint hex_digits (fuel : nat) (n : Z) (acc : list ascii) : list ascii :=
  match fuel with
  | O => acc
  | S f => if n <? 16 then hexd n :: acc else hex_digits f (n / 16) (hexd (n mod 16) :: acc)
  end.
Fixpoint zeros (n : nat) : list ascii := match n with O => [] | S k => "0"%char :: zeros k end.
Definition pad_left (w : nat) (l : list ascii) : list ascii := zeros (w - List.length l) ++ l.
(* format(v, '08x'): sign-aware zero padding to width 8 *)
Definition fmt_08x (v : Z) : string :=
  if v <? 0 then String "-" (unchars (pad_left 7 (hex_digits 70 (- v) [])))
  else unchars (pad_left 8 (hex_digits 70 v [])).
Definition label_line (kv : string * Z) : string := fst kv ++ " 0x" ++ fmt_08x (snd kv) ++ String (a_of 10) "".
Definition render_labels (labels : list (string * Z)) : string := String.concat "" (map label_line labels).

Definition strlen (s : string) : Z := Z.of_nat (String.length s).

(* the contents of the file a path names (lexically: cwd-relative, "." / ".." removed) *)
Definition file_at (fs : fsys) (cwd p : string) : option string := assoc_str (abspath cwd p) (fs_files fs).

Section CLI.
  (* asm.assemble(path, constants={}, labels={}, compress=c, include_dirs=dirs) run in working directory cwd on
     file system fs: Some (binary, label table in insertion order), or None when it raises (AssemblerError or
     anything else: cli_main turns both into exit status 1) *)
  Variable assemble : fsys -> string -> string -> bool -> list string -> option (string * list (string * Z)).
  (* intelhex.bin2hex(fin, fout, offset) as a function offset -> input bytes -> text written; None = it raises *)
  Variable bin2hex : Z -> string -> option string.
  (* <directory of asm.py>/definitions *)
  Variable defs_dir : string.

  Record state := {
    st_fs : fsys;
    st_dirs : option (list string);                       (* include_dirs once initialised *)
    st_out : option (string * list (string * Z));         (* binary, labels once assembled *)
    st_off : option Z                                     (* the parsed hex offset *)
  }.
  Inductive outcome := Go (s : state) | Stop (code : Z) (fs : fsys).

  Definition with_fs (s : state) (fs : fsys) : state :=
    {| st_fs := fs; st_dirs := st_dirs s; st_out := st_out s; st_off := st_off s |}.

  Definition hex_requested (o : opts) : bool := nonempty (o_hex o).

  Definition step (cwd : string) (o : opts) (k : step_kind) (s : state) : outcome :=
    let fs := st_fs s in
    match k with
    | KVersion early => if (if early then o_version_first o else o_version o) then Stop 1 fs else Go s
    | KParseArgs => if o_argv_ok o then Go s else Stop 2 fs
    | KLog => Go s
    | KCheckInput => if fs_exists fs cwd (o_input o) then Go s else Stop 1 fs
    | KCheckIncDirs =>
        if forallb (fs_isdir fs cwd) (o_include o)
        then Go {| st_fs := fs; st_dirs := Some (map (abspath cwd) (o_include o)); st_out := st_out s; st_off := st_off s |}
        else Stop 1 fs
    | KIncludeDefinitions =>
        if o_incdefs o then
          match st_dirs s with
          | Some d => Go {| st_fs := fs; st_dirs := Some (d ++ [defs_dir])%list; st_out := st_out s; st_off := st_off s |}
          | None => Stop 1 fs                                   (* NameError *)
          end
        else Go s
    | KAssemble =>
        match st_dirs s with
        | Some d =>
            match assemble fs cwd (abspath cwd (o_input o)) (o_compress o) d with
            | Some r => Go {| st_fs := fs; st_dirs := st_dirs s; st_out := Some r; st_off := st_off s |}
            | None => Stop 1 fs
            end
        | None => Stop 1 fs
        end
    | KWriteLabels =>
        if nonempty (o_labels o) then
          match st_out s with
          | Some (_, labels) => Go (with_fs s (fs_write fs cwd (o_labels o) (render_labels labels)))
          | None => Stop 1 fs                                   (* NameError before the file is opened *)
          end
        else Go s
    | KWriteBinary =>
        match st_out s with
        | Some (bin, _) => Go (with_fs s (fs_write fs cwd (o_output o) bin))
        | None => Stop 1 (fs_write fs cwd (o_output o) "")      (* opened (truncated), then NameError *)
        end
    | KParseHexOffset =>
        if hex_requested o then
          match py_int_lit (o_hex o) with
          | Some z => Go {| st_fs := fs; st_dirs := st_dirs s; st_out := st_out s; st_off := Some z |}
          | None => Stop 1 fs
          end
        else Go s
    | KCheckHexRange lo hi =>
        match (if hex_requested o then st_off s else None) with
        | Some z => if (lo <=? z) && (z <? hi) then Go s else Stop 1 fs
        | None => if hex_requested o then Stop 1 fs else Go s
        end
    | KCheckHexFit limit =>
        match (if hex_requested o then st_off s else None), st_out s with
        | Some z, Some (bin, _) => if z + strlen bin <=? limit then Go s else Stop 1 fs
        | Some _, None => Stop 1 fs
        | None, _ => if hex_requested o then Stop 1 fs else Go s
        end
    | KBin2Hex =>
        if hex_requested o then
          match st_off s, st_out s with
          | Some z, Some (bin, _) =>
              match bin2hex z bin with
              | Some h => Go (with_fs s (fs_write fs cwd (o_output o ++ ".hex") h))
              | None => Stop 1 (fs_write fs cwd (o_output o ++ ".hex") "")   (* raised while writing: partial file *)
              end
          | _, _ => Stop 1 fs
          end
        else Go s
    end.

  Fixpoint run_steps (cwd : string) (o : opts) (steps : list cli_step) (s : state) : fsys * Z :=
    match steps with
    | [] => (st_fs s, 0)
    | k :: rest =>
        match step cwd o (kind k) s with
        | Go s' => run_steps cwd o rest s'
        | Stop code fs => (fs, code)
        end
    end.

  Definition init (fs : fsys) : state := {| st_fs := fs; st_dirs := None; st_out := None; st_off := None |}.
  Definition run_cli (steps : list cli_step) (cwd : string) (o : opts) (fs : fsys) : fsys * Z :=
    run_steps cwd o steps (init fs).

  (* the include directories cli_main hands to assemble *)
  Definition cli_dirs (cwd : string) (o : opts) : list string :=
    (map (abspath cwd) (o_include o) ++ (if o_incdefs o then [defs_dir] else []))%list.
End CLI.

(* ---- what the model says a kind does; Proofs/CliOrder.v compares the generated tags with this ------- *)
Definition kind_may_fail (k : step_kind) : bool :=
  match k with
  | KVersion _ | KParseArgs | KCheckInput | KCheckIncDirs | KAssemble | KParseHexOffset
  | KCheckHexRange _ _ | KCheckHexFit _ => true
  | KLog | KIncludeDefinitions | KWriteLabels | KWriteBinary | KBin2Hex => false
  end.
Definition kind_writes (k : step_kind) : option target :=
  match k with
  | KWriteLabels => Some TLabels | KWriteBinary => Some TBinary | KBin2Hex => Some THex
  | _ => None
  end.
Definition target_eqb (a b : option target) : bool :=
  match a, b with
  | None, None | Some TLabels, Some TLabels | Some TBinary, Some TBinary | Some THex, Some THex => true
  | _, _ => false
  end.
Definition tags_ok (k : cli_step) : bool :=
  Bool.eqb (may_fail k) (kind_may_fail (kind k)) && target_eqb (writes k) (kind_writes (kind k)).

(* ---- rendering for the harness ---------------------------------------------------------------------- *)
Definition render_file (fs : fsys) (cwd p : string) : string :=
  match fs_read fs cwd p with Some d => "F" ++ hex_of_string d | None => "-" end.
(* exit status | -o | -l | -o.hex   (files looked up after the run) *)
Definition render_cli (cwd : string) (o : opts) (r : fsys * Z) : string :=
  dec_of_Z (snd r) ++ "|" ++ render_file (fst r) cwd (o_output o) ++ "|" ++
  (if nonempty (o_labels o) then render_file (fst r) cwd (o_labels o) else "-") ++ "|" ++
  render_file (fst r) cwd (o_output o ++ ".hex").
