(* Rendering of model results as flat strings (for the correspondence harness). *)
From Coq Require Import ZArith List Bool String Ascii.
From BB Require Import Base.PyBase Model.Items Model.Passes.
Import ListNotations.
Open Scope Z_scope.

Definition hexd (d : Z) : ascii := if d <? 10 then ascii_of_N (Z.to_N (48 + d)) else ascii_of_N (Z.to_N (87 + d)).
Fixpoint hex_of_bytes (bs : list Z) : string :=
  match bs with [] => EmptyString | b :: r => String (hexd (b / 16)) (String (hexd (b mod 16)) (hex_of_bytes r)) end.
Definition exn_name (e : exn) : string :=
  match e with
  | ValueError => "ValueError" | KeyError => "KeyError" | TypeError => "TypeError" | AttributeError => "AttributeError"
  | StructError => "StructError" | AssertionError => "AssertionError" | AssemblerError => "AssemblerError"
  | OtherExn => "OtherExn"
  end.
Definition sep (a b : string) : string := String.append a (String.append "|" b).
Definition render_line (l : line) : string := String.append (lfile l) (String.append ":" (dec_of_Z (lnum l))).
Definition render_chunk (c : line * chunk) : string :=
  let (l, k) := c in
  String.append (render_line l) (String.append "="
    match k with
    | CBytes bs => String.append "B" (hex_of_bytes bs)
    | CZeros n => String.append "Z" (dec_of_Z n)
    | CFill b n => String.append "R" (String.append (dec_of_Z b) (String.append "x" (dec_of_Z n)))
    | CFile p n => String.append "F" p
    end).
Fixpoint join (s : string) (l : list string) : string :=
  match l with [] => EmptyString | [x] => x | x :: r => String.append x (String.append s (join s r)) end.
Definition render_env (e : envt) : string :=
  join "," (map (fun kv => String.append (fst kv) (String.append "=" (dec_of_Z (snd kv)))) e).
Definition render (o : outcome result) : string :=
  match o with
  | Done r => sep "OK" (sep (join ";" (map render_chunk (r_chunks r))) (sep (render_env (r_consts r)) (render_env (r_labels r))))
  | Fail (PAsm l) => sep "ASM" (render_line l)
  | Fail (PRaw e) => sep "RAW" (exn_name e)
  | Unsupported => "UNSUP"
  end.
