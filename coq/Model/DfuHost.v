(* Model.DfuHost -- bronzebeard/dfu.py cli_main as an executable function
     (poll fuel, firmware bytes, character sn[2] of the serial number, device) -> (final device, event trace).
   The device is the Spec device (Spec/DfuDev.v) with its schedule: it plays the role of pyusb + hardware.
   Everything arithmetic / tabular comes from the GENERATED Gen/Dfu.v (constants, request builders, status decoding,
   device table, size guard, padding, address arithmetic, poll predicates, what the error blocks do); the statement
   skeleton (order of prints, the three polling loops, the two page loops) is written here by hand and tied to the real
   code by the correspondence harness (tools/dfu_engine.py).  No proofs in this file. *)
From Coq Require Import ZArith List Bool String.
From BB Require Import Spec.DfuDev Gen.Dfu.
Import ListNotations.
Open Scope Z_scope.

Inductive pcls :=
  | PLit (s : string)                 (* print('literal') *)
  | PKV (k : string) (v : Z)          (* print('key:', int) *)
  | PProgress (w : string) (a : Z)    (* print('\r<w>: 0x{:08x}'.format(a), end='', flush=True) *)
  | PStatusDesc (st : Z)              (* print(STATUS_DESCRIPTION[st]) *)
  | PStateDesc (st : Z)               (* print(STATE_DESCRIPTION[st]) *)
  | PNewline.                         (* print() *)

Inductive crash := CAssert | CUsbError | CStructError | CKeyError | CTypeError.

Inductive event :=
  | EReq (r : request)
  | ESleep (us : Z)                            (* time.sleep, in microseconds *)
  | EPrint (p : pcls)
  | EExit (code : Z) (named : option Z)        (* how cli_main ends: normal return = EExit 0 None; SystemExit(msg) =
                                                  EExit 1 (Some st) when msg contains STATUS_DESCRIPTION[st] *)
  | ECrash (c : crash)                         (* an exception other than SystemExit escapes *)
  | EOutOfFuel.                                (* artefact of the model: a polling loop exceeded the fuel *)

(* host state: the device and the events so far, NEWEST FIRST *)
Definition hst := (dev * list event)%type.
Inductive outcome (A : Type) := Ret (a : A) (s : hst) | Stop (s : hst).
Arguments Ret {A} a s.
Arguments Stop {A} s.
Definition bind {A B} (m : outcome A) (f : A -> hst -> outcome B) : outcome B :=
  match m with Ret a s => f a s | Stop s => Stop s end.
Definition emit (e : event) (s : hst) : hst := (fst s, e :: snd s).
Definition halt {A} (e : event) (s : hst) : outcome A := Stop (emit e s).

(* device.ctrl_transfer: a stalled transfer raises usb.core.USBError *)
Definition transfer (r : request) (s : hst) : outcome resp :=
  let (d1, a) := on_request (fst s) r in
  match a with
  | RStall => Stop (d1, ECrash CUsbError :: EReq r :: snd s)
  | _ => Ret a (d1, EReq r :: snd s)
  end.

Definition get_status_req : request :=
  mkReq dfu_get_status_bm dfu_get_status_breq dfu_get_status_wvalue dfu_get_status_windex (PIn dfu_get_status_len).

(* dfu_get_status: returns (status, state) *)
Definition get_status (s : hst) : outcome (Z * Z) :=
  bind (transfer get_status_req s) (fun a s1 =>
    match a with
    | RBytes l =>
        match dfu_get_status_decode l with
        | Some (status, state, us) => Ret (status, state) (on_sleep (fst s1) us, ESleep us :: snd s1)
        | None => halt (ECrash CAssert) s1
        end
    | _ => halt (ECrash CTypeError) s1
    end).

(* the four OUT helpers: payload (None = struct.error), asserted count *)
Definition out_transfer (bm breq wvalue windex : Z) (data : option (list Z)) (count : Z) (s : hst) : outcome unit :=
  match data with
  | None => halt (ECrash CStructError) s
  | Some bytes =>
      bind (transfer (mkReq bm breq wvalue windex (POut bytes)) s) (fun a s1 =>
        match a with
        | RCount n => if n =? count then Ret tt s1 else halt (ECrash CAssert) s1
        | _ => halt (ECrash CAssert) s1
        end)
  end.

Definition clear_status (s : hst) : outcome unit :=
  out_transfer dfu_clear_status_bm dfu_clear_status_breq dfu_clear_status_wvalue dfu_clear_status_windex
               dfu_clear_status_data dfu_clear_status_count s.
Definition erase_page (addr : Z) (s : hst) : outcome unit :=
  out_transfer dfuse_erase_page_bm dfuse_erase_page_breq dfuse_erase_page_wvalue dfuse_erase_page_windex
               (dfuse_erase_page_data addr) (dfuse_erase_page_count addr) s.
Definition set_address (addr : Z) (s : hst) : outcome unit :=
  out_transfer dfuse_set_address_bm dfuse_set_address_breq dfuse_set_address_wvalue dfuse_set_address_windex
               (dfuse_set_address_data addr) (dfuse_set_address_count addr) s.
Definition download (code : list Z) (s : hst) : outcome unit :=
  out_transfer dfuse_download_bm dfuse_download_breq dfuse_download_wvalue dfuse_download_windex
               (dfuse_download_data code) (dfuse_download_count code) s.

(* status, state = dfu_get_status(dev); while <continue state>: status, state = dfu_get_status(dev) *)
Fixpoint poll_while (fuel : nat) (continue : Z -> bool) (cur : Z * Z) (s : hst) : outcome (Z * Z) :=
  if continue (snd cur) then
    match fuel with
    | O => halt EOutOfFuel s
    | S f => bind (get_status s) (fun r s1 => poll_while f continue r s1)
    end
  else Ret cur s.
Definition poll (fuel : nat) (continue : Z -> bool) (s : hst) : outcome (Z * Z) :=
  bind (get_status s) (fun r s1 => poll_while fuel continue r s1).

Definition known (keys : list Z) (k : Z) : bool := existsb (Z.eqb k) keys.

Fixpoint run_err_body (body : list err_stmt) (status : Z) (s : hst) : outcome unit :=
  match body with
  | [] => Ret tt s
  | EPrintLit t :: rest => run_err_body rest status (emit (EPrint (PLit t)) s)
  | EPrintNewline :: rest => run_err_body rest status (emit (EPrint PNewline) s)
  | EPrintStatusDesc :: rest =>
      if known STATUS_DESCRIPTION_keys status then run_err_body rest status (emit (EPrint (PStatusDesc status)) s)
      else halt (ECrash CKeyError) s
  end.

(* if <is_error status>: <body> [raise SystemExit(...)] *)
Definition on_status (is_error : Z -> bool) (body : list err_stmt) (ex : err_exit) (status : Z) (s : hst) : outcome unit :=
  if is_error status then
    bind (run_err_body body status s) (fun _ s1 =>
      match ex with
      | None => Ret tt s1
      | Some (code, true) =>
          if known STATUS_DESCRIPTION_keys status then halt (EExit code (Some status)) s1 else halt (ECrash CKeyError) s1
      | Some (code, false) => halt (EExit code None) s1
      end)
  else Ret tt s.

Fixpoint erase_loop (fuel : nat) (n : nat) (page : Z) (s : hst) : outcome unit :=
  match n with
  | O => Ret tt s
  | S n' =>
      let addr := erase_addr page in
      bind (erase_page addr (emit (EPrint (PProgress "erasing" addr)) s)) (fun _ s1 =>
      bind (poll fuel erase_poll_continue s1) (fun r s2 =>
      bind (on_status erase_is_error erase_error_body erase_error_exit (fst r) s2) (fun _ s3 =>
      erase_loop fuel n' (page + 1) s3)))
  end.

(* firmware[a:b] for 0 <= a, 0 <= b *)
Definition slice (l : list Z) (a b : Z) : list Z := firstn (Z.to_nat (b - a)) (skipn (Z.to_nat a) l).

Fixpoint write_loop (fuel : nat) (fw : list Z) (n : nat) (page : Z) (s : hst) : outcome unit :=
  match n with
  | O => Ret tt s
  | S n' =>
      let addr := write_addr page in
      let code := slice fw (write_code_start page) (write_code_end page) in
      bind (set_address addr (emit (EPrint (PProgress "writing" addr)) s)) (fun _ s1 =>
      bind (poll fuel setaddr_poll_continue s1) (fun _ s2 =>
      bind (download code s2) (fun _ s3 =>
      bind (poll fuel write_poll_continue s3) (fun r s4 =>
      bind (on_status write_is_error write_error_body write_error_exit (fst r) s4) (fun _ s5 =>
      write_loop fuel fw n' (page + 1) s5)))))
  end.

Fixpoint lookup_pages (c : Z) (t : list (Z * Z)) : option Z :=
  match t with
  | [] => None
  | (k, v) :: rest => if c =? k then Some v else lookup_pages c rest
  end.

Definition padded (fw : list Z) : list Z :=
  fw ++ List.concat (repeat pad_chunk (Z.to_nat (pad_count (Z.of_nat (List.length fw))))).

(* status check at the start: clear a pending error *)
Definition initial_status (s : hst) : outcome unit :=
  bind (get_status s) (fun r s1 =>
    if init_needs_clear (snd r) then
      bind (clear_status (emit (EPrint (PLit "Device is in error, sending DFU_CLRSTATUS")) s1)) (fun _ s2 =>
      bind (get_status s2) (fun r2 s3 =>
        if known STATE_DESCRIPTION_keys (snd r2) then Ret tt (emit (EPrint (PStateDesc (snd r2))) s3)
        else halt (ECrash CKeyError) s3))
    else Ret tt s1).

(* everything up to (excluding) the final announcement *)
Definition cli_body (fuel : nat) (fw : list Z) (snc : Z) (s0 : hst) : outcome unit :=
  let s := emit (EPrint (PLit "Found GD32 device, overriding page size and count")) s0 in
  match lookup_pages snc device_table with
  | None => halt (EExit bad_serial_exit None) s
  | Some page_count =>
      let n := Z.of_nat (List.length fw) in
      let s := emit (EPrint (PKV "page_count:" page_count)) (emit (EPrint (PKV "page_size:" page_size)) s) in
      if too_large n page_count then halt (EExit too_large_exit None) s
      else
        let s := emit (EPrint (PKV "old size:" n)) s in
        let fw' := padded fw in
        let pages := pad_pages n in
        let s := emit (EPrint (PKV "pages:" pages))
                   (emit (EPrint (PKV "padding:" (page_size - n mod page_size)))
                      (emit (EPrint (PKV "new size:" (Z.of_nat (List.length fw')))) s)) in
        bind (initial_status s) (fun _ s1 =>
        bind (erase_loop fuel (Z.to_nat pages) 0 s1) (fun _ s2 =>
        write_loop fuel fw' (Z.to_nat pages) 0 (emit (EPrint PNewline) s2)))
  end.

(* dfu.cli_main(): final device and the trace, OLDEST FIRST *)
Definition cli_main (fuel : nat) (fw : list Z) (snc : Z) (d : dev) : dev * list event :=
  match cli_body fuel fw snc (d, []) with
  | Ret _ s => (fst s, rev (EExit 0 None :: EPrint (PLit "done!") :: EPrint PNewline :: snd s))
  | Stop s => (fst s, rev (snd s))
  end.
