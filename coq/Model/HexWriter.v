(* intelhex.bin2hex(fin, fout, offset) of the third-party `intelhex` package (2.3.0), the way asm.cli_main uses it:
     bin2hex -> IntelHex().loadbin(fin, offset)            _buf[offset + i] = i-th byte   (contiguous addresses)
             -> tofile(fout, 'hex') -> write_hex_file(f, write_start_addr=True, eolstyle='native', byte_count=16)
   write_hex_file, for a contiguous buffer without start address (loadbin sets none):

     need_offset_record = maxaddr > 65535        (decided ONCE for the whole file and never cleared)
     high_ofs = 0; cur_addr = minaddr
     while cur_addr <= maxaddr:                                                        -- "outer"
         if need_offset_record: high_ofs = cur_addr >> 16; write ':02000004' hi lo ck  -- Extended Linear Address
         while True:
             low_addr  = cur_addr & 0xFFFF
             chain_len = min(byte_count - 1, 65535 - low_addr, maxaddr - cur_addr) + 1 -- never across a 64 KiB line
             write ':' ll aaaa '00' data ck                                            -- aaaa = low_addr
             cur_addr += chain_len;  if nothing left: break
             if (cur_addr >> 16) > high_ofs: break                                     -- back to "outer"
     write ':00000001FF'

   so: records of 16 bytes counted FROM THE OFFSET (not aligned to 16), cut at every 64 KiB line; a type-04 record in
   front of every 64 KiB block INCLUDING the first one, even when its upper half is 0000, as soon as the last byte
   lies above 0xFFFF -- and no type-04 record at all otherwise; upper-case digits; every line ends with LF
   (eolstyle 'native' writes '\n' on every platform; the file is opened in text mode, so this is LF on POSIX).
   An empty input gives the end-of-file record alone.

   Valid for 0 <= offset and offset + len <= 2^32 (cli_main checks both before it calls bin2hex; beyond that the
   real function raises OverflowError from array('B')).  No proofs in this file; tied to the real library by the
   correspondence of the C17 check (tools/hexwriter_engine.py). *)
From Coq Require Import ZArith List Bool String Ascii.
Import ListNotations.
Open Scope Z_scope.

(* hexlify(...).translate(upper-case table): two upper-case digits per byte *)
Definition hexU (d : Z) : ascii :=
  if d <? 10 then ascii_of_N (Z.to_N (48 + d)) else ascii_of_N (Z.to_N (55 + d)).
Fixpoint hex_bytes (l : list Z) : string :=
  match l with
  | [] => EmptyString
  | b :: r => String (hexU (b / 16)) (String (hexU (b mod 16)) (hex_bytes r))
  end.

Definition lsum (l : list Z) : Z := fold_right Z.add 0 l.
Definition LF : ascii := ascii_of_N 10.

(* bin = [reclen; offset msb; offset lsb; rectyp; data ...; chksum] with chksum = (-sum(bin)) & 0xFF computed while
   the checksum slot still holds 0;   ':' + hex(bin) + eol *)
Definition record_line (ty addr : Z) (data : list Z) : string :=
  let body := Z.of_nat (List.length data) :: addr / 256 :: addr mod 256 :: ty :: data in
  String ":" (hex_bytes (body ++ [(- lsum body) mod 256]) ++ String LF EmptyString).

(* the records write_hex_file emits in front of the end-of-file record *)
Inductive hrec :=
  | Data (low_addr : Z) (data : list Z)      (* type 00 *)
  | ExtLinear (high_ofs : Z).                (* type 04: offset field 0000, data divmod(high_ofs, 256) *)
Definition render_rec (r : hrec) : string :=
  match r with
  | Data a d => record_line 0 a d
  | ExtLinear h => record_line 4 0 [h / 256; h mod 256]
  end.

(* the two nested loops as ONE loop over the records: [outer] says that the next record is produced by a fresh
   iteration of the outer loop (which writes the type-04 record when need_offset_record is set);
   l = the bytes from cur_addr on;  fuel = their number (every record takes at least one) *)
Fixpoint write_loop (fuel : nat) (need_offset_record outer : bool) (high_ofs cur_addr maxaddr : Z) (l : list Z)
    : list hrec :=
  match fuel with
  | O => []
  | S f =>
      match l with
      | [] => []
      | _ :: _ =>
          let emit := outer && need_offset_record in
          let high_ofs' := if emit then cur_addr / 65536 else high_ofs in
          let low_addr := cur_addr mod 65536 in
          let chain_len := Z.min 15 (Z.min (65535 - low_addr) (maxaddr - cur_addr)) + 1 in
          let n := Z.to_nat chain_len in
          let cur' := cur_addr + chain_len in
          (if emit then [ExtLinear high_ofs'] else []) ++
          Data low_addr (firstn n l) ::
          write_loop f need_offset_record (high_ofs' <? cur' / 65536) high_ofs' cur' maxaddr (skipn n l)
      end
  end.

Definition eof_line : string := ":00000001FF" ++ String LF EmptyString.

Definition hex_records (bytes : list Z) (offset : Z) : list hrec :=
  let maxaddr := offset + Z.of_nat (List.length bytes) - 1 in
  write_loop (List.length bytes) (65535 <? maxaddr) true 0 offset maxaddr bytes.

Definition cat_lines (l : list string) (tail : string) : string := fold_right String.append tail l.

(* the text bin2hex writes for the bytes [bytes] (each 0..255) loaded at [offset] *)
Definition bin2hex_model (bytes : list Z) (offset : Z) : string :=
  cat_lines (map render_rec (hex_records bytes offset)) eof_line.

(* the form Model.Cli wants: offset -> input file contents -> text written *)
Definition bin2hex_fn (offset : Z) (bin : string) : option string :=
  Some (bin2hex_model (map (fun c => Z.of_N (N_of_ascii c)) (list_ascii_of_string bin)) offset).
