(* Hand-written model of what Python's `eval` does with the text Arithmetic.eval hands it, for the documented integer
   subset:  + - * // % << >> & | ^ ~ **  parentheses, unary signs, decimal / hex / binary / octal literals, names.
   Tokenizer + precedence parser (explicit fuel) producing the `aexp` trees of Model/Items.v, whose evaluator
   `aeval` gives the value.  Anything outside the subset is reported as `None` (outside the model), never guessed.
   No proofs in this file.  Tied to CPython by tools/frontend_engine.py: tree vs ast.parse, value vs the real
   Arithmetic.eval. *)
From Coq Require Import ZArith List Bool String Ascii.
From BB Require Import Base.PyBase Model.Items Model.Lexer.
Import ListNotations.
Open Scope Z_scope.

Inductive sym := SPlus | SMinus | SStar | SSlash | SDSlash | SPercent | SLsh | SRsh | SAmp | SBar | SCaret | STilde
               | SPow | SLpar | SRpar.
Inductive ptok := TNum (z : Z) | TName (s : string) | TSym (s : sym).

Definition is_word (c : ascii) : bool :=
  let n := zc c in
  ((48 <=? n) && (n <=? 57)) || ((65 <=? n) && (n <=? 90)) || ((97 <=? n) && (n <=? 122)) || (n =? 95).
Definition is_digit (c : ascii) : bool := let n := zc c in (48 <=? n) && (n <=? 57).

Definition py_keywords : list string :=
  ["and"; "or"; "not"; "if"; "else"; "in"; "is"; "lambda"; "None"; "True"; "False"; "for"; "while"; "def"; "class";
   "await"; "async"; "yield"; "from"; "import"; "as"; "assert"; "break"; "continue"; "del"; "elif"; "except";
   "finally"; "global"; "nonlocal"; "pass"; "raise"; "return"; "try"; "with"; "__debug__"]%string.

(* a maximal run of word characters: a number when it starts with a digit, else a name *)
Definition word_tok (w : list ascii) : option ptok :=
  match w with
  | [] => None
  | c :: _ =>
      if is_digit c then option_map TNum (int_body w)          (* floats, complex, malformed: outside the model *)
      else let s := unchars w in if mem_str s py_keywords then None else Some (TName s)
  end.
Definition flush (cur : list ascii) (rest : option (list ptok)) : option (list ptok) :=
  match cur with
  | [] => rest
  | _ => match word_tok (rev cur), rest with Some t, Some r => Some (t :: r) | _, _ => None end
  end.
Definition sym1 (c : ascii) : option sym :=
  let n := zc c in
  if n =? 43 then Some SPlus else if n =? 45 then Some SMinus else if n =? 42 then Some SStar
  else if n =? 47 then Some SSlash else if n =? 37 then Some SPercent else if n =? 38 then Some SAmp
  else if n =? 124 then Some SBar else if n =? 94 then Some SCaret else if n =? 126 then Some STilde
  else if n =? 40 then Some SLpar else if n =? 41 then Some SRpar else None.
(* cur: the word being accumulated (reversed) *)
Fixpoint pytok (cur : list ascii) (l : list ascii) : option (list ptok) :=
  match l with
  | [] => flush cur (Some [])
  | c :: r =>
      if is_word c then pytok (c :: cur) r
      else if is_ws c then flush cur (pytok [] r)
      else
        let n := zc c in
        match r with
        | d :: r2 =>
            if (n =? 42) && (zc d =? 42) then flush cur (option_map (cons (TSym SPow)) (pytok [] r2))
            else if (n =? 47) && (zc d =? 47) then flush cur (option_map (cons (TSym SDSlash)) (pytok [] r2))
            else if (n =? 60) && (zc d =? 60) then flush cur (option_map (cons (TSym SLsh)) (pytok [] r2))
            else if (n =? 62) && (zc d =? 62) then flush cur (option_map (cons (TSym SRsh)) (pytok [] r2))
            else match sym1 c with
                 | Some s => flush cur (option_map (cons (TSym s)) (pytok [] r))
                 | None => None
                 end
        | [] => match sym1 c with Some s => flush cur (Some [TSym s]) | None => None end
        end
  end.
Definition pytokens (l : list ascii) : option (list ptok) := pytok [] l.

(* ---- precedence parser --------------------------------------------------------------------------------- *)
Inductive pr := PGood (a : aexp) (rest : list ptok) | PSyn | PFuel.

(* binary operators of a level: 0 |   1 ^   2 &   3 << >>   4 + -   5 * / // %  *)
Inductive bop := BOp (o : binop) | BTrueDiv.
Definition binop_at (lvl : nat) (s : sym) : option bop :=
  match lvl, s with
  | 0%nat, SBar => Some (BOp OOr)
  | 1%nat, SCaret => Some (BOp OXor)
  | 2%nat, SAmp => Some (BOp OAnd)
  | 3%nat, SLsh => Some (BOp OLsh) | 3%nat, SRsh => Some (BOp ORsh)
  | 4%nat, SPlus => Some (BOp OAdd) | 4%nat, SMinus => Some (BOp OSub)
  | 5%nat, SStar => Some (BOp OMul) | 5%nat, SDSlash => Some (BOp OFloorDiv) | 5%nat, SPercent => Some (BOp OMod)
  | 5%nat, SSlash => Some BTrueDiv
  | _, _ => None
  end.
Definition mk_bin (o : bop) (a b : aexp) : aexp :=
  match o with BOp o => ABin o a b | BTrueDiv => ANotInt end.     (* true division gives a float *)
Definition unop_of (s : sym) : option unop :=
  match s with SPlus => Some UPos | SMinus => Some UNeg | STilde => Some UInv | _ => None end.

(* levels 0..5 binary (left associative), 6 unary, 7 power (right operand is a level-6 factor), 8 atom *)
Fixpoint pexpr (fuel : nat) (lvl : nat) (ts : list ptok) : pr :=
  match fuel with
  | O => PFuel
  | S f =>
      if Nat.leb lvl 5 then
        match pexpr f (S lvl) ts with
        | PGood a rest => ploop f lvl a rest
        | e => e
        end
      else if Nat.eqb lvl 6 then
        match ts with
        | TSym s :: rest =>
            match unop_of s with
            | Some u => match pexpr f 6 rest with PGood a r => PGood (AUn u a) r | e => e end
            | None => pexpr f 7 ts
            end
        | _ => pexpr f 7 ts
        end
      else if Nat.eqb lvl 7 then
        match pexpr f 8 ts with
        | PGood a (TSym SPow :: rest) =>
            match pexpr f 6 rest with PGood b r => PGood (ABin OPow a b) r | e => e end
        | e => e
        end
      else
        match ts with
        | TNum z :: rest => PGood (ANum z) rest
        | TName s :: rest => PGood (AName s) rest
        | TSym SLpar :: rest =>
            match pexpr f 0 rest with
            | PGood a (TSym SRpar :: r) => PGood a r
            | PGood _ _ => PSyn
            | e => e
            end
        | _ => PSyn
        end
  end
with ploop (fuel : nat) (lvl : nat) (lhs : aexp) (ts : list ptok) : pr :=
  match fuel with
  | O => PFuel
  | S f =>
      match ts with
      | TSym s :: rest =>
          match binop_at lvl s with
          | Some o => match pexpr f (S lvl) rest with
                      | PGood b r => ploop f lvl (mk_bin o lhs b) r
                      | e => e
                      end
          | None => PGood lhs ts
          end
      | _ => PGood lhs ts
      end
  end.

Definition parse_fuel (ts : list ptok) : nat := (12 * List.length ts + 24)%nat.
(* None: outside the model.  ABadSyntax: eval raises SyntaxError. *)
Definition parse_py (l : list ascii) : option aexp :=
  match pytokens l with
  | None => None
  | Some ts =>
      match pexpr (parse_fuel ts) 0 ts with
      | PGood a [] => Some a
      | PGood _ (_ :: _) => Some ABadSyntax
      | PSyn => Some ABadSyntax
      | PFuel => None
      end
  end.

(* Arithmetic(text): a character literal iff the text starts AND ends with a single quote *)
Definition last_is_quote (l : list ascii) : bool :=
  match rev l with c :: _ => is_c c c_quote | [] => false end.
Definition arith_of_text (l : list ascii) : option aexp :=
  match l with
  | c :: r =>
      if is_c c c_quote && last_is_quote l then
        option_map (fun cs => AChar (map zc cs)) (unicode_escape (removelast r))
      else parse_py l
  | [] => parse_py l
  end.
Definition arith_of_string (s : string) : option aexp := arith_of_text (chars s).
