(* Hand-written model of the passes of asm.assemble (same order, same position / label bookkeeping).
   The passes call the GENERATED pieces: Gen.Encoders (relocate_hi/lo, INSTRUCTIONS, REGISTERS) and
   Gen.Criteria (criteria table, predicate semantics, construction chain, class signatures).
   No proofs in this file.  Tied to the code by the pipeline correspondence (tools/pipeline.py). *)
From Coq Require Import ZArith List Bool String Ascii.
From BB Require Import Base.PyBase Gen.Encoders Gen.Criteria Gen.PassTable Model.Items Model.Encode.
Import ListNotations.
Open Scope Z_scope.

(* ---- struct ------------------------------------------------------------------------------------------- *)
(* formats [<>=!@]?[bBhHiIlLqQ]; anything else is outside the model (None) *)
Definition fmt_parse (f : string) : option (bool * bool * ascii) :=    (* (little?, standard sizes?, code) *)
  match chars f with
  | [c] => Some (true, false, c)
  | [p; c] =>
      let n := zc p in
      if n =? 60 then Some (true, true, c)          (* < *)
      else if (n =? 62) || (n =? 33) then Some (false, true, c)   (* > ! *)
      else if n =? 61 then Some (true, true, c)     (* = *)
      else if n =? 64 then Some (true, false, c)    (* @ *)
      else None
  | _ => None
  end.
Definition code_size (std : bool) (c : ascii) : option (Z * bool) :=   (* (bytes, signed) *)
  let n := zc c in
  if n =? 98 then Some (1, true) else if n =? 66 then Some (1, false)
  else if n =? 104 then Some (2, true) else if n =? 72 then Some (2, false)
  else if n =? 105 then Some (4, true) else if n =? 73 then Some (4, false)
  else if n =? 108 then Some ((if std then 4 else 8), true) else if n =? 76 then Some ((if std then 4 else 8), false)
  else if n =? 113 then Some (8, true) else if n =? 81 then Some (8, false)
  else None.
Definition calcsize (f : string) : option Z :=
  match fmt_parse f with
  | Some (_, std, c) => match code_size std c with Some (n, _) => Some n | None => None end
  | None => None
  end.
Fixpoint le_bytes (n : nat) (v : Z) : list Z :=
  match n with O => [] | S k => (v mod 256) :: le_bytes k (v / 256) end.
(* struct.pack(fmt, v): None = format outside the model; Some (Err StructError) = value does not fit *)
Definition struct_pack (f : string) (v : Z) : option (res (list Z)) :=
  match fmt_parse f with
  | Some (little, std, c) =>
      match code_size std c with
      | Some (n, signed) =>
          let bits := 8 * n in
          let lo := if signed then - 2^(bits - 1) else 0 in
          let hi := if signed then 2^(bits - 1) - 1 else 2^bits - 1 in
          if (v <? lo) || (v >? hi) then Some (Err StructError)
          else let bs := le_bytes (Z.to_nat n) (v mod 2^bits) in
               Some (Ok (if little then bs else rev bs))
      | None => None
      end
  | None => None
  end.

(* ---- the try/except handlers of the pass functions, as REGENERATED from the source (Gen/PassTable.v) ------ *)
Definition conv_instr_ve : bool := converts "resolve_instructions" "ValueError" "encode_func".
Definition conv_seq_int : bool := converts "resolve_sequences" "ValueError" "int".
Definition conv_seq_pack : bool := converts "resolve_sequences" "struct.error" "struct.pack".
Definition conv_pack : bool := converts "resolve_packs" "struct.error" "struct.pack".

(* ---- sizes (Item.size()) ------------------------------------------------------------------------------ *)
Definition seq_width (name : string) : option Z :=
  assoc_str name [("bytes", 1); ("shorts", 2); ("ints", 4); ("longs", 4); ("longlongs", 8)]%string.
Definition short_width (name : string) : option Z :=
  assoc_str name [("db", 1); ("dh", 2); ("dw", 4); ("dd", 8)]%string.
Definition is_big_pseudo (name : string) : bool := mem_str name ["li"; "call"; "tail"]%string.
Definition zlen {A} (l : list A) : Z := Z.of_nat (List.length l).

(* None: outside the model (unsupported pack format) ; Some (Err e): size() raises *)
Definition size (it : item) : option (res Z) :=
  match it with
  | ILabel _ | IConst _ _ => Some (Ok 0)
  | IInstr _ _ _ c => Some (Ok (if c then 2 else 4))
  | IPseudo n _ _ => Some (Ok (if is_big_pseudo n then 8 else 4))
  | IAlign n => Some (Ok n)
  | IString bs => Some (Ok (zlen bs))
  | ISeq n vs => match seq_width n with Some w => Some (Ok (w * zlen vs)) | None => Some (Err KeyError) end
  | IPack f _ => match calcsize f with Some n => Some (Ok n) | None => None end
  | IShort n _ => match short_width n with Some w => Some (Ok w) | None => Some (Err KeyError) end
  | IIncBytes _ sz _ => Some (Ok sz)
  | IBlob d => Some (Ok (zlen d))
  | IZeros n => Some (Ok (Z.max n 0))
  | IFill _ n => Some (Ok n)
  end.

Inductive outcome (A : Type) := Done (a : A) | Fail (e : perr) | Unsupported.
Arguments Done {A}. Arguments Fail {A}. Arguments Unsupported {A}.
Definition obind {A B} (r : outcome A) (f : A -> outcome B) : outcome B :=
  match r with Done a => f a | Fail e => Fail e | Unsupported => Unsupported end.
Notation "x <<- r ;;; k" := (obind r (fun x => k)) (at level 61, r at next level, right associativity).
Definition of_pres {A} (r : pres A) : outcome A := match r with POk a => Done a | PErr e => Fail e end.
Definition of_res {A} (r : res A) : outcome A := match r with Ok a => Done a | Err e => Fail (PRaw e) end.
Definition size_o (it : item) : outcome Z :=
  match size it with Some (Ok n) => Done n | Some (Err e) => Fail (PRaw e) | None => Unsupported end.

(* ---- state ------------------------------------------------------------------------------------------- *)
Definition shrink_after (pos d : Z) (ls : envt) : envt :=
  map (fun kv => if snd kv >? pos then (fst kv, snd kv - d) else kv) ls.

Definition reg_names : list string :=      (* string keys of REGISTERS *)
  flat_map (fun kv => match fst kv with KStr s => [s] | KInt _ => [] end) REGISTERS.
Definition reg_env : envt :=
  flat_map (fun kv => match fst kv with KStr s => [(s, snd kv)] | KInt _ => [] end) REGISTERS.

(* ---- the common shape of the three passes that change sizes -------------------------------------------- *)
(* for every non-label item: replacement items [rs] chosen by [rule] (which may read position and labels);
   position advances by the NEW total size; labels located after the item move down by old - new *)
Definition rule_t := line -> item -> Z -> envt -> outcome (list item).
Fixpoint sizes (l : list item) : outcome Z :=
  match l with [] => Done 0 | it :: r => a <<- size_o it ;;; b <<- sizes r ;;; Done (a + b) end.
Fixpoint gpass (rule : rule_t) (its : list litem) (pos : Z) (labels : envt) (acc : list litem)
  : outcome (list litem * envt) :=
  match its with
  | [] => Done (rev acc, labels)
  | (l, ILabel n) :: r => gpass rule r pos labels ((l, ILabel n) :: acc)
  | (l, it) :: r =>
      old <<- size_o it ;;;
      rs <<- rule l it pos labels ;;;
      new <<- sizes rs ;;;
      let d := old - new in
      gpass rule r (pos + new) (if d >? 0 then shrink_after pos d labels else labels)
            (rev_append (map (fun x => (l, x)) rs) acc)
  end.

(* ---- resolve_constants -------------------------------------------------------------------------------- *)
Fixpoint resolve_constants_lr (its : list litem) (consts : envt) (acc : list litem) : outcome (list litem * envt) :=
  match its with
  | [] => Done (rev acc, consts)
  | (l, IConst name e) :: r =>
      match e with
      | EArith _ | EArithInt _ =>
          if mem_str name reg_names then Fail (PAsm l)
          else if is_int name then Fail (PAsm l)
          else
            v <<- of_pres (eeval relocate_hi relocate_lo l None (fun _ => false) (chain_get consts reg_env) e) ;;;
            resolve_constants_lr r (dict_set name v consts) acc
      | _ => Fail (PAsm l)
      end
  | x :: r => resolve_constants_lr r consts (x :: acc)
  end.

(* ---- resolve_labels ----------------------------------------------------------------------------------- *)
(* the model KEEPS the label items in the list (ghost markers of size 0): every later pass treats them as
   items of size 0 that it passes through, so positions are those of the Python list without them *)
Fixpoint resolve_labels_from (its : list litem) (pos : Z) (labels : envt) (defined : list string) : outcome envt :=
  match its with
  | [] => Done labels
  | (l, ILabel name) :: r =>
      if mem_str name defined then Fail (PAsm l)          (* duplicate label *)
      else resolve_labels_from r pos (dict_set name pos labels) (name :: defined)
  | (_, it) :: r => n <<- size_o it ;;; resolve_labels_from r (pos + n) labels defined
  end.
Definition resolve_labels (its : list litem) (pos : Z) (labels : envt) : outcome envt :=
  resolve_labels_from its pos labels [].

(* ---- resolve_register_aliases ------------------------------------------------------------------------- *)
Definition REGS : list string := ["rd"; "rs1"; "rs2"; "rd_rs1"]%string.
Definition alias_field (consts : envt) (kv : string * fval) : string * fval :=
  match kv with
  | (k, FReg (AStr s)) =>
      if mem_str k REGS then match assoc_str s consts with Some v => (k, FReg (AInt v)) | None => kv end else kv
  | _ => kv
  end.
Definition resolve_register_aliases (its : list litem) (consts : envt) : list litem :=
  map (fun li => match li with
                 | (l, IInstr cls name fs c) => (l, IInstr cls name (map (alias_field consts) fs) c)
                 | _ => li
                 end) its.

(* ---- transform_compressible --------------------------------------------------------------------------- *)
Definition pres_to_res {A} (r : pres A) : res A :=     (* inside predicates every failure propagates *)
  match r with POk a => Ok a | PErr (PAsm _) => Err AssemblerError | PErr (PRaw e) => Err e end.
Definition view_of (l : line) (pos : Z) (consts labels : envt) (name : string) (fs : list (string * fval)) : iview :=
  {| iv_name := name;
     iv_attr := fun f => match field_get f fs with
                         | Some (FReg a) => Ok a
                         | Some _ => Err TypeError
                         | None => Err AttributeError
                         end;
     iv_imm := match field_get "imm" fs with
               | Some (FExpr e) =>
                   pres_to_res (eeval relocate_hi relocate_lo l (Some pos)
                                      (fun k => match chain_get consts labels k with Some _ => true | None => false end)
                                      (chain_get consts labels) e)
               | Some _ => Err AttributeError
               | None => Err AttributeError
               end |}.
Fixpoint all_preds (ps : list pred) (i : iview) : res bool :=
  match ps with
  | [] => Ok true
  | p :: r => b <- pred_sem p i ;; if b then all_preds r i else Ok false
  end.
Fixpoint select_rule (cr : list (string * list pred)) (i : iview) : res (option string) :=
  match cr with
  | [] => Ok None
  | (n, ps) :: r => b <- all_preds ps i ;; if b then Ok (Some n) else select_rule r i
  end.
(* Arithmetic(item.f): the harness attaches, for every token that may be wrapped, its parse as the ghost
   field "f#arith" *)
Definition build_field (fs : list (string * fval)) (c : cfield) : option fval :=
  match c with
  | FItem a => field_get a fs
  | FArith a =>
      match field_get a fs with
      | Some (FReg (AStr _)) => field_get (String.append "#" a) fs
      | Some (FReg (AInt z)) => Some (FExpr (EArithInt z))
      | _ => None
      end
  | FArithReg a =>
      match field_get a fs with
      | Some (FReg r) => match lookup_register r false with Ok n => Some (FExpr (EArith (ANum n))) | Err _ => None end
      | _ => None
      end
  end.
Fixpoint zip_fields (names : list string) (vals : list (option fval)) : option (list (string * fval)) :=
  match names, vals with
  | [], [] => Some []
  | n :: ns, Some v :: vs => match zip_fields ns vs with Some r => Some ((n, v) :: r) | None => None end
  | _, _ => None
  end.
Definition build_compressed (rule : string) (fs : list (string * fval)) : option item :=
  match assoc_str rule construction with
  | Some (final, cls, cfs) =>
      match assoc_str cls class_fields with
      | Some ("name" :: fnames)%string =>
          match zip_fields fnames (map (build_field fs) cfs) with
          | Some nfs => Some (IInstr cls final nfs true)
          | None => None
          end
      | _ => None
      end
  | None => None
  end.
Definition perr_of_pred (l : line) (e : exn) : perr :=
  match e with
  | AssemblerError => PAsm l
  | ValueError => if select_converts_value_error then PAsm l else PRaw e
  | _ => PRaw e
  end.
(* `item.imm.eval(position, constants, line)`: evaluation against the constants only (no labels) *)
Definition eval_consts (l : line) (pos : Z) (consts : envt) (e : expr) : pres Z :=
  eeval relocate_hi relocate_lo l (Some pos)
        (fun k => match assoc_str k consts with Some _ => true | None => false end) (fun k => assoc_str k consts) e.
(* is_position_relative / is_settled of asm.py *)
Fixpoint is_position_relative (e : expr) : bool :=
  match e with
  | EOff _ => true
  | EPos _ e' | EHi e' | ELo e' => is_position_relative e'
  | EArith _ | EArithInt _ => false
  end.
Definition is_settled (l : line) (pos : Z) (consts : envt) (e : expr) : outcome bool :=
  if is_position_relative e then Done false
  else match eval_consts l pos consts e with
       | POk _ => Done true
       | PErr (PAsm _) => Done false
       | PErr e' => Fail e'
       end.
Definition in_consts (consts : envt) (r : string) : bool :=
  match assoc_str r consts with Some _ => true | None => false end.
(* the guard in front of the rule selection: Fail = propagate, Done true = skip compression *)
Definition imm_unstable (l : line) (pos : Z) (consts : envt) (cls : string) (fs : list (string * fval)) : outcome bool :=
  match field_get "imm" fs with
  | Some (FExpr e) =>
      let jump := String.eqb cls "BTypeInstruction" || String.eqb cls "JTypeInstruction" in
      let to_label := match e with EOff r => negb (in_consts consts r) | _ => false end in
      if jump && to_label then Done false
      else (st <<- is_settled l pos consts e ;;; Done (negb st))
  | Some _ => Fail (PRaw AttributeError)
  | None => Done false
  end.

Definition compress_rule (consts : envt) : rule_t := fun l it pos labels =>
  match it with
  | IInstr cls name fs c =>
      u <<- imm_unstable l pos consts cls fs ;;;
      if u then Done [it] else
      match select_rule criteria (view_of l pos consts labels name fs) with
      | Err e => Fail (perr_of_pred l e)
      | Ok (Some rule) =>
          match build_compressed rule fs with
          | Some it' => Done [it']
          | None => Unsupported
          end
      | Ok None => Done [it]
      end
  | _ => Done [it]
  end.
Definition transform_compressible (its : list litem) (consts labels : envt) : outcome (list litem * envt) :=
  gpass (compress_rule consts) its 0 labels [].

(* ---- transform_pseudo_instructions -------------------------------------------------------------------- *)
Definition zero_e : expr := EArith (ANum 0).
Definition mkI (name : string) (rd rs1 : arg) (imm : expr) (auipc : bool) : item :=
  IInstr "ITypeInstruction" name [("rd", FReg rd); ("rs1", FReg rs1); ("imm", FExpr imm); ("is_auipc_jump", FBool auipc)]%string false.
Definition mkR (name : string) (rd rs1 rs2 : arg) (ghost : option expr) : item :=
  IInstr "RTypeInstruction" name
    (app [("rd", FReg rd); ("rs1", FReg rs1); ("rs2", FReg rs2)]%string
         match ghost with Some g => [("#rs2", FExpr g)]%string | None => [] end) false.
Definition mkB (name : string) (rs1 rs2 : arg) (imm : expr) : item :=
  IInstr "BTypeInstruction" name [("rs1", FReg rs1); ("rs2", FReg rs2); ("imm", FExpr imm)]%string false.
Definition mkU (name : string) (rd : arg) (imm : expr) : item :=
  IInstr "UTypeInstruction" name [("rd", FReg rd); ("imm", FExpr imm)]%string false.
Definition mkJ (name : string) (rd : arg) (imm : expr) : item :=
  IInstr "JTypeInstruction" name [("rd", FReg rd); ("imm", FExpr imm)]%string false.
Definition mkFence (succ pred : Z) : item :=
  IInstr "FenceInstruction" "fence" [("succ", FReg (AInt succ)); ("pred", FReg (AInt pred))]%string false.
Definition St (s : string) : arg := AStr s.
(* the immediate the one-instruction forms of call / tail carry (mirrors the code) *)
Definition near_imm (e : expr) : expr := e.

Inductive pexp :=
| One (it : item)                                   (* a single 4-byte instruction *)
| Choice (e : expr) (target : option string) (lo hi : Z) (near : item) (far1 far2 : item).   (* li (None) / call / tail (Some reference) *)

Definition unpack_err {A} : outcome A := Fail (PRaw ValueError).
Definition expand_pseudo (l : line) (name : string) (args : list string) (pimm : pres expr) : outcome pexp :=
  let s := String.eqb name in
  if s "nop"%string then Done (One (mkI "addi" (St "x0") (St "x0") zero_e false))
  else if s "li"%string then
    match args with
    | rd :: _ =>
        imm <<- of_pres pimm ;;;
        Done (Choice imm None (-2048) 2047 (mkI "addi" (St rd) (St "x0") (ELo imm) false)
                     (mkU "lui" (St rd) (EHi imm)) (mkI "addi" (St rd) (St rd) (ELo imm) true))
    | [] => unpack_err
    end
  else if s "mv"%string then
    match args with [rd; rs] => Done (One (mkI "addi" (St rd) (St rs) zero_e false)) | _ => unpack_err end
  else if s "not"%string then
    match args with [rd; rs] => Done (One (mkI "xori" (St rd) (St rs) (EArith (AUn UNeg (ANum 1))) false)) | _ => unpack_err end
  else if s "neg"%string then
    match args with [rd; rs] => Done (One (mkR "sub" (St rd) (St "x0") (St rs) None)) | _ => unpack_err end
  else if s "seqz"%string then
    match args with [rd; rs] => Done (One (mkI "sltiu" (St rd) (St rs) (EArith (ANum 1)) false)) | _ => unpack_err end
  else if s "snez"%string then
    match args with [rd; rs] => Done (One (mkR "sltu" (St rd) (St "x0") (St rs) None)) | _ => unpack_err end
  else if s "sltz"%string then
    match args with [rd; rs] => Done (One (mkR "slt" (St rd) (St rs) (St "x0") None)) | _ => unpack_err end
  else if s "sgtz"%string then
    match args with [rd; rs] => Done (One (mkR "slt" (St rd) (St "x0") (St rs) None)) | _ => unpack_err end
  else if s "beqz"%string then
    match args with [rs; ref] => Done (One (mkB "beq" (St rs) (St "x0") (EOff ref))) | _ => unpack_err end
  else if s "bnez"%string then
    match args with [rs; ref] => Done (One (mkB "bne" (St rs) (St "x0") (EOff ref))) | _ => unpack_err end
  else if s "bgez"%string then
    match args with [rs; ref] => Done (One (mkB "bge" (St rs) (St "x0") (EOff ref))) | _ => unpack_err end
  else if s "bltz"%string then
    match args with [rs; ref] => Done (One (mkB "blt" (St rs) (St "x0") (EOff ref))) | _ => unpack_err end
  else if s "blez"%string then
    match args with [rs; ref] => Done (One (mkB "bge" (St "x0") (St rs) (EOff ref))) | _ => unpack_err end
  else if s "bgtz"%string then
    match args with [rs; ref] => Done (One (mkB "blt" (St "x0") (St rs) (EOff ref))) | _ => unpack_err end
  else if s "bgt"%string then
    match args with [rs; rt; ref] => Done (One (mkB "blt" (St rt) (St rs) (EOff ref))) | _ => unpack_err end
  else if s "ble"%string then
    match args with [rs; rt; ref] => Done (One (mkB "bge" (St rt) (St rs) (EOff ref))) | _ => unpack_err end
  else if s "bgtu"%string then
    match args with [rs; rt; ref] => Done (One (mkB "bltu" (St rt) (St rs) (EOff ref))) | _ => unpack_err end
  else if s "bleu"%string then
    match args with [rs; rt; ref] => Done (One (mkB "bgeu" (St rt) (St rs) (EOff ref))) | _ => unpack_err end
  else if s "j"%string then
    match args with [ref] => Done (One (mkJ "jal" (St "x0") (EOff ref))) | _ => unpack_err end
  else if s "jal"%string then
    match args with [ref] => Done (One (mkJ "jal" (St "x1") (EOff ref))) | _ => unpack_err end
  else if s "jr"%string then
    match args with [rs] => Done (One (mkI "jalr" (St "x0") (St rs) zero_e false)) | _ => unpack_err end
  else if s "jalr"%string then
    match args with [rs] => Done (One (mkI "jalr" (St "x1") (St rs) zero_e false)) | _ => unpack_err end
  else if s "ret"%string then Done (One (mkI "jalr" (St "x0") (St "x1") zero_e false))
  else if s "call"%string then
    match args with
    | [ref] => Done (Choice (EOff ref) (Some ref) (-1048576) 1048575 (mkJ "jal" (St "x1") (near_imm (EOff ref)))
                            (mkU "auipc" (St "x1") (EHi (EOff ref))) (mkI "jalr" (St "x1") (St "x1") (ELo (EOff ref)) true))
    | _ => unpack_err
    end
  else if s "tail"%string then
    match args with
    | [ref] => Done (Choice (EOff ref) (Some ref) (-1048576) 1048575 (mkJ "jal" (St "x0") (near_imm (EOff ref)))
                            (mkU "auipc" (St "x6") (EHi (EOff ref))) (mkI "jalr" (St "x0") (St "x6") (ELo (EOff ref)) true))
    | _ => unpack_err
    end
  else if s "fence"%string then Done (One (mkFence 15 15))
  else Fail (PAsm l).

Definition pseudo_rule (consts : envt) : rule_t := fun l it pos labels =>
  match it with
  | IPseudo name args pimm =>
      px <<- expand_pseudo l name args pimm ;;;
      match px with
      | One it' => Done [it']
      | Choice e target lo hi near far1 far2 =>
          v <<- of_pres (eeval relocate_hi relocate_lo l (Some pos)
                              (fun k => match chain_get consts labels k with Some _ => true | None => false end)
                              (chain_get consts labels) e) ;;;
          let v := c_int32 v in
          stable <<- (match target with
                     | None => is_settled l pos consts e                 (* li *)
                     | Some r => Done (negb (in_consts consts r))       (* call / tail: only the distance to a label *)
                     end) ;;;
          if stable && (v >=? lo) && (v <=? hi) then Done [near] else Done [far1; far2]
      end
  | _ => Done [it]
  end.
Definition transform_pseudo (its : list litem) (consts labels : envt) : outcome (list litem * envt) :=
  gpass (pseudo_rule consts) its 0 labels [].

(* ---- resolve_aligns ----------------------------------------------------------------------------------- *)
Definition align_rule : rule_t := fun l it pos labels =>
  match it with
  | IAlign n =>
      if n =? 0 then Fail (PRaw OtherExn)        (* ZeroDivisionError *)
      else
        let padding0 := n - (pos mod n) in
        let padding := if padding0 =? n then 0 else padding0 in
        if padding =? 0 then Done [] else Done [IZeros padding]
  | _ => Done [it]
  end.
Definition resolve_aligns (its : list litem) (labels : envt) : outcome (list litem * envt) :=
  gpass align_rule its 0 labels [].

(* ---- resolve_immediates ------------------------------------------------------------------------------- *)
Definition eval_here (l : line) (pos : Z) (consts labels : envt) (e : expr) : outcome Z :=
  of_pres (eeval relocate_hi relocate_lo l (Some pos)
                 (fun k => match chain_get consts labels k with Some _ => true | None => false end)
                 (chain_get consts labels) e).
Definition imm_of (l : line) (pos : Z) (consts labels : envt) (v : fval) : outcome Z :=
  match v with
  | FExpr e => eval_here l pos consts labels e
  | _ => Fail (PRaw AttributeError)       (* int / str has no .eval *)
  end.
Fixpoint resolve_immediates (its : list litem) (pos : Z) (consts labels : envt) (acc : list litem) : outcome (list litem) :=
  match its with
  | [] => Done (rev acc)
  | (l, IInstr cls name fs c) :: r =>
      match field_get "imm" fs with
      | Some v =>
          let back := match field_get "is_auipc_jump" fs with Some (FBool true) => 4 | _ => 0 end in
          imm <<- imm_of l (pos - back) consts labels v ;;;
          resolve_immediates r (pos + (if c then 2 else 4)) consts labels
                             ((l, IInstr cls name (field_set "imm" (FInt imm) fs) c) :: acc)
      | None => resolve_immediates r (pos + (if c then 2 else 4)) consts labels ((l, IInstr cls name fs c) :: acc)
      end
  | (l, IPack f v) :: r =>
      imm <<- imm_of l pos consts labels v ;;;
      n <<- size_o (IPack f v) ;;;
      resolve_immediates r (pos + n) consts labels ((l, IPack f (FInt imm)) :: acc)
  | (l, IShort nm v) :: r =>
      imm <<- imm_of l pos consts labels v ;;;
      n <<- size_o (IShort nm v) ;;;
      resolve_immediates r (pos + n) consts labels ((l, IShort nm (FInt imm)) :: acc)
  | (l, it) :: r => n <<- size_o it ;;; resolve_immediates r (pos + n) consts labels ((l, it) :: acc)
  end.

(* ---- resolve_instructions ----------------------------------------------------------------------------- *)
Definition arg_of_fval (v : fval) : option arg :=
  match v with FReg a => Some a | FInt z => Some (AInt z) | _ => None end.
Fixpoint args_of (fs : list (string * fval)) : list arg :=
  match fs with
  | [] => []
  | (k, v) :: r =>
      if String.eqb k "is_auipc_jump" then args_of r
      else if String.eqb (substring 0 1 k) "#" then args_of r
      else match arg_of_fval v with Some a => a :: args_of r | None => AStr "<expr>" :: args_of r end
  end.
Definition is_atomic_cls (cls : string) : bool :=
  String.eqb cls "ATypeInstruction" || String.eqb cls "ALTypeInstruction".
Definition split_last2 (l : list arg) : option (list arg * arg * arg) :=
  match rev l with rl :: aq :: r => Some (rev r, aq, rl) | _ => None end.
Definition encode_item (l : line) (cls name : string) (fs : list (string * fval)) (c : bool) : outcome (list Z) :=
  let args := args_of fs in
  let r :=
    if is_atomic_cls cls then
      match split_last2 args with
      | Some (pos, aq, rl) => encode name pos [("aq", aq); ("rl", rl)]%string
      | None => Err ValueError
      end
    else encode name args [] in
  match r with
  | Ok code => Done (le_bytes (if c then 2 else 4) code)
  | Err ValueError => if conv_instr_ve then Fail (PAsm l) else Fail (PRaw ValueError)
  | Err e => Fail (PRaw e)
  end.
Fixpoint resolve_instructions (its : list litem) (acc : list litem) : outcome (list litem) :=
  match its with
  | [] => Done (rev acc)
  | (l, IInstr cls name fs c) :: r =>
      bs <<- encode_item l cls name fs c ;;; resolve_instructions r ((l, IBlob bs) :: acc)
  | x :: r => resolve_instructions r (x :: acc)
  end.

(* ---- data passes -------------------------------------------------------------------------------------- *)
Definition resolve_strings (its : list litem) : list litem :=
  map (fun li => match li with (l, IString bs) => (l, IBlob bs) | _ => li end) its.

Fixpoint seq_bytes (l : line) (fmtc : string) (vals : list string) : outcome (list Z) :=
  match vals with
  | [] => Done []
  | v :: r =>
      match py_int_lit v with
      | None => Fail (PAsm l)
      | Some z =>
          let f := String.append "<" (if z <? 0 then lower fmtc else fmtc) in
          match struct_pack f z with
          | Some (Ok bs) => rest <<- seq_bytes l fmtc r ;;; Done (app bs rest)
          | Some (Err e) => if conv_seq_pack then Fail (PAsm l) else Fail (PRaw e)   (* struct.error -> AssemblerError *)
          | None => Unsupported
          end
      end
  end.
Definition seq_fmt (name : string) : option string :=
  assoc_str name [("bytes", "B"); ("shorts", "H"); ("ints", "I"); ("longs", "L"); ("longlongs", "Q")]%string.
(* all values are converted first (list comprehension), then packed *)
Definition all_ints (vals : list string) : bool := forallb is_int vals.
Fixpoint resolve_sequences (its : list litem) (acc : list litem) : outcome (list litem) :=
  match its with
  | [] => Done (rev acc)
  | (l, ISeq name vals) :: r =>
      if negb (all_ints vals) then (if conv_seq_int then Fail (PAsm l) else Fail (PRaw ValueError))
      else match seq_fmt name with
           | Some f => bs <<- seq_bytes l f vals ;;; resolve_sequences r ((l, IBlob bs) :: acc)
           | None => Fail (PRaw KeyError)
           end
  | x :: r => resolve_sequences r (x :: acc)
  end.
Definition short_fmt (name : string) : option string :=
  assoc_str name [("db", "B"); ("dh", "H"); ("dw", "I"); ("dd", "Q")]%string.
Fixpoint transform_shorthand (its : list litem) (acc : list litem) : outcome (list litem) :=
  match its with
  | [] => Done (rev acc)
  | (l, IShort name (FInt z)) :: r =>
      match short_fmt name with
      | Some f => transform_shorthand r ((l, IPack (String.append "<" (if z <? 0 then lower f else f)) (FInt z)) :: acc)
      | None => Fail (PRaw KeyError)
      end
  | (l, IShort _ _) :: r => Fail (PRaw TypeError)
  | x :: r => transform_shorthand r (x :: acc)
  end.
Fixpoint resolve_packs (its : list litem) (acc : list litem) : outcome (list litem) :=
  match its with
  | [] => Done (rev acc)
  | (l, IPack f (FInt z)) :: r =>
      match struct_pack f z with
      | Some (Ok bs) => resolve_packs r ((l, IBlob bs) :: acc)
      | Some (Err e) => if conv_pack then Fail (PAsm l) else Fail (PRaw e)           (* struct.error -> AssemblerError *)
      | None => Unsupported
      end
  | (l, IPack _ _) :: r => Fail (PAsm l)
  | x :: r => resolve_packs r (x :: acc)
  end.

(* output chunks, run-length for zero padding and by reference for included files *)
Inductive chunk := CBytes (bs : list Z) | CZeros (n : Z) | CFill (b n : Z) | CFile (path : string) (size : Z).
Fixpoint resolve_include_bytes (its : list litem) (acc : list litem) : outcome (list litem) :=
  match its with
  | [] => Done (rev acc)
  | (l, IIncBytes path sz actual) :: r =>
      match actual with
      | None => Fail (PRaw OtherExn)                    (* open() fails: FileNotFoundError / IsADirectoryError *)
      | Some n => if n =? sz then resolve_include_bytes r ((l, IIncBytes path sz actual) :: acc)
                  else Fail (PRaw AssertionError)
      end
  | x :: r => resolve_include_bytes r (x :: acc)
  end.
Fixpoint resolve_blobs (its : list litem) : outcome (list (line * chunk)) :=
  match its with
  | [] => Done []
  | (l, IBlob bs) :: r => rest <<- resolve_blobs r ;;; Done ((l, CBytes bs) :: rest)
  | (l, IZeros n) :: r => rest <<- resolve_blobs r ;;; Done ((l, CZeros n) :: rest)
  | (l, IFill b n) :: r => rest <<- resolve_blobs r ;;; Done ((l, CFill b n) :: rest)
  | (l, IIncBytes p sz _) :: r => rest <<- resolve_blobs r ;;; Done ((l, CFile p sz) :: rest)
  | (l, ILabel _) :: r => resolve_blobs r             (* ghost marker *)
  | _ :: r => Fail (PRaw ValueError)
  end.

(* ---- assemble (items -> chunks, constants, labels) ---------------------------------------------------- *)
Record result := { r_chunks : list (line * chunk); r_consts : envt; r_labels : envt }.
Definition assemble_items (its : list litem) (consts0 labels0 : envt) (compress : bool) : outcome result :=
  p <<- resolve_constants_lr its consts0 [] ;;;
  let '(its, consts) := p in
  labels <<- resolve_labels its 0 labels0 ;;;
  let its := resolve_register_aliases its consts in
  p <<- (if compress then transform_compressible its consts labels else Done (its, labels)) ;;;
  let '(its, labels) := p in
  p <<- transform_pseudo its consts labels ;;;
  let '(its, labels) := p in
  let its := resolve_register_aliases its consts in
  p <<- (if compress then transform_compressible its consts labels else Done (its, labels)) ;;;
  let '(its, labels) := p in
  p <<- resolve_aligns its labels ;;;
  let '(its, labels) := p in
  its <<- resolve_immediates its 0 consts labels [] ;;;
  its <<- resolve_instructions its [] ;;;
  let its := resolve_strings its in
  its <<- resolve_sequences its [] ;;;
  its <<- transform_shorthand its [] ;;;
  its <<- resolve_packs its [] ;;;
  its <<- resolve_include_bytes its [] ;;;
  chunks <<- resolve_blobs its ;;;
  Done {| r_chunks := chunks; r_consts := consts; r_labels := labels |}.
