(* Hand-written model of asm.lex_tokens on character lists (no regex library: the four regexes are written as
   direct recursions).  No proofs in this file.  Tied to the code by the front-end correspondence
   (tools/frontend_engine.py): model tokens vs the real lex_tokens on the same lines. *)
From Coq Require Import ZArith List Bool String Ascii.
From BB Require Import Base.PyBase.
Import ListNotations.
Open Scope Z_scope.

Definition c_hash : ascii := ascii_of_N 35.
Definition c_lpar : ascii := ascii_of_N 40.
Definition c_rpar : ascii := ascii_of_N 41.
Definition c_sp : ascii := ascii_of_N 32.
Definition c_bsl : ascii := ascii_of_N 92.
Definition c_quote : ascii := ascii_of_N 39.
Definition is_c (a b : ascii) : bool := Ascii.eqb a b.

(* ---- the regex  \s*KW ( . * )  matched at the start of the line: all leading whitespace, then the keyword and ONE
   blank; group 1 is the rest of the line --- *)
Fixpoint prefix_rest (p l : list ascii) : option (list ascii) :=
  match p with
  | [] => Some l
  | a :: p' => match l with c :: l' => if is_c a c then prefix_rest p' l' else None | [] => None end
  end.
Definition kw_error : list ascii := chars "error ".
Definition kw_string : list ascii := chars "string ".
Definition re_kw (kw l : list ascii) : option (list ascii) := prefix_rest kw (lstrip_l l).

(* ---- asm.decode_escapes for ASCII text and the simple escapes ------------------------------------------- *)
(* the code doubles an active backslash in front of a character above U+00FF and computes
   text.encode('latin-1','backslashreplace').decode('unicode_escape'); on ASCII text both steps before the decoder are the identity.
   None: outside the modelled fragment (octal / \x / \u / \U / \N escapes, unrecognised escapes, a lone trailing backslash, non-ASCII);
   the whole expression on arbitrary text is modelled in Proofs/StringUnicode.v (decode_escapes_x, agreeing with this function where it
   is defined: C10_string_extension_conservative) *)
Definition simple_escape (c : ascii) : option ascii :=
  let n := zc c in
  if n =? 110 then Some (ascii_of_N 10)        (* \n *)
  else if n =? 116 then Some (ascii_of_N 9)    (* \t *)
  else if n =? 114 then Some (ascii_of_N 13)   (* \r *)
  else if n =? 92 then Some c                  (* backslash *)
  else if n =? 39 then Some c                  (* quote *)
  else if n =? 34 then Some c                  (* double quote *)
  else if n =? 97 then Some (ascii_of_N 7)     (* \a *)
  else if n =? 98 then Some (ascii_of_N 8)     (* \b *)
  else if n =? 102 then Some (ascii_of_N 12)   (* \f *)
  else if n =? 118 then Some (ascii_of_N 11)   (* \v *)
  else None.
Fixpoint unicode_escape (l : list ascii) : option (list ascii) :=
  match l with
  | [] => Some []
  | c :: r =>
      if 128 <=? zc c then None
      else if is_c c c_bsl then
        match r with
        | e :: r' => match simple_escape e, unicode_escape r' with
                     | Some x, Some y => Some (x :: y)
                     | _, _ => None
                     end
        | [] => None
        end
      else option_map (cons c) (unicode_escape r)
  end.

(* ---- re.sub(r"'(\\.|[^\\'])'", char_value, ...): a character literal becomes the decimal text of its code ------------- *)
(* escape pairs \c: the simple escapes, one octal digit, anything else is left as it is (decode_escapes gives two
   characters, or raises for a truncated \x \u \U \N: the text is then kept) *)
Definition char_escape (c : ascii) : option Z :=
  let n := zc c in
  if (48 <=? n) && (n <=? 55) then Some (n - 48)
  else match simple_escape c with Some y => Some (zc y) | None => None end.
Fixpoint protect_chars (l : list ascii) : list ascii :=
  match l with
  | [] => []
  | c :: r =>
      if is_c c c_quote then
        match r with
        | x :: q :: r' =>
            if is_c x c_bsl then
              match r' with
              | q2 :: r'' =>
                  if is_c q2 c_quote then
                    match char_escape q with
                    | Some v => app (chars (dec_of_Z v)) (protect_chars r'')
                    | None => c :: protect_chars r
                    end
                  else c :: protect_chars r
              | [] => c :: protect_chars r
              end
            else if is_c x c_quote then c :: protect_chars r
            else if is_c q c_quote then app (chars (dec_of_Z (zc x))) (protect_chars r')
            else c :: protect_chars r
        | _ => c :: protect_chars r
        end
      else c :: protect_chars r
  end.

(* ---- re.sub of #.*$ by the empty string ------------------------------------------------------------------------------- *)
Fixpoint strip_comment (l : list ascii) : list ascii :=
  match l with [] => [] | c :: r => if is_c c c_hash then [] else c :: strip_comment r end.

(* ---- str.replace of each parenthesis by the same parenthesis between two blanks ------------------------------------------------------------ *)
Definition is_paren (c : ascii) : bool := is_c c c_lpar || is_c c c_rpar.
Fixpoint pad_parens (l : list ascii) : list ascii :=
  match l with
  | [] => []
  | c :: r => if is_paren c then c_sp :: c :: c_sp :: pad_parens r else c :: pad_parens r
  end.

(* ---- re.split on [\s,]+ followed by the removal of empty strings ------------------------------------------------- *)
(* splitting at every separator CHARACTER and dropping the empty pieces gives the same list as splitting at
   maximal separator runs and dropping the (leading / trailing) empty pieces *)
Definition sepc (c : ascii) : bool := is_ws c || (zc c =? 44).
Fixpoint split_on (p : ascii -> bool) (cur l : list ascii) : list (list ascii) :=
  match l with
  | [] => [rev cur]
  | c :: r => if p c then rev cur :: split_on p [] r else split_on p (c :: cur) r
  end.
Definition nonempty (t : list ascii) : bool := match t with [] => false | _ => true end.
Definition tokens_of (l : list ascii) : list (list ascii) := filter nonempty (split_on sepc [] l).

Definition lex_normal (l : list ascii) : list (list ascii) :=
  let contents := strip_l (pad_parens (strip_comment (protect_chars l))) in
  match contents with
  | [] => []
  | _ => tokens_of contents
  end.

Inductive lexres := LToks (ts : list (list ascii)) | LUnsup.

Definition lex_tokens_l (l : list ascii) : lexres :=
  match re_kw kw_error l with
  | Some msg => match unicode_escape msg with Some m => LToks [chars "error"; m] | None => LUnsup end
  | None =>
      match re_kw kw_string l with
      | Some v => match unicode_escape v with Some m => LToks [chars "string"; m] | None => LUnsup end
      | None => LToks (lex_normal l)
      end
  end.

Definition lex_tokens (s : string) : option (list string) :=
  match lex_tokens_l (chars s) with LToks ts => Some (map unchars ts) | LUnsup => None end.
