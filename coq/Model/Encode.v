(* Hand-written glue: the call INSTRUCTIONS[name] applied to positional and keyword operands, over the generated dictionary. *)
From Coq Require Import ZArith List String.
From BB Require Import Base.PyBase Gen.Encoders.
Definition encode (name : string) (pos : list arg) (kw : list (string * arg)) : res Z :=
  match assoc_str name INSTRUCTIONS_final with
  | Some f => f pos kw
  | None => Err KeyError
  end.
