(* asm.read_lines over an abstract file system: include splicing (any depth, explicit fuel), search order
   (-i directories in order, then the directory of the including file / the cwd for a source string),
   include_bytes (size of the looked-up file appended to the line), blank-line dropping, physical line numbers.
   Also the small part of os.path the reader and cli_main use.  Hand-written, tied to the real code by
   tools/files_engine.py (differential runs on generated trees).  No proofs in this file. *)
From Coq Require Import ZArith List Bool String Ascii.
From BB Require Import Base.PyBase.
Import ListNotations.
Open Scope string_scope.
Open Scope Z_scope.

(* ---- abstract file system --------------------------------------------------------------------- *)
(* keys are canonical absolute paths "/a/b/c" ("/" is the root); [fs_dirs] lists EVERY directory (closed under
   parents); file contents are byte strings *)
Record fsys := { fs_files : list (string * string); fs_dirs : list string }.

(* ---- os.path (POSIX) ------------------------------------------------------------------------------ *)
Fixpoint split_c (sep : ascii) (s : string) : list string :=
  match s with
  | EmptyString => [EmptyString]
  | String c r =>
      if Ascii.eqb c sep then EmptyString :: split_c sep r
      else match split_c sep r with
           | h :: t => String c h :: t
           | [] => [String c EmptyString]
           end
  end.
Definition nonempty (s : string) : bool := match s with EmptyString => false | _ => true end.
Definition comps (p : string) : list string := filter nonempty (split_c "/" p).
Definition is_abs (p : string) : bool := match p with String "/" _ => true | _ => false end.
Fixpoint last_char (s : string) : option ascii :=
  match s with EmptyString => None | String c EmptyString => Some c | String _ r => last_char r end.
Definition ends_slash (s : string) : bool := match last_char s with Some "/"%char => true | _ => false end.
(* os.path.join(a, b) *)
Definition join_path (a b : string) : string :=
  if is_abs b then b
  else if negb (nonempty a) then b
  else if ends_slash a then a ++ b
  else a ++ "/" ++ b.
Definition key_of (cs : list string) : string := String "/" (String.concat "/" cs).

(* lexical normalisation (os.path.normpath of an absolute path) *)
Fixpoint norm (stack cs : list string) : list string :=
  match cs with
  | [] => stack
  | c :: r => if String.eqb c "." then norm stack r
              else if String.eqb c ".." then norm (removelast stack) r
              else norm (app stack [c]) r
  end.
(* os.path.abspath(p) with the given working directory (cwd is absolute) *)
Definition abs_comps (cwd p : string) : list string := norm [] (comps (join_path cwd p)).
Definition abspath (cwd p : string) : string := key_of (abs_comps cwd p).
(* os.path.dirname(os.path.abspath(p)) *)
Definition base_dir (cwd p : string) : string := key_of (removelast (abs_comps cwd p)).

(* what the operating system does with a path: ".." needs the directory it leaves to exist *)
Definition is_dir_k (fs : fsys) (cs : list string) : bool := mem_str (key_of cs) (fs_dirs fs).
Definition file_k (fs : fsys) (cs : list string) : option string := assoc_str (key_of cs) (fs_files fs).
Fixpoint walk (fs : fsys) (stack cs : list string) : option (list string) :=
  match cs with
  | [] => Some stack
  | c :: r => if String.eqb c "." then walk fs stack r
              else if String.eqb c ".." then (if is_dir_k fs stack then walk fs (removelast stack) r else None)
              else walk fs (app stack [c]) r
  end.
Definition resolve (fs : fsys) (cwd p : string) : option (list string) :=
  if nonempty p then walk fs [] (comps (join_path cwd p)) else None.
Definition fs_read (fs : fsys) (cwd p : string) : option string :=
  match resolve fs cwd p with Some cs => file_k fs cs | None => None end.
Definition fs_isdir (fs : fsys) (cwd p : string) : bool :=
  match resolve fs cwd p with Some cs => is_dir_k fs cs | None => false end.
Definition fs_exists (fs : fsys) (cwd p : string) : bool :=
  match resolve fs cwd p with
  | Some cs => is_dir_k fs cs || match file_k fs cs with Some _ => true | None => false end
  | None => false
  end.
(* open(p, 'w').write(data): the directory is assumed to exist and to be writable (environment faults are
   outside the model) *)
Definition fs_write (fs : fsys) (cwd p data : string) : fsys :=
  {| fs_files := dict_set (abspath cwd p) data (fs_files fs); fs_dirs := fs_dirs fs |}.

(* ---- str.splitlines / split / strip ------------------------------------------------------------ *)
Definition a_of (z : Z) : ascii := ascii_of_N (Z.to_N z).
Definition is_break1 (c : ascii) : bool :=
  let n := zc c in ((10 <=? n) && (n <=? 13)) || ((28 <=? n) && (n <=? 30)).
(* [cur]: characters of the current line, reversed.  Breaks: \n \r\n \r \v \f \x1c \x1d \x1e, U+0085 (C2 85),
   U+2028 / U+2029 (E2 80 A8 / A9); no empty last line *)
Fixpoint splitlines_a (s : string) (cur : list ascii) : list string :=
  let flush := unchars (rev cur) in
  match s with
  | EmptyString => match cur with [] => [] | _ => [flush] end
  | String c r =>
      if zc c =? 13 then
        match r with
        | String c2 r2 => if zc c2 =? 10 then flush :: splitlines_a r2 [] else flush :: splitlines_a r []
        | EmptyString => flush :: splitlines_a r []
        end
      else if is_break1 c then flush :: splitlines_a r []
      else if zc c =? 194 then
        match r with
        | String c2 r2 => if zc c2 =? 133 then flush :: splitlines_a r2 [] else splitlines_a r (c :: cur)
        | EmptyString => splitlines_a r (c :: cur)
        end
      else if zc c =? 226 then
        match r with
        | String c2 (String c3 r3) =>
            if (zc c2 =? 128) && ((zc c3 =? 168) || (zc c3 =? 169)) then flush :: splitlines_a r3 []
            else splitlines_a r (c :: cur)
        | _ => splitlines_a r (c :: cur)
        end
      else splitlines_a r (c :: cur)
  end.
Definition splitlines (s : string) : list string := splitlines_a s [].
Fixpoint number (i : Z) (l : list string) : list (Z * string) :=
  match l with [] => [] | x :: r => (i, x) :: number (i + 1) r end.

Definition is_blank (s : string) : bool := forallb is_ws (chars s).
(* str.split() *)
Fixpoint split_ws_a (l cur : list ascii) : list string :=
  match l with
  | [] => match cur with [] => [] | _ => [unchars (rev cur)] end
  | c :: r => if is_ws c then match cur with [] => split_ws_a r [] | _ => unchars (rev cur) :: split_ws_a r [] end
              else split_ws_a r (c :: cur)
  end.
Definition split_ws (s : string) : list string := split_ws_a (chars s) [].
(* re.sub(r'#.*$', '', s) on a single line *)
Fixpoint strip_comment (s : string) : string :=
  match s with
  | EmptyString => EmptyString
  | String c r => if zc c =? 35 then EmptyString else String c (strip_comment r)
  end.
Definition is_quote (c : ascii) : bool := (zc c =? 34) || (zc c =? 39).
Fixpoint lstrip_q (l : list ascii) : list ascii :=
  match l with c :: r => if is_quote c then lstrip_q r else l | [] => [] end.
Definition strip_quotes (s : string) : string := unchars (rev (lstrip_q (rev (lstrip_q (chars s))))).

(* ---- the reader -------------------------------------------------------------------------------- *)
Record line := { l_file : string; l_num : Z; l_contents : string }.
Inductive msg := MIncludeSyntax | MIncludeMissing | MBytesSyntax | MBytesMissing.
Inductive rerr :=
  | EAsm (file : string) (num : Z) (m : msg)   (* AssemblerError raised by read_lines, with its Line *)
  | ERaw                                       (* any other exception (open() of a directory, ...) *)
  | EFuel.                                     (* nesting deeper than the fuel: outside the modelled fragment *)
Inductive rres (A : Type) := ROk (a : A) | RErr (e : rerr).
Arguments ROk {A}. Arguments RErr {A}.
Definition rbind {A B} (r : rres A) (f : A -> rres B) : rres B :=
  match r with ROk a => f a | RErr e => RErr e end.

Definition is_include (raw : string) : bool := String.prefix "include " (lower raw).
Definition is_include_bytes (raw : string) : bool := String.prefix "include_bytes " (lower raw).
(* the file named on an include line: comment stripped, exactly two fields, quotes stripped *)
Definition include_target (raw : string) : option string :=
  match split_ws (strip_comment raw) with [_; p] => Some (strip_quotes p) | _ => None end.
(* include_bytes: no comment stripping, no quote stripping *)
Definition bytes_target (raw : string) : option string :=
  match split_ws raw with [_; p] => Some p | _ => None end.

(* os.path.isfile *)
Definition fs_isfile (fs : fsys) (cwd p : string) : bool :=
  match fs_read fs cwd p with Some _ => true | None => false end.
(* lookup(path, dirs): first directory (in order) in which join(dir, path) is a FILE (a directory of that name is skipped) *)
Fixpoint lookup (fs : fsys) (cwd rel : string) (dirs : list string) : option string :=
  match dirs with
  | [] => None
  | d :: r => let p := join_path d rel in if fs_isfile fs cwd p then Some p else lookup fs cwd rel r
  end.

(* the loop over the numbered raw lines of one file; [rec] reads an included file completely *)
Fixpoint read_numbered (rec : string -> rres (list line)) (fs : fsys) (cwd file : string) (dirs : list string)
         (nls : list (Z * string)) : rres (list line) :=
  match nls with
  | [] => ROk []
  | (i, raw) :: rest =>
      if is_blank raw then read_numbered rec fs cwd file dirs rest
      else if is_include raw then
        match include_target raw with
        | None => RErr (EAsm file i MIncludeSyntax)
        | Some rel =>
            match lookup fs cwd rel dirs with
            | None => RErr (EAsm file i MIncludeMissing)
            | Some p => rbind (rec p) (fun inc =>
                        rbind (read_numbered rec fs cwd file dirs rest) (fun tl => ROk (app inc tl)))
            end
        end
      else if is_include_bytes raw then
        match bytes_target raw with
        | None => RErr (EAsm file i MBytesSyntax)
        | Some rel =>
            match lookup fs cwd rel dirs with
            | None => RErr (EAsm file i MBytesMissing)
            | Some p =>
                match fs_read fs cwd p with
                | None => RErr ERaw       (* os.path.getsize of a directory succeeds in CPython: outside the fragment *)
                | Some data =>
                    let l := {| l_file := file; l_num := i;
                                l_contents := raw ++ " " ++ dec_of_Z (Z.of_nat (String.length data)) |} in
                    rbind (read_numbered rec fs cwd file dirs rest) (fun tl => ROk (l :: tl))
                end
            end
        end
      else rbind (read_numbered rec fs cwd file dirs rest)
                 (fun tl => ROk ({| l_file := file; l_num := i; l_contents := raw |} :: tl))
  end.

(* read_lines(path, include=True, include_dirs=incs): the search path of a file is incs ++ [its own directory] *)
Fixpoint read_file (fuel : nat) (fs : fsys) (cwd : string) (incs : list string) (p : string) : rres (list line) :=
  match fuel with
  | O => RErr EFuel
  | S f =>
      match fs_read fs cwd p with
      | None => RErr ERaw
      | Some src => read_numbered (read_file f fs cwd incs) fs cwd p (app incs [base_dir cwd p])
                                  (number 1 (splitlines src))
      end
  end.

(* read_lines(path_or_source, include_dirs=incs): a path iff os.path.exists says so *)
Definition read_lines (fuel : nat) (fs : fsys) (cwd : string) (incs : list string) (top : string) : rres (list line) :=
  if fs_exists fs cwd top then read_file (S fuel) fs cwd incs top
  else read_numbered (read_file fuel fs cwd incs) fs cwd "<string>" (app incs [cwd]) (number 1 (splitlines top)).

(* ---- include_bytes: which file is opened later (resolve_include_bytes opens IncludeBytes.path) ------- *)
(* the two candidates: the path as written on the line (what the code under test did at design time, D10)
   and the path the reader's search found *)
Definition open_as_written (fs : fsys) (cwd rel : string) : option string := fs_read fs cwd rel.
Definition open_found (fs : fsys) (cwd rel : string) (dirs : list string) : option string :=
  match lookup fs cwd rel dirs with Some p => fs_read fs cwd p | None => None end.

(* ---- rendering for the harness (hex so that any byte survives the trip) -------------------------- *)
Definition hexd (d : Z) : ascii := if d <? 10 then a_of (48 + d) else a_of (87 + d).
Fixpoint hex_of_string (s : string) : string :=
  match s with
  | EmptyString => EmptyString
  | String c r => String (hexd (zc c / 16)) (String (hexd (zc c mod 16)) (hex_of_string r))
  end.
Definition bs (l : list Z) : string := unchars (map a_of l).
Definition msg_name (m : msg) : string :=
  match m with MIncludeSyntax => "include-syntax" | MIncludeMissing => "include-missing"
             | MBytesSyntax => "bytes-syntax" | MBytesMissing => "bytes-missing" end.
Definition render_line (l : line) : string :=
  hex_of_string (l_file l) ++ ":" ++ dec_of_Z (l_num l) ++ ":" ++ hex_of_string (l_contents l).
Definition render_read (r : rres (list line)) : string :=
  match r with
  | ROk ls => "OK|" ++ String.concat ";" (map render_line ls)
  | RErr (EAsm f n m) => "ASM|" ++ hex_of_string f ++ ":" ++ dec_of_Z n ++ ":" ++ msg_name m
  | RErr ERaw => "RAW"
  | RErr EFuel => "UNSUP"
  end.
