(* Extraction of the SPECIFICATION's single-step semantics (oracle of the C05 falsifier): Spec only. *)
From Coq Require Import ZArith List String.
From Coq Require Import ExtrOcamlBasic ExtrOcamlString.
From BB Require Import Base.Bits Spec.RV32 Spec.RVC Spec.Sem.
Extraction Language OCaml.
Separate Extraction
  BinInt.Z.add BinInt.Z.mul BinInt.Z.opp BinInt.Z.div_eucl BinInt.Z.eqb BinInt.Z.ltb
  RV32.name_ops Sem.getr Sem.fetch Sem.step Sem.writes Sem.run_n.
