(* C08 -- label arithmetic (%offset, %position, bare labels) uses FINAL addresses.  Statements only.
   Model: Model/Passes.v (assemble_items; relocate_hi/lo are the GENERATED functions), tied to asm.assemble by the
   pipeline correspondence. *)
From Coq Require Import ZArith List String.
From BB Require Import Base.PyBase Gen.Encoders Gen.PassTable Proofs.PassOrder Model.Items Model.Encode Model.Passes
  Proofs.Layout Proofs.Pipeline Proofs.Targets Proofs.Stable Proofs.Examples.
Import ListNotations.
Open Scope Z_scope.

(* After a successful run (unique labels, align N >= 1, both modes) there are the item list [al] after alignment and
   the final list [fin] such that: items of al and fin correspond one to one with the same sizes (so an item's offset
   p in al is its FINAL offset), the label table is exact for fin (C03), and for every instruction of al standing at
   final offset p (pF2 ... 0 al fin): its immediate expression is evaluated at p -- at p - 4 for the second
   instruction of a far call / tail / two-instruction li, i.e. at the offset of the item the programmer wrote --
   against ChainMap(constants, FINAL labels), the result is the operand the encoder receives, and the encoder's bytes
   are the chunk.  resolve_immediates is the only place where values are baked in, and it runs after the last pass
   that changes a size. *)
Theorem C08_final :
  forall its consts0 labels0 compress r,
    assemble_items its consts0 labels0 compress = Done r -> nonneg its ->
    exists al fin, Forall2 same1 al fin /\ blobbed fin (r_chunks r) /\ exact fin (r_labels r) /\
                   pF2 (Rval (r_consts r) (r_labels r)) 0 al fin.
Proof.
  intros its c0 l0 cmp r H Hn.
  destruct (pipeline_layout its c0 l0 cmp r H Hn) as [(pa & al & fin & _ & _ & _ & S & B & X & _ & V) _].
  exists al, fin. auto.
Qed.
Print Assumptions C08_final.

(* the three forms, with q the (final) value of L and p the offset of the referring item *)
Theorem C08_offset : forall l p consts labels L q z,
  chain_get consts labels L = Some q -> imm_of l p consts labels (FExpr (EOff L)) = Done z -> z = q - p.
Proof. exact eval_offset. Qed.
Print Assumptions C08_offset.
Theorem C08_position : forall l p consts labels L q b z,
  chain_get consts labels L = Some q -> imm_of l p consts labels (FExpr (EPos L (EArith (ANum b)))) = Done z -> z = b + q.
Proof. exact eval_position. Qed.
Print Assumptions C08_position.
Theorem C08_bare : forall l p consts labels L q z,
  chain_get consts labels L = Some q -> imm_of l p consts labels (FExpr (EArith (AName L))) = Done z -> z = q.
Proof. exact eval_bare. Qed.
Print Assumptions C08_bare.

(* the EARLY decisions (taken while labels are still pessimistic) are taken only on values that cannot change:
   a settled immediate has the same value at every position under every label table ... *)
Theorem C08_settled_stable : forall l pos consts e,
  is_settled l pos consts e = Done true -> exists v, forall pos' labels, eval_here l pos' consts labels e = Done v.
Proof. exact settled_stable. Qed.
Print Assumptions C08_settled_stable.
(* ... the one-instruction form of li is chosen only on such a value, inside the 12-bit range ... *)
Theorem C08_li_near_final : forall consts l pos labels name args pimm e lo hi near f1 f2,
  expand_pseudo l name args pimm = Done (Choice e None lo hi near f1 f2) ->
  pseudo_rule consts l (IPseudo name args pimm) pos labels = Done [near] ->
  exists v, lo <= c_int32 v <= hi /\ forall pos' labels', eval_here l pos' consts labels' e = Done v.
Proof. exact li_near_final. Qed.
Print Assumptions C08_li_near_final.
(* ... and a compression rule is consulted only for a settled immediate or for the distance from a jump / branch to
   a label (which later passes can only move towards zero; that monotonicity is NOT proved here -- see DESIGN.md) *)
Theorem C08_compress_on_settled : forall l pos consts cls fs e,
  field_get "imm" fs = Some (FExpr e) -> imm_unstable l pos consts cls fs = Done false ->
  jump_to_label consts cls e \/ exists v, forall pos' labels, eval_here l pos' consts labels e = Done v.
Proof. exact compress_decides_on_settled. Qed.
Print Assumptions C08_compress_on_settled.

Example C08_example :
  nonneg ex_its /\ NoDup (gnames ex_its) /\
  (exists r, assemble_items ex_its [] [] true = Done r /\ r_labels r = [("a", 0); ("b", 8)]%string).
Proof. exact (conj ex_nonneg (conj ex_nodup ex_runs_c)). Qed.

(* "final addresses": the three size-changing passes move the labels behind a shrunk item by exactly the amount it shrank --
   the model's shrink_after (v > position -> v - d) -- and the SOURCE's label updates have that shape, every one of them
   (Gen/PassTable.v label_updates, regenerated on every run: comparison `>` with position, subtrahend old - new size) *)
Theorem C08_label_updates_from_source :
  forallb PassOrder.update_ok Gen.PassTable.label_updates = true /\
  forallb (fun p => existsb (fun u => String.eqb (fst (fst u)) p) Gen.PassTable.label_updates)
          ["transform_compressible"; "transform_pseudo_instructions"; "resolve_aligns"]%string = true.
Proof. exact PassOrder.label_updates_ok. Qed.
Print Assumptions C08_label_updates_from_source.

(* ---- tie of the guards to the source (Gen/Guards.v, regenerated from asm.py on every run; Proofs/Guards.v) -------------------
   The model's `imm_unstable` (the test in front of the rule selection of transform_compressible), `is_settled` and
   `is_position_relative` ARE the interpretation of what the source says today: which classes are jumps, the class of the
   immediate, the dictionary the reference must not be in, the arguments handed to is_settled and by it to expr.eval. *)
From BB Require Gen.Guards Proofs.Guards.
Theorem C08_guard_from_source : forall l pos consts labels cls fs,
  imm_unstable l pos consts cls fs = Proofs.Guards.gen_imm_unstable l pos consts labels cls fs.
Proof. exact Proofs.Guards.guard_from_source. Qed.
Print Assumptions C08_guard_from_source.
Theorem C08_settled_from_source : forall l pos consts labels e,
  is_settled l pos consts e = Proofs.Guards.gen_is_settled Gen.Guards.cg_env Gen.Guards.cg_settled_args l pos consts labels e.
Proof. exact Proofs.Guards.settled_from_source. Qed.
Print Assumptions C08_settled_from_source.
Theorem C08_position_relative_from_source : forall e, is_position_relative e = Proofs.Guards.gen_posrel e.
Proof. exact Proofs.Guards.posrel_from_source. Qed.
Print Assumptions C08_position_relative_from_source.

(* ---- tie of expression evaluation to the source (Gen/Guards.v: the return expressions of Offset / Position / Hi / Lo .eval, translated;
   the position and environment resolve_immediates evaluates with, the second half of an auipc / lui pair at the position of the first) *)
Theorem C08_eval_from_source : Proofs.Guards.eval_from_source_stmt.
Proof. exact Proofs.Guards.eval_from_source. Qed.
Print Assumptions C08_eval_from_source.
Theorem C08_resolve_immediates_from_source : Proofs.Guards.resolve_immediates_from_source_stmt.
Proof. exact Proofs.Guards.resolve_immediates_from_source. Qed.
Print Assumptions C08_resolve_immediates_from_source.

(* ---- resolve_labels as the source has it (Gen/Guards.v): a label is bound to the running position (from 0, advanced by item.size()),
   a second definition is refused at its line *)
Theorem C08_resolve_labels_from_source : Proofs.Guards.resolve_labels_from_source_stmt.
Proof. exact Proofs.Guards.resolve_labels_from_source. Qed.
Print Assumptions C08_resolve_labels_from_source.

(* ---- the position bookkeeping of the SOURCE, path by path (Gen/Book.v, regenerated on every run; Proofs/Book.v): in resolve_labels,
   both compression passes, the pseudo-instruction pass, resolve_aligns and resolve_immediates every appended item is paired with exactly
   one `position += <its size>` and nothing else advances the position -- what the pass model's running position assumes *)
From BB Require Gen.Book Proofs.Book.
Theorem C08_position_bookkeeping_from_source : Proofs.Book.bookkeeping_ok = true.
Proof. exact Proofs.Book.bookkeeping_from_source. Qed.
Print Assumptions C08_position_bookkeeping_from_source.

(* ---- the model is a FUNCTION of the program and the options, and so is the code it models: the effect summary regenerated from asm.py
   passes summary_ok (no module-level object written by anything reachable from assemble(), no mutable default, no set iteration order
   consumed; Proofs/Effects.v noninterference) -- a memo table or cache that outlives a call makes a pure model unfaithful *)
From BB Require Gen.Effects Proofs.Effects Proofs.EffectsOk.
Theorem C08_assemble_is_a_function_of_its_inputs : Proofs.Effects.summary_ok Gen.Effects.summary = true.
Proof. exact Proofs.EffectsOk.summary_ok_holds. Qed.
Print Assumptions C08_assemble_is_a_function_of_its_inputs.
