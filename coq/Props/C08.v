(* C08 -- label arithmetic (%offset, %position, bare labels) uses FINAL addresses.  Statements only.
   Model: Model/Passes.v (assemble_items; relocate_hi/lo are the GENERATED functions), tied to asm.assemble by the
   pipeline correspondence. *)
From Coq Require Import ZArith List String.
From BB Require Import Base.PyBase Gen.Encoders Gen.PassTable Proofs.PassOrder Model.Items Model.Encode Model.Passes
  Proofs.Layout Proofs.Pipeline Proofs.Targets Proofs.Stable Proofs.Examples.
Import ListNotations.
Open Scope Z_scope.

(* After a successful run (unique labels, align N >= 1, both modes) there are the item list [al] after alignment and
   the final list [fin] such that: items of al and fin correspond one to one with the same sizes (so an item's offset
   p in al is its FINAL offset), the label table is exact for fin (C03), and for every instruction of al standing at
   final offset p (pF2 ... 0 al fin): its immediate expression is evaluated at p -- at p - 4 for the second
   instruction of a far call / tail / two-instruction li, i.e. at the offset of the item the programmer wrote --
   against ChainMap(constants, FINAL labels), the result is the operand the encoder receives, and the encoder's bytes
   are the chunk.  resolve_immediates is the only place where values are baked in, and it runs after the last pass
   that changes a size. *)
Theorem C08_final :
  forall its consts0 labels0 compress r,
    assemble_items its consts0 labels0 compress = Done r -> nonneg its ->
    exists al fin, Forall2 same1 al fin /\ blobbed fin (r_chunks r) /\ exact fin (r_labels r) /\
                   pF2 (Rval (r_consts r) (r_labels r)) 0 al fin.
Proof.
  intros its c0 l0 cmp r H Hn.
  destruct (pipeline_layout its c0 l0 cmp r H Hn) as [(pa & al & fin & _ & _ & _ & S & B & X & _ & V) _].
  exists al, fin. auto.
Qed.
Print Assumptions C08_final.

(* the three forms, with q the (final) value of L and p the offset of the referring item *)
Theorem C08_offset : forall l p consts labels L q z,
  chain_get consts labels L = Some q -> imm_of l p consts labels (FExpr (EOff L)) = Done z -> z = q - p.
Proof. exact eval_offset. Qed.
Print Assumptions C08_offset.
Theorem C08_position : forall l p consts labels L q b z,
  chain_get consts labels L = Some q -> imm_of l p consts labels (FExpr (EPos L (EArith (ANum b)))) = Done z -> z = b + q.
Proof. exact eval_position. Qed.
Print Assumptions C08_position.
Theorem C08_bare : forall l p consts labels L q z,
  chain_get consts labels L = Some q -> imm_of l p consts labels (FExpr (EArith (AName L))) = Done z -> z = q.
Proof. exact eval_bare. Qed.
Print Assumptions C08_bare.

(* the EARLY decisions (taken while labels are still pessimistic) are taken only on values that cannot change:
   a settled immediate has the same value at every position under every label table ... *)
Theorem C08_settled_stable : forall l pos consts e,
  is_settled l pos consts e = Done true -> exists v, forall pos' labels, eval_here l pos' consts labels e = Done v.
Proof. exact settled_stable. Qed.
Print Assumptions C08_settled_stable.
(* ... the one-instruction form of li is chosen only on such a value, inside the 12-bit range ... *)
Theorem C08_li_near_final : forall consts l pos labels name args pimm e lo hi near f1 f2,
  expand_pseudo l name args pimm = Done (Choice e None lo hi near f1 f2) ->
  pseudo_rule consts l (IPseudo name args pimm) pos labels = Done [near] ->
  exists v, lo <= c_int32 v <= hi /\ forall pos' labels', eval_here l pos' consts labels' e = Done v.
Proof. exact li_near_final. Qed.
Print Assumptions C08_li_near_final.
(* ... and a compression rule is consulted only for a settled immediate or for the distance from a jump / branch to
   a label (which later passes can only move towards zero; that monotonicity is NOT proved here -- see DESIGN.md) *)
Theorem C08_compress_on_settled : forall l pos consts cls fs e,
  field_get "imm" fs = Some (FExpr e) -> imm_unstable l pos consts cls fs = Done false ->
  jump_to_label consts cls e \/ exists v, forall pos' labels, eval_here l pos' consts labels e = Done v.
Proof. exact compress_decides_on_settled. Qed.
Print Assumptions C08_compress_on_settled.

Example C08_example :
  nonneg ex_its /\ NoDup (gnames ex_its) /\
  (exists r, assemble_items ex_its [] [] true = Done r /\ r_labels r = [("a", 0); ("b", 8)]%string).
Proof. exact (conj ex_nonneg (conj ex_nodup ex_runs_c)). Qed.

(* "final addresses": the three size-changing passes move the labels behind a shrunk item by exactly the amount it shrank --
   the model's shrink_after (v > position -> v - d) -- and the SOURCE's label updates have that shape, every one of them
   (Gen/PassTable.v label_updates, regenerated on every run: comparison `>` with position, subtrahend old - new size) *)
Theorem C08_label_updates_from_source :
  forallb PassOrder.update_ok Gen.PassTable.label_updates = true /\
  forallb (fun p => existsb (fun u => String.eqb (fst (fst u)) p) Gen.PassTable.label_updates)
          ["transform_compressible"; "transform_pseudo_instructions"; "resolve_aligns"]%string = true.
Proof. exact PassOrder.label_updates_ok. Qed.
Print Assumptions C08_label_updates_from_source.

(* ---- tie of the guards to the source (Gen/Guards.v, regenerated from asm.py on every run; Proofs/Guards.v) -------------------
   The model's `imm_unstable` (the test in front of the rule selection of transform_compressible), `is_settled` and
   `is_position_relative` ARE the interpretation of what the source says today: which classes are jumps, the class of the
   immediate, the dictionary the reference must not be in, the arguments handed to is_settled and by it to expr.eval. *)
From BB Require Gen.Guards Proofs.Guards.
Theorem C08_guard_from_source : forall l pos consts labels cls fs,
  imm_unstable l pos consts cls fs = Proofs.Guards.gen_imm_unstable l pos consts labels cls fs.
Proof. exact Proofs.Guards.guard_from_source. Qed.
Print Assumptions C08_guard_from_source.
Theorem C08_settled_from_source : forall l pos consts labels e,
  is_settled l pos consts e = Proofs.Guards.gen_is_settled Gen.Guards.cg_env Gen.Guards.cg_settled_args l pos consts labels e.
Proof. exact Proofs.Guards.settled_from_source. Qed.
Print Assumptions C08_settled_from_source.
Theorem C08_position_relative_from_source : forall e, is_position_relative e = Proofs.Guards.gen_posrel e.
Proof. exact Proofs.Guards.posrel_from_source. Qed.
Print Assumptions C08_position_relative_from_source.

(* ---- tie of expression evaluation to the source (Gen/Guards.v: the return expressions of Offset / Position / Hi / Lo .eval, translated;
   the position and environment resolve_immediates evaluates with, the second half of an auipc / lui pair at the position of the first) *)
Theorem C08_eval_from_source : Proofs.Guards.eval_from_source_stmt.
Proof. exact Proofs.Guards.eval_from_source. Qed.
Print Assumptions C08_eval_from_source.
Theorem C08_resolve_immediates_from_source : Proofs.Guards.resolve_immediates_from_source_stmt.
Proof. exact Proofs.Guards.resolve_immediates_from_source. Qed.
Print Assumptions C08_resolve_immediates_from_source.

(* ---- resolve_labels as the source has it (Gen/Guards.v): a label is bound to the running position (from 0, advanced by item.size()),
   a second definition is refused at its line *)
Theorem C08_resolve_labels_from_source : Proofs.Guards.resolve_labels_from_source_stmt.
Proof. exact Proofs.Guards.resolve_labels_from_source. Qed.
Print Assumptions C08_resolve_labels_from_source.

(* ---- the position bookkeeping of the SOURCE, path by path (Gen/Book.v, regenerated on every run; Proofs/Book.v): in resolve_labels,
   both compression passes, the pseudo-instruction pass, resolve_aligns and resolve_immediates every appended item is paired with exactly
   one `position += <its size>` and nothing else advances the position -- what the pass model's running position assumes *)
From BB Require Gen.Book Proofs.Book.
Theorem C08_position_bookkeeping_from_source : Proofs.Book.bookkeeping_ok = true.
Proof. exact Proofs.Book.bookkeeping_from_source. Qed.
Print Assumptions C08_position_bookkeeping_from_source.

(* ---- the model is a FUNCTION of the program and the options, and so is the code it models: the effect summary regenerated from asm.py
   passes summary_ok (no module-level object written by anything reachable from assemble(), no mutable default, no set iteration order
   consumed; Proofs/Effects.v noninterference) -- a memo table or cache that outlives a call makes a pure model unfaithful *)
From BB Require Gen.Effects Proofs.Effects Proofs.EffectsOk.
Theorem C08_assemble_is_a_function_of_its_inputs : Proofs.Effects.summary_ok Gen.Effects.summary = true.
Proof. exact Proofs.EffectsOk.summary_ok_holds. Qed.
Print Assumptions C08_assemble_is_a_function_of_its_inputs.

(* ==== C08 at the level of the TEXT of a file ==========================================================================================
   (sub-agent; Proofs/TextValTrack.v, TextValues.v, TextValForms.v over Proofs/TextTrack.v / TextLayout.v)
   `assemble_text lines consts labels compress` (Proofs/Program.v) is lexer model -> parser model -> 16 passes on the lines of a file.
   As in the C03_text and C09_text theorems: a line is located by `ls = ls1 ++ (l, text) :: ls2`; `text_layout r 0 ls1 cs1` says that cs1 is, in
   order, the chunks of the lines in front of it, so that  p := tot csz cs1  is the FINAL offset the line stands at.
   `final_env r` = ChainMap(final constants, final labels); `value_at env p e` (Proofs/TextValues.v) is the documented value of an
   immediate expression at the offset p: a bare name = env name, %offset(L) = env L - p, %position(L, b) = b + env L, %hi / %lo =
   the generated relocate_hi / relocate_lo (C07) of the inner value, arithmetic = Python's operators on the values of the names.
   `unsettled consts e` (boolean): e contains %offset, or mentions a name that is not a constant -- the immediates whose value is
   not known before the layout is final; on them the model's is_settled answers `no` (C08_unsettled_is_not_settled below; is_settled
   is tied to asm.py by C08_settled_from_source). *)
From Coq Require Import Bool.
From BB Require Import Spec.RV32 Spec.Operands Spec.Data Spec.Sem Model.Lexer Model.PyExpr Model.Parser
  Proofs.Program Proofs.TextGroups Proofs.TextTrack Proofs.TextLayout Proofs.EndToEnd Proofs.TextValues Proofs.TextValForms.
Open Scope list_scope.

(* the value of a label: a label line of the text that no constant shadows is worth the total size of the chunks of the lines in
   front of it (C03_text_labels), and so are the three documented forms over it, at every offset p *)
Theorem C08_text_label_forms :
  forall ls c0 l0 cmp r,
    assemble_text ls c0 l0 cmp = TDone r ->
    forall la l' text' lb L, ls = la ++ (l', text') :: lb -> front_line l' text' = FOk (Some (ILabel L)) -> assoc_str L (r_consts r) = None ->
      exists ca cb, r_chunks r = ca ++ cb /\ text_layout r 0 la ca /\ final_env r L = Some (tot csz ca) /\
        forall p, value_at (final_env r) p (EArith (AName L)) = Some (tot csz ca) /\                                      (* L *)
                  value_at (final_env r) p (EOff L) = Some (tot csz ca - p) /\                                             (* %offset(L) *)
                  (forall b, value_at (final_env r) p (EPos L (EArith (ANum b))) = Some (b + tot csz ca)) /\               (* %position(L, b) *)
                  (forall k, value_at (final_env r) p (EArith (ABin OAdd (AName L) (ANum k))) = Some (tot csz ca + k)).    (* L + k *)
Proof. exact text_label_forms. Qed.
Print Assumptions C08_text_label_forms.
(* ... and the distance between two names, e.g. `end - start` *)
Theorem C08_value_difference : forall env p a b qa qb, env a = Some qa -> env b = Some qb ->
  value_at env p (EArith (ABin OSub (AName a) (AName b))) = Some (qa - qb).
Proof. exact value_difference. Qed.
Print Assumptions C08_value_difference.

(* (1) INSTRUCTIONS.  A line of the I-, S- or U-type table (imm_line: `name rd, rs1, <imm>`, `name rd, <imm>(rs1)`, stores in both
   spellings, `lui / auipc rd, <imm>`; the immediate tokens parse to e) whose immediate is unsettled: in BOTH modes the line owns ONE
   chunk of FOUR bytes (an instruction whose immediate depends on a label is never compressed), the little-endian word w, and w
   decodes (Spec/RV32.v decode32) to the instruction `name` whose register operands are the written ones (after alias resolution)
   and whose immediate operand is z = the value of e at the offset p of the line under the final constants and labels
   (imm_ops: ops = [r1; r2; z]; for lui / auipc [rd; upper_norm z], the documented second spelling of negative values). *)
Theorem C08_text_instruction_value :
  forall ls c0 l0 cmp r,
    assemble_text ls c0 l0 cmp = TDone r ->
    forall ls1 l text ls2 ts cls name regs fs e,
      ls = ls1 ++ (l, text) :: ls2 -> lex_tokens text = Some ts -> imm_line l ts cls name regs fs e ->
      unsettled (r_consts r) e = true ->
      exists cs1 cs2 z w ops i,
        r_chunks r = cs1 ++ (l, CBytes (le_bytes 4 w)) :: cs2 /\ text_layout r 0 ls1 cs1 /\ text_layout r (tot csz cs1 + 4) ls2 cs2 /\
        value_at (final_env r) (tot csz cs1) e = Some z /\
        operands32 name (map (alias_arg (r_consts r)) regs ++ [AInt z]) [] = Some ops /\ imm_ops cls ops z /\
        denote32 name ops = Some i /\ decode32 w = Some i.
Proof. exact text_instruction_value. Qed.
Print Assumptions C08_text_instruction_value.

(* the same for ANY instruction item the parser makes of a line (also an explicitly written c.* instruction; every class except
   branches / jal, whose operand is a reference, see the C03_text theorems): never touched by the compression passes, one chunk, the bytes of the
   encoder applied to the fields with `imm` replaced by the value at the offset of the line *)
Theorem C08_text_instruction_any_class :
  forall ls c0 l0 cmp r,
    assemble_text ls c0 l0 cmp = TDone r ->
    forall ls1 l text ls2 cls name fs c e,
      ls = ls1 ++ (l, text) :: ls2 -> front_line l text = FOk (Some (IInstr cls name fs c)) ->
      field_get "imm" fs = Some (FExpr e) -> unsettled (r_consts r) e = true -> not_jump cls = true ->
      exists cs1 cs2 z bs, r_chunks r = cs1 ++ (l, CBytes bs) :: cs2 /\ text_layout r 0 ls1 cs1 /\
        text_layout r (tot csz cs1 + (if c then 2 else 4)) ls2 cs2 /\
        value_at (final_env r) (tot csz cs1 - back_of fs) e = Some z /\
        encode_item l cls name (field_set "imm" (FInt z) (map (alias_field (r_consts r)) fs)) c = Done bs.
Proof. exact text_instruction_raw. Qed.
Print Assumptions C08_text_instruction_any_class.

(* (2) li.  `li rd, <imm>` with an unsettled operand (rd written as a register, not as a constant's name): in both modes the line owns
   TWO 4-byte chunks (lui + addi, neither compressed); loaded anywhere and run on the Spec machine (Spec/Sem.v; C05_li) they leave in
   rd the value v of the operand at p -- the offset of the FIRST of the two instructions -- modulo 2^32, change nothing else, and
   advance the pc by 8. *)
Theorem C08_text_li_value :
  forall ls c0 l0 cmp r,
    assemble_text ls c0 l0 cmp = TDone r ->
    forall ls1 l text ls2 ts rd imm e,
      ls = ls1 ++ (l, text) :: ls2 -> lex_tokens text = Some ts -> li_line l ts rd imm e ->
      unsettled (r_consts r) e = true -> assoc_str rd (r_consts r) = None ->
      exists cs1 cs2 bs1 bs2 nrd v,
        r_chunks r = cs1 ++ (l, CBytes bs1) :: (l, CBytes bs2) :: cs2 /\ text_layout r 0 ls1 cs1 /\
        text_layout r (tot csz cs1 + 8) ls2 cs2 /\ zlen bs1 = 4 /\ zlen bs2 = 4 /\
        regnum (AStr rd) = Some nrd /\ value_at (final_env r) (tot csz cs1) e = Some v /\
        forall s, loaded s (bs1 ++ bs2) ->
          exists s', run_n 2 s = Some s' /\ pc s' = wrap (pc s + 8) /\ only_reg s s' nrd (wrap v).
Proof. exact text_li_line_value. Qed.
Print Assumptions C08_text_li_value.

(* (3) DATA.  `db | dh | dw | dd <imm>`: the line owns one chunk, the w little-endian bytes (two's complement; Spec/Data.v int_bytes,
   C10_int / C10_bytes_meaning for the byte-level reading) of the value z of the operand at p, and z fits w bytes (signed or unsigned).
   No `unsettled` hypothesis: data is never compressed. *)
Theorem C08_text_data_value :
  forall ls c0 l0 cmp r,
    assemble_text ls c0 l0 cmp = TDone r ->
    forall ls1 l text ls2 ts name w e,
      ls = ls1 ++ (l, text) :: ls2 -> lex_tokens text = Some ts -> short_line l ts name w e ->
      exists cs1 cs2 z, r_chunks r = cs1 ++ (l, CBytes (int_bytes w z)) :: cs2 /\ text_layout r 0 ls1 cs1 /\
        text_layout r (tot csz cs1 + w) ls2 cs2 /\
        value_at (final_env r) (tot csz cs1) e = Some z /\ int_fits w z = true.
Proof. exact text_short_line_value. Qed.
Print Assumptions C08_text_data_value.
(* `pack <order><code> <imm>` for the 20 documented formats: the bytes in the GIVEN byte order (C10_pack) *)
Theorem C08_text_pack_value :
  forall ls c0 l0 cmp r,
    assemble_text ls c0 l0 cmp = TDone r ->
    forall ls1 l text ls2 ts o little c w signed e,
      ls = ls1 ++ (l, text) :: ls2 -> lex_tokens text = Some ts -> pack_line l ts (String.append o c) e ->
      In (o, little) order_table -> In (c, (w, signed)) code_table ->
      exists cs1 cs2 z, r_chunks r = cs1 ++ (l, CBytes (pack_bytes little w z)) :: cs2 /\ text_layout r 0 ls1 cs1 /\
        text_layout r (tot csz cs1 + w) ls2 cs2 /\
        value_at (final_env r) (tot csz cs1) e = Some z /\ pack_fits w signed z = true.
Proof. exact text_pack_line_value. Qed.
Print Assumptions C08_text_pack_value.

(* ---- the property's own sentence, composed: the operand is an expression over ONE label line L of the text that no constant shadows
   (over_label L e: e mentions L and no other name -- `L`, `%offset(L)`, `%position(L, 8)`, `L + 4`, `%hi(L)`, `%lo(%offset(L))`,
   `L * 2 + 1` ...).  Then the value emitted is  value_at (only L q) p e  =  e computed with  L := q = the total size of the chunks of
   the lines in front of L's label line  and  position := p = the total size of the chunks of the lines in front of THIS line;
   it needs no `unsettled` hypothesis (such an expression is unsettled).  C08_over_label_forms spells out the three documented forms. *)
Theorem C08_text_instruction_label :
  forall ls c0 l0 cmp r,
    assemble_text ls c0 l0 cmp = TDone r ->
    forall ls1 l text ls2 ts cls name regs fs e la l' text' lb L,
      ls = ls1 ++ (l, text) :: ls2 -> lex_tokens text = Some ts -> imm_line l ts cls name regs fs e -> over_label L e ->
      ls = la ++ (l', text') :: lb -> front_line l' text' = FOk (Some (ILabel L)) -> assoc_str L (r_consts r) = None ->
      exists cs1 cs2 ca cb z w ops i,
        r_chunks r = cs1 ++ (l, CBytes (le_bytes 4 w)) :: cs2 /\ text_layout r 0 ls1 cs1 /\
        r_chunks r = ca ++ cb /\ text_layout r 0 la ca /\
        value_at (only L (tot csz ca)) (tot csz cs1) e = Some z /\
        operands32 name (map (alias_arg (r_consts r)) regs ++ [AInt z]) [] = Some ops /\ imm_ops cls ops z /\
        denote32 name ops = Some i /\ decode32 w = Some i.
Proof. exact text_instruction_label. Qed.
Print Assumptions C08_text_instruction_label.
Theorem C08_text_li_label :
  forall ls c0 l0 cmp r,
    assemble_text ls c0 l0 cmp = TDone r ->
    forall ls1 l text ls2 ts rd imm e la l' text' lb L,
      ls = ls1 ++ (l, text) :: ls2 -> lex_tokens text = Some ts -> li_line l ts rd imm e -> over_label L e ->
      assoc_str rd (r_consts r) = None ->
      ls = la ++ (l', text') :: lb -> front_line l' text' = FOk (Some (ILabel L)) -> assoc_str L (r_consts r) = None ->
      exists cs1 cs2 ca cb bs1 bs2 nrd v,
        r_chunks r = cs1 ++ (l, CBytes bs1) :: (l, CBytes bs2) :: cs2 /\ text_layout r 0 ls1 cs1 /\
        r_chunks r = ca ++ cb /\ text_layout r 0 la ca /\ zlen bs1 = 4 /\ zlen bs2 = 4 /\
        regnum (AStr rd) = Some nrd /\ value_at (only L (tot csz ca)) (tot csz cs1) e = Some v /\
        forall s, loaded s (bs1 ++ bs2) ->
          exists s', run_n 2 s = Some s' /\ pc s' = wrap (pc s + 8) /\ only_reg s s' nrd (wrap v).
Proof. exact text_li_label. Qed.
Print Assumptions C08_text_li_label.
Theorem C08_text_data_label :
  forall ls c0 l0 cmp r,
    assemble_text ls c0 l0 cmp = TDone r ->
    forall ls1 l text ls2 ts name w e la l' text' lb L,
      ls = ls1 ++ (l, text) :: ls2 -> lex_tokens text = Some ts -> short_line l ts name w e -> over_label L e ->
      ls = la ++ (l', text') :: lb -> front_line l' text' = FOk (Some (ILabel L)) -> assoc_str L (r_consts r) = None ->
      exists cs1 cs2 ca cb z,
        r_chunks r = cs1 ++ (l, CBytes (int_bytes w z)) :: cs2 /\ text_layout r 0 ls1 cs1 /\
        r_chunks r = ca ++ cb /\ text_layout r 0 la ca /\
        value_at (only L (tot csz ca)) (tot csz cs1) e = Some z /\ int_fits w z = true.
Proof. exact text_data_label. Qed.
Print Assumptions C08_text_data_label.
Theorem C08_over_label_forms : forall L q p,
  (over_label L (EArith (AName L)) /\ value_at (only L q) p (EArith (AName L)) = Some q) /\                                  (* L *)
  (over_label L (EOff L) /\ value_at (only L q) p (EOff L) = Some (q - p)) /\                                                (* %offset(L) *)
  (forall b, over_label L (EPos L (EArith (ANum b))) /\ value_at (only L q) p (EPos L (EArith (ANum b))) = Some (b + q)) /\   (* %position(L, b) *)
  (forall k, over_label L (EArith (ABin OAdd (AName L) (ANum k))) /\
             value_at (only L q) p (EArith (ABin OAdd (AName L) (ANum k))) = Some (q + k)) /\                                 (* L + k *)
  (forall e, over_label L e -> over_label L (EHi e) /\ value_at (only L q) p (EHi e) = option_map relocate_hi (value_at (only L q) p e)) /\
  (forall e, over_label L e -> over_label L (ELo e) /\ value_at (only L q) p (ELo e) = option_map relocate_lo (value_at (only L q) p e)).
Proof. exact over_label_forms. Qed.
Print Assumptions C08_over_label_forms.

(* `unsettled` is the negation of the model's is_settled (the test asm.py makes before every early decision): such an immediate is
   never handed to a compression rule, and never gets the one-instruction form of li *)
Theorem C08_unsettled_is_not_settled : forall l pos consts e, unsettled consts e = true -> is_settled l pos consts e = Done false.
Proof. exact unsettled_is_settled. Qed.
Print Assumptions C08_unsettled_is_not_settled.
(* value_at is what the model's evaluation returns *)
Theorem C08_value_at_is_eval : forall l p consts labels e z,
  eval_here l p consts labels e = Done z -> value_at (chain_get consts labels) p e = Some z.
Proof. exact eval_here_value. Qed.
Print Assumptions C08_value_at_is_eval.

(* what parse_immediate (parser model) makes of the documented spellings, for every name / token list: a bare name, any token list
   that does not start with a %-modifier (ONE Python expression: `L + 4`, `end - start`), %offset(L) / %offset L,
   %position(L, base) / %position L base, %hi(..) / %lo(..) of an immediate *)
Theorem C08_immediate_spellings :
  (forall s l, ident s = true -> parse_immediate [s] l = FOk (EArith (AName s))) /\
  (forall h rest l, pct_head h = false -> parse_immediate (h :: rest) l = arith (h :: rest)) /\
  (forall t L cl l, lower t = "%offset"%string -> parse_immediate [t; "("%string; L; cl] l = FOk (EOff L)) /\
  (forall t L l, lower t = "%offset"%string -> L <> "("%string -> parse_immediate [t; L] l = FOk (EOff L)) /\
  (forall t L x rest l, lower t = "%position"%string ->
     parse_immediate (t :: "("%string :: L :: x :: rest) l = fbind (arith (removelast (x :: rest))) (fun e => FOk (EPos L e))) /\
  (forall t L rest l, lower t = "%position"%string -> L <> "("%string ->
     parse_immediate (t :: L :: rest) l = fbind (arith rest) (fun e => FOk (EPos L e))) /\
  (forall t x rest l, lower t = "%hi"%string \/ lower t = "%lo"%string ->
     parse_immediate (t :: "("%string :: x :: rest) l =
     fbind (parse_immediate (removelast (x :: rest)) l) (fun e => FOk (if String.eqb (lower t) "%hi" then EHi e else ELo e))) /\
  (forall t x rest l, lower t = "%hi"%string \/ lower t = "%lo"%string -> x <> "("%string ->
     parse_immediate (t :: x :: rest) l =
     fbind (parse_immediate (x :: rest) l) (fun e => FOk (if String.eqb (lower t) "%hi" then EHi e else ELo e))).
Proof.
  exact (conj bare_name_immediate (conj pi_arith (conj pi_offset_paren (conj pi_offset (conj pi_position_paren (conj pi_position
        (conj pi_hilo_paren pi_hilo))))))).
Qed.
Print Assumptions C08_immediate_spellings.

(* non-vacuity: start: / addi x8,x8,1 / align 4 / data: / dw end / dw %offset(end) / dh end - start / pack <h %offset start /
   addi x10,x0,data / lw x11,x10,%lo(end) / lui x12,%hi(end + 4096) / sw x10,x11,%position(data, 4) / lw x11,data(x10) /
   addi x9,x9,1 / li x13,end / end:   assembles in both modes.  Final offsets differ from the pessimistic ones in BOTH modes (`align 4`
   announces 4 bytes and emits 0 without compression -- data = 4, not 8 -- and 2 behind the 2-byte c.addi with compression) and differ
   BETWEEN the modes (end = 48 without, 46 with compression: the second addi shrinks).  The values emitted are the final ones:
   dw end = 48 / 46, dw %offset(end) standing at 8 = 40 / 38, dh end - start = 48 / 46, pack <h %offset start standing at 14 = -14,
   addi x10, x0, 4 (= data), lw x11, 48(x10) / lw x11, 46(x10) (%lo(end)), lui x12, 1 (%hi(end + 4096)), sw x11, 8(x10)
   (%position(data, 4) = 4 + 4), lw x11, 4(x10), and li = lui x13, 0 ; addi x13, x13, 48 / 46 -- 4 bytes each in both modes. *)
Example C08_text_example :
  (forall cmp, assemble_text ex_vals [] [] cmp = TDone (ex_vals_result cmp)) /\
  r_labels (ex_vals_result false) = [("start", 0); ("data", 4); ("end", 48)]%string /\
  r_labels (ex_vals_result true) = [("start", 0); ("data", 4); ("end", 46)]%string /\
  int_bytes 4 48 = [48; 0; 0; 0] /\ int_bytes 4 (48 - 8) = [40; 0; 0; 0] /\ int_bytes 4 46 = [46; 0; 0; 0] /\ int_bytes 4 (46 - 8) = [38; 0; 0; 0] /\
  int_bytes 2 (48 - 0) = [48; 0] /\ pack_bytes true 2 (0 - 14) = [242; 255] /\
  le_bytes 4 (19 + 5 * 256 + 64 * 65536) = [19; 5; 64; 0] /\ decode32 (19 + 5 * 256 + 64 * 65536) = Some (OpImm ADDI 10 0 4) /\
  decode32 (131 + 37 * 256 + 5 * 65536 + 3 * 16777216) = Some (Load LW 11 10 48) /\
  decode32 (131 + 37 * 256 + 229 * 65536 + 2 * 16777216) = Some (Load LW 11 10 46) /\
  decode32 (55 + 22 * 256) = Some (Lui 12 1) /\ decode32 (35 + 36 * 256 + 181 * 65536) = Some (Store SW 10 11 8) /\
  decode32 (131 + 37 * 256 + 69 * 65536) = Some (Load LW 11 10 4) /\
  decode32 (183 + 6 * 256) = Some (Lui 13 0) /\ decode32 (147 + 134 * 256 + 6 * 65536 + 3 * 16777216) = Some (OpImm ADDI 13 13 48) /\
  decode32 (147 + 134 * 256 + 230 * 65536 + 2 * 16777216) = Some (OpImm ADDI 13 13 46).
Proof.
  split. exact ex_vals_runs. repeat split; vm_compute; reflexivity.
Qed.
(* the hypotheses of the theorems above hold of its lines (token shapes, unsettled, label lines) *)
Example C08_text_example_hyps :
  ex_vals = firstn 4 ex_vals ++ (exT 5, "    dw end")%string :: skipn 5 ex_vals /\ lex_tokens "    dw end" = Some ["dw"; "end"]%string /\
  short_line (exT 5) ["dw"; "end"]%string "dw" 4 (EArith (AName "end")) /\
  ex_vals = firstn 5 ex_vals ++ (exT 6, "    dw %offset(end)")%string :: skipn 6 ex_vals /\
  lex_tokens "    dw %offset(end)" = Some ["dw"; "%offset"; "("; "end"; ")"]%string /\
  short_line (exT 6) ["dw"; "%offset"; "("; "end"; ")"]%string "dw" 4 (EOff "end") /\
  short_line (exT 7) ["dh"; "end"; "-"; "start"]%string "dh" 2 (EArith (ABin OSub (AName "end") (AName "start"))) /\
  pack_line (exT 8) ["pack"; "<h"; "%offset"; "start"]%string (String.append "<" "h") (EOff "start") /\
  ex_vals = firstn 8 ex_vals ++ (exT 9, "    addi x10, x0, data")%string :: skipn 9 ex_vals /\
  lex_tokens "    addi x10, x0, data" = Some ["addi"; "x10"; "x0"; "data"]%string /\
  imm_line (exT 9) ["addi"; "x10"; "x0"; "data"]%string "ITypeInstruction" "addi" ["x10"; "x0"]%string
           [("rd", R "x10"); ("rs1", R "x0"); ("imm", FExpr (EArith (AName "data"))); ("is_auipc_jump", FBool false)]%string (EArith (AName "data")) /\
  unsettled [] (EArith (AName "data")) = true /\
  imm_line (exT 10) ["lw"; "x11"; "x10"; "%lo"; "("; "end"; ")"]%string "ITypeInstruction" "lw" ["x11"; "x10"]%string
           [("rd", R "x11"); ("rs1", R "x10"); ("imm", FExpr (ELo (EArith (AName "end")))); ("is_auipc_jump", FBool false)]%string
           (ELo (EArith (AName "end"))) /\
  imm_line (exT 11) ["lui"; "x12"; "%hi"; "("; "end"; "+"; "4096"; ")"]%string "UTypeInstruction" "lui" ["x12"]%string
           [("rd", R "x12"); ("imm", FExpr (EHi (EArith (ABin OAdd (AName "end") (ANum 4096)))))]%string
           (EHi (EArith (ABin OAdd (AName "end") (ANum 4096)))) /\
  imm_line (exT 12) ["sw"; "x10"; "x11"; "%position"; "("; "data"; "4"; ")"]%string "STypeInstruction" "sw" ["x10"; "x11"]%string
           [("rs1", R "x10"); ("rs2", R "x11"); ("imm", FExpr (EPos "data" (EArith (ANum 4))))]%string (EPos "data" (EArith (ANum 4))) /\
  imm_line (exT 13) ["lw"; "x11"; "data"; "("; "x10"; ")"]%string "ITypeInstruction" "lw" ["x11"; "x10"]%string
           [("rd", R "x11"); ("rs1", R "x10"); ("imm", FExpr (EArith (AName "data"))); ("is_auipc_jump", FBool false)]%string (EArith (AName "data")) /\
  ex_vals = firstn 14 ex_vals ++ (exT 15, "    li x13, end")%string :: skipn 15 ex_vals /\ lex_tokens "    li x13, end" = Some ["li"; "x13"; "end"]%string /\
  li_line (exT 15) ["li"; "x13"; "end"]%string "x13" ["end"]%string (EArith (AName "end")) /\ unsettled [] (EArith (AName "end")) = true /\
  ex_vals = firstn 15 ex_vals ++ (exT 16, "end:")%string :: skipn 16 ex_vals /\ front_line (exT 16) "end:" = FOk (Some (ILabel "end")) /\
  ex_vals = firstn 3 ex_vals ++ (exT 4, "data:")%string :: skipn 4 ex_vals /\ front_line (exT 4) "data:" = FOk (Some (ILabel "data")) /\
  ident "end" = true /\ ident "data" = true.
Proof. exact ex_vals_hyps. Qed.
(* ... jointly: the composed theorems instantiated on that text, in both modes, for `dw %offset(end)`, `lw x11, x10, %lo(end)` and
   `li x13, end` (q = everything in front of `end:`, p = everything in front of the line itself) *)
Example C08_text_example_applied : forall cmp,
  let r := ex_vals_result cmp in
  (exists cs1 cs2 ca cb z,
     r_chunks r = cs1 ++ (exT 6, CBytes (int_bytes 4 z)) :: cs2 /\ text_layout r 0 (firstn 5 ex_vals) cs1 /\
     r_chunks r = ca ++ cb /\ text_layout r 0 (firstn 15 ex_vals) ca /\
     value_at (only "end" (tot csz ca)) (tot csz cs1) (EOff "end") = Some z /\ int_fits 4 z = true) /\
  (exists cs1 cs2 ca cb z w ops i,
     r_chunks r = cs1 ++ (exT 10, CBytes (le_bytes 4 w)) :: cs2 /\ text_layout r 0 (firstn 9 ex_vals) cs1 /\
     r_chunks r = ca ++ cb /\ text_layout r 0 (firstn 15 ex_vals) ca /\
     value_at (only "end" (tot csz ca)) (tot csz cs1) (ELo (EArith (AName "end"))) = Some z /\
     operands32 "lw" (map (alias_arg (r_consts r)) ["x11"; "x10"]%string ++ [AInt z]) [] = Some ops /\ imm_ops "ITypeInstruction" ops z /\
     denote32 "lw" ops = Some i /\ decode32 w = Some i) /\
  (exists cs1 cs2 ca cb bs1 bs2 nrd v,
     r_chunks r = cs1 ++ (exT 15, CBytes bs1) :: (exT 15, CBytes bs2) :: cs2 /\ text_layout r 0 (firstn 14 ex_vals) cs1 /\
     r_chunks r = ca ++ cb /\ text_layout r 0 (firstn 15 ex_vals) ca /\ zlen bs1 = 4 /\ zlen bs2 = 4 /\
     regnum (AStr "x13") = Some nrd /\ value_at (only "end" (tot csz ca)) (tot csz cs1) (EArith (AName "end")) = Some v /\
     forall s, loaded s (bs1 ++ bs2) ->
       exists s', run_n 2 s = Some s' /\ pc s' = wrap (pc s + 8) /\ only_reg s s' nrd (wrap v)).
Proof. exact ex_vals_applied. Qed.

(* ---- what is NOT covered, and why (all checked on the real assembler) -------------------------------------------------------------------
   * a SETTLED immediate (constants and literals only) does not depend on the layout at all: C08_settled_stable; such an instruction may
     be compressed (C04 / C20).
   * branches / jal / call / tail take a REFERENCE: C03_text_branch_lands, C03_text_jal_lands, C03_text_call_lands.
   * a constant of the same name shadows a label (ChainMap(constants, labels)): hence `assoc_str L (r_consts r) = None`
     (witness: C03_text_constant_shadows_label).
   * the `imm(reg)` spelling takes ONE immediate token: `lw x11, %lo(end)(x10)` is refused by parse_item ("base offset form must be
     offset(reg)" -- nine tokens, not six; the real assembler refuses it too); `lw x11, x10, %lo(end)` and `lw x11, end(x10)` are
     accepted (imm_line: IL_i, IL_load). *)
Example C08_text_imm_reg_spelling_takes_one_token :
  front_line (exT 1) "    lw x11, %lo(end)(x10)" = FErr (PAsm (exT 1)) /\
  (exists it, front_line (exT 1) "    lw x11, x10, %lo(end)" = FOk (Some it)) /\ (exists it, front_line (exT 1) "    lw x11, end(x10)" = FOk (Some it)).
Proof. split; [vm_compute; reflexivity|]. split; eexists; vm_compute; reflexivity. Qed.

(* ---- Arithmetic.eval as the source has it (Gen/Guards.v): the expression text goes to the builtin eval as written, with no builtins and the
   environment handed in; the POSITION of the item plays no part (so an arithmetic expression without labels is settled); every
   exception becomes an AssemblerError at the line; the result must be an int *)
From BB Require Gen.Guards Proofs.Guards.
Theorem C08_arithmetic_eval_from_source : Proofs.Guards.arithmetic_eval_from_source_stmt.
Proof. exact Proofs.Guards.arithmetic_eval_from_source. Qed.
Print Assumptions C08_arithmetic_eval_from_source.
