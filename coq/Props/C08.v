(* placeholder *)
From Coq Require Import ZArith.
Theorem C08_placeholder : True. Proof. exact I. Qed.
Print Assumptions C08_placeholder.
