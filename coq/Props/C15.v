(* C15 -- a faulty source line is reported as an assembler error naming that file and line.  Statements only.
   Model: Model/Passes.v (the passes of asm.assemble, after parsing), tied to the code by the pipeline
   correspondence, which compares error CLASS (AssemblerError vs raw exception) and LOCATION (file, line) of the model
   with the real assembler on programs with one planted fault (tools/errors_engine.py).
   Both halves are theorems about the models: where an AssemblerError points (C15_located) and that no raw exception leaves the
   pipeline on well-formed items (C15_no_internal_exception), with the parser-level facts C15_malformed_expression /
   C15_align_operand; what stays outside is stated in the comment of C15_no_internal_exception. *)
From Coq Require Import ZArith List String.
From BB Require Import Base.PyBase Gen.Encoders Model.Items Model.Encode Model.Passes
  Proofs.Layout Proofs.Pipeline Proofs.Errors Proofs.Examples Model.Parser Proofs.ParseErrors Proofs.EncSig Proofs.EncTotal Proofs.NoRaw Proofs.ParseOk Gen.ParseTable Proofs.ParseTable Proofs.ReaderErrors Proofs.Program Proofs.TextErrors Proofs.Whole.
Import ListNotations.
Open Scope Z_scope.

(* Every AssemblerError raised by any of the 16 passes, with compression off or on, names the line of an item of the
   program (never an invented line, never the line of another file): each pass reports the line of the item it is
   processing, pseudo-instruction expansions and compressed forms inherit the line of the item they replace.
   (Pall: the parse result attached to an `li` item carries the li's own line -- what the real parser produces.) *)
Theorem C15_located :
  forall its consts0 labels0 compress l,
    Pall its -> assemble_items its consts0 labels0 compress = Fail (PAsm l) -> In l (lines its).
Proof. exact errors_located. Qed.
Print Assumptions C15_located.

(* undefined label / constant, malformed or non-integer expression: evaluation of a parser-shaped expression (at any
   position, in ChainMap(constants, labels)) either succeeds or raises the assembler's OWN error -- never a raw
   exception -- and that error names the line it was given, the line of the item *)
Theorem C15_expression_faults :
  forall hi lo l p (get : string -> option Z) e,
    expr_ok e = true ->
    (forall x, eeval hi lo l (Some p) (fun k => match get k with Some _ => true | None => false end) get e <> PErr (PRaw x)) /\
    (forall l', eeval hi lo l (Some p) (fun k => match get k with Some _ => true | None => false end) get e = PErr (PAsm l') -> l' = l).
Proof. intros. split. intro x. apply eeval_no_raw; auto. intro l'. apply eeval_line. Qed.
Print Assumptions C15_expression_faults.

(* malformed expression, at the PARSER: parse_immediate, on ANY token list, either returns a parser-shaped expression (so the
   theorem above applies to it), or raises the assembler's own error at the line it was given -- a truncated or over-long
   %hi / %lo / %offset / %position form never escapes as a raw ValueError / IndexError from the tuple unpacking.
   (False of the code before repo commit 724a92b, defect D21.)  FUnsup: expression text outside the PyExpr model. *)
Theorem C15_malformed_expression :
  forall (imm : list string) (l : line),
    match Parser.parse_immediate imm l with
    | Parser.FOk e => expr_ok e = true
    | Parser.FErr (PAsm l') => l' = l
    | Parser.FErr (PRaw _) => False
    | Parser.FUnsup => True
    end.
Proof. exact ParseErrors.parse_immediate_good. Qed.
Print Assumptions C15_malformed_expression.
Example C15_malformed_expression_example : forall l,
  Parser.parse_immediate ["%hi"; "("]%string l = Parser.FErr (PAsm l) /\ Parser.parse_immediate ["%lo"]%string l = Parser.FErr (PAsm l) /\
  Parser.parse_immediate ["%offset"; "("]%string l = Parser.FErr (PAsm l) /\
  Parser.parse_immediate ["%position"; "("; "x"]%string l = Parser.FErr (PAsm l) /\
  Parser.parse_immediate ["%offset"; "a"; "b"]%string l = Parser.FErr (PAsm l).
Proof. exact ParseErrors.malformed_refused. Qed.

(* operand out of range for align: `align N` with N < 1 (N = 0 made resolve_aligns divide by zero: defect D22, repo commit
   bd05113) is refused by the parser with the assembler's error at its line; an Align item always carries N >= 1 *)
Theorem C15_align_operand :
  forall (l : line) (kw a : string), lower kw = "align"%string ->
    match Parser.parse_item l [kw; a] with
    | Parser.FOk it => exists n, it = IAlign n /\ 1 <= n
    | Parser.FErr e => e = PAsm l
    | Parser.FUnsup => False
    end.
Proof. exact ParseErrors.align_operand. Qed.
Print Assumptions C15_align_operand.

(* missing include file, at the READER: read_lines (Model/Reader.v, tied to asm.read_lines by the reader correspondence of C14)
   never fails with a raw exception when its argument is a source text or a file -- every include / include_bytes it follows
   was found by the search, which accepts files only (a directory of that name made open() raise: defect D25, repo commit
   30b3d5d) -- and a missing include is the assembler's own error at the include line of the including file, whatever blank
   lines stand in front of it *)
Theorem C15_reader_no_raw :
  forall fuel fs cwd incs top,
    (Reader.fs_exists fs cwd top = true -> Reader.fs_isfile fs cwd top = true) ->
    Reader.read_lines fuel fs cwd incs top <> Reader.RErr Reader.ERaw.
Proof.
  intros fuel fs cwd incs top H E. pose proof (ReaderErrors.read_lines_noraw fuel fs cwd incs top H) as N. rewrite E in N. exact N.
Qed.
Print Assumptions C15_reader_no_raw.
Theorem C15_missing_include_located :
  forall rec fs cwd file dirs pre i raw rel rest,
    Forall (fun nl => Reader.is_blank (snd nl) = true) pre ->
    Reader.is_blank raw = false -> Reader.is_include raw = true -> Reader.include_target raw = Some rel ->
    Reader.lookup fs cwd rel dirs = None ->
    Reader.read_numbered rec fs cwd file dirs (app pre ((i, raw) :: rest)) = Reader.RErr (Reader.EAsm file i Reader.MIncludeMissing).
Proof. exact ReaderErrors.missing_include_located. Qed.
Print Assumptions C15_missing_include_located.

(* duplicate label: the label pass fails exactly at a SECOND definition (the line it names is a label item whose name
   was defined earlier), and a successful run means all label names are distinct *)
Theorem C15_duplicate_label :
  forall its pos ls l, resolve_labels_from its pos ls [] = Fail (PAsm l) ->
    exists pre n post, its = app pre ((l, ILabel n) :: post) /\ In n (gnames pre).
Proof.
  intros its pos ls l H. destruct (labels_fail_duplicate _ _ _ _ _ H) as (pre & n & post & E & [[]|Hd]).
  exists pre, n, post. auto.
Qed.
Print Assumptions C15_duplicate_label.
Theorem C15_labels_unique_on_success : forall its ls ls', resolve_labels its 0 ls = Done ls' -> NoDup (gnames its).
Proof. exact resolve_labels_nodup. Qed.
Print Assumptions C15_labels_unique_on_success.

(* operand out of range in data: pack / shorthand / sequence values that do not fit (C10 states exactly which) fail with
   the assembler's own error -- no raw struct.error / ValueError can leave these passes *)
Theorem C15_data_faults :
  (forall its acc x, resolve_packs its acc <> Fail (PRaw x)) /\
  (forall its acc x, seq_names_ok its -> resolve_sequences its acc <> Fail (PRaw x)).
Proof. split. exact packs_no_raw. exact sequences_no_raw. Qed.
Print Assumptions C15_data_faults.

(* operand out of range / unknown register in an instruction: a ValueError of the generated encoder (C06: raised exactly
   for operands outside the documented sets) becomes the assembler's error at the instruction's line *)
Theorem C15_encoder_faults :
  forall l cls name fs c,
    (if is_atomic_cls cls
     then match split_last2 (args_of fs) with
          | Some (pos, aq, rl) => encode name pos [("aq", aq); ("rl", rl)]%string
          | None => Err ValueError
          end
     else encode name (args_of fs) []) = Err ValueError ->
    encode_item l cls name fs c = Fail (PAsm l).
Proof. exact encode_item_value_error. Qed.
Print Assumptions C15_encoder_faults.

(* THE SECOND HALF OF THE PROPERTY, for the whole pipeline: on well-formed items NO raw (internal) exception leaves any of the 16
   passes, with compression off or on, for any initial constants and labels: the run ends with a result, with the assembler's
   own error (located by C15_located), or outside the model (Unsupported: a pack format or expression text the model does not
   cover) -- never with Fail (PRaw _).
   Well-formed (NoRaw.okb 0, a boolean, spelled out in Proofs/NoRaw.v) is what the parser hands over:
   * an instruction of class C carries a mnemonic of C's GENERATED table and, in args() order, exactly the operand fields of C's
     GENERATED class_fields entry: register-like fields hold any token or alias value, `imm` holds a parser-shaped expression;
   * a pseudo-instruction has the operand count of its row in the table REGENERATED from transform_pseudo_instructions (Gen/Pseudo.v)
     and, for li, carries the result of parse_immediate on its operands (which is never a raw failure: C15_malformed_expression);
   * align N has N >= 1 (C15_align_operand); sequence / shorthand directives carry a name of the size tables; pack / shorthand
     values and constants are parser-shaped expressions; an include_bytes file has the announced size.
   NOT well-formed, hence outside this theorem: a wrong operand COUNT of a pseudo-instruction (`mv t0`: raw ValueError from tuple
   unpacking, not a fault class of the property), a shorthand directive spelled in upper case (`DB 1`: KeyError), a file that
   disappears or changes size between read_lines and resolve_include_bytes.
   The proof goes through every pass with a stage-indexed invariant; it uses, for the generated code: the totality of all 93
   generated encoders (Proofs/EncTotal.v: Ok or ValueError on well-kinded operands), a computed check that every rule of the
   generated criteria / construction tables reads only operands its class has and builds a well-shaped compressed instruction
   (NoRaw.criteria_ok), the same for every pseudo template (NoRaw.templates_ok), and the generated flag
   select_converts_value_error (the try/except around the compression predicates: D13). *)
Theorem C15_no_internal_exception :
  forall its consts0 labels0 compress x,
    Forall (fun li => NoRaw.okb 0 (snd li) = true) its ->
    assemble_items its consts0 labels0 compress <> Fail (PRaw x).
Proof.
  intros its c0 l0 cmp x H. eapply NoRaw.good_no_raw. apply NoRaw.assemble_good. exact EncTotal.encode_total. exact H.
Qed.
Print Assumptions C15_no_internal_exception.
Example C15_no_internal_exception_example :      (* the hypothesis holds of real programs: the example programs of C03 / C12 *)
  Forall (fun li => NoRaw.okb 0 (snd li) = true) ex_its /\ Forall (fun li => NoRaw.okb 0 (snd li) = true) ex12.
Proof. split; repeat constructor. Qed.

(* ... and the hypothesis is what the front end produces: whatever the parser model returns for ANY token list is well-formed,
   with exactly the two exceptions named above (stated as hypotheses here): a pseudo-instruction must have the operand count of
   its regenerated template row, a shorthand directive a name of the size table.  (include_bytes lines are outside the parser
   model: FUnsup.) *)
Theorem C15_parser_output_well_formed :
  forall (l : line) (tokens : list string) (it : item),
    Parser.parse_item l tokens = Parser.FOk it ->
    (forall n a p, it = IPseudo n a p -> ParseOk.pseudo_arity_okb n a = true) ->
    (forall n v, it = IShort n v -> short_fmt n <> None) ->
    NoRaw.okb 0 it = true.
Proof.
  intros l tokens it H P S. eapply ParseOk.concl_ok; eauto. eapply ParseOk.parse_item_ok; eauto.
  intros n v E. specialize (S n v E). destruct (short_fmt n); [reflexivity|contradiction].
Qed.
Print Assumptions C15_parser_output_well_formed.
Example C15_parser_output_example :      (* real token lists parse, and the two side conditions hold for them *)
  forall l, exists i1 i2 i3,
    Parser.parse_item l ["lw"; "x8"; "4"; "("; "x9"; ")"]%string = Parser.FOk i1 /\ NoRaw.okb 0 i1 = true /\
    Parser.parse_item l ["mv"; "t0"; "t1"]%string = Parser.FOk i2 /\ NoRaw.okb 0 i2 = true /\
    Parser.parse_item l ["dw"; "1"; "+"; "L"]%string = Parser.FOk i3 /\ NoRaw.okb 0 i3 = true.
Proof. intro l. do 3 eexists. repeat split; vm_compute; reflexivity. Qed.

(* the try/except handlers the model relies on (ValueError of an encoder, non-integer / misfitting sequence element, misfitting
   pack value -> AssemblerError at item.line) are read from the SOURCE on every run (Gen/PassTable.v handlers; the model consults
   them through the conv_ flags): removing one makes the model raise the raw exception too, and this and the no-raw theorem break *)
Theorem C15_handlers_from_source :
  conv_instr_ve = true /\ conv_seq_int = true /\ conv_seq_pack = true /\ conv_pack = true /\
  Gen.Criteria.select_converts_value_error = true.
Proof. repeat split; reflexivity. Qed.
Print Assumptions C15_handlers_from_source.

(* BOTH HALVES AT THE LEVEL OF THE TEXT of a file: the model of asm.assemble on the lines of one file (Proofs/Program.v
   assemble_text: lex and parse every line, drop blank lines, run the 16 passes), for every file, any initial constants / labels,
   both modes.  The only condition, on each line separately and in terms of the lexer / parser models only (TextErrors.line_cond):
   the parser does not hit one of its operand-COUNT faults on it (tuple unpacking: `mv t0`, `align`, `error` -- not a fault class of the
   property), a pseudo-instruction has the operand count of its template row, a shorthand directive is spelled in lower case.
   Then: the run NEVER ends with a raw exception, and an AssemblerError ALWAYS names one of the lines of the file. *)
Theorem C15_text_no_internal_exception :
  forall (ls : list (line * string)) consts labels compress x,
    Forall TextErrors.line_cond ls -> Program.assemble_text ls consts labels compress <> Program.TFail (PRaw x).
Proof.
  intros ls c l cmp x H. apply TextErrors.text_no_raw. exact EncTotal.encode_total.
  eapply Forall_impl; [|exact H]. intros lt. apply TextErrors.line_cond_fine.
Qed.
Print Assumptions C15_text_no_internal_exception.
Theorem C15_text_located :
  forall (ls : list (line * string)) consts labels compress l,
    Forall TextErrors.line_cond ls -> Program.assemble_text ls consts labels compress = Program.TFail (PAsm l) -> In l (map fst ls).
Proof.
  intros ls c lb cmp l H. apply TextErrors.text_located.
  eapply Forall_impl; [|exact H]. intros lt. apply TextErrors.line_cond_fine.
Qed.
Print Assumptions C15_text_located.
Example C15_text_example :     (* a three-line file with an undefined label: hypotheses hold, the error names line 3 *)
  let ls := [(exL 1, "start:"); (exL 2, "  addi x8, x8, 1  # count"); (exL 3, "  j nowhere")]%string in
  Forall TextErrors.line_cond ls /\ Program.assemble_text ls [] [] true = Program.TFail (PAsm (exL 3)).
Proof.
  cbv zeta. split.
  { apply Forall_cons; [|apply Forall_cons; [|apply Forall_cons; [|apply Forall_nil]]]; (unfold TextErrors.line_cond; vm_compute; split; intros;
      first [discriminate | match goal with Hq : _ = _ |- _ => inversion Hq; subst; reflexivity end]). }
  vm_compute. reflexivity.
Qed.

(* ... AND FOR THE WHOLE MODEL of asm.assemble -- reader (include splicing over an abstract file system, any nesting within the
   fuel), lexer, parser, 16 passes (Proofs/Whole.v assemble_model): when the argument is a source text or a file and every line
   that is read meets the per-line condition, the run never ends with a raw exception, and an AssemblerError names the file and
   line number of a line that was read (the reader's own errors -- missing include -- carry the including file and line by
   construction: C15_missing_include_located) *)
Theorem C15_whole_no_internal_exception :
  forall fuel fs cwd incs top consts labels compress x,
    (Reader.fs_exists fs cwd top = true -> Reader.fs_isfile fs cwd top = true) ->
    (forall lns, Reader.read_lines fuel fs cwd incs top = Reader.ROk lns -> Forall TextErrors.line_cond (map Whole.to_text lns)) ->
    Whole.assemble_model fuel fs cwd incs top consts labels compress <> Whole.WFail (PRaw x).
Proof. exact Whole.whole_no_raw. Qed.
Print Assumptions C15_whole_no_internal_exception.
Theorem C15_whole_located :
  forall fuel fs cwd incs top consts labels compress l lns,
    Reader.read_lines fuel fs cwd incs top = Reader.ROk lns -> Forall TextErrors.line_cond (map Whole.to_text lns) ->
    Whole.assemble_model fuel fs cwd incs top consts labels compress = Whole.WFail (PAsm l) ->
    exists ln, In ln lns /\ l = {| lfile := Reader.l_file ln; lnum := Reader.l_num ln |}.
Proof. exact Whole.whole_located. Qed.
Print Assumptions C15_whole_located.

(* the class -> mnemonic-table map of the well-formedness above (Proofs/EncSig.v class_sig) is the dispatch of asm.parse_item as
   REGENERATED from the source (Gen/ParseTable.v): the parser builds each class from exactly that table and passes the operand
   fields in the order of the generated class_fields *)
Theorem C15_class_table_from_source :
  forall cls names kinds, assoc_str cls EncSig.class_sig = Some (names, kinds) ->
  exists tname args keys, In (names, tname, cls, args) Gen.ParseTable.parse_dispatch /\ NoRaw.class_keys cls = Some keys /\
                          args = ("line" :: "name" :: keys)%string.
Proof. exact ParseTable.class_sig_from_source. Qed.
Print Assumptions C15_class_table_from_source.

(* non-vacuity: a program with an undefined label fails with the assembler's error at the referring line *)
Example C15_example :
  let its := [(exL 1, ILabel "a"); (exL 2, IPseudo "j" ["nowhere"] (PErr (PRaw OtherExn)))]%string in
  Pall its /\ assemble_items its [] [] true = Fail (PAsm (exL 2)) /\ In (exL 2) (lines its).
Proof. split. repeat constructor. split. vm_compute. reflexivity. right; left; reflexivity. Qed.

(* ---- resolve_labels as the source has it (Gen/Guards.v): a label is bound to the running position (from 0, advanced by item.size()),
   a second definition is refused at its line *)
From BB Require Gen.Guards Proofs.Guards.
Theorem C15_resolve_labels_from_source : Proofs.Guards.resolve_labels_from_source_stmt.
Proof. exact Proofs.Guards.resolve_labels_from_source. Qed.
Print Assumptions C15_resolve_labels_from_source.

(* ---- the model is a FUNCTION of the program and the options, and so is the code it models: the effect summary regenerated from asm.py
   passes summary_ok (no module-level object written by anything reachable from assemble(), no mutable default, no set iteration order
   consumed; Proofs/Effects.v noninterference) -- a memo table or cache that outlives a call makes a pure model unfaithful *)
From BB Require Gen.Effects Proofs.Effects Proofs.EffectsOk.
Theorem C15_assemble_is_a_function_of_its_inputs : Proofs.Effects.summary_ok Gen.Effects.summary = true.
Proof. exact Proofs.EffectsOk.summary_ok_holds. Qed.
Print Assumptions C15_assemble_is_a_function_of_its_inputs.

(* ---- Arithmetic.eval as the source has it (Gen/Guards.v): the expression text goes to the builtin eval as written, with no builtins and the
   environment handed in; the POSITION of the item plays no part (so an arithmetic expression without labels is settled); every
   exception becomes an AssemblerError at the line; the result must be an int *)
From BB Require Gen.Guards Proofs.Guards.
Theorem C15_arithmetic_eval_from_source : Proofs.Guards.arithmetic_eval_from_source_stmt.
Proof. exact Proofs.Guards.arithmetic_eval_from_source. Qed.
Print Assumptions C15_arithmetic_eval_from_source.
