(* placeholder until the theorems are in *)
From Coq Require Import ZArith.
Theorem C15_placeholder : True. Proof. exact I. Qed.
Print Assumptions C15_placeholder.
