(* C16 -- assembly is a pure function of its inputs (no state leaks between calls, no dependence on the hash seed or on
   the call history).  Statements only; definitions and proofs live in Proofs/Effects.v.

   PARTIAL by construction: the theorems are about the effect SUMMARY of bronzebeard/asm.py that tools/units_effects.py
   regenerates from the AST on every run (Gen/Effects.v) and about every program of the effect-annotated language of
   Proofs/Effects.v that this summary abstracts.  That the summary over-approximates what CPython does when it runs
   asm.py is the translator's claim (trusted); the behavioural half of the check (tools/history_engine.py) exercises
   exactly that on the real code. *)
From Coq Require Import List String.
From BB Require Import Proofs.Effects Gen.Effects.
Import ListNotations.

(* no function reachable from assemble / cli_main writes through a receiver that may be a module-level object (through
   any chain of calls and argument passing), none has a mutable default argument, none consumes the iteration order of
   a set, none declares global / nonlocal *)
Theorem C16_summary_ok : summary_ok Gen.Effects.summary = true.
Proof. vm_compute. reflexivity. Qed.
Print Assumptions C16_summary_ok.

(* for every program abstracted by the summary: every call of every history gives the result (signal incl. exception,
   return value, final contents of the caller-visible argument objects) of the same call made alone from the initial
   module state, under any other hash seed *)
Theorem C16_pure :
  forall (val seedT : Type) (P : program val seedT), abstracts Gen.Effects.summary P ->
  forall (fuel : nat) (seed seed' : seedT) (G0 : gstate val) (h : list (call val)),
    Forall (fun c => In (c_entry c) (s_entries Gen.Effects.summary)) h ->
    run_history P fuel seed G0 h = map (fun c => fst (run_call P fuel seed' G0 c)) h.
Proof. intros val seedT P Habs. exact (noninterference val seedT Gen.Effects.summary P Habs C16_summary_ok). Qed.
Print Assumptions C16_pure.

(* the generic theorem, for any summary *)
Theorem C16_noninterference :
  forall (val seedT : Type) (s : Proofs.Effects.summary) (P : program val seedT), abstracts s P -> summary_ok s = true ->
  forall (fuel : nat) (seed seed' : seedT) (G0 : gstate val) (h : list (call val)),
    Forall (fun c => In (c_entry c) (s_entries s)) h ->
    run_history P fuel seed G0 h = map (fun c => fst (run_call P fuel seed' G0 c)) h.
Proof. exact noninterference. Qed.
Print Assumptions C16_noninterference.

(* the hypotheses are satisfiable (a two-function program in the shape of assemble / resolve_constants) ... *)
Example C16_hypotheses_satisfiable : abstracts ex_summary ex_program /\ summary_ok ex_summary = true.
Proof. exact (conj ex_abstracts ex_ok). Qed.

(* ... and each excluded effect really breaks the conclusion: a module-level cache, a mutable default, a set iteration *)
Example C16_global_write_leaks :
  summary_ok leak_summary = false /\
  run_history leak_program 5 0 (fun _ => 0) [ex_call; ex_call]
  <> map (fun c => fst (run_call leak_program 5 0 (fun _ => 0) c)) [ex_call; ex_call].
Proof. exact (conj leak_rejected leak_differs). Qed.

Example C16_mutable_default_leaks :
  summary_ok mutdef_summary = false /\
  run_history mutdef_program 5 0 (fun _ => 0) [ex_call; ex_call]
  <> map (fun c => fst (run_call mutdef_program 5 0 (fun _ => 0) c)) [ex_call; ex_call].
Proof. exact (conj mutdef_rejected mutdef_differs). Qed.

Example C16_set_iteration_depends_on_seed :
  run_history setiter_program 5 1 (fun _ => 0) [ex_call]
  <> map (fun c => fst (run_call setiter_program 5 2 (fun _ => 0) c)) [ex_call].
Proof. exact setiter_differs. Qed.

(* ---- only the output dictionaries are written: in the write set of the regenerated summary the entry function assemble() occurs
   with its source argument (an immutable string; over-approximation), `constants` and `labels` only -- never with `include_dirs`
   (a list the caller may hand to several calls) or `compress` *)
From BB Require Proofs.EffectsParams.
Theorem C16_only_output_dictionaries_written :
  Proofs.EffectsParams.written_only Gen.Effects.summary Gen.Effects.entry_params "assemble" ["path_or_source"; "constants"; "labels"]%string = true /\
  existsb (fun o => match o with Some n => String.eqb n "constants" | None => false end)
          (Proofs.EffectsParams.written_names Gen.Effects.summary Gen.Effects.entry_params "assemble") = true /\
  existsb (fun o => match o with Some n => String.eqb n "labels" | None => false end)
          (Proofs.EffectsParams.written_names Gen.Effects.summary Gen.Effects.entry_params "assemble") = true.
Proof. exact Proofs.EffectsParams.assemble_writes_only_outputs. Qed.
Print Assumptions C16_only_output_dictionaries_written.
