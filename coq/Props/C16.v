(* C16 -- assembly is a pure function of its inputs (no state leaks between calls, no dependence on the hash seed or on
   the call history).  Statements only; definitions and proofs live in Proofs/Effects.v.

   PARTIAL by construction: the theorems are about the effect SUMMARY of bronzebeard/asm.py that tools/units_effects.py
   regenerates from the AST on every run (Gen/Effects.v) and about every program of the effect-annotated language of
   Proofs/Effects.v that this summary abstracts.  That the summary over-approximates what CPython does when it runs
   asm.py is the translator's claim (trusted); the behavioural half of the check (tools/history_engine.py) exercises
   exactly that on the real code. *)
From Coq Require Import List String.
From BB Require Import Proofs.Effects Gen.Effects.
Import ListNotations.

(* no function reachable from assemble / cli_main writes through a receiver that may be a module-level object (through
   any chain of calls and argument passing), none has a mutable default argument, none consumes the iteration order of
   a set, none declares global / nonlocal *)
Theorem C16_summary_ok : summary_ok Gen.Effects.summary = true.
Proof. vm_compute. reflexivity. Qed.
Print Assumptions C16_summary_ok.

(* for every program abstracted by the summary: every call of every history gives the result (signal incl. exception,
   return value, final contents of the caller-visible argument objects) of the same call made alone from the initial
   module state, under any other hash seed *)
Theorem C16_pure :
  forall (val seedT : Type) (P : program val seedT), abstracts Gen.Effects.summary P ->
  forall (fuel : nat) (seed seed' : seedT) (G0 : gstate val) (h : list (call val)),
    Forall (fun c => In (c_entry c) (s_entries Gen.Effects.summary)) h ->
    run_history P fuel seed G0 h = map (fun c => fst (run_call P fuel seed' G0 c)) h.
Proof. intros val seedT P Habs. exact (noninterference val seedT Gen.Effects.summary P Habs C16_summary_ok). Qed.
Print Assumptions C16_pure.

(* the generic theorem, for any summary *)
Theorem C16_noninterference :
  forall (val seedT : Type) (s : Proofs.Effects.summary) (P : program val seedT), abstracts s P -> summary_ok s = true ->
  forall (fuel : nat) (seed seed' : seedT) (G0 : gstate val) (h : list (call val)),
    Forall (fun c => In (c_entry c) (s_entries s)) h ->
    run_history P fuel seed G0 h = map (fun c => fst (run_call P fuel seed' G0 c)) h.
Proof. exact noninterference. Qed.
Print Assumptions C16_noninterference.

(* the hypotheses are satisfiable (a two-function program in the shape of assemble / resolve_constants) ... *)
Example C16_hypotheses_satisfiable : abstracts ex_summary ex_program /\ summary_ok ex_summary = true.
Proof. exact (conj ex_abstracts ex_ok). Qed.

(* ... and each excluded effect really breaks the conclusion: a module-level cache, a mutable default, a set iteration *)
Example C16_global_write_leaks :
  summary_ok leak_summary = false /\
  run_history leak_program 5 0 (fun _ => 0) [ex_call; ex_call]
  <> map (fun c => fst (run_call leak_program 5 0 (fun _ => 0) c)) [ex_call; ex_call].
Proof. exact (conj leak_rejected leak_differs). Qed.

Example C16_mutable_default_leaks :
  summary_ok mutdef_summary = false /\
  run_history mutdef_program 5 0 (fun _ => 0) [ex_call; ex_call]
  <> map (fun c => fst (run_call mutdef_program 5 0 (fun _ => 0) c)) [ex_call; ex_call].
Proof. exact (conj mutdef_rejected mutdef_differs). Qed.

Example C16_set_iteration_depends_on_seed :
  run_history setiter_program 5 1 (fun _ => 0) [ex_call]
  <> map (fun c => fst (run_call setiter_program 5 2 (fun _ => 0) c)) [ex_call].
Proof. exact setiter_differs. Qed.

(* ---- only the output dictionaries are written: in the write set of the regenerated summary the entry function assemble() occurs
   with its source argument (an immutable string; over-approximation), `constants` and `labels` only -- never with `include_dirs`
   (a list the caller may hand to several calls) or `compress` *)
From BB Require Proofs.EffectsParams.
Theorem C16_only_output_dictionaries_written :
  Proofs.EffectsParams.written_only Gen.Effects.summary Gen.Effects.entry_params "assemble" ["path_or_source"; "constants"; "labels"]%string = true /\
  existsb (fun o => match o with Some n => String.eqb n "constants" | None => false end)
          (Proofs.EffectsParams.written_names Gen.Effects.summary Gen.Effects.entry_params "assemble") = true /\
  existsb (fun o => match o with Some n => String.eqb n "labels" | None => false end)
          (Proofs.EffectsParams.written_names Gen.Effects.summary Gen.Effects.entry_params "assemble") = true.
Proof. exact Proofs.EffectsParams.assemble_writes_only_outputs. Qed.
Print Assumptions C16_only_output_dictionaries_written.

(* ---- FRAME: which caller-visible argument objects a call can change at all (Proofs/EffectsFrame.v).
   Model reading: a state has one cell per caller-visible argument object (`cargs`); a cell holds the whole content of the object
   (the object and everything reachable from it: at an entry point parameter i is bound to (PlArg i, PlArg i)); the cells of one call
   are distinct objects.  "The k-th argument object is unchanged" is  nth_error (final cells) k = nth_error (given cells) k.
   `untouched s f k` = neither (f, k, shallow) nor (f, k, deep) is in the write set wparams s (reach s).
   No side condition beyond summary_ok is needed (check itself verifies that W is closed under the stores and calls). *)
From BB Require Import Proofs.EffectsFrame.

(* if both keys of (entry, k) are outside the write set, the k-th argument object after the call is the one the call was given:
   every program abstracted by the summary, every fuel, hash seed, module state, call (failing ones included) *)
Theorem C16_untouched_arguments :
  forall (val seedT : Type) (s : Proofs.Effects.summary) (P : program val seedT), abstracts s P -> summary_ok s = true ->
  forall (fuel : nat) (seed : seedT) (G : gstate val) (c : call val) (k : nat),
    In (c_entry c) (s_entries s) ->
    memW (c_entry c, k, false) (wparams s (reach s)) = false ->
    memW (c_entry c, k, true) (wparams s (reach s)) = false ->
    nth_error (snd (fst (run_call P fuel seed G c))) k = nth_error (c_args c) k.
Proof. exact untouched_arguments. Qed.
Print Assumptions C16_untouched_arguments.

(* no call of any program changes the number of argument objects *)
Theorem C16_arguments_length :
  forall (val seedT : Type) (P : program val seedT) (fuel : nat) (seed : seedT) (G : gstate val) (c : call val),
    List.length (snd (fst (run_call P fuel seed G c))) = List.length (c_args c).
Proof. exact arguments_length. Qed.
Print Assumptions C16_arguments_length.

(* the same for every call of a history of entry calls *)
Theorem C16_untouched_history :
  forall (val seedT : Type) (s : Proofs.Effects.summary) (P : program val seedT), abstracts s P -> summary_ok s = true ->
  forall (fuel : nat) (seed : seedT) (G0 : gstate val) (h : list (call val)) (k : nat),
    Forall (fun c => In (c_entry c) (s_entries s) /\ untouched s (c_entry c) k = true) h ->
    map (fun r : result val => nth_error (snd r) k) (run_history P fuel seed G0 h) = map (fun c => nth_error (c_args c) k) h.
Proof. exact untouched_history. Qed.
Print Assumptions C16_untouched_history.

(* ONE object handed to every call of a history as argument k (run_history_shared: what a call leaves in it is what the next call
   receives): each call gives the result of that call alone, from the initial module state, under any other hash seed, with the
   ORIGINAL content v of the shared object *)
Theorem C16_shared_argument_history :
  forall (val seedT : Type) (s : Proofs.Effects.summary) (P : program val seedT), abstracts s P -> summary_ok s = true ->
  forall (fuel : nat) (seed seed' : seedT) (G0 : gstate val) (k : nat) (v : val) (h : list (call val)),
    Forall (fun c => In (c_entry c) (s_entries s) /\ untouched s (c_entry c) k = true) h ->
    run_history_shared P fuel seed G0 k v h = map (fun c => fst (run_call P fuel seed' G0 (with_arg k v c))) h.
Proof. exact shared_argument_history. Qed.
Print Assumptions C16_shared_argument_history.

(* the semantic reading of the computed check written_only (Proofs/EffectsParams.v): a position of the entry function whose parameter
   name is not in the allowed list (or that lies beyond the signature) is never changed *)
Theorem C16_written_only_frame :
  forall (val seedT : Type) (s : Proofs.Effects.summary) (P : program val seedT), abstracts s P -> summary_ok s = true ->
  forall (names : list (string * list string)) (allowed : list string)
         (fuel : nat) (seed : seedT) (G : gstate val) (c : call val) (k : nat),
    In (c_entry c) (s_entries s) ->
    Proofs.EffectsParams.written_only s names (c_entry c) allowed = true -> not_allowed names (c_entry c) allowed k = true ->
    nth_error (snd (fst (run_call P fuel seed G c))) k = nth_error (c_args c) k.
Proof. exact written_only_frame. Qed.
Print Assumptions C16_written_only_frame.

(* the regenerated summary: every program it abstracts leaves the argument objects of assemble() at the positions of `compress` and
   `include_dirs` (by NAME in Gen.Effects.entry_params: positions 3 and 4, see C16_search_path_positions) unchanged by any call;
   derived from C16_only_output_dictionaries_written, not from a separate computation *)
Theorem C16_search_path_untouched :
  forall (val seedT : Type) (P : program val seedT), abstracts Gen.Effects.summary P ->
  forall (fuel : nat) (seed : seedT) (G : gstate val) (c : call val) (k : nat) (n : string),
    c_entry c = "assemble"%string ->
    param_name Gen.Effects.entry_params "assemble" k = Some n -> n = "compress"%string \/ n = "include_dirs"%string ->
    nth_error (snd (fst (run_call P fuel seed G c))) k = nth_error (c_args c) k.
Proof. exact search_path_untouched. Qed.
Print Assumptions C16_search_path_untouched.

(* ... and so is every other position that is not one of the three outputs *)
Theorem C16_non_output_arguments_untouched :
  forall (val seedT : Type) (P : program val seedT), abstracts Gen.Effects.summary P ->
  forall (fuel : nat) (seed : seedT) (G : gstate val) (c : call val) (k : nat),
    c_entry c = "assemble"%string ->
    not_allowed Gen.Effects.entry_params "assemble" ["path_or_source"; "constants"; "labels"]%string k = true ->
    nth_error (snd (fst (run_call P fuel seed G c))) k = nth_error (c_args c) k.
Proof. exact non_output_arguments_untouched. Qed.
Print Assumptions C16_non_output_arguments_untouched.

(* every call of every history of entry calls (assemble and cli_main mixed) *)
Theorem C16_search_path_untouched_history :
  forall (val seedT : Type) (P : program val seedT), abstracts Gen.Effects.summary P ->
  forall (fuel : nat) (seed : seedT) (G0 : gstate val) (h : list (call val)) (k : nat) (n : string),
    Forall (fun c => In (c_entry c) (s_entries Gen.Effects.summary)) h ->
    param_name Gen.Effects.entry_params "assemble" k = Some n -> n = "compress"%string \/ n = "include_dirs"%string ->
    map (fun r : result val => nth_error (snd r) k) (run_history P fuel seed G0 h) = map (fun c => nth_error (c_args c) k) h.
Proof. exact search_path_untouched_history. Qed.
Print Assumptions C16_search_path_untouched_history.

(* one include_dirs list kept by the caller and handed to every call: every call behaves as the call alone with the original list *)
Theorem C16_shared_search_path_history :
  forall (val seedT : Type) (P : program val seedT), abstracts Gen.Effects.summary P ->
  forall (fuel : nat) (seed seed' : seedT) (G0 : gstate val) (h : list (call val)) (k : nat) (n : string) (v : val),
    Forall (fun c => In (c_entry c) (s_entries Gen.Effects.summary)) h ->
    param_name Gen.Effects.entry_params "assemble" k = Some n -> n = "compress"%string \/ n = "include_dirs"%string ->
    run_history_shared P fuel seed G0 k v h = map (fun c => fst (run_call P fuel seed' G0 (with_arg k v c))) h.
Proof. exact shared_search_path_history. Qed.
Print Assumptions C16_shared_search_path_history.

Example C16_search_path_positions :
  param_name Gen.Effects.entry_params "assemble" 3 = Some "compress"%string /\
  param_name Gen.Effects.entry_params "assemble" 4 = Some "include_dirs"%string.
Proof. exact gen_param_positions. Qed.

(* non-vacuity on ex_summary / ex_program: the hypotheses hold for position 0 of the entry, the call DOES write another argument
   object (cell 1: 20 -> 28), and cell 0 is the one it was given *)
Example C16_frame_hypotheses_satisfiable :
  abstracts ex_summary ex_program /\ summary_ok ex_summary = true /\
  In (c_entry ex_call2) (s_entries ex_summary) /\
  memW (c_entry ex_call2, 0, false) (wparams ex_summary (reach ex_summary)) = false /\
  memW (c_entry ex_call2, 0, true) (wparams ex_summary (reach ex_summary)) = false /\
  c_args ex_call2 = [10; 20] /\
  snd (fst (run_call ex_program 5 0 (fun _ => 4) ex_call2)) = [10; 28].
Proof.
  split; [exact ex_abstracts|]. split; [exact ex_ok|]. split; [left; reflexivity|].
  split; [vm_compute; reflexivity|]. split; [vm_compute; reflexivity|]. split; [reflexivity|exact ex_frame_run].
Qed.

(* the hypothesis is needed: a position inside the write set does change ... *)
Example C16_written_argument_changes :
  untouched ex_summary "assemble" 1 = false /\
  nth_error (snd (fst (run_call ex_program 5 0 (fun _ => 4) ex_call2))) 1 <> nth_error (c_args ex_call2) 1.
Proof. exact ex_written_cell_changes. Qed.

(* ... BOTH keys are needed (only the deep key of (assemble, 0) is in the write set; the cell changes: 10 -> 11) ... *)
Example C16_deep_key_needed :
  summary_ok deep_summary = true /\
  memW ("assemble"%string, 0, false) (wparams deep_summary (reach deep_summary)) = false /\
  memW ("assemble"%string, 0, true) (wparams deep_summary (reach deep_summary)) = true /\
  snd (fst (run_call deep_program 5 0 (fun _ => 0) {| c_entry := "assemble"; c_args := [10]; c_input := 3 |})) = [11].
Proof. exact deep_key_needed. Qed.

(* ... and a shared object at a written position makes the second call see what the first one left (the mechanism of an
   include_dirs list extended in place), while sharing the untouched position is harmless *)
Example C16_shared_written_argument_differs :
  run_history_shared ex_program 5 0 (fun _ => 4) 1 20 [ex_call2; ex_call2]
  <> map (fun c => fst (run_call ex_program 5 0 (fun _ => 4) (with_arg 1 20 c))) [ex_call2; ex_call2].
Proof. exact ex_shared_written_differs. Qed.

Example C16_shared_untouched_argument_same :
  run_history_shared ex_program 5 0 (fun _ => 4) 0 10 [ex_call2; ex_call2]
  = map (fun c => fst (run_call ex_program 5 1 (fun _ => 4) (with_arg 0 10 c))) [ex_call2; ex_call2].
Proof. exact ex_shared_untouched. Qed.
