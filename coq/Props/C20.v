(* placeholder *)
From Coq Require Import ZArith.
Theorem C20_placeholder : True. Proof. exact I. Qed.
Print Assumptions C20_placeholder.
