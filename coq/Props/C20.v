(* C20 -- with -c every eligible instruction is compressed and nothing grows.  Statements only. *)
From Coq Require Import ZArith List String Lia.
From BB Require Import Base.PyBase Gen.Encoders Gen.Criteria Spec.RV32 Spec.RVC Spec.Operands Spec.Legal
  Model.Items Model.Encode Model.Passes Proofs.Layout Proofs.LayoutInst Proofs.Rules Proofs.RulesMain Proofs.Pipeline Proofs.Monotone Proofs.Examples.
Import ListNotations.
Open Scope Z_scope.

(* Completeness: for EVERY one of the 65 536 halfwords that is a legal non-hint non-reserved RV32C integer encoding,
   the 32-bit instruction it expands to (written with canonical operands) is selected by some rule of the GENERATED
   criteria table, in the generated order, and that rule re-encodes it legally with the same meaning
   (in-kernel sweep of all halfwords). *)
Theorem C20_complete :
  forall h c, 0 <= h < 65536 -> decode16 h = Some c ->
  exists v r, view_of_ops (fst (name_ops (expand_c c))) (snd (name_ops (expand_c c))) = Some v /\
              select_num criteria v = Some r /\ rule_check v r = true.
Proof. exact rules_complete_spec. Qed.
Print Assumptions C20_complete.

Theorem C20_complete_lui_second_spelling :
  forall h rd imm, 0 <= h < 65536 -> decode16 h = Some (CLui rd imm) -> imm < 0 ->
  exists v r, view_of_ops "lui" [rd; imm + 1048576] = Some v /\ select_num criteria v = Some r /\ rule_check v r = true.
Proof. exact rules_complete_lui_alt. Qed.
Print Assumptions C20_complete_lui_second_spelling.

(* the numeric selection is what the generated selection computes on an item *)
Theorem C20_selection_link : forall i r, select_rule criteria i = Ok r -> select_num criteria (nview_of i) = r.
Proof. exact select_link. Qed.
Print Assumptions C20_selection_link.

(* Nothing grows, item by item: whatever the compression pass does with an item, the replacement is not larger
   (4 -> 2 or unchanged, never the reverse) and contains no label; same for pseudo expansion and alignment. *)
Theorem C20_compress_never_grows : forall consts, rule_ok (compress_rule consts).
Proof. exact compress_rule_ok. Qed.
Print Assumptions C20_compress_never_grows.
Theorem C20_pseudo_never_grows : forall consts, rule_ok (pseudo_rule consts).
Proof. exact pseudo_rule_ok. Qed.
Print Assumptions C20_pseudo_never_grows.
Theorem C20_align_never_grows : rule_ok align_rule.
Proof. exact align_rule_ok. Qed.
Print Assumptions C20_align_never_grows.

(* THE SECOND HALF, whole program: for EVERY program without call / tail pseudo-instructions, any initial constants and labels:
   if it assembles in both modes, then with -c every label of the program stands at an offset no greater than without, and the
   binary is not longer.  (Two-run argument: both runs make, out of the same list after alias resolution, one group of items
   per source item; without compression a group has exactly the size psz of its item, with compression at most that -- the li
   near/far choice is the same in both modes because it is taken on constants only (li_dec); the layout after alignment is
   monotone in the group sizes because the offset after `align N` is monotone in the offset before it.)
   call / tail are excluded HERE (their near/far choice is taken on estimated distances that differ between the modes); they are
   covered by C20_never_longer_all below under two more hypotheses. *)
Theorem C20_never_longer_no_label_higher :
  forall its consts0 labels0 rU rC,
    nonneg its -> Monotone.no_calls its ->
    assemble_items its consts0 labels0 false = Done rU -> assemble_items its consts0 labels0 true = Done rC ->
    (forall L a b, In L (gnames its) -> assoc_str L (r_labels rU) = Some a -> assoc_str L (r_labels rC) = Some b -> b <= a) /\
    fold_right (fun c acc => Pipeline.chunk_len (snd c) + acc) 0 (r_chunks rC)
      <= fold_right (fun c acc => Pipeline.chunk_len (snd c) + acc) 0 (r_chunks rU).
Proof. exact Monotone.compression_monotone. Qed.
Print Assumptions C20_never_longer_no_label_higher.
(* ... and with call / tail as well, for programs assembled with no labels handed in from outside (labels0 = [], so every label
   is a label of the program) whose pessimistic size is below 2 GiB (the near / far test wraps the distance to 32 bits):
   the pseudo pass of the two runs is followed IN LOCKSTEP (Monotone.lockstep) with the invariant that every distance between the
   current position and a label is, with compression, between 0 and the distance without; so whenever the uncompressed run
   takes the near form the compressed run does too. *)
Theorem C20_never_longer_all :
  forall its consts0 rU rC,
    nonneg its -> total its < 2 ^ 31 ->
    assemble_items its consts0 [] false = Done rU -> assemble_items its consts0 [] true = Done rC ->
    (forall L a b, In L (gnames its) -> assoc_str L (r_labels rU) = Some a -> assoc_str L (r_labels rC) = Some b -> b <= a) /\
    fold_right (fun c acc => Pipeline.chunk_len (snd c) + acc) 0 (r_chunks rC)
      <= fold_right (fun c acc => Pipeline.chunk_len (snd c) + acc) 0 (r_chunks rU).
Proof. exact Monotone.compression_monotone_all. Qed.
Print Assumptions C20_never_longer_all.
Example C20_never_longer_all_example :      (* the example program of C03 (j / call / align / beq / dw): hypotheses hold *)
  nonneg ex_its /\ total ex_its < 2 ^ 31 /\
  (exists r, assemble_items ex_its [] [] false = Done r) /\ (exists r, assemble_items ex_its [] [] true = Done r).
Proof.
  split. exact ex_nonneg. split. vm_compute. reflexivity.
  split. destruct ex_runs_u as (r & H & _). eauto. destruct ex_runs_c as (r & H & _). eauto.
Qed.

Example C20_never_longer_example :          (* add / L: / li (far) / align 8 / M: / dw : hypotheses hold, labels really move *)
  let its := [(exL 1, exR3 "add" "x8" "x8" "x9"); (exL 2, ILabel "L");
              (exL 3, IPseudo "li" ["t0"; "0x12345"] (POk (EArith (ANum 74565))));
              (exL 4, IPseudo "li" ["x9"; "5"] (POk (EArith (ANum 5))));
              (exL 5, IAlign 8); (exL 6, ILabel "M"); (exL 7, IShort "dw" (FExpr (EArith (AName "M"))))]%string in
  nonneg its /\ Monotone.no_calls its /\
  (exists rU, assemble_items its [] [] false = Done rU /\ r_labels rU = [("L", 4); ("M", 16)]%string) /\
  (exists rC, assemble_items its [] [] true = Done rC /\ r_labels rC = [("L", 2); ("M", 16)]%string).
Proof.
  cbv zeta. split. { repeat constructor; try (unfold isz; simpl; lia); try (intros ? H; inversion H; subst; lia); intros ? H; discriminate. }
  split. { repeat constructor; intro H; discriminate. }
  split; eexists; split; vm_compute; reflexivity.
Qed.

Example C20_example : select_num criteria ex_view = Some "c.addi"%string /\ wf_view ex_view /\ regs_ok ex_view.
Proof. exact ex_view_selected. Qed.

(* ---- tie of the guards to the source (Gen/Guards.v, regenerated from asm.py on every run; Proofs/Guards.v) -------------------
   The model's `imm_unstable` (the test in front of the rule selection of transform_compressible), `is_settled` and
   `is_position_relative` ARE the interpretation of what the source says today: which classes are jumps, the class of the
   immediate, the dictionary the reference must not be in, the arguments handed to is_settled and by it to expr.eval. *)
From BB Require Gen.Guards Proofs.Guards.
Theorem C20_guard_from_source : forall l pos consts labels cls fs,
  imm_unstable l pos consts cls fs = Proofs.Guards.gen_imm_unstable l pos consts labels cls fs.
Proof. exact Proofs.Guards.guard_from_source. Qed.
Print Assumptions C20_guard_from_source.
Theorem C20_settled_from_source : forall l pos consts labels e,
  is_settled l pos consts e = Proofs.Guards.gen_is_settled Gen.Guards.cg_env Gen.Guards.cg_settled_args l pos consts labels e.
Proof. exact Proofs.Guards.settled_from_source. Qed.
Print Assumptions C20_settled_from_source.
Theorem C20_position_relative_from_source : forall e, is_position_relative e = Proofs.Guards.gen_posrel e.
Proof. exact Proofs.Guards.posrel_from_source. Qed.
Print Assumptions C20_position_relative_from_source.

(* ---- the order of the passes and the label updates, as the SOURCE has them today (Gen/PassTable.v; Proofs/PassOrder.v) *)
From BB Require Gen.PassTable Proofs.PassOrder.
Theorem C20_pass_order_from_source : forall its consts0 labels0 compress,
  assemble_items its consts0 labels0 compress =
  obind (Proofs.PassOrder.run Gen.PassTable.pass_order compress
           {| Proofs.PassOrder.ps_items := its; Proofs.PassOrder.ps_consts := consts0; Proofs.PassOrder.ps_labels := labels0;
              Proofs.PassOrder.ps_chunks := None |})
        Proofs.PassOrder.finish.
Proof. exact Proofs.PassOrder.assemble_is_pass_order. Qed.
Print Assumptions C20_pass_order_from_source.
Theorem C20_label_updates_from_source :
  forallb Proofs.PassOrder.update_ok Gen.PassTable.label_updates = true /\
  forallb (fun p => existsb (fun u => String.eqb (fst (fst u)) p) Gen.PassTable.label_updates)
          ["transform_compressible"; "transform_pseudo_instructions"; "resolve_aligns"]%string = true.
Proof. exact Proofs.PassOrder.label_updates_ok. Qed.
Print Assumptions C20_label_updates_from_source.

(* ---- the model is a FUNCTION of the program and the options, and so is the code it models: the effect summary regenerated from asm.py
   passes summary_ok (no module-level object written by anything reachable from assemble(), no mutable default, no set iteration order
   consumed; Proofs/Effects.v noninterference) -- a memo table or cache that outlives a call makes a pure model unfaithful *)
From BB Require Gen.Effects Proofs.Effects Proofs.EffectsOk.
Theorem C20_assemble_is_a_function_of_its_inputs : Proofs.Effects.summary_ok Gen.Effects.summary = true.
Proof. exact Proofs.EffectsOk.summary_ok_holds. Qed.
Print Assumptions C20_assemble_is_a_function_of_its_inputs.
