(* C20 -- with -c every eligible instruction is compressed and nothing grows.  Statements only. *)
From Coq Require Import ZArith List String Lia.
From BB Require Import Base.PyBase Gen.Encoders Gen.Criteria Spec.RV32 Spec.RVC Spec.Operands Spec.Legal
  Model.Items Model.Encode Model.Passes Proofs.Layout Proofs.LayoutInst Proofs.Rules Proofs.RulesMain Proofs.Pipeline Proofs.Monotone Proofs.Examples.
Import ListNotations.
Open Scope Z_scope.

(* Completeness: for EVERY one of the 65 536 halfwords that is a legal non-hint non-reserved RV32C integer encoding,
   the 32-bit instruction it expands to (written with canonical operands) is selected by some rule of the GENERATED
   criteria table, in the generated order, and that rule re-encodes it legally with the same meaning
   (in-kernel sweep of all halfwords). *)
Theorem C20_complete :
  forall h c, 0 <= h < 65536 -> decode16 h = Some c ->
  exists v r, view_of_ops (fst (name_ops (expand_c c))) (snd (name_ops (expand_c c))) = Some v /\
              select_num criteria v = Some r /\ rule_check v r = true.
Proof. exact rules_complete_spec. Qed.
Print Assumptions C20_complete.

Theorem C20_complete_lui_second_spelling :
  forall h rd imm, 0 <= h < 65536 -> decode16 h = Some (CLui rd imm) -> imm < 0 ->
  exists v r, view_of_ops "lui" [rd; imm + 1048576] = Some v /\ select_num criteria v = Some r /\ rule_check v r = true.
Proof. exact rules_complete_lui_alt. Qed.
Print Assumptions C20_complete_lui_second_spelling.

(* the numeric selection is what the generated selection computes on an item *)
Theorem C20_selection_link : forall i r, select_rule criteria i = Ok r -> select_num criteria (nview_of i) = r.
Proof. exact select_link. Qed.
Print Assumptions C20_selection_link.

(* Nothing grows, item by item: whatever the compression pass does with an item, the replacement is not larger
   (4 -> 2 or unchanged, never the reverse) and contains no label; same for pseudo expansion and alignment. *)
Theorem C20_compress_never_grows : forall consts, rule_ok (compress_rule consts).
Proof. exact compress_rule_ok. Qed.
Print Assumptions C20_compress_never_grows.
Theorem C20_pseudo_never_grows : forall consts, rule_ok (pseudo_rule consts).
Proof. exact pseudo_rule_ok. Qed.
Print Assumptions C20_pseudo_never_grows.
Theorem C20_align_never_grows : rule_ok align_rule.
Proof. exact align_rule_ok. Qed.
Print Assumptions C20_align_never_grows.

(* THE SECOND HALF, whole program: for EVERY program without call / tail pseudo-instructions, any initial constants and labels:
   if it assembles in both modes, then with -c every label of the program stands at an offset no greater than without, and the
   binary is not longer.  (Two-run argument: both runs make, out of the same list after alias resolution, one group of items
   per source item; without compression a group has exactly the size psz of its item, with compression at most that -- the li
   near/far choice is the same in both modes because it is taken on constants only (li_dec); the layout after alignment is
   monotone in the group sizes because the offset after `align N` is monotone in the offset before it.)
   call / tail are excluded HERE (their near/far choice is taken on estimated distances that differ between the modes); they are
   covered by C20_never_longer_all below under two more hypotheses. *)
Theorem C20_never_longer_no_label_higher :
  forall its consts0 labels0 rU rC,
    nonneg its -> Monotone.no_calls its ->
    assemble_items its consts0 labels0 false = Done rU -> assemble_items its consts0 labels0 true = Done rC ->
    (forall L a b, In L (gnames its) -> assoc_str L (r_labels rU) = Some a -> assoc_str L (r_labels rC) = Some b -> b <= a) /\
    fold_right (fun c acc => Pipeline.chunk_len (snd c) + acc) 0 (r_chunks rC)
      <= fold_right (fun c acc => Pipeline.chunk_len (snd c) + acc) 0 (r_chunks rU).
Proof. exact Monotone.compression_monotone. Qed.
Print Assumptions C20_never_longer_no_label_higher.
(* ... and with call / tail as well, for programs assembled with no labels handed in from outside (labels0 = [], so every label
   is a label of the program) whose pessimistic size is below 2 GiB (the near / far test wraps the distance to 32 bits):
   the pseudo pass of the two runs is followed IN LOCKSTEP (Monotone.lockstep) with the invariant that every distance between the
   current position and a label is, with compression, between 0 and the distance without; so whenever the uncompressed run
   takes the near form the compressed run does too. *)
Theorem C20_never_longer_all :
  forall its consts0 rU rC,
    nonneg its -> total its < 2 ^ 31 ->
    assemble_items its consts0 [] false = Done rU -> assemble_items its consts0 [] true = Done rC ->
    (forall L a b, In L (gnames its) -> assoc_str L (r_labels rU) = Some a -> assoc_str L (r_labels rC) = Some b -> b <= a) /\
    fold_right (fun c acc => Pipeline.chunk_len (snd c) + acc) 0 (r_chunks rC)
      <= fold_right (fun c acc => Pipeline.chunk_len (snd c) + acc) 0 (r_chunks rU).
Proof. exact Monotone.compression_monotone_all. Qed.
Print Assumptions C20_never_longer_all.
Example C20_never_longer_all_example :      (* the example program of C03 (j / call / align / beq / dw): hypotheses hold *)
  nonneg ex_its /\ total ex_its < 2 ^ 31 /\
  (exists r, assemble_items ex_its [] [] false = Done r) /\ (exists r, assemble_items ex_its [] [] true = Done r).
Proof.
  split. exact ex_nonneg. split. vm_compute. reflexivity.
  split. destruct ex_runs_u as (r & H & _). eauto. destruct ex_runs_c as (r & H & _). eauto.
Qed.

Example C20_never_longer_example :          (* add / L: / li (far) / align 8 / M: / dw : hypotheses hold, labels really move *)
  let its := [(exL 1, exR3 "add" "x8" "x8" "x9"); (exL 2, ILabel "L");
              (exL 3, IPseudo "li" ["t0"; "0x12345"] (POk (EArith (ANum 74565))));
              (exL 4, IPseudo "li" ["x9"; "5"] (POk (EArith (ANum 5))));
              (exL 5, IAlign 8); (exL 6, ILabel "M"); (exL 7, IShort "dw" (FExpr (EArith (AName "M"))))]%string in
  nonneg its /\ Monotone.no_calls its /\
  (exists rU, assemble_items its [] [] false = Done rU /\ r_labels rU = [("L", 4); ("M", 16)]%string) /\
  (exists rC, assemble_items its [] [] true = Done rC /\ r_labels rC = [("L", 2); ("M", 16)]%string).
Proof.
  cbv zeta. split. { repeat constructor; try (unfold isz; simpl; lia); try (intros ? H; inversion H; subst; lia); intros ? H; discriminate. }
  split. { repeat constructor; intro H; discriminate. }
  split; eexists; split; vm_compute; reflexivity.
Qed.

Example C20_example : select_num criteria ex_view = Some "c.addi"%string /\ wf_view ex_view /\ regs_ok ex_view.
Proof. exact ex_view_selected. Qed.

(* ---- tie of the guards to the source (Gen/Guards.v, regenerated from asm.py on every run; Proofs/Guards.v) -------------------
   The model's `imm_unstable` (the test in front of the rule selection of transform_compressible), `is_settled` and
   `is_position_relative` ARE the interpretation of what the source says today: which classes are jumps, the class of the
   immediate, the dictionary the reference must not be in, the arguments handed to is_settled and by it to expr.eval. *)
From BB Require Gen.Guards Proofs.Guards.
Theorem C20_guard_from_source : forall l pos consts labels cls fs,
  imm_unstable l pos consts cls fs = Proofs.Guards.gen_imm_unstable l pos consts labels cls fs.
Proof. exact Proofs.Guards.guard_from_source. Qed.
Print Assumptions C20_guard_from_source.
Theorem C20_settled_from_source : forall l pos consts labels e,
  is_settled l pos consts e = Proofs.Guards.gen_is_settled Gen.Guards.cg_env Gen.Guards.cg_settled_args l pos consts labels e.
Proof. exact Proofs.Guards.settled_from_source. Qed.
Print Assumptions C20_settled_from_source.
Theorem C20_position_relative_from_source : forall e, is_position_relative e = Proofs.Guards.gen_posrel e.
Proof. exact Proofs.Guards.posrel_from_source. Qed.
Print Assumptions C20_position_relative_from_source.

(* ---- the order of the passes and the label updates, as the SOURCE has them today (Gen/PassTable.v; Proofs/PassOrder.v) *)
From BB Require Gen.PassTable Proofs.PassOrder.
Theorem C20_pass_order_from_source : forall its consts0 labels0 compress,
  assemble_items its consts0 labels0 compress =
  obind (Proofs.PassOrder.run Gen.PassTable.pass_order compress
           {| Proofs.PassOrder.ps_items := its; Proofs.PassOrder.ps_consts := consts0; Proofs.PassOrder.ps_labels := labels0;
              Proofs.PassOrder.ps_chunks := None |})
        Proofs.PassOrder.finish.
Proof. exact Proofs.PassOrder.assemble_is_pass_order. Qed.
Print Assumptions C20_pass_order_from_source.
Theorem C20_label_updates_from_source :
  forallb Proofs.PassOrder.update_ok Gen.PassTable.label_updates = true /\
  forallb (fun p => existsb (fun u => String.eqb (fst (fst u)) p) Gen.PassTable.label_updates)
          ["transform_compressible"; "transform_pseudo_instructions"; "resolve_aligns"]%string = true.
Proof. exact Proofs.PassOrder.label_updates_ok. Qed.
Print Assumptions C20_label_updates_from_source.

(* ---- the model is a FUNCTION of the program and the options, and so is the code it models: the effect summary regenerated from asm.py
   passes summary_ok (no module-level object written by anything reachable from assemble(), no mutable default, no set iteration order
   consumed; Proofs/Effects.v noninterference) -- a memo table or cache that outlives a call makes a pure model unfaithful *)
From BB Require Gen.Effects Proofs.Effects Proofs.EffectsOk.
Theorem C20_assemble_is_a_function_of_its_inputs : Proofs.Effects.summary_ok Gen.Effects.summary = true.
Proof. exact Proofs.EffectsOk.summary_ok_holds. Qed.
Print Assumptions C20_assemble_is_a_function_of_its_inputs.

(* ==== THE FIRST HALF, WHOLE PROGRAM: every eligible instruction is emitted in 16 bits ================================================
   (Proofs/EligibleSweep.v, Proofs/EligibleItem.v, Proofs/EligibleProgram.v)

   Vocabulary (all defined in the three files, all computable or first-order over the program):
   * std_fields cls fs        the field list has the shape the parser (Model/Parser.v parse_item) and the pseudo expansion build for
                              the class: R [rd rs1 rs2 (+ ghost #rs2)], I [rd rs1 imm is_auipc_jump], IE [], S / B [rs1 rs2 imm], U / J [rd imm];
   * class_of_name name       the class the parser gives the 18 mnemonics that have compression rules (addi andi lw jalr / sw / beq bne /
                              lui / jal / add sub xor or and slli srli srai / ebreak);
   * resolved_fields consts fs   the fields after resolve_register_aliases (a constant used as a register name is replaced by its value);
   * settled_operands consts l fs   the immediate, if there is one, is not position relative and evaluates against the CONSTANTS alone
                              (is_settled of asm.py / Model/Passes.v) -- "literal, not label-dependent";
   * item_view consts l name fs    the numeric view: mnemonic, register NUMBERS (any spelling: x8, s0, 8, an alias), immediate VALUE;
   * expansion_view c v       v is the view of expand_c c written with canonical operands (the predicate of C20_complete), or -- lui -- the
                              documented second spelling 0x80000..0xfffff of a negative immediate, or -- c.mv -- `addi rd, rs, 0`, the
                              rendering of the pseudo-instruction `mv rd, rs`;
   * eligible_as consts l name fs c   there is a LEGAL NON-HINT RV32C halfword h (decode16 h = Some c) with expansion_view c (item_view ...);
   * chunks_of_line l chunks  the output chunks that carry source line l; line_once l its: exactly one item of the program has line l
                              (what the reader produces: one item per source line). *)
From BB Require Import Model.Parser Proofs.RuleStep Proofs.EligibleSweep Proofs.EligibleItem Proofs.EligibleProgram.

(* rule level, in the form the program theorems use: for EVERY legal non-hint halfword and every view of its expansion, the selected
   rule, fed with the operands the generated construction row hands to the compressed encoder, names a compressed instruction
   with the IDENTICAL expansion (in-kernel sweep of all 65 536 halfwords) *)
Theorem C20_selected_rule_rebuilds_the_expansion :
  forall h c v, 0 <= h < 65536 -> decode16 h = Some c -> expansion_view c v ->
  exists cls32 r final cls cfs o16 c',
    class_of_name (nv_name v) = Some cls32 /\
    select_num criteria v = Some r /\ assoc_str r construction = Some (final, cls, cfs) /\
    operands16 final (pos16n v cfs) = Some o16 /\ denote16 final o16 = Some c' /\ expand_c c' = expand_c c.
Proof. exact eligible_selected. Qed.
Print Assumptions C20_selected_rule_rebuilds_the_expansion.

(* item level: at WHATEVER position and under WHATEVER label table the compression pass meets an eligible instruction with settled
   operands, it replaces it by one compressed item; no rule is named after that item's mnemonic (the second compression pass leaves
   it alone), alias resolution leaves it alone, and at whatever final position / label table its immediate is resolved the generated
   c.* encoder returns a halfword h' with decode16 h' = Some c' and expand_c c' = expand_c c *)
Theorem C20_item_eligible_is_compressed :
  forall consts l cls name fs c pos labels rs,
  class_of_name name = Some cls -> std_fields cls fs -> regs_resolved consts fs -> settled_operands consts l fs ->
  eligible_as consts l name fs c ->
  compress_rule consts l (IInstr cls name fs false) pos labels = Done rs ->
  exists cls' final nfs, rs = [IInstr cls' final nfs true] /\
    rules_named final = [] /\ map (alias_field consts) nfs = nfs /\
    forall p labels' fs' bs,
      match field_get "imm" nfs with
      | Some val => exists z, imm_of l p consts labels' val = Done z /\ fs' = field_set "imm" (FInt z) nfs
      | None => fs' = nfs
      end ->
      encode_item l cls' final fs' true = Done bs ->
      exists h' c', bs = le_bytes 2 h' /\ 0 <= h' < 65536 /\ decode16 h' = Some c' /\ expand_c c' = expand_c c.
Proof. exact eligible_item. Qed.
Print Assumptions C20_item_eligible_is_compressed.

(* THE WHOLE-PROGRAM THEOREM.  For EVERY program, any initial constants and labels: if the program assembles with compression on, then
   every 32-bit instruction item of the program that stands on a line of its own, is written with the parser's field shape, has settled
   operands and is (after alias resolution) the expansion of a legal non-hint RV32C instruction c, is emitted as exactly ONE chunk of
   exactly two bytes: the little-endian halfword h' of a legal non-hint RV32C instruction c' with the same expansion as c.
   (The item is followed through all sixteen passes: first compression pass -> compressed item (rule completeness + the guard
   imm_unstable is false on a settled immediate + the selection sees the final operand values); pseudo pass, alias resolution,
   second compression pass (no rule is named after a c.* mnemonic), alignment: kept as it is; immediates: the settled value; encoder:
   C02 (the halfword decodes to the instruction the operands name).) *)
Theorem C20_program_eligible_is_compressed :
  forall its consts0 labels0 r l cls name fs c,
  assemble_items its consts0 labels0 true = Done r ->
  In (l, IInstr cls name fs false) its -> line_once l its ->
  class_of_name name = Some cls -> std_fields cls fs ->
  settled_operands (r_consts r) l (resolved_fields (r_consts r) fs) ->
  eligible_as (r_consts r) l name (resolved_fields (r_consts r) fs) c ->
  exists h' c',
    chunks_of_line l (r_chunks r) = [(l, CBytes (le_bytes 2 h'))] /\
    0 <= h' < 65536 /\ decode16 h' = Some c' /\ expand_c c' = expand_c c.
Proof. exact eligible_is_compressed. Qed.
Print Assumptions C20_program_eligible_is_compressed.

(* the same without any assumption on the lines: by POSITION in the item list.  The chunk of the item sits between the chunks that
   come from the items in front of it and the chunks that come from the items behind it. *)
Theorem C20_program_eligible_is_compressed_at :
  forall its consts0 labels0 r pre post l cls name fs c,
  assemble_items its consts0 labels0 true = Done r ->
  its = pre ++ (l, IInstr cls name fs false) :: post ->
  class_of_name name = Some cls -> std_fields cls fs ->
  settled_operands (r_consts r) l (resolved_fields (r_consts r) fs) ->
  eligible_as (r_consts r) l name (resolved_fields (r_consts r) fs) c ->
  exists cs1 cs3 h' c',
    r_chunks r = cs1 ++ (l, CBytes (le_bytes 2 h')) :: cs3 /\
    incl (map fst cs1) (map fst pre) /\ incl (map fst cs3) (map fst post) /\
    0 <= h' < 65536 /\ decode16 h' = Some c' /\ expand_c c' = expand_c c.
Proof. exact eligible_is_compressed_at. Qed.
Print Assumptions C20_program_eligible_is_compressed_at.

(* programs that use no constant as a register name (regs_resolved: every register operand is a number or a name that is not a
   constant): the hypotheses speak about the fields as written *)
Theorem C20_program_eligible_is_compressed_no_aliases :
  forall its consts0 labels0 r l cls name fs c,
  assemble_items its consts0 labels0 true = Done r ->
  In (l, IInstr cls name fs false) its -> line_once l its ->
  class_of_name name = Some cls -> std_fields cls fs -> regs_resolved (r_consts r) fs ->
  settled_operands (r_consts r) l fs -> eligible_as (r_consts r) l name fs c ->
  exists h' c',
    chunks_of_line l (r_chunks r) = [(l, CBytes (le_bytes 2 h'))] /\
    0 <= h' < 65536 /\ decode16 h' = Some c' /\ expand_c c' = expand_c c.
Proof. exact eligible_is_compressed_plain. Qed.
Print Assumptions C20_program_eligible_is_compressed_no_aliases.

(* instructions that come out of PSEUDO-INSTRUCTION expansion are compressed by the SECOND compression pass: a pseudo-instruction
   that is rendered as ONE 32-bit instruction decided on the constants alone (pseudo_one: the one-instruction pseudo-instructions --
   nop mv jr jalr ret ... -- and li with a settled value in the range of addi) whose instruction is eligible comes out as one chunk of
   two bytes (li a0, 5 -> addi a0, x0, 5 -> c.li; mv -> c.mv; nop -> c.nop; ret / jr -> c.jr; jalr rs -> c.jalr) *)
Theorem C20_program_eligible_expansion_is_compressed :
  forall its consts0 labels0 r l pname args pimm cls name fs c,
  assemble_items its consts0 labels0 true = Done r ->
  In (l, IPseudo pname args pimm) its -> line_once l its ->
  pseudo_one (r_consts r) l pname args pimm = Some (IInstr cls name fs false) ->
  class_of_name name = Some cls -> std_fields cls fs ->
  settled_operands (r_consts r) l (resolved_fields (r_consts r) fs) ->
  eligible_as (r_consts r) l name (resolved_fields (r_consts r) fs) c ->
  exists h' c',
    chunks_of_line l (r_chunks r) = [(l, CBytes (le_bytes 2 h'))] /\
    0 <= h' < 65536 /\ decode16 h' = Some c' /\ expand_c c' = expand_c c.
Proof. exact eligible_expansion_is_compressed. Qed.
Print Assumptions C20_program_eligible_expansion_is_compressed.
Theorem C20_program_eligible_expansion_is_compressed_at :
  forall its consts0 labels0 r pre post l pname args pimm cls name fs c,
  assemble_items its consts0 labels0 true = Done r ->
  its = pre ++ (l, IPseudo pname args pimm) :: post ->
  pseudo_one (r_consts r) l pname args pimm = Some (IInstr cls name fs false) ->
  class_of_name name = Some cls -> std_fields cls fs ->
  settled_operands (r_consts r) l (resolved_fields (r_consts r) fs) ->
  eligible_as (r_consts r) l name (resolved_fields (r_consts r) fs) c ->
  exists cs1 cs3 h' c',
    r_chunks r = cs1 ++ (l, CBytes (le_bytes 2 h')) :: cs3 /\
    incl (map fst cs1) (map fst pre) /\ incl (map fst cs3) (map fst post) /\
    0 <= h' < 65536 /\ decode16 h' = Some c' /\ expand_c c' = expand_c c.
Proof. exact eligible_expansion_is_compressed_at. Qed.
Print Assumptions C20_program_eligible_expansion_is_compressed_at.

(* THE SAME WITH THE PARSER IN FRONT: the class and the field shape need not be assumed for an item the parser model
   (Model/Parser.v parse_item; tied to asm.parse_item by the front-end correspondence) made out of a source line -- the hypotheses are:
   the program assembles, the item is the parse of some token list, its operands are settled, it is eligible.
   (parsed_item_std: whatever parse_item returns as a 32-bit instruction named by one of the 18 mnemonics has the class
   class_of_name gives and the shape std_fields; pseudo_one_std: the same for the instruction a pseudo-instruction is rendered as.) *)
From BB Require Import Proofs.EligibleParse.
Theorem C20_parsed_instruction_has_the_shape :
  forall l tokens cls name fs cls',
  parse_item l tokens = FOk (IInstr cls name fs false) -> class_of_name name = Some cls' -> cls = cls' /\ std_fields cls fs.
Proof. exact parsed_item_std. Qed.
Print Assumptions C20_parsed_instruction_has_the_shape.
Theorem C20_program_parsed_eligible_is_compressed :
  forall its consts0 labels0 r l tokens cls name fs c,
  assemble_items its consts0 labels0 true = Done r ->
  parse_item l tokens = FOk (IInstr cls name fs false) ->
  In (l, IInstr cls name fs false) its -> line_once l its ->
  settled_operands (r_consts r) l (resolved_fields (r_consts r) fs) ->
  eligible_as (r_consts r) l name (resolved_fields (r_consts r) fs) c ->
  exists h' c',
    chunks_of_line l (r_chunks r) = [(l, CBytes (le_bytes 2 h'))] /\
    0 <= h' < 65536 /\ decode16 h' = Some c' /\ expand_c c' = expand_c c.
Proof. exact eligible_is_compressed_parsed. Qed.
Print Assumptions C20_program_parsed_eligible_is_compressed.
Theorem C20_program_parsed_eligible_is_compressed_at :
  forall its consts0 labels0 r pre post l tokens cls name fs c,
  assemble_items its consts0 labels0 true = Done r ->
  parse_item l tokens = FOk (IInstr cls name fs false) ->
  its = pre ++ (l, IInstr cls name fs false) :: post ->
  settled_operands (r_consts r) l (resolved_fields (r_consts r) fs) ->
  eligible_as (r_consts r) l name (resolved_fields (r_consts r) fs) c ->
  exists cs1 cs3 h' c',
    r_chunks r = cs1 ++ (l, CBytes (le_bytes 2 h')) :: cs3 /\
    incl (map fst cs1) (map fst pre) /\ incl (map fst cs3) (map fst post) /\
    0 <= h' < 65536 /\ decode16 h' = Some c' /\ expand_c c' = expand_c c.
Proof. exact eligible_is_compressed_parsed_at. Qed.
Print Assumptions C20_program_parsed_eligible_is_compressed_at.
Theorem C20_program_pseudo_eligible_expansion_is_compressed :
  forall its consts0 labels0 r l pname args pimm cls name fs c,
  assemble_items its consts0 labels0 true = Done r ->
  In (l, IPseudo pname args pimm) its -> line_once l its ->
  pseudo_one (r_consts r) l pname args pimm = Some (IInstr cls name fs false) ->
  settled_operands (r_consts r) l (resolved_fields (r_consts r) fs) ->
  eligible_as (r_consts r) l name (resolved_fields (r_consts r) fs) c ->
  exists h' c',
    chunks_of_line l (r_chunks r) = [(l, CBytes (le_bytes 2 h'))] /\
    0 <= h' < 65536 /\ decode16 h' = Some c' /\ expand_c c' = expand_c c.
Proof. exact eligible_expansion_is_compressed'. Qed.
Print Assumptions C20_program_pseudo_eligible_expansion_is_compressed.
(* the items of the example below are what the parser makes of their source lines *)
Example C20_example_lines_are_parsed :
  parse_item (exL 4) ["addi"; "x8"; "x8"; "N"]%string = FOk (exI "addi" "x8" "x8" (AName "N")) /\
  parse_item (exL 5) ["addi"; "R"; "R"; "-3"]%string = FOk (exI "addi" "R" "R" (AUn UNeg (ANum 3))) /\
  parse_item (exL 12) ["slli"; "x8"; "x8"; "3"]%string = FOk ex20_slli /\
  parse_item (exL 3) ["li"; "a0"; "N"]%string = FOk (IPseudo "li" ["a0"; "N"]%string (POk (EArith (AName "N")))).
Proof. repeat split; vm_compute; reflexivity. Qed.

(* non-vacuity (computed):
     N = 5 / R = 9 / start: / addi x8, x8, N / addi R, R, -3 / addi x8, x9, 100 / addi x10, x10, data / align 8 / data: /
     dw 0x12345678 / string hi / slli x8, x8, 3
   assembles with -c; lines 4, 5 and 12 come out in 2 bytes (constant operand; register alias; shift), line 6 (no RVC form) and line 7
   (label dependent: the value 16 of `data` would fit c.addi, but the operand is not settled) in 4; the hypotheses of the theorems hold
   for lines 4 / 12 (no-alias form) and 5 (general form).  The real assembler gives the same bytes for this source. *)
Example C20_program_example :
  (exists r, assemble_items ex20 [] [] true = Done r /\ r_consts r = ex20_consts /\ r_labels r = [("start", 0); ("data", 16)]%string /\
     map (fun lc => (lnum (fst lc), Pipeline.chunk_len (snd lc))) (r_chunks r) =
       [(4, 2); (5, 2); (6, 4); (7, 4); (8, 4); (10, 4); (11, 2); (12, 2)]) /\
  (forall fs, (exL 4, IInstr "ITypeInstruction" "addi" fs false) = (exL 4, exI "addi" "x8" "x8" (AName "N")) ->
     In (exL 4, IInstr "ITypeInstruction" "addi" fs false) ex20 /\ line_once (exL 4) ex20 /\
     class_of_name "addi" = Some "ITypeInstruction"%string /\ std_fields "ITypeInstruction" fs /\ regs_resolved ex20_consts fs /\
     settled_operands ex20_consts (exL 4) fs /\ eligible_as ex20_consts (exL 4) "addi" fs (CAddi 8 5)) /\
  (forall fs, (exL 5, IInstr "ITypeInstruction" "addi" fs false) = (exL 5, exI "addi" "R" "R" (AUn UNeg (ANum 3))) ->
     In (exL 5, IInstr "ITypeInstruction" "addi" fs false) ex20 /\ line_once (exL 5) ex20 /\
     class_of_name "addi" = Some "ITypeInstruction"%string /\ std_fields "ITypeInstruction" fs /\
     settled_operands ex20_consts (exL 5) (resolved_fields ex20_consts fs) /\
     eligible_as ex20_consts (exL 5) "addi" (resolved_fields ex20_consts fs) (CAddi 9 (-3))) /\
  (forall fs, (exL 12, IInstr "RTypeInstruction" "slli" fs false) = (exL 12, ex20_slli) ->
     In (exL 12, IInstr "RTypeInstruction" "slli" fs false) ex20 /\ line_once (exL 12) ex20 /\
     class_of_name "slli" = Some "RTypeInstruction"%string /\ std_fields "RTypeInstruction" fs /\ regs_resolved ex20_consts fs /\
     settled_operands ex20_consts (exL 12) fs /\ eligible_as ex20_consts (exL 12) "slli" fs (CSlli 8 3)) /\
  (is_settled (exL 7) 0 ex20_consts (EArith (AName "data")) = Done false /\
   eval_here (exL 7) 12 ex20_consts [("start", 0); ("data", 16)]%string (EArith (AName "data")) = Done 16).
Proof. exact (conj ex20_runs (conj ex20_line4 (conj ex20_line5 (conj ex20_line12 ex20_line7_not_settled)))). Qed.

(* non-vacuity of the pseudo-instruction form (computed):
     N = 5 / f: / li a0, N / mv a1, a2 / nop / li a0, 100 / li a0, 0x12345 / jr t0 / ret
   li a0, N -> c.li; mv -> c.mv; nop -> c.nop; li a0, 100 stays 4 bytes; li a0, 0x12345 -> c.lui + addi (2 + 4); jr / ret -> c.jr *)
Example C20_program_pseudo_example :
  (exists r, assemble_items ex20p [] [] true = Done r /\ r_consts r = [("N", 5)]%string /\
     map (fun lc => (lnum (fst lc), Pipeline.chunk_len (snd lc))) (r_chunks r) =
       [(3, 2); (4, 2); (5, 2); (6, 4); (7, 2); (7, 4); (8, 2); (9, 2)]) /\
  (exists cls name fs,
     In (exL 3, IPseudo "li" ["a0"; "N"]%string (POk (EArith (AName "N")))) ex20p /\ line_once (exL 3) ex20p /\
     pseudo_one [("N", 5)]%string (exL 3) "li" ["a0"; "N"]%string (POk (EArith (AName "N"))) = Some (IInstr cls name fs false) /\
     class_of_name name = Some cls /\ std_fields cls fs /\
     settled_operands [("N", 5)]%string (exL 3) (resolved_fields [("N", 5)]%string fs) /\
     eligible_as [("N", 5)]%string (exL 3) name (resolved_fields [("N", 5)]%string fs) (CLi 10 5)) /\
  (exists cls name fs,
     In (exL 4, IPseudo "mv" ["a1"; "a2"]%string (PErr (PRaw OtherExn))) ex20p /\ line_once (exL 4) ex20p /\
     pseudo_one [("N", 5)]%string (exL 4) "mv" ["a1"; "a2"]%string (PErr (PRaw OtherExn)) = Some (IInstr cls name fs false) /\
     class_of_name name = Some cls /\ std_fields cls fs /\
     settled_operands [("N", 5)]%string (exL 4) (resolved_fields [("N", 5)]%string fs) /\
     eligible_as [("N", 5)]%string (exL 4) name (resolved_fields [("N", 5)]%string fs) (CMv 11 12)) /\
  (exists cls name fs,
     In (exL 5, IPseudo "nop" [] (PErr (PRaw OtherExn))) ex20p /\ line_once (exL 5) ex20p /\
     pseudo_one [("N", 5)]%string (exL 5) "nop" [] (PErr (PRaw OtherExn)) = Some (IInstr cls name fs false) /\
     class_of_name name = Some cls /\ std_fields cls fs /\
     settled_operands [("N", 5)]%string (exL 5) (resolved_fields [("N", 5)]%string fs) /\
     eligible_as [("N", 5)]%string (exL 5) name (resolved_fields [("N", 5)]%string fs) CNop) /\
  (exists cls name fs,
     In (exL 8, IPseudo "jr" ["t0"]%string (PErr (PRaw OtherExn))) ex20p /\ line_once (exL 8) ex20p /\
     pseudo_one [("N", 5)]%string (exL 8) "jr" ["t0"]%string (PErr (PRaw OtherExn)) = Some (IInstr cls name fs false) /\
     class_of_name name = Some cls /\ std_fields cls fs /\
     settled_operands [("N", 5)]%string (exL 8) (resolved_fields [("N", 5)]%string fs) /\
     eligible_as [("N", 5)]%string (exL 8) name (resolved_fields [("N", 5)]%string fs) (CJr 5)) /\
  (exists cls name fs,
     In (exL 9, IPseudo "ret" [] (PErr (PRaw OtherExn))) ex20p /\ line_once (exL 9) ex20p /\
     pseudo_one [("N", 5)]%string (exL 9) "ret" [] (PErr (PRaw OtherExn)) = Some (IInstr cls name fs false) /\
     class_of_name name = Some cls /\ std_fields cls fs /\
     settled_operands [("N", 5)]%string (exL 9) (resolved_fields [("N", 5)]%string fs) /\
     eligible_as [("N", 5)]%string (exL 9) name (resolved_fields [("N", 5)]%string fs) (CJr 1)).
Proof. exact (conj ex20p_runs (conj ex20p_line3 (conj ex20p_line4 (conj ex20p_line5 (conj ex20p_line8 ex20p_line9))))). Qed.

(* ---- Arithmetic.eval as the source has it (Gen/Guards.v): the expression text goes to the builtin eval as written, with no builtins and the
   environment handed in; the POSITION of the item plays no part (so an arithmetic expression without labels is settled); every
   exception becomes an AssemblerError at the line; the result must be an int *)
From BB Require Gen.Guards Proofs.Guards.
Theorem C20_arithmetic_eval_from_source : Proofs.Guards.arithmetic_eval_from_source_stmt.
Proof. exact Proofs.Guards.arithmetic_eval_from_source. Qed.
Print Assumptions C20_arithmetic_eval_from_source.
