(* C20 -- with -c every eligible instruction is compressed and nothing grows.  Statements only. *)
From Coq Require Import ZArith List String.
From BB Require Import Base.PyBase Gen.Encoders Gen.Criteria Spec.RV32 Spec.RVC Spec.Operands Spec.Legal
  Model.Items Model.Encode Model.Passes Proofs.Layout Proofs.LayoutInst Proofs.Rules Proofs.RulesMain.
Import ListNotations.
Open Scope Z_scope.

(* Completeness: for EVERY one of the 65 536 halfwords that is a legal non-hint non-reserved RV32C integer encoding,
   the 32-bit instruction it expands to (written with canonical operands) is selected by some rule of the GENERATED
   criteria table, in the generated order, and that rule re-encodes it legally with the same meaning
   (in-kernel sweep of all halfwords). *)
Theorem C20_complete :
  forall h c, 0 <= h < 65536 -> decode16 h = Some c ->
  exists v r, view_of_ops (fst (name_ops (expand_c c))) (snd (name_ops (expand_c c))) = Some v /\
              select_num criteria v = Some r /\ rule_check v r = true.
Proof. exact rules_complete_spec. Qed.
Print Assumptions C20_complete.

Theorem C20_complete_lui_second_spelling :
  forall h rd imm, 0 <= h < 65536 -> decode16 h = Some (CLui rd imm) -> imm < 0 ->
  exists v r, view_of_ops "lui" [rd; imm + 1048576] = Some v /\ select_num criteria v = Some r /\ rule_check v r = true.
Proof. exact rules_complete_lui_alt. Qed.
Print Assumptions C20_complete_lui_second_spelling.

(* the numeric selection is what the generated selection computes on an item *)
Theorem C20_selection_link : forall i r, select_rule criteria i = Ok r -> select_num criteria (nview_of i) = r.
Proof. exact select_link. Qed.
Print Assumptions C20_selection_link.

(* Nothing grows, item by item: whatever the compression pass does with an item, the replacement is not larger
   (4 -> 2 or unchanged, never the reverse) and contains no label; same for pseudo expansion and alignment. *)
Theorem C20_compress_never_grows : forall consts, rule_ok (compress_rule consts).
Proof. exact compress_rule_ok. Qed.
Print Assumptions C20_compress_never_grows.
Theorem C20_pseudo_never_grows : forall consts, rule_ok (pseudo_rule consts).
Proof. exact pseudo_rule_ok. Qed.
Print Assumptions C20_pseudo_never_grows.
Theorem C20_align_never_grows : rule_ok align_rule.
Proof. exact align_rule_ok. Qed.
Print Assumptions C20_align_never_grows.
(* NOT proved: the whole-program comparison |output with -c| <= |output without| and label-wise monotonicity (a two-run
   simulation); that half of C20 is decided by the falsifier only -- see DESIGN.md. *)

Example C20_example : select_num criteria ex_view = Some "c.addi"%string /\ wf_view ex_view /\ regs_ok ex_view.
Proof. exact ex_view_selected. Qed.
