(* C11 -- constants evaluate as integer arithmetic and substitute transparently.
   Statements only; proofs live in Proofs/LexSep.v, LexFront.v, LexConst.v.
   The lexer / expression / parser models are hand-written (Model/Lexer.v, PyExpr.v, Parser.v) and tied to the code by
   the front-end correspondence; resolve_constants_lr is the pass model (Model/Passes.v); aeval is the evaluator of the
   documented integer expression subset (Model/Items.v), tied to CPython's eval by differential evaluation.
   Order relations are written Z.le (independent of the bind notations of Model.Passes). *)
From Coq Require Import ZArith List String Ascii.
From BB Require Import Base.PyBase Model.Items Model.Lexer Model.Passes Proofs.LexSep Proofs.LexFront Proofs.LexConst.
From BB Require Model.Items Model.Passes Proofs.Subst Model.PyExpr Model.Parser Proofs.IntSpell Proofs.NumTok.
Import ListNotations.
Open Scope Z_scope.
Open Scope list_scope.

(* the comment strip, parenthesis padding and [\s,]+ split are transparent: whatever the spelling of the definition
   line  NAME = e1 e2 ... , the text handed to eval is the expression tokens joined by single blanks *)
Theorem C11_lex_transparent : forall (sty : style) (name : list ascii) (ets : list (list ascii)),
  plain_tok name -> name <> chars "error" -> name <> chars "string" -> Forall tok_ok ets ->
  style_ok sty (name :: [c_eq] :: ets) ->
  const_text (render sty (name :: [c_eq] :: ets)) = Some (join_l ets).
Proof. exact const_text_render. Qed.
Print Assumptions C11_lex_transparent.
Example C11_lex_transparent_example :
  const_text (chars "  K =  ( 1+2 )*3,4 # c") = Some (chars "( 1+2 ) *3 4") /\
  const_text (chars "K = (1+2)*3 4") = Some (chars "( 1+2 ) *3 4").
Proof. vm_compute. auto. Qed.

(* sequential resolution: the pass succeeds exactly when every definition, in order, has a legal name and evaluates
   over the constants defined so far (registers visible, labels not), and then binds the name to that value;
   the other items pass through in order *)
Theorem C11_value : forall (its out : list litem) (c0 c : envt),
  resolve_constants_lr its c0 [] = Done (out, c) <->
  defines its c0 c /\ out = filter (fun x => negb (is_const x)) its.
Proof.
  intros. split.
  - intros H. apply resolve_constants_defines in H. exact H.
  - intros [H ->]. exact (defines_resolve its c0 c H []).
Qed.
Print Assumptions C11_value.
(* a definition is visible to what follows, and shadows nothing else *)
Theorem C11_value_lookup : forall (n m : string) (v : Z) (env : envt),
  assoc_str n (dict_set n v env) = Some v /\ (n <> m -> assoc_str m (dict_set n v env) = assoc_str m env).
Proof. intros. split; [apply dict_set_same | apply dict_set_other]. Qed.
Print Assumptions C11_value_lookup.
Example C11_value_example :
  resolve_constants_lr [(L1, IConst "A" (EArith (ANum 5))); (L1, IAlign 4);
                        (L1, IConst "B" (EArith (ABin OAdd (AName "A") (AName "x8"))))] [] []
  = Done ([(L1, IAlign 4)], [("A"%string, 5); ("B"%string, 13)]).
Proof. vm_compute. reflexivity. Qed.

(* character literals: every printable ASCII character c written 'c' evaluates to its code point, through the WHOLE
   model path (lexer incl. the character-literal protection, parser, PyExpr, resolve_constants) -- kernel sweep of the
   95 characters; the backslash, an escape introducer, is written '\\' (next theorem).  (Before the repair of D11 this
   statement was refuted for , # ( ) -- the proof obligation that failed is how the defect was pinned down.) *)
Theorem C11_char_full :
  forall c : Z, Z.le 32 c -> Z.le c 126 -> c <> 92 -> const_value_of_line (char_line c) = Some c.
Proof. exact char_all. Qed.
Print Assumptions C11_char_full.
Theorem C11_char_former_exceptions :
  const_value_of_line (char_line 44) = Some 44 /\ const_value_of_line (char_line 35) = Some 35 /\
  const_value_of_line (char_line 40) = Some 40 /\ const_value_of_line (char_line 41) = Some 41 /\
  const_value_of_line (char_line 32) = Some 32.
Proof. exact char_former_exceptions. Qed.
Print Assumptions C11_char_former_exceptions.
Theorem C11_char_backslash : const_value_of_line (chars "X = " ++ [c_quote; c_bsl; c_bsl; c_quote]) = Some 92.
Proof. exact char_backslash_escaped. Qed.
Print Assumptions C11_char_backslash.

(* substitution: writing the VALUE of a constant instead of its name inside integer expressions -- immediates, li operands,
   data values, the arguments of %hi / %lo / %position -- gives the SAME result of the whole pipeline (chunks, labels,
   constants, or the same error), with compression off and on.  [cs] = the constants the run computes (resolve_constants
   runs first over the whole program, so a use may even precede the definition); [lssub cs its its'] = its' is its with some
   names c replaced by numerals v where cs c = v.  (Register-like sites -- aliases, shift amounts -- go through
   resolve_register_aliases / lookup_register instead: C11_subst_register below.) *)
Theorem C11_subst : forall its its' c0 l0 compress i1 cs,
  Passes.resolve_constants_lr its c0 [] = Passes.Done (i1, cs) -> Subst.lssub cs its its' ->
  Passes.assemble_items its' c0 l0 compress = Passes.assemble_items its c0 l0 compress.
Proof. exact Subst.assemble_subst. Qed.
Print Assumptions C11_subst.
Example C11_subst_example :
  (exists i1, Passes.resolve_constants_lr (Subst.exs_its (Items.AName "K")) [] [] = Passes.Done (i1, [("K"%string, 4%Z)])) /\
  Subst.lssub [("K"%string, 4%Z)] (Subst.exs_its (Items.AName "K")) (Subst.exs_its (Items.ANum 4)).
Proof. exact (conj Subst.exs_consts Subst.exs_related). Qed.

(* "integer arithmetic" starts at the literals: for the expression model, a token of word characters that starts with a digit and
   that the int(s, 0) model reads as v IS the number v -- in particular the decimal and the hexadecimal spelling of every value
   below 2^64 -- as expression text and as an immediate operand (Proofs/NumTok.v over Proofs/IntSpell.v, by induction) *)
Theorem C11_number_literals : forall (v : Z) (l : Items.line), 0 <= v < 2 ^ 64 ->
  PyExpr.arith_of_string (dec_of_Z v) = Some (Items.ANum v) /\
  Parser.parse_immediate [dec_of_Z v] l = Parser.FOk (Items.EArith (Items.ANum v)) /\
  Parser.parse_immediate [LexFront.hex_of v] l = Parser.FOk (Items.EArith (Items.ANum v)).
Proof.
  intros v l Hv. pose proof IntSpell.lt_2_64_dec. pose proof IntSpell.lt_2_64_hex.
  split; [apply NumTok.dec_arith; Lia.lia|split; [apply NumTok.dec_immediate; Lia.lia|apply NumTok.hex_immediate; Lia.lia]].
Qed.
Print Assumptions C11_number_literals.

(* ---- resolve_constants as the source has it (Gen/Guards.v): evaluated with position None against ChainMap(constants, REGISTERS),
   after the three refusals (non-arithmetic, register name, number) *)
From BB Require Gen.Guards Proofs.Guards.
Theorem C11_resolve_constants_from_source : Proofs.Guards.resolve_constants_from_source_stmt.
Proof. exact Proofs.Guards.resolve_constants_from_source. Qed.
Print Assumptions C11_resolve_constants_from_source.

(* ---- substitution at REGISTER-LIKE sites: a register operand (fields rd / rs1 / rs2 / rd_rs1 of an instruction -- the shift amount
   of slli / srli / srai lives in rs2 -- and the register operands of a pseudo-instruction: `mv a0, W`, `li W, 5`, `beqz W, l`) written
   as a constant (`W = s0`, `SH = 3`) gives the SAME result of the whole pipeline (chunks, labels, constants, or the same error), with
   compression off and on, as the operand written literally.  [SubstReg.rsub cs its its']: same lines and, item by item, either the same
   item or the same (pseudo-)instruction in which, at register keys, its has a constant name c (cs c = z) where its' has a literal for z:
   [SubstReg.lit cs z b] = b is the int z, or a token s that is NOT a constant name and that the generated lookup_register reads like
   the int z (so `s0`, `x8`, `fp`, `8`, `0x8` for z = 8; for a z that is no register number both sides fail alike).  Ghost fields (the
   parse of the rs2 token the harness attaches, never read) may differ.  Instructions in which a substitution happens must be well-formed
   as the parser produces them (NoRaw.okb 0, Proofs/ParseOk.v); untouched items are arbitrary.  Proofs/SubstReg.v: simulation through all
   passes; Proofs/EncReg.v: all 93 generated encoders read register operands through lookup_register only. *)
From BB Require Gen.Encoders Gen.Pseudo Proofs.EncSig Proofs.NoRaw Proofs.EncReg Proofs.SubstReg Proofs.Program.
Theorem C11_subst_register : forall its its' c0 l0 compress i1 cs,
  Passes.resolve_constants_lr its c0 [] = Passes.Done (i1, cs) -> SubstReg.rsub cs its its' ->
  Passes.assemble_items its' c0 l0 compress = Passes.assemble_items its c0 l0 compress.
Proof. exact SubstReg.assemble_subst_reg. Qed.
Print Assumptions C11_subst_register.
(* the same with the hypotheses as ONE computed boolean (SubstReg.rsubb decides rsub; sound: SubstReg.rsubb_ok) *)
Theorem C11_subst_register_checked : forall its its' c0 l0 compress,
  match Passes.resolve_constants_lr its c0 [] with
  | Passes.Done (_, cs) => SubstReg.rsubb cs its its'
  | _ => false
  end = true ->
  Passes.assemble_items its' c0 l0 compress = Passes.assemble_items its c0 l0 compress.
Proof. exact SubstReg.assemble_subst_reg_b. Qed.
Print Assumptions C11_subst_register_checked.
(* which tokens are literals: every spelling the generated lookup_register resolves to v, provided it is not itself a constant name *)
Theorem C11_register_literal : forall cs s v,
  assoc_str s cs = None -> Gen.Encoders.lookup_register (AStr s) false = Ok v -> SubstReg.lit cs v (AStr s).
Proof. exact SubstReg.lit_of_lookup. Qed.
Print Assumptions C11_register_literal.
(* what the proof takes from the generated encoders: for every mnemonic of every instruction class, operand lists that agree except
   for lookup_register-equivalent operands at the register keys of the class are encoded alike (same word or same exception) *)
Theorem C11_encoders_read_registers_through_lookup : forall cls name names kinds keys args args',
  assoc_str cls Proofs.EncSig.class_sig = Some (names, kinds) -> Proofs.NoRaw.class_keys cls = Some keys -> mem_str name names = true ->
  Proofs.EncReg.args_rel keys args args' -> Proofs.EncSig.encode_call cls name args = Proofs.EncSig.encode_call cls name args'.
Proof. exact Proofs.EncReg.encode_reg. Qed.
Print Assumptions C11_encoders_read_registers_through_lookup.
(* which operands of a pseudo-instruction are registers (SubstReg.pseudo_nregs) is read off the templates regenerated from the source *)
Theorem C11_pseudo_register_operands_from_source :
  forallb (fun row => SubstReg.tmpl_ok (SubstReg.pseudo_nregs (fst row)) (snd (snd row))) Gen.Pseudo.pseudo_table = true.
Proof. exact SubstReg.pseudo_nregs_from_source. Qed.
Print Assumptions C11_pseudo_register_operands_from_source.
(* non-vacuity: W = s0 ; SH = 3 ; add W, W, a1 ; slli a0, a0, SH ; srli W, W, SH ; mv a0, W ; li W, 5 ; beqz W, end ; end:
   against  add s0, x8, a1 ; slli a0, a0, 3 ; srli s0, s0, 3 ; mv a0, 8 ; li s0, 5 ; beqz x8, end ; end:
   -- related, and both assemble (12 bytes compressed, 24 uncompressed; the real assembler gives the same bytes) *)
Example C11_subst_register_example :
  (exists i1, Passes.resolve_constants_lr SubstReg.exr_const [] [] = Passes.Done (i1, [("W"%string, 8%Z); ("SH"%string, 3%Z)])) /\
  SubstReg.rsub [("W"%string, 8%Z); ("SH"%string, 3%Z)] SubstReg.exr_const SubstReg.exr_lit /\
  (forall cmp, exists r, Passes.assemble_items SubstReg.exr_const [] [] cmp = Passes.Done r /\
                         Passes.assemble_items SubstReg.exr_lit [] [] cmp = Passes.Done r).
Proof. exact (conj SubstReg.exr_consts (conj SubstReg.exr_related SubstReg.exr_result)). Qed.
(* the side conditions are needed.  (1) A literal that is itself a constant name: constants handed in by the CALLER are not checked
   against the register names (asm.assemble(src, constants={'s0': 5})), and `add s0, s0, a1` is then encoded with x5 -- with W = 8,
   `add W, W, a1` and `add s0, s0, a1` differ (real assembler: 3304b400 vs b382b200).  (2) An ill-formed instruction (a register key at
   an immediate position -- nothing the parser produces): as_imm accepts the int and refuses the token. *)
Example C11_subst_register_needs_fresh_literal :
  Passes.assemble_items (SubstReg.exs_its "s0") [("s0"%string, 5%Z)] [] false <>
  Passes.assemble_items (SubstReg.exs_its "W") [("s0"%string, 5%Z)] [] false.
Proof. exact SubstReg.shadowed_literal_differs. Qed.
Example C11_subst_register_needs_wellformed :
  Passes.assemble_items (SubstReg.exbad_its "s0") [] [] false <> Passes.assemble_items (SubstReg.exbad_its "W") [] [] false.
Proof. exact SubstReg.illformed_differs. Qed.

(* both kinds of sites at once: its -> its' by register-site substitution, its' -> its'' by integer-site substitution *)
Theorem C11_subst_all : forall its its' its'' c0 l0 compress i1 cs,
  Passes.resolve_constants_lr its c0 [] = Passes.Done (i1, cs) -> SubstReg.rsub cs its its' -> Subst.lssub cs its' its'' ->
  Passes.assemble_items its'' c0 l0 compress = Passes.assemble_items its c0 l0 compress.
Proof. exact SubstReg.assemble_subst_all. Qed.
Print Assumptions C11_subst_all.
(* from the TEXT of the lines of a file (lexer and parser models; Proofs/Program.v assemble_text): if both texts parse and the computed
   check relates the parsed items, the results are the same *)
Theorem C11_subst_register_text : forall ls ls' c0 l0 compress,
  match Program.front_items ls, Program.front_items ls' with
  | Parser.FOk its, Parser.FOk its' =>
      match Passes.resolve_constants_lr its c0 [] with Passes.Done (_, cs) => SubstReg.rsubb cs its its' | _ => false end
  | _, _ => false
  end = true ->
  Program.assemble_text ls' c0 l0 compress = Program.assemble_text ls c0 l0 compress.
Proof. exact SubstReg.assemble_text_subst_reg. Qed.
Print Assumptions C11_subst_register_text.
(* non-vacuity from source text: 15 lines (R-type, shifts by a constant, mv / li / bnez / jalr / neg, lw / sw with a constant base and
   target, an explicit c.add, amoadd.w) with W and SH against the literals s0 / x8 / 8 / fp and 0x3: the check computes to true and both
   texts assemble (32 bytes compressed, 50 uncompressed; the real assembler gives the same bytes) *)
Example C11_subst_register_text_example :
  match Program.front_items SubstReg.ext_const, Program.front_items SubstReg.ext_lit with
  | Parser.FOk its, Parser.FOk its' =>
      match Passes.resolve_constants_lr its [] [] with Passes.Done (_, cs) => SubstReg.rsubb cs its its' | _ => false end
  | _, _ => false
  end = true /\
  (forall cmp, exists r, Program.assemble_text SubstReg.ext_const [] [] cmp = Program.TDone r /\
                         Program.assemble_text SubstReg.ext_lit [] [] cmp = Program.TDone r).
Proof. exact (conj SubstReg.ext_checked SubstReg.ext_result). Qed.
(* the boundary of "anywhere an integer is accepted": at the operands of fence, the aq / rl flags of the atomics, the argument of align
   and the values of the numeric sequences (bytes ...) an integer LITERAL is accepted and a constant is refused (AssemblerError at that
   line; the real assembler behaves the same: "invalid literal for int() with base 0: 'K'" / "alignment must be an integer" / "invalid
   integer in bytes sequence").  These sites are outside C11_subst / C11_subst_register. *)
Example C11_literal_only_sites :
  forallb (fun p => andb (SubstReg.refused_at_2 (Program.assemble_text (SubstReg.two_lines (fst (fst p)) (snd (fst p))) [] [] false))
                         (SubstReg.assembles (Program.assemble_text (SubstReg.two_lines (fst (fst p)) (snd p)) [] [] false)))
    [("K = 15", "fence K, K", "fence 15, 15");
     ("K = 1", "amoadd.w a0, a1, a2, K, K", "amoadd.w a0, a1, a2, 1, 1");
     ("K = 1", "lr.w a0, a1, K, 0", "lr.w a0, a1, 1, 0");
     ("K = 4", "align K", "align 4");
     ("K = 4", "bytes K K", "bytes 4 4")]%string = true.
Proof. exact SubstReg.constant_refused_sites. Qed.

(* universally quantified, from the TOKEN LINE, for the three-register class (add ... remu and the shifts slli / srli / srai): the line
   with constants and the line with literals both parse (parser model), and either one, placed anywhere in any program whose constants
   are cs, gives the same result.  [SubstReg.arel cs t t']: t' = t, or t is a constant of cs and t' a literal for its value. *)
From BB Require Proofs.EndToEnd Proofs.SubstRegLine.
Theorem C11_rtype_line_subst_register : forall cs l name rd rs1 rs2 rd' rs1' rs2' a a',
  In name Proofs.EndToEnd.r3_names -> String.eqb rd "=" = false -> String.eqb rd' "=" = false ->
  PyExpr.arith_of_string rs2 = Some a -> PyExpr.arith_of_string rs2' = Some a' ->
  SubstReg.arel cs rd rd' -> SubstReg.arel cs rs1 rs1' -> SubstReg.arel cs rs2 rs2' ->
  exists it it',
    Parser.parse_item l [name; rd; rs1; rs2] = Parser.FOk it /\ Parser.parse_item l [name; rd'; rs1'; rs2'] = Parser.FOk it' /\
    forall pre post c0 l0 compress i1,
      Passes.resolve_constants_lr (pre ++ (l, it) :: post) c0 [] = Passes.Done (i1, cs) ->
      Passes.assemble_items (pre ++ (l, it') :: post) c0 l0 compress = Passes.assemble_items (pre ++ (l, it) :: post) c0 l0 compress.
Proof. exact SubstRegLine.r_line_subst_reg. Qed.
Print Assumptions C11_rtype_line_subst_register.
Example C11_rtype_line_example :
  let cs := [("W"%string, 8%Z); ("SH"%string, 3%Z)] in
  (In "add"%string Proofs.EndToEnd.r3_names /\ PyExpr.arith_of_string "a1" = Some (Items.AName "a1") /\
   SubstReg.arel cs "W" "s0" /\ SubstReg.arel cs "W" "x8" /\ SubstReg.arel cs "a1" "a1") /\
  (In "slli"%string Proofs.EndToEnd.r3_names /\ PyExpr.arith_of_string "SH" = Some (Items.AName "SH") /\
   PyExpr.arith_of_string "3" = Some (Items.ANum 3) /\ SubstReg.arel cs "SH" "3").
Proof.
  cbv zeta. repeat split; try (vm_compute; auto 30; fail); apply SubstReg.arelb_ok; vm_compute; reflexivity.
Qed.

(* ---- the model is a FUNCTION of the program and the options, and so is the code it models: the effect summary regenerated from asm.py
   passes summary_ok (no module-level object written by anything reachable from assemble(), no mutable default, no set iteration order
   consumed; Proofs/Effects.v noninterference) -- a memo table or cache that outlives a call makes a pure model unfaithful *)
From BB Require Gen.Effects Proofs.Effects Proofs.EffectsOk.
Theorem C11_assemble_is_a_function_of_its_inputs : Proofs.Effects.summary_ok Gen.Effects.summary = true.
Proof. exact Proofs.EffectsOk.summary_ok_holds. Qed.
Print Assumptions C11_assemble_is_a_function_of_its_inputs.

(* escaped character literals: for every printable character e such that the text  backslash e  denotes ONE character v (Spec/Escapes.v,
   written from the documentation: the ten one-character escapes n t r a b f v backslash quote double-quote, and one octal digit), the
   line  X = '\e'  gives X the value v through the whole model path (lexer character-literal protection, parser, PyExpr,
   resolve_constants) -- kernel sweep of the 95 printable characters *)
From BB Require Spec.Escapes Proofs.StringEscapes.
Theorem C11_char_escapes : forall e v : Z, Z.le 32 e -> Z.le e 126 -> Escapes.denote [92; e] = Some [v] ->
  const_value_of_line (StringEscapes.esc_char_line e) = Some v.
Proof. exact StringEscapes.esc_char_literals. Qed.
Print Assumptions C11_char_escapes.
Example C11_char_escapes_example :       (* n t r backslash quote double-quote a b f v 0 7 *)
  map (fun e => Escapes.denote [92; e]) [110; 116; 114; 92; 39; 34; 97; 98; 102; 118; 48; 55] =
    map (fun v => Some [v]) [10; 9; 13; 92; 39; 34; 7; 8; 12; 11; 0; 7] /\
  map (fun e => const_value_of_line (StringEscapes.esc_char_line e)) [110; 116; 114; 92; 39; 34; 97; 98; 102; 118; 48; 55] =
    map Some [10; 9; 13; 92; 39; 34; 7; 8; 12; 11; 0; 7].
Proof. vm_compute. split; reflexivity. Qed.

(* ---- resolve_register_aliases as the source has it (Gen/Guards.v; Proofs/Guards.v): the item is rebuilt from ALL its fields in order,
   only a register field whose value is a constant name changes -- the immediate, is_auipc_jump, aq / rl and the fence sets survive *)
Theorem C11_register_aliases_from_source : Proofs.Guards.register_aliases_from_source_stmt.
Proof. exact Proofs.Guards.register_aliases_from_source. Qed.
Print Assumptions C11_register_aliases_from_source.

(* ---- Arithmetic.eval as the source has it (Gen/Guards.v): the expression text goes to the builtin eval as written, with no builtins and the
   environment handed in; the POSITION of the item plays no part (so an arithmetic expression without labels is settled); every
   exception becomes an AssemblerError at the line; the result must be an int *)
From BB Require Gen.Guards Proofs.Guards.
Theorem C11_arithmetic_eval_from_source : Proofs.Guards.arithmetic_eval_from_source_stmt.
Proof. exact Proofs.Guards.arithmetic_eval_from_source. Qed.
Print Assumptions C11_arithmetic_eval_from_source.
