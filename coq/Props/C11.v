(* C11 -- constants evaluate as integer arithmetic and substitute transparently.
   Statements only; proofs live in Proofs/LexSep.v, LexFront.v, LexConst.v.
   The lexer / expression / parser models are hand-written (Model/Lexer.v, PyExpr.v, Parser.v) and tied to the code by
   the front-end correspondence; resolve_constants_lr is the pass model (Model/Passes.v); aeval is the evaluator of the
   documented integer expression subset (Model/Items.v), tied to CPython's eval by differential evaluation.
   Order relations are written Z.le (independent of the bind notations of Model.Passes). *)
From Coq Require Import ZArith List String Ascii.
From BB Require Import Base.PyBase Model.Items Model.Lexer Model.Passes Proofs.LexSep Proofs.LexFront Proofs.LexConst.
From BB Require Model.Items Model.Passes Proofs.Subst Model.PyExpr Model.Parser Proofs.IntSpell Proofs.NumTok.
Import ListNotations.
Open Scope Z_scope.
Open Scope list_scope.

(* the comment strip, parenthesis padding and [\s,]+ split are transparent: whatever the spelling of the definition
   line  NAME = e1 e2 ... , the text handed to eval is the expression tokens joined by single blanks *)
Theorem C11_lex_transparent : forall (sty : style) (name : list ascii) (ets : list (list ascii)),
  plain_tok name -> name <> chars "error" -> name <> chars "string" -> Forall tok_ok ets ->
  style_ok sty (name :: [c_eq] :: ets) ->
  const_text (render sty (name :: [c_eq] :: ets)) = Some (join_l ets).
Proof. exact const_text_render. Qed.
Print Assumptions C11_lex_transparent.
Example C11_lex_transparent_example :
  const_text (chars "  K =  ( 1+2 )*3,4 # c") = Some (chars "( 1+2 ) *3 4") /\
  const_text (chars "K = (1+2)*3 4") = Some (chars "( 1+2 ) *3 4").
Proof. vm_compute. auto. Qed.

(* sequential resolution: the pass succeeds exactly when every definition, in order, has a legal name and evaluates
   over the constants defined so far (registers visible, labels not), and then binds the name to that value;
   the other items pass through in order *)
Theorem C11_value : forall (its out : list litem) (c0 c : envt),
  resolve_constants_lr its c0 [] = Done (out, c) <->
  defines its c0 c /\ out = filter (fun x => negb (is_const x)) its.
Proof.
  intros. split.
  - intros H. apply resolve_constants_defines in H. exact H.
  - intros [H ->]. exact (defines_resolve its c0 c H []).
Qed.
Print Assumptions C11_value.
(* a definition is visible to what follows, and shadows nothing else *)
Theorem C11_value_lookup : forall (n m : string) (v : Z) (env : envt),
  assoc_str n (dict_set n v env) = Some v /\ (n <> m -> assoc_str m (dict_set n v env) = assoc_str m env).
Proof. intros. split; [apply dict_set_same | apply dict_set_other]. Qed.
Print Assumptions C11_value_lookup.
Example C11_value_example :
  resolve_constants_lr [(L1, IConst "A" (EArith (ANum 5))); (L1, IAlign 4);
                        (L1, IConst "B" (EArith (ABin OAdd (AName "A") (AName "x8"))))] [] []
  = Done ([(L1, IAlign 4)], [("A"%string, 5); ("B"%string, 13)]).
Proof. vm_compute. reflexivity. Qed.

(* character literals: every printable ASCII character c written 'c' evaluates to its code point, through the WHOLE
   model path (lexer incl. the character-literal protection, parser, PyExpr, resolve_constants) -- kernel sweep of the
   95 characters; the backslash, an escape introducer, is written '\\' (next theorem).  (Before the repair of D11 this
   statement was refuted for , # ( ) -- the proof obligation that failed is how the defect was pinned down.) *)
Theorem C11_char_full :
  forall c : Z, Z.le 32 c -> Z.le c 126 -> c <> 92 -> const_value_of_line (char_line c) = Some c.
Proof. exact char_all. Qed.
Print Assumptions C11_char_full.
Theorem C11_char_former_exceptions :
  const_value_of_line (char_line 44) = Some 44 /\ const_value_of_line (char_line 35) = Some 35 /\
  const_value_of_line (char_line 40) = Some 40 /\ const_value_of_line (char_line 41) = Some 41 /\
  const_value_of_line (char_line 32) = Some 32.
Proof. exact char_former_exceptions. Qed.
Print Assumptions C11_char_former_exceptions.
Theorem C11_char_backslash : const_value_of_line (chars "X = " ++ [c_quote; c_bsl; c_bsl; c_quote]) = Some 92.
Proof. exact char_backslash_escaped. Qed.
Print Assumptions C11_char_backslash.

(* substitution: writing the VALUE of a constant instead of its name inside integer expressions -- immediates, li operands,
   data values, the arguments of %hi / %lo / %position -- gives the SAME result of the whole pipeline (chunks, labels,
   constants, or the same error), with compression off and on.  [cs] = the constants the run computes (resolve_constants
   runs first over the whole program, so a use may even precede the definition); [lssub cs its its'] = its' is its with some
   names c replaced by numerals v where cs c = v.  (Register-like sites -- aliases, shift amounts -- go through
   resolve_register_aliases / lookup_register instead: C13_register_spelling; they are exercised by the falsifier.) *)
Theorem C11_subst : forall its its' c0 l0 compress i1 cs,
  Passes.resolve_constants_lr its c0 [] = Passes.Done (i1, cs) -> Subst.lssub cs its its' ->
  Passes.assemble_items its' c0 l0 compress = Passes.assemble_items its c0 l0 compress.
Proof. exact Subst.assemble_subst. Qed.
Print Assumptions C11_subst.
Example C11_subst_example :
  (exists i1, Passes.resolve_constants_lr (Subst.exs_its (Items.AName "K")) [] [] = Passes.Done (i1, [("K"%string, 4%Z)])) /\
  Subst.lssub [("K"%string, 4%Z)] (Subst.exs_its (Items.AName "K")) (Subst.exs_its (Items.ANum 4)).
Proof. exact (conj Subst.exs_consts Subst.exs_related). Qed.

(* "integer arithmetic" starts at the literals: for the expression model, a token of word characters that starts with a digit and
   that the int(s, 0) model reads as v IS the number v -- in particular the decimal and the hexadecimal spelling of every value
   below 2^64 -- as expression text and as an immediate operand (Proofs/NumTok.v over Proofs/IntSpell.v, by induction) *)
Theorem C11_number_literals : forall (v : Z) (l : Items.line), 0 <= v < 2 ^ 64 ->
  PyExpr.arith_of_string (dec_of_Z v) = Some (Items.ANum v) /\
  Parser.parse_immediate [dec_of_Z v] l = Parser.FOk (Items.EArith (Items.ANum v)) /\
  Parser.parse_immediate [LexFront.hex_of v] l = Parser.FOk (Items.EArith (Items.ANum v)).
Proof.
  intros v l Hv. pose proof IntSpell.lt_2_64_dec. pose proof IntSpell.lt_2_64_hex.
  split; [apply NumTok.dec_arith; Lia.lia|split; [apply NumTok.dec_immediate; Lia.lia|apply NumTok.hex_immediate; Lia.lia]].
Qed.
Print Assumptions C11_number_literals.

(* ---- resolve_constants as the source has it (Gen/Guards.v): evaluated with position None against ChainMap(constants, REGISTERS),
   after the three refusals (non-arithmetic, register name, number) *)
From BB Require Gen.Guards Proofs.Guards.
Theorem C11_resolve_constants_from_source : Proofs.Guards.resolve_constants_from_source_stmt.
Proof. exact Proofs.Guards.resolve_constants_from_source. Qed.
Print Assumptions C11_resolve_constants_from_source.
