(* C19 -- DFU refuses oversize firmware untouched and never reports a failed flash as done.
   Statements only; proofs live in Proofs/DfuErr.v.
   cli_main is Model.DfuHost over the GENERATED Gen.Dfu; in particular `too_large` (the size guard comparison) and
   erase_error_body / erase_error_exit / write_error_body / write_error_exit (what the two `if status != STATUS_OK:` blocks
   of the source do) are translated from dfu.py on every run, so C19_error only checks when the source really ends the run
   with SystemExit naming the status. *)
From Coq Require Import ZArith List Bool String.
From BB Require Import Spec.DfuDev Gen.Dfu Model.DfuHost Proofs.DfuDevice Proofs.DfuRun Proofs.DfuMain Proofs.DfuErr.
Import ListNotations.
Open Scope Z_scope.

(* every variant, EVERY firmware longer than the flash, any device state and schedule: the device is not touched (no request
   at all is sent), nothing announces success, and the run ends with a non-zero exit status *)
Theorem C19_oversize :
  forall (c size : Z) (fw : list Z) (flash0 : Z -> Z) (sched : list sentry) (st0 : dstate) (fuel : nat),
  In (c, size) spec_variants ->
  Z.of_nat (List.length fw) > size ->
  let r := cli_main fuel fw c (init_dev size flash0 sched st0) in
  fst r = init_dev size flash0 sched st0 /\
  (forall q, ~ In (EReq q) (snd r)) /\
  ~ In (EPrint (PLit "done!")) (snd r) /\
  exists tr code, snd r = tr ++ [EExit code None] /\ code <> 0.
Proof. exact oversize_run. Qed.
Print Assumptions C19_oversize.

(* every variant, every firmware that fits, both initial states, EVERY schedule `pre ++ e :: post` whose first failing
   request `e` (any of the 15 DFU error statuses, after any number of busy polls) is an erase request or the data block of a
   page; `post` is arbitrary, so any further injections (double, triple, ...) are covered: the run never prints done! and
   ends with SystemExit, non-zero status, message naming the status the device reported *)
Theorem C19_error :
  forall (c size : Z) (fw : list Z) (flash0 : Z -> Z) (pre post : list sentry) (e : sentry) (st0 : dstate) (fuel : nat),
  In (c, size) spec_variants ->
  Z.of_nat (List.length fw) <= size ->
  Forall (good fuel) pre -> entry_ok e -> fits fuel e ->
  1 <= s_err e <= 15 ->
  init_state st0 ->
  (let n := Z.of_nat (List.length fw) in let k := Z.of_nat (List.length pre) in
   k < pages_of n \/ exists j, k = pages_of n + 2 * j + 1 /\ 0 <= j < pages_of n) ->
  let r := cli_main fuel fw c (init_dev size flash0 (pre ++ e :: post) st0) in
  ~ In (EPrint (PLit "done!")) (snd r) /\
  exists tr code, snd r = tr ++ [EExit code (Some (s_err e))] /\ code <> 0.
Proof. exact err_run. Qed.
Print Assumptions C19_error.

(* hypotheses satisfiable / statement not vacuous: 1025-byte firmware (2 pages) on the 16 KiB part; the data block of page 0
   (request #3: erase, erase, set-address, WRITE) ends with errVERIFY after one busy poll; a second injection follows *)
Example C19_example :
  let pre := [mkEntry [5] 0 0; mkEntry [] 0 0; mkEntry [] 1 0] in
  let e := mkEntry [10] 0 7 in
  let post := [mkEntry [] 0 0; mkEntry [] 0 4] in
  Forall (good 1) pre /\ entry_ok e /\ fits 1 e /\ 1 <= s_err e <= 15 /\
  (exists j, Z.of_nat (List.length pre) = pages_of 1025 + 2 * j + 1 /\ 0 <= j < pages_of 1025) /\
  let r := cli_main 1 (repeat 9 1025) 52 (init_dev 16384 (fun _ => 170) (pre ++ e :: post) Idle) in
  last (snd r) EOutOfFuel = EExit 1 (Some 7) /\ m_nwrite (d_mem (fst r)) = 0 /\ m_nerase (d_mem (fst r)) = 2.
Proof.
  cbv zeta. split; [repeat constructor; unfold tmo_ok; cbn; try (intro; discriminate); auto|].
  split; [repeat constructor; unfold tmo_ok; cbn; try (intro; discriminate); auto|].
  split; [repeat constructor|]. split; [cbn; split; intro; discriminate|].
  split; [exists 0; vm_compute; repeat split; intro; discriminate|].
  vm_compute. repeat split.
Qed.
