(* C06 -- unrepresentable operands are rejected, never truncated; legal ones accepted.  Statements only.
   `encode` calls the GENERATED INSTRUCTIONS dictionary; legal32 / legal16 (Spec/Legal.v) are the documented
   operand sets; operands32 / operands16 (Spec/Operands.v) read the operands as written. *)
From Coq Require Import ZArith List String.
From BB Require Import Base.PyBase Gen.Encoders Spec.RV32 Spec.RVC Spec.Operands Spec.Legal Model.Encode
  Proofs.C06Main Proofs.C06c Proofs.C01Main Proofs.C02Main.
Open Scope Z_scope.

(* the 66 base mnemonics: accepted exactly when every operand is readable and inside its documented set,
   for all operand spellings and ALL integers *)
Theorem C06_exact_base :
  forall name pos kw, In name base_mnemonics ->
    ((exists w, encode name pos kw = Ok w) <->
     (exists ops, operands32 name pos kw = Some ops /\ legal32 name ops = true)).
Proof. exact exact32. Qed.
Print Assumptions C06_exact_base.

(* the 27 compressed mnemonics *)
Theorem C06_exact_compressed :
  forall name pos kw, In name c_mnemonics ->
    ((exists h, encode name pos kw = Ok h) <->
     (exists ops, operands16 name pos = Some ops /\ legal16 name ops = true)).
Proof. exact exact16. Qed.
Print Assumptions C06_exact_compressed.

(* acceptance never truncates: what is accepted decodes to exactly the operands named (C01 / C02) *)
Theorem C06_no_truncation_base :
  forall name pos kw w, In name base_mnemonics -> encode name pos kw = Ok w ->
    0 <= w < 2^32 /\
    exists ops i, operands32 name pos kw = Some ops /\ denote32 name ops = Some i /\ decode32 w = Some i.
Proof. exact decode_encode. Qed.
Print Assumptions C06_no_truncation_base.

Theorem C06_no_truncation_compressed :
  forall name pos kw h, In name c_mnemonics -> encode name pos kw = Ok h ->
    0 <= h < 2^16 /\
    exists ops c, operands16 name pos = Some ops /\ legal16 name ops = true /\
                  denote16 name ops = Some c /\ decode16 h = Some c.
Proof. exact forward. Qed.
Print Assumptions C06_no_truncation_compressed.
