(* placeholder *)
From Coq Require Import ZArith.
Theorem C06_placeholder : True. Proof. exact I. Qed.
Print Assumptions C06_placeholder.
