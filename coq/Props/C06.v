(* C06 -- unrepresentable operands are rejected, never truncated; legal ones accepted.  Statements only.
   `encode` calls the GENERATED INSTRUCTIONS dictionary; legal32 / legal16 (Spec/Legal.v) are the documented
   operand sets; operands32 / operands16 (Spec/Operands.v) read the operands as written. *)
From Coq Require Import ZArith List String.
From BB Require Import Base.PyBase Gen.Encoders Spec.RV32 Spec.RVC Spec.Operands Spec.Legal Model.Encode
  Proofs.C06Main Proofs.C06c Proofs.C01Main Proofs.C02Main.
Open Scope Z_scope.

(* the 66 base mnemonics: accepted exactly when every operand is readable and inside its documented set,
   for all operand spellings and ALL integers *)
Theorem C06_exact_base :
  forall name pos kw, In name base_mnemonics ->
    ((exists w, encode name pos kw = Ok w) <->
     (exists ops, operands32 name pos kw = Some ops /\ legal32 name ops = true)).
Proof. exact exact32. Qed.
Print Assumptions C06_exact_base.

(* the 27 compressed mnemonics *)
Theorem C06_exact_compressed :
  forall name pos kw, In name c_mnemonics ->
    ((exists h, encode name pos kw = Ok h) <->
     (exists ops, operands16 name pos = Some ops /\ legal16 name ops = true)).
Proof. exact exact16. Qed.
Print Assumptions C06_exact_compressed.

(* acceptance never truncates: what is accepted decodes to exactly the operands named (C01 / C02) *)
Theorem C06_no_truncation_base :
  forall name pos kw w, In name base_mnemonics -> encode name pos kw = Ok w ->
    0 <= w < 2^32 /\
    exists ops i, operands32 name pos kw = Some ops /\ denote32 name ops = Some i /\ decode32 w = Some i.
Proof. exact decode_encode. Qed.
Print Assumptions C06_no_truncation_base.

Theorem C06_no_truncation_compressed :
  forall name pos kw h, In name c_mnemonics -> encode name pos kw = Ok h ->
    0 <= h < 2^16 /\
    exists ops c, operands16 name pos = Some ops /\ legal16 name ops = true /\
                  denote16 name ops = Some c /\ decode16 h = Some c.
Proof. exact forward. Qed.
Print Assumptions C06_no_truncation_compressed.

(* ==== THE ASSEMBLER (text level): "refused with an error and produces no output ... every operand inside the documented range is accepted" ====
   Model: Proofs/Program.v assemble_text = lexer model -> parser model -> the 16 passes of Model/Passes.v (the one-file model of
   asm.assemble after read_lines).  TFail (PAsm l): the assembler's own error (AssemblerError) naming line l -- no result, no bytes;
   TFail (PRaw _) would be a raw Python exception, TUnsup a line outside the models.
   Line forms (Proofs/LegalLine.v): base_form l toks name args -- toks is a line of the R- / I- / S- / U-type tables or a branch / jal
   with a literal offset, mnemonic in any case, registers in ANY spelling (valid or not), the immediate a LITERAL (a token whose
   expression has no names: 2048, 0x800, -5, 1<<11), args = the operands as the encoder receives them;  c_form: the same for the 25
   compressed mnemonics that take operands (c.beqz / c.bnez / c.j / c.jal, like the branches and jal: the offset an INTEGER literal --
   any other single token is a reference to a label, Props/C03.v C03_text_cb_lands / C03_text_cj_lands).  legal_operands32 / 16 name args: the operands as written are readable and inside the
   documented set (Spec/Operands.v + Spec/Legal.v only). *)
From BB Require Import Model.Items Model.Passes Model.Lexer Model.Parser Proofs.Program Proofs.Examples Proofs.LegalCompress Proofs.LegalLine.
Import ListNotations.

(* (a) a line whose operands are NOT legal: the one-line program fails with the assembler's error AT THAT LINE, with compression
   off and on (the compression pass neither accepts it, nor turns the error into a raw exception, nor leaves the model) *)
Theorem C06_line_refused :
  forall l text toks name args compress,
    lex_tokens text = Some toks -> base_form l toks name args -> legal_operands32 name args = false ->
    assemble_text [(l, text)] [] [] compress = TFail (PAsm l).
Proof. exact line_refused. Qed.
Print Assumptions C06_line_refused.

(* (b) the same line with legal operands: the result is the little-endian word of the generated encoder, which the Spec decodes to
   the instruction the operands name (C01) *)
Theorem C06_line_accepted :
  forall l text toks name args,
    lex_tokens text = Some toks -> base_form l toks name args -> legal_operands32 name args = true ->
    exists w ops i,
      encode name args [] = Ok w /\
      assemble_text [(l, text)] [] [] false = TDone {| r_chunks := [(l, CBytes (le_bytes 4 w))]; r_consts := []; r_labels := [] |} /\
      0 <= w < 2 ^ 32 /\ operands32 name args [] = Some ops /\ legal32 name ops = true /\ denote32 name ops = Some i /\ decode32 w = Some i.
Proof. exact line_accepted. Qed.
Print Assumptions C06_line_accepted.
(* ... and with compression on it is accepted as well (through the positive half of C12 on the one-line program; what the bytes are --
   the same word, or the halfword of a compressed instruction with the same meaning -- is C04 / C20) *)
Theorem C06_line_accepted_with_compression :
  forall l text toks name args,
    lex_tokens text = Some toks -> base_form l toks name args -> legal_operands32 name args = true ->
    exists r, assemble_text [(l, text)] [] [] true = TDone r.
Proof. exact line_accepted_compress. Qed.
Print Assumptions C06_line_accepted_with_compression.

(* (c) inside ANY file (the other lines arbitrary -- labels, constants, data, pseudo-instructions, aligns, lines that fail), any
   initial constants and labels, both modes: a file that contains such a line NEVER assembles (the failure may come from an
   earlier line; there is no result).  Side condition, on the register tokens of the line only: a token is not the name of a
   constant -- it is not in the initial table, and it is a register name / integer literal (which resolve_constants refuses to
   define) or no line of the file is `token = ...`.  (Without it the statement is false: `addi foo, x1, 0` is legal after `foo = 5`.) *)
Theorem C06_line_refused_in_any_program :
  forall ls consts0 labels0 compress l text toks name args,
    In (l, text) ls -> lex_tokens text = Some toks -> base_form l toks name args -> legal_operands32 name args = false ->
    (forall s, In s (arg_strs args) -> assoc_str s consts0 = None /\ (reg_like s = true \/ ~ In s (defined_names ls))) ->
    forall r, assemble_text ls consts0 labels0 compress <> TDone r.
Proof. exact line_in_program. Qed.
Print Assumptions C06_line_refused_in_any_program.

(* (d) explicitly written compressed instructions: refused at the line in both modes / accepted with the encoder's halfword, which
   is a legal RV32C encoding of the instruction named (C02) / never part of a file that assembles *)
Theorem C06_c_line_refused :
  forall l text toks name args compress,
    lex_tokens text = Some toks -> c_form l toks name args -> legal_operands16 name args = false ->
    assemble_text [(l, text)] [] [] compress = TFail (PAsm l).
Proof. exact c_line_refused. Qed.
Print Assumptions C06_c_line_refused.
Theorem C06_c_line_accepted :
  forall l text toks name args,
    lex_tokens text = Some toks -> c_form l toks name args -> legal_operands16 name args = true ->
    exists h ops c,
      encode name args [] = Ok h /\
      assemble_text [(l, text)] [] [] false = TDone {| r_chunks := [(l, CBytes (le_bytes 2 h))]; r_consts := []; r_labels := [] |} /\
      0 <= h < 2 ^ 16 /\ operands16 name args = Some ops /\ legal16 name ops = true /\ denote16 name ops = Some c /\ decode16 h = Some c.
Proof. exact c_line_accepted. Qed.
Print Assumptions C06_c_line_accepted.
Theorem C06_c_line_accepted_with_compression :
  forall l text toks name args,
    lex_tokens text = Some toks -> c_form l toks name args -> legal_operands16 name args = true ->
    exists r, assemble_text [(l, text)] [] [] true = TDone r.
Proof. exact c_line_accepted_compress. Qed.
Print Assumptions C06_c_line_accepted_with_compression.
Theorem C06_c_line_refused_in_any_program :
  forall ls consts0 labels0 compress l text toks name args,
    In (l, text) ls -> lex_tokens text = Some toks -> c_form l toks name args -> legal_operands16 name args = false ->
    (forall s, In s (arg_strs args) -> assoc_str s consts0 = None /\ (reg_like s = true \/ ~ In s (defined_names ls))) ->
    forall r, assemble_text ls consts0 labels0 compress <> TDone r.
Proof. exact c_line_in_program. Qed.
Print Assumptions C06_c_line_refused_in_any_program.

(* ... and for EVERY instruction line the parser model accepts (every instruction class except the atomics lr.w / sc.w / amo*.w -- so
   also fence, ecall, c.nop, the base+offset spelling `lw x8, 4(x9)` ...), stated with the parser's item: if the generated encoder refuses the operands
   the line will finally carry (set_lit: the literal immediate evaluated) the line is refused at its line in both modes; if it
   accepts them the bytes are its word.  closed_imm: the immediate, if any, is a literal.  With C06_exact_base / C06_exact_compressed
   "refuses" is "outside the documented set". *)
Theorem C06_any_instruction_line_refused :
  forall l text t ts cls name fs c compress,
    lex_tokens text = Some (t :: ts) -> parse_item l (t :: ts) = FOk (IInstr cls name fs c) ->
    is_atomic_cls cls = false -> closed_imm fs ->
    (forall w, encode name (args_of (set_lit fs)) [] <> Ok w) ->
    assemble_text [(l, text)] [] [] compress = TFail (PAsm l).
Proof. intros; eapply any_line_refused; eauto. Qed.
Print Assumptions C06_any_instruction_line_refused.
Theorem C06_any_instruction_line_accepted :
  forall l text t ts cls name fs c w,
    lex_tokens text = Some (t :: ts) -> parse_item l (t :: ts) = FOk (IInstr cls name fs c) ->
    is_atomic_cls cls = false -> closed_imm fs ->
    encode name (args_of (set_lit fs)) [] = Ok w ->
    assemble_text [(l, text)] [] [] false =
    TDone {| r_chunks := [(l, CBytes (le_bytes (if c then 2 else 4) w))]; r_consts := []; r_labels := [] |}.
Proof. intros; eapply any_line_accepted; eauto. Qed.
Print Assumptions C06_any_instruction_line_accepted.

(* why compression cannot rescue (or break) a refused instruction: a rule of the GENERATED criteria table fires only on operands the
   32-bit encoder accepts (in-kernel sweep of every rule's operand box, Proofs/LegalSweep.v) *)
Theorem C06_rules_fire_on_legal_operands_only :
  forall v r, Rules.select_num Gen.Criteria.criteria v = Some r -> Rules.wf_view v -> Rules.regs_ok v -> LegalSweepDef.rule_legal v = true.
Proof. exact LegalSweep.selected_legal. Qed.
Print Assumptions C06_rules_fire_on_legal_operands_only.

(* ---- non-vacuity: the hypotheses hold of real lines (computed), and the conclusions are what the model computes ------------------ *)
Local Open Scope string_scope.
Ltac in_table := apply AcceptMono.mem_in; vm_compute; reflexivity.
Example C06_addi_2048_refused :       (* `addi x1, x2, 2048`: refused at its line in both modes *)
  lex_tokens "addi x1, x2, 2048" = Some ["addi"; "x1"; "x2"; "2048"] /\
  base_form (exL 1) ["addi"; "x1"; "x2"; "2048"] "addi" [AStr "x1"; AStr "x2"; AInt 2048] /\
  legal_operands32 "addi" [AStr "x1"; AStr "x2"; AInt 2048] = false /\
  assemble_text [(exL 1, "addi x1, x2, 2048")] [] [] false = TFail (PAsm (exL 1)) /\
  assemble_text [(exL 1, "addi x1, x2, 2048")] [] [] true = TFail (PAsm (exL 1)).
Proof.
  assert (F : base_form (exL 1) ["addi"; "x1"; "x2"; "2048"] "addi" [AStr "x1"; AStr "x2"; AInt 2048]).
  { apply (F_i _ "addi" "addi" "x1" "x2" "2048" (ANum 2048) 2048); try (vm_compute; reflexivity). in_table. }
  assert (L : lex_tokens "addi x1, x2, 2048" = Some ["addi"; "x1"; "x2"; "2048"]) by (vm_compute; reflexivity).
  assert (G : legal_operands32 "addi" [AStr "x1"; AStr "x2"; AInt 2048] = false) by (vm_compute; reflexivity).
  split. exact L. split. exact F. split. exact G.
  split; apply (C06_line_refused _ _ _ _ _ _ L F G).
Qed.
Example C06_addi_2047_accepted :      (* `addi x1, x2, 2047`: accepted, bytes 93 00 f1 7f *)
  base_form (exL 1) ["addi"; "x1"; "x2"; "2047"] "addi" [AStr "x1"; AStr "x2"; AInt 2047] /\
  legal_operands32 "addi" [AStr "x1"; AStr "x2"; AInt 2047] = true /\
  assemble_text [(exL 1, "addi x1, x2, 2047")] [] [] false =
    TDone {| r_chunks := [(exL 1, CBytes [147; 0; 241; 127])]; r_consts := []; r_labels := [] |}.
Proof.
  split. { apply (F_i _ "addi" "addi" "x1" "x2" "2047" (ANum 2047) 2047); try (vm_compute; reflexivity). in_table. }
  split; vm_compute; reflexivity.
Qed.
Example C06_negative_literal_refused :   (* `ADDI x1, x2, -2049`: upper-case mnemonic, the literal is the expression -(2049) *)
  lex_tokens "ADDI x1, x2, -2049" = Some ["ADDI"; "x1"; "x2"; "-2049"] /\
  base_form (exL 7) ["ADDI"; "x1"; "x2"; "-2049"] "addi" [AStr "x1"; AStr "x2"; AInt (-2049)] /\
  legal_operands32 "addi" [AStr "x1"; AStr "x2"; AInt (-2049)] = false.
Proof.
  split. vm_compute; reflexivity. split; [|vm_compute; reflexivity].
  apply (F_i _ "ADDI" "addi" "x1" "x2" "-2049" (AUn UNeg (ANum 2049)) (-2049)); try (vm_compute; reflexivity). in_table.
Qed.
Example C06_slli_32_refused :         (* `slli x1, x2, 32`: shift amount >= 32, refused at its line in both modes *)
  lex_tokens "slli x1, x2, 32" = Some ["slli"; "x1"; "x2"; "32"] /\
  base_form (exL 1) ["slli"; "x1"; "x2"; "32"] "slli" [AStr "x1"; AStr "x2"; AStr "32"] /\
  legal_operands32 "slli" [AStr "x1"; AStr "x2"; AStr "32"] = false /\
  forall c, assemble_text [(exL 1, "slli x1, x2, 32")] [] [] c = TFail (PAsm (exL 1)).
Proof.
  assert (F : base_form (exL 1) ["slli"; "x1"; "x2"; "32"] "slli" [AStr "x1"; AStr "x2"; AStr "32"]).
  { apply (F_r _ "slli" "slli" "x1" "x2" "32" (ANum 32)); try (vm_compute; reflexivity). in_table. }
  assert (L : lex_tokens "slli x1, x2, 32" = Some ["slli"; "x1"; "x2"; "32"]) by (vm_compute; reflexivity).
  assert (G : legal_operands32 "slli" [AStr "x1"; AStr "x2"; AStr "32"] = false) by (vm_compute; reflexivity).
  split. exact L. split. exact F. split. exact G.
  intro c. apply (C06_line_refused _ _ _ _ _ _ L F G).
Qed.
Example C06_c_addi_32_refused :       (* `c.addi x8, 32`: refused at its line in both modes; `c.addi x8, 31` accepted *)
  lex_tokens "c.addi x8, 32" = Some ["c.addi"; "x8"; "32"] /\
  c_form (exL 1) ["c.addi"; "x8"; "32"] "c.addi" [AStr "x8"; AInt 32] /\
  legal_operands16 "c.addi" [AStr "x8"; AInt 32] = false /\
  (forall c, assemble_text [(exL 1, "c.addi x8, 32")] [] [] c = TFail (PAsm (exL 1))) /\
  legal_operands16 "c.addi" [AStr "x8"; AInt 31] = true /\
  assemble_text [(exL 1, "c.addi x8, 31")] [] [] false = TDone {| r_chunks := [(exL 1, CBytes [125; 4])]; r_consts := []; r_labels := [] |}.
Proof.
  assert (F : c_form (exL 1) ["c.addi"; "x8"; "32"] "c.addi" [AStr "x8"; AInt 32]).
  { apply (FC_ri _ "c.addi" "c.addi" "x8" "32" (ANum 32) 32); try (vm_compute; reflexivity). in_table. }
  assert (L : lex_tokens "c.addi x8, 32" = Some ["c.addi"; "x8"; "32"]) by (vm_compute; reflexivity).
  assert (G : legal_operands16 "c.addi" [AStr "x8"; AInt 32] = false) by (vm_compute; reflexivity).
  split. exact L. split. exact F. split. exact G.
  split. { intro c. apply (C06_c_line_refused _ _ _ _ _ _ L F G). }
  split; vm_compute; reflexivity.
Qed.
Example C06_program_example :         (* a file with a label, a constant, data and the line `sw sp, x99, 4` (line 4): never assembles;
                                         with -c the c.swsp rule fires on it (its predicates never read rs2) and c.swsp's encoder refuses *)
  let ls := [(exL 1, "start:"); (exL 2, "N = 4"); (exL 3, "  addi x8, x8, N"); (exL 4, "  sw sp, x99, 4"); (exL 5, "  dw start")] in
  In (exL 4, "  sw sp, x99, 4") ls /\
  base_form (exL 4) ["sw"; "sp"; "x99"; "4"] "sw" [AStr "sp"; AStr "x99"; AInt 4] /\
  legal_operands32 "sw" [AStr "sp"; AStr "x99"; AInt 4] = false /\
  (forall s, In s (arg_strs [AStr "sp"; AStr "x99"; AInt 4]) -> assoc_str s ([] : envt) = None /\ (reg_like s = true \/ ~ In s (defined_names ls))) /\
  assemble_text ls [] [] false = TFail (PAsm (exL 4)) /\ assemble_text ls [] [] true = TFail (PAsm (exL 4)).
Proof.
  cbv zeta. split. { right; right; right; left; reflexivity. }
  split. { apply (F_s _ "sw" "sw" "sp" "x99" "4" (ANum 4) 4); try (vm_compute; reflexivity). in_table. }
  split. { vm_compute; reflexivity. }
  split. { intros s [<-|[<-|[]]]; (split; [reflexivity|]). left; vm_compute; reflexivity.
           right. vm_compute. intros [H|[]]. discriminate. }
  split; vm_compute; reflexivity.
Qed.
