(* C14 -- include is textual splicing, resolved independently of the working directory.
   Statements only; proofs live in Proofs/ReaderSplice.v and Proofs/ReaderCwd.v.  [read_file] / [read_lines] are the
   model of asm.read_lines over an abstract file system (Model/Reader.v, tied to the real reader by differential
   runs on generated trees); the search path of a file is  incs ++ [its own directory]  (-i directories in
   order, then the directory of the including file).  That the PASSES look at the Lines only through their
   contents is C14_lines_only below; that the PARSER does too, and hence the whole model of asm.assemble (reader + lexer +
   parser + passes, Proofs/Whole.v), is C14_whole_same_contents / C14_whole_include_is_paste at the end.  The real code is
   evaluated by the falsifier (assemble(tree) = assemble(flattened text), from several directories). *)
From Coq Require Import ZArith List String.
From BB Require Import Base.PyBase Gen.Cli Model.Reader Model.Cli Proofs.ReaderSplice Proofs.ReaderCwd.
From BB Require Model.Items Model.Passes Proofs.Relabel Proofs.Whole Proofs.ParseRelabel Proofs.WholeSplice.
Import ListNotations.
Open Scope string_scope.
Open Scope Z_scope.

(* reading a file with an include line at any position = the lines before it ++ the found file read
   COMPLETELY (recursively, whatever it includes: to any nesting depth within the fuel) ++ the lines after it *)
Theorem C14_splice :
  forall fuel fs cwd incs file src pre k raw post rel p,
    fs_read fs cwd file = Some src ->
    number 1 (splitlines src) = (pre ++ (k, raw) :: post)%list ->
    is_blank raw = false -> is_include raw = true -> include_target raw = Some rel ->
    lookup fs cwd rel (incs ++ [base_dir cwd file]) = Some p ->
    let dirs := (incs ++ [base_dir cwd file])%list in
    let here := read_numbered (read_file fuel fs cwd incs) fs cwd file dirs in
    read_file (S fuel) fs cwd incs file =
    rbind (here pre) (fun before =>
    rbind (read_file fuel fs cwd incs p) (fun included =>
    rbind (here post) (fun after => ROk (before ++ included ++ after)%list))).
Proof. exact read_file_splice. Qed.
Print Assumptions C14_splice.

(* the same at the level of the text: writing the lines the included file expands to (when they are plain
   lines: not blank, no include, no include_bytes) in place of the include line gives the same line contents,
   under ANY renumbering -- only file names and line numbers (used by error messages) differ *)
Theorem C14_textual_splice :
  forall rec fs cwd file dirs pre k raw post rel p inc,
    is_blank raw = false -> is_include raw = true -> include_target raw = Some rel ->
    lookup fs cwd rel dirs = Some p ->
    rec p = ROk inc ->
    Forall (fun l => is_plain (l_contents l) = true) inc ->
    forall renumbered : list (Z * string),
      map snd renumbered = map l_contents inc ->
      contents_of (read_numbered rec fs cwd file dirs (pre ++ (k, raw) :: post)) =
      contents_of (read_numbered rec fs cwd file dirs (pre ++ renumbered ++ post)).
Proof. exact read_numbered_textual_splice. Qed.
Print Assumptions C14_textual_splice.

(* the file is found in one of the searched directories -- the FIRST in which a FILE of that name exists (a directory of that name is skipped: repo commit 30b3d5d) -- and nowhere else *)
Theorem C14_lookup :
  forall fs cwd rel dirs p,
    lookup fs cwd rel dirs = Some p ->
    exists l1 d l2, dirs = (l1 ++ d :: l2)%list /\ p = join_path d rel /\ fs_isfile fs cwd p = true /\
                    Forall (fun d' => fs_isfile fs cwd (join_path d' rel) = false) l1.
Proof. exact lookup_found. Qed.
Print Assumptions C14_lookup.

Theorem C14_lookup_none :
  forall fs cwd rel dirs,
    lookup fs cwd rel dirs = None -> Forall (fun d => fs_isfile fs cwd (join_path d rel) = false) dirs.
Proof. exact lookup_missing. Qed.
Print Assumptions C14_lookup_none.

(* with an absolute top-level path and absolute include directories the result is the same from every
   working directory (lines, their files and numbers, include_bytes sizes, and errors alike) *)
Theorem C14_cwd :
  forall fuel fs cwd1 cwd2 incs top,
    is_abs top = true -> all_abs incs -> fs_exists fs cwd1 top = true ->
    read_lines fuel fs cwd1 incs top = read_lines fuel fs cwd2 incs top.
Proof. exact read_lines_cwd. Qed.
Print Assumptions C14_cwd.

(* ... and that is what cli_main passes (abspath of the input and of every -i; the definitions directory is
   built from abspath(dirname(__file__))) -- Model.Cli interprets the GENERATED step list, whose shapes the
   translator checks literally *)
Theorem C14_cli_passes_absolute :
  forall defs_dir cwd o,
    is_abs defs_dir = true -> is_abs (abspath cwd (o_input o)) = true /\ all_abs (cli_dirs defs_dir cwd o).
Proof. exact cli_paths_abs. Qed.
Print Assumptions C14_cli_passes_absolute.

(* include_bytes: the data is cwd-independent iff the file the search FOUND is the one opened *)
Theorem C14_bytes_found_cwd :
  forall fs cwd1 cwd2 rel dirs, all_abs dirs -> open_found fs cwd1 rel dirs = open_found fs cwd2 rel dirs.
Proof. exact open_found_cwd. Qed.
Print Assumptions C14_bytes_found_cwd.
(* opening the path as written on the line (what resolve_include_bytes did at design time, D10) is refuted *)
Theorem C14_bytes_as_written_refuted :
  all_abs ["/p/src"] /\
  open_found d10_fs "/p/src" "blob.bin" ["/p/src"] = Some "DATA" /\
  open_found d10_fs "/q" "blob.bin" ["/p/src"] = Some "DATA" /\
  open_as_written d10_fs "/p/src" "blob.bin" = Some "DATA" /\
  open_as_written d10_fs "/q" "blob.bin" = None.
Proof. exact open_as_written_depends_on_cwd. Qed.
Print Assumptions C14_bytes_as_written_refuted.

(* ---- the hypotheses are satisfiable: a three-level tree with a sibling, a parent and a -i directory -------- *)
Definition nl : string := bs [10].
Definition ex_tree : fsys :=
  {| fs_files := [ ("/p/src/main.asm", "addi x1, x0, 1" ++ nl ++ "include ""sub/a.asm""  # first" ++ nl ++ "addi x1, x0, 9" ++ nl);
                   ("/p/src/sub/a.asm", "addi x2, x0, 2" ++ nl ++ nl ++ "include ../../common/b.asm" ++ nl);
                   ("/p/common/b.asm", "include c.asm" ++ nl ++ "addi x3, x0, 3" ++ nl);
                   ("/p/inc/c.asm", "addi x4, x0, 4" ++ nl);
                   ("/q/c.asm", "addi x5, x0, 5" ++ nl) ];
     fs_dirs := ["/"; "/p"; "/p/src"; "/p/src/sub"; "/p/common"; "/p/inc"; "/q"] |}.
Example C14_splice_hypotheses_met :
  fs_read ex_tree "/q" "/p/src/main.asm" <> None /\
  (exists src pre k raw post,
     fs_read ex_tree "/q" "/p/src/main.asm" = Some src /\
     number 1 (splitlines src) = (pre ++ (k, raw) :: post)%list /\ k = 2 /\
     is_blank raw = false /\ is_include raw = true /\ include_target raw = Some "sub/a.asm" /\
     lookup ex_tree "/q" "sub/a.asm" (["/p/inc"] ++ [base_dir "/q" "/p/src/main.asm"]) = Some "/p/src/sub/a.asm") /\
  contents_of (read_lines 5 ex_tree "/q" ["/p/inc"] "/p/src/main.asm") =
    ROk ["addi x1, x0, 1"; "addi x2, x0, 2"; "addi x4, x0, 4"; "addi x3, x0, 3"; "addi x1, x0, 9"] /\
  read_lines 5 ex_tree "/q" ["/p/inc"] "/p/src/main.asm" = read_lines 5 ex_tree "/p/src" ["/p/inc"] "/p/src/main.asm" /\
  is_abs "/p/src/main.asm" = true /\ all_abs ["/p/inc"] /\ fs_exists ex_tree "/q" "/p/src/main.asm" = true.
Proof.
  split; [vm_compute; discriminate|]. split.
  - eexists. exists [(1, "addi x1, x0, 1")], 2, "include ""sub/a.asm""  # first", [(3, "addi x1, x0, 9")].
    split; [reflexivity|]. vm_compute. repeat split; reflexivity.
  - split; [vm_compute; reflexivity|]. split; [vm_compute; reflexivity|].
    split; [reflexivity|]. split; [repeat constructor | vm_compute; reflexivity].
Qed.

(* the passes of the assembler look at the Line attached to an item only to report errors: the file an item came from
   and its physical number (what distinguishes an included line from the same text written in place) do not influence
   the bytes, the label table or the constants -- for any renaming f of the lines (Model/Passes.v, Proofs/Relabel.v) *)
Theorem C14_lines_only : forall f its consts labels compress r,
  Passes.assemble_items its consts labels compress = Passes.Done r ->
  exists r', Passes.assemble_items (map (Relabel.flit f) its) consts labels compress = Passes.Done r' /\
             map snd (Passes.r_chunks r') = map snd (Passes.r_chunks r) /\
             Passes.r_labels r' = Passes.r_labels r /\ Passes.r_consts r' = Passes.r_consts r.
Proof. exact Relabel.relabel_success. Qed.
Print Assumptions C14_lines_only.

(* ---- the whole model of asm.assemble (Proofs/Whole.v: reader + lexer + parser + the 16 passes) ------------------------------ *)
(* [wshape]: what a run yields apart from the names of lines -- the bytes of every chunk, the constants and the labels; or the kind of failure *)
(* two readings (other file system, other include path, other top file, other nesting) that yield the same line CONTENTS give the same result *)
Theorem C14_whole_same_contents :
  forall fuel1 fs1 cwd1 incs1 top1 fuel2 fs2 cwd2 incs2 top2 consts labels compress la lb,
    read_lines fuel1 fs1 cwd1 incs1 top1 = ROk la -> read_lines fuel2 fs2 cwd2 incs2 top2 = ROk lb ->
    map l_contents la = map l_contents lb ->
    ParseRelabel.wshape (Whole.assemble_model fuel1 fs1 cwd1 incs1 top1 consts labels compress) =
    ParseRelabel.wshape (Whole.assemble_model fuel2 fs2 cwd2 incs2 top2 consts labels compress).
Proof. exact ParseRelabel.whole_same_contents. Qed.
Print Assumptions C14_whole_same_contents.

(* a source (given as a string) with an include line anywhere in it, and the same source with the plain lines of the found
   file -- read completely, to any depth -- pasted in place of that line: same bytes, labels, constants; or the same kind of failure *)
Theorem C14_whole_include_is_paste :
  forall fuel fs cwd incs top1 top2 A raw B rel p inc consts labels compress,
    fs_exists fs cwd top1 = false -> fs_exists fs cwd top2 = false ->
    splitlines top1 = (A ++ raw :: B)%list ->
    is_blank raw = false -> is_include raw = true -> include_target raw = Some rel ->
    lookup fs cwd rel (incs ++ [cwd]) = Some p ->
    read_file fuel fs cwd incs p = ROk inc ->
    Forall (fun l => is_plain (l_contents l) = true) inc ->
    splitlines top2 = (A ++ map l_contents inc ++ B)%list ->
    ParseRelabel.wshape (Whole.assemble_model fuel fs cwd incs top1 consts labels compress) =
    ParseRelabel.wshape (Whole.assemble_model fuel fs cwd incs top2 consts labels compress).
Proof. exact WholeSplice.whole_include_is_paste. Qed.
Print Assumptions C14_whole_include_is_paste.

(* the same for sources given as PATHS (asm.assemble(path), the CLI): a file with the include line, and a file in a directory with the
   same search path with the lines pasted in place *)
Theorem C14_whole_include_is_paste_files :
  forall fuel fs cwd incs top1 top2 src1 src2 A raw B rel p inc consts labels compress,
    fs_exists fs cwd top1 = true -> fs_exists fs cwd top2 = true ->
    fs_read fs cwd top1 = Some src1 -> fs_read fs cwd top2 = Some src2 ->
    base_dir cwd top1 = base_dir cwd top2 ->
    splitlines src1 = (A ++ raw :: B)%list ->
    is_blank raw = false -> is_include raw = true -> include_target raw = Some rel ->
    lookup fs cwd rel (incs ++ [base_dir cwd top1]) = Some p ->
    read_file fuel fs cwd incs p = ROk inc ->
    Forall (fun l => is_plain (l_contents l) = true) inc ->
    splitlines src2 = (A ++ map l_contents inc ++ B)%list ->
    ParseRelabel.wshape (Whole.assemble_model fuel fs cwd incs top1 consts labels compress) =
    ParseRelabel.wshape (Whole.assemble_model fuel fs cwd incs top2 consts labels compress).
Proof. exact WholeSplice.whole_include_is_paste_files. Qed.
Print Assumptions C14_whole_include_is_paste_files.

(* the whole run (result and errors alike) is the same from every working directory when the paths handed to assemble are absolute *)
Theorem C14_whole_cwd :
  forall fuel fs cwd1 cwd2 incs top consts labels compress,
    is_abs top = true -> all_abs incs -> fs_exists fs cwd1 top = true ->
    Whole.assemble_model fuel fs cwd1 incs top consts labels compress = Whole.assemble_model fuel fs cwd2 incs top consts labels compress.
Proof. exact WholeSplice.whole_cwd. Qed.
Print Assumptions C14_whole_cwd.

(* the parser model commutes with any renaming of lines (the line is used for error reports only) *)
Theorem C14_parser_lines_only : forall f l tokens,
  Parser.parse_item (f l) tokens = ParseRelabel.ffres f (Relabel.fitem f) (Parser.parse_item l tokens).
Proof. exact ParseRelabel.parse_item_relabel. Qed.
Print Assumptions C14_parser_lines_only.

(* non-vacuity: the nested tree above, included from a source string, against the pasted text; both yield five instructions *)
Definition ex_top1 : string := "addi x6, x0, 6" ++ nl ++ "include ""/p/src/sub/a.asm""" ++ nl ++ "beq x0, x0, 0" ++ nl.
Definition ex_top2 : string := "addi x6, x0, 6" ++ nl ++ "addi x2, x0, 2" ++ nl ++ "addi x4, x0, 4" ++ nl ++ "addi x3, x0, 3" ++ nl ++ "beq x0, x0, 0" ++ nl.
Example C14_whole_hypotheses_met :
  fs_exists ex_tree "/q" ex_top1 = false /\ fs_exists ex_tree "/q" ex_top2 = false /\
  (exists inc, splitlines ex_top1 = (["addi x6, x0, 6"] ++ "include ""/p/src/sub/a.asm""" :: ["beq x0, x0, 0"])%list /\
     lookup ex_tree "/q" "/p/src/sub/a.asm" (["/p/inc"] ++ ["/q"]) = Some "/p/src/sub/a.asm" /\
     read_file 4 ex_tree "/q" ["/p/inc"] "/p/src/sub/a.asm" = ROk inc /\
     forallb (fun l => is_plain (l_contents l)) inc = true /\
     splitlines ex_top2 = (["addi x6, x0, 6"] ++ map l_contents inc ++ ["beq x0, x0, 0"])%list) /\
  ParseRelabel.wshape (Whole.assemble_model 4 ex_tree "/q" ["/p/inc"] ex_top1 [] [] false) =
    ParseRelabel.SDone [Passes.CBytes [19; 3; 96; 0]; Passes.CBytes [19; 1; 32; 0]; Passes.CBytes [19; 2; 64; 0];
                        Passes.CBytes [147; 1; 48; 0]; Passes.CBytes [99; 0; 0; 0]] [] [].
Proof. vm_compute. repeat split; try reflexivity. eexists. repeat split; reflexivity. Qed.

(* ---- the model is a FUNCTION of the program and the options, and so is the code it models: the effect summary regenerated from asm.py
   passes summary_ok (no module-level object written by anything reachable from assemble(), no mutable default, no set iteration order
   consumed; Proofs/Effects.v noninterference) -- a memo table or cache that outlives a call makes a pure model unfaithful *)
From BB Require Gen.Effects Proofs.Effects Proofs.EffectsOk.
Theorem C14_assemble_is_a_function_of_its_inputs : Proofs.Effects.summary_ok Gen.Effects.summary = true.
Proof. exact Proofs.EffectsOk.summary_ok_holds. Qed.
Print Assumptions C14_assemble_is_a_function_of_its_inputs.

(* ---- include_bytes on the whole model (Proofs/IncBytesWhole.v: the whole model extended by Line.include_path and the include_bytes
   branch of the parser; C10_include_bytes_model_extension) ------------------------------------------------------------------------ *)
From BB Require Import Proofs.IncBytesWhole.
(* with an absolute top-level path and absolute -i directories (what cli_main passes) the whole run -- embedded files, their sizes,
   errors alike -- is the same from every working directory, PROVIDED every line that parses as include_bytes was recognised by the
   reader ([searched]: it carries the path the search found) *)
Theorem C14_include_bytes_cwd :
  forall fuel fs cwd1 cwd2 incs top consts labels compress,
    is_abs top = true -> all_abs incs -> fs_exists fs cwd1 top = true ->
    (forall xls, read_lines_x fuel fs cwd1 incs top = ROk xls -> forallb searched xls = true) ->
    assemble_model_x fuel fs cwd1 incs top consts labels compress = assemble_model_x fuel fs cwd2 incs top consts labels compress.
Proof. exact whole_x_cwd. Qed.
Print Assumptions C14_include_bytes_cwd.
(* the embedded file is the one the include search found (search order: C14_lookup), an absolute path *)
Theorem C14_include_bytes_found :
  forall fuel fs cwd incs top out, read_lines_x fuel fs cwd incs top = ROk out -> Forall (tag_ok fs cwd incs) out.
Proof. exact read_lines_x_tags. Qed.
Print Assumptions C14_include_bytes_found.

(* the proviso is needed: an INDENTED `include_bytes F N` line is not recognised by the reader (the keyword must start the raw line), so
   nothing is searched and no size is computed; the parser takes F and N as written and resolve_include_bytes opens F relative to the
   working directory.  Same absolute paths, three working directories, three outcomes (the real assembler does the same: b'\x01DATA',
   AssertionError, FileNotFoundError) *)
Theorem C14_include_bytes_as_written_refuted :
  is_abs "/p/src/main.asm" = true /\ all_abs [] /\ fs_exists aw_fs "/p/src" "/p/src/main.asm" = true /\
  assemble_model_x 3 aw_fs "/p/src" [] "/p/src/main.asm" [] [] false =
    Whole.WDone {| Passes.r_chunks := [(IncBytesWhole.L "/p/src/main.asm" 1, Passes.CBytes [1]);
                                       (IncBytesWhole.L "/p/src/main.asm" 2, Passes.CFile "blob.bin" 4)];
                   Passes.r_consts := []; Passes.r_labels := [] |} /\
  assemble_model_x 3 aw_fs "/q" [] "/p/src/main.asm" [] [] false = Whole.WFail (Items.PRaw AssertionError) /\
  assemble_model_x 3 aw_fs "/" [] "/p/src/main.asm" [] [] false = Whole.WFail (Items.PRaw OtherExn).
Proof. exact as_written_depends_on_cwd. Qed.
Print Assumptions C14_include_bytes_as_written_refuted.

(* non-vacuity of C14_include_bytes_cwd, computed: the tree of C10_include_bytes_whole_example from two working directories, one of
   which holds a decoy blob.bin *)
Example C14_include_bytes_cwd_example :
  is_abs "/p/src/main.asm" = true /\ all_abs ["/p/inc"] /\ fs_exists ib_fs "/q" "/p/src/main.asm" = true /\
  (exists xls, read_lines_x 3 ib_fs "/q" ["/p/inc"] "/p/src/main.asm" = ROk xls /\ forallb searched xls = true /\
               map x_inc xls = [None; Some "/p/inc/blob.bin"; None]) /\
  assemble_model_x 3 ib_fs "/q" ["/p/inc"] "/p/src/main.asm" [] [] false =
  assemble_model_x 3 ib_fs "/p/src" ["/p/inc"] "/p/src/main.asm" [] [] false.
Proof.
  split; [reflexivity|]. split; [repeat constructor|]. split; [vm_compute; reflexivity|]. split.
  - eexists. split; [vm_compute; reflexivity|]. split; vm_compute; reflexivity.
  - vm_compute. reflexivity.
Qed.
