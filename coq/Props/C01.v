(* C01 -- 32-bit instructions encode exactly as the RISC-V specification defines.
   Statements only.  `encode` calls the GENERATED INSTRUCTIONS dictionary (Gen/Encoders.v, regenerated from
   asm.py on every run); decode32 / denote32 / operands32 are the hand-written Spec. *)
From Coq Require Import ZArith List String.
From BB Require Import Base.PyBase Gen.Encoders Spec.RV32 Spec.Operands Model.Encode Proofs.Regs Proofs.C01Main Model.Items Model.PyExpr Model.Parser Model.Passes Model.Lexer Proofs.LexSep Proofs.EndToEnd.
Import ListNotations.
Open Scope Z_scope.

(* Whatever operands (ints or strings, any integer immediate) the encoder of one of the 66 base mnemonics
   accepts, the word is a 32-bit value that the Spec decodes to the very instruction the operands name. *)
Theorem C01_decode_encode :
  forall name pos kw w, In name base_mnemonics -> encode name pos kw = Ok w ->
    0 <= w < 2^32 /\
    exists ops i, operands32 name pos kw = Some ops /\ denote32 name ops = Some i /\ decode32 w = Some i.
Proof. exact decode_encode. Qed.
Print Assumptions C01_decode_encode.

(* Two operand tuples of one mnemonic that give the same word name the same operands
   (register spellings and the two documented lui/auipc spellings are identified by operands32). *)
Theorem C01_injective :
  forall name p1 k1 p2 k2 w, In name base_mnemonics ->
    encode name p1 k1 = Ok w -> encode name p2 k2 = Ok w ->
    exists ops, operands32 name p1 k1 = Some ops /\ operands32 name p2 k2 = Some ops.
Proof. exact encode_injective. Qed.
Print Assumptions C01_injective.

(* A register operand is accepted exactly when it is a documented spelling, and then names that register. *)
Theorem C01_registers : forall a n, lookup_register a false = Ok n <-> regnum a = Some n.
Proof. exact lookup_register_spec. Qed.
Print Assumptions C01_registers.

(* From the SOURCE LINE: for every three-register mnemonic of the assembler's R-type table and any operand tokens, the tokens
   are parsed (parser model) to an item that the 16 passes of the pass model turn into exactly the four little-endian bytes of
   the word the generated encoder returns -- the word that, by the theorem above, decodes to the instruction the operands name.
   (Composes front end, passes and encoders inside Coq; elsewhere they are tied to each other through the correspondence checks.
   rd <> "=": `add = ...` would be a constant definition; the rs2 token must be expression text the PyExpr model reads: it is
   also tried as a shift amount.) *)
Theorem C01_line_end_to_end :
  forall l name rd rs1 rs2 a w,
    In name EndToEnd.r3_names -> In name base_mnemonics -> String.eqb rd "=" = false -> PyExpr.arith_of_string rs2 = Some a ->
    encode name [AStr rd; AStr rs1; AStr rs2] nil = Ok w ->
    exists it ops i,
      Parser.parse_item l (name :: rd :: rs1 :: rs2 :: nil) = Parser.FOk it /\
      Passes.assemble_items ((l, it) :: nil) nil nil false =
        Passes.Done {| Passes.r_chunks := (l, Passes.CBytes (Passes.le_bytes 4 w)) :: nil; Passes.r_consts := nil; Passes.r_labels := nil |} /\
      0 <= w < 2 ^ 32 /\
      operands32 name [AStr rd; AStr rs1; AStr rs2] nil = Some ops /\ denote32 name ops = Some i /\ decode32 w = Some i.
Proof. exact EndToEnd.r_line_end_to_end. Qed.
Print Assumptions C01_line_end_to_end.
Example C01_line_example :
  In "sub"%string EndToEnd.r3_names /\ In "sub"%string base_mnemonics /\ PyExpr.arith_of_string "x3" = Some (Items.AName "x3") /\
  encode "sub" [AStr "x1"; AStr "t0"; AStr "x3"] nil = Ok 1077051571.
Proof.
  split. { apply (proj1 (in_map_iff _ _ _)) || idtac. vm_compute. auto 30. }
  split. { vm_compute. auto 80. }
  split; vm_compute; reflexivity.
Qed.

(* ... and for the classes with an immediate written as a literal: every mnemonic of the I-type table (loads, addi .. andi, jalr,
   the csr instructions), the S-type table (stores) and the U-type table (lui, auipc), in the `reg, reg, imm` spelling (C13 adds `imm(reg)`) *)
Theorem C01_imm_line_end_to_end :
  forall l name toks it args w,
  (exists rd rs1 tok v, In name EndToEnd.i_names /\ String.eqb rd "=" = false /\ String.eqb tok "(" = false /\
       Parser.parse_immediate [tok] l = Parser.FOk (Items.EArith (Items.ANum v)) /\ toks = [name; rd; rs1; tok] /\
       args = [AStr rd; AStr rs1; AInt v] /\
       it = Items.IInstr "ITypeInstruction" name [("rd", Parser.R rd); ("rs1", Parser.R rs1); ("imm", Items.FExpr (Items.EArith (Items.ANum v)));
                                                  ("is_auipc_jump", Items.FBool false)]%string false) \/
  (exists rs1 rs2 tok v, In name EndToEnd.s_names /\ String.eqb rs1 "=" = false /\ String.eqb tok "(" = false /\
       Parser.parse_immediate [tok] l = Parser.FOk (Items.EArith (Items.ANum v)) /\ toks = [name; rs1; rs2; tok] /\
       args = [AStr rs1; AStr rs2; AInt v] /\
       it = Items.IInstr "STypeInstruction" name [("rs1", Parser.R rs1); ("rs2", Parser.R rs2); ("imm", Items.FExpr (Items.EArith (Items.ANum v)))]%string false) \/
  (exists rd tok v, In name EndToEnd.u_names /\ String.eqb rd "=" = false /\
       Parser.parse_immediate [tok] l = Parser.FOk (Items.EArith (Items.ANum v)) /\ toks = [name; rd; tok] /\ args = [AStr rd; AInt v] /\
       it = Items.IInstr "UTypeInstruction" name [("rd", Parser.R rd); ("imm", Items.FExpr (Items.EArith (Items.ANum v)))]%string false) ->
  In name base_mnemonics -> encode name args nil = Ok w ->
  exists ops i,
    Parser.parse_item l toks = Parser.FOk it /\
    Passes.assemble_items ((l, it) :: nil) nil nil false =
      Passes.Done {| Passes.r_chunks := (l, Passes.CBytes (Passes.le_bytes 4 w)) :: nil; Passes.r_consts := nil; Passes.r_labels := nil |} /\
    0 <= w < 2 ^ 32 /\ operands32 name args nil = Some ops /\ denote32 name ops = Some i /\ decode32 w = Some i.
Proof. exact EndToEnd.imm_line_end_to_end. Qed.
Print Assumptions C01_imm_line_end_to_end.
Example C01_imm_line_example : forall l,
  Parser.parse_immediate ["-5"%string] l = Parser.FOk (Items.EArith (Items.AUn Items.UNeg (Items.ANum 5))) /\
  Parser.parse_immediate ["0x7ff"%string] l = Parser.FOk (Items.EArith (Items.ANum 2047)) /\
  encode "lw" [AStr "x8"; AStr "sp"; AInt 2047] nil = Ok 2146509827.
Proof. intro l. repeat split; vm_compute; reflexivity. Qed.

(* ... and the branches and jal with a LITERAL offset (a label target is C03's business) *)
Theorem C01_transfer_line_end_to_end :
  forall l name toks it args w,
  (exists rs1 rs2 tok v, In name EndToEnd.b_names /\ String.eqb rs1 "=" = false /\ is_int tok = true /\
       Parser.parse_immediate [tok] l = Parser.FOk (Items.EArith (Items.ANum v)) /\ toks = [name; rs1; rs2; tok] /\
       args = [AStr rs1; AStr rs2; AInt v] /\
       it = Items.IInstr "BTypeInstruction" name [("rs1", Parser.R rs1); ("rs2", Parser.R rs2); ("imm", Items.FExpr (Items.EArith (Items.ANum v)))]%string false) \/
  (exists rd tok v, In name EndToEnd.j_names /\ String.eqb rd "=" = false /\ is_int tok = true /\
       Parser.parse_immediate [tok] l = Parser.FOk (Items.EArith (Items.ANum v)) /\ toks = [name; rd; tok] /\ args = [AStr rd; AInt v] /\
       it = Items.IInstr "JTypeInstruction" name [("rd", Parser.R rd); ("imm", Items.FExpr (Items.EArith (Items.ANum v)))]%string false) ->
  In name base_mnemonics -> encode name args nil = Ok w ->
  exists ops i,
    Parser.parse_item l toks = Parser.FOk it /\
    Passes.assemble_items ((l, it) :: nil) nil nil false =
      Passes.Done {| Passes.r_chunks := (l, Passes.CBytes (Passes.le_bytes 4 w)) :: nil; Passes.r_consts := nil; Passes.r_labels := nil |} /\
    0 <= w < 2 ^ 32 /\ operands32 name args nil = Some ops /\ denote32 name ops = Some i /\ decode32 w = Some i.
Proof. exact EndToEnd.transfer_line_end_to_end. Qed.
Print Assumptions C01_transfer_line_end_to_end.

(* ... and from the TEXT of the line: in ANY separator style (indentation, blanks / tabs / commas between operands, trailing comment
   -- the documented freedoms of C13) the lexer model returns the four tokens, and the chain above follows *)
Theorem C01_text_line_end_to_end :
  forall (sty : LexSep.style) l name rd rs1 rs2 a w,
    let ts := map chars [name; rd; rs1; rs2] in
    Forall LexSep.tok_ok ts -> LexSep.not_special ts -> LexSep.style_ok sty ts ->
    In name EndToEnd.r3_names -> In name base_mnemonics -> String.eqb rd "=" = false -> PyExpr.arith_of_string rs2 = Some a ->
    encode name [AStr rd; AStr rs1; AStr rs2] nil = Ok w ->
    Lexer.lex_tokens (unchars (LexSep.render sty ts)) = Some [name; rd; rs1; rs2] /\
    exists it ops i,
      Parser.parse_item l [name; rd; rs1; rs2] = Parser.FOk it /\
      Passes.assemble_items ((l, it) :: nil) nil nil false =
        Passes.Done {| Passes.r_chunks := (l, Passes.CBytes (Passes.le_bytes 4 w)) :: nil; Passes.r_consts := nil; Passes.r_labels := nil |} /\
      0 <= w < 2 ^ 32 /\
      operands32 name [AStr rd; AStr rs1; AStr rs2] nil = Some ops /\ denote32 name ops = Some i /\ decode32 w = Some i.
Proof. exact EndToEnd.r_text_end_to_end. Qed.
Print Assumptions C01_text_line_end_to_end.
Example C01_text_line_example :      (* "  sub x1,t0 , x3  # c" *)
  let ts := map chars ["sub"; "x1"; "t0"; "x3"]%string in
  let sty := {| LexSep.indent := chars "  "; LexSep.gaps := [chars " "; chars ","; chars " , "; chars "  "]; LexSep.comment := Some (chars " c") |} in
  unchars (LexSep.render sty ts) = "  sub x1,t0 , x3  # c"%string /\
  Forall LexSep.tok_ok ts /\ LexSep.not_special ts /\ LexSep.style_ok sty ts.
Proof.
  cbv zeta. split. { vm_compute. reflexivity. }
  split. { repeat (constructor; [left; split; [discriminate|repeat (constructor; [reflexivity|])]; constructor|]). constructor. }
  split. { split; discriminate. }
  split. { repeat (constructor; [reflexivity|]). constructor. }
  split. { reflexivity. }
  cbn. repeat split; try (repeat (constructor; [reflexivity|]); constructor); try (left; discriminate); try discriminate.
Qed.

(* ---- resolve_register_aliases as the source has it (Gen/Guards.v; Proofs/Guards.v): the item is rebuilt from ALL its fields in order,
   only a register field whose value is a constant name changes -- the immediate, is_auipc_jump, aq / rl and the fence sets survive *)
From BB Require Gen.Guards Proofs.Guards.
Theorem C01_register_aliases_from_source : Proofs.Guards.register_aliases_from_source_stmt.
Proof. exact Proofs.Guards.register_aliases_from_source. Qed.
Print Assumptions C01_register_aliases_from_source.

(* ==== the remaining families, from the source line (Proofs/EndToEndMore.v) ===========================================================
   A extension (lr.w, sc.w, amo*.w with and without the two ordering operands), fence (two sets / alone) and fence.i, ecall / ebreak,
   Zicsr, and the `imm(reg)` spelling of loads / stores / jalr.  In every theorem t0 is the mnemonic AS WRITTEN (any case: only its
   lower-case form is fixed), registers are in ANY spelling the Spec reads (regnum: xN, ABI name, a number 0..31 in any integer
   spelling), `cmp` is the compression switch (both modes), and the conclusion names the Spec instruction with the operands as written.

   line_gives l toks cmp bs: the parser model turns the tokens into an item which the 16 passes of the pass model turn into exactly
   the one chunk bs -- and every text the lexer model reads as these tokens assembles (assemble_text) to exactly that.
   line_fails l toks cmp: the same two levels end in the assembler's own error at line l (no result). *)
From BB Require Import Gen.Criteria Spec.RVC Spec.Legal Proofs.Program Proofs.LegalCompress Proofs.EndToEndMore.
Import EndToEndMore.

Theorem C01_line_gives_meaning : forall l toks cmp bs,
  (line_gives l toks cmp bs <->
   ((exists it, Parser.parse_item l toks = Parser.FOk it /\
                Passes.assemble_items [(l, it)] nil nil cmp =
                Passes.Done {| Passes.r_chunks := [(l, Passes.CBytes bs)]; Passes.r_consts := nil; Passes.r_labels := nil |}) /\
    (forall text, Lexer.lex_tokens text = Some toks ->
                assemble_text [(l, text)] nil nil cmp =
                TDone {| Passes.r_chunks := [(l, Passes.CBytes bs)]; Passes.r_consts := nil; Passes.r_labels := nil |}))) /\
  (line_fails l toks cmp <->
   ((exists it, Parser.parse_item l toks = Parser.FOk it /\ Passes.assemble_items [(l, it)] nil nil cmp = Passes.Fail (Items.PAsm l)) /\
    (forall text, Lexer.lex_tokens text = Some toks -> assemble_text [(l, text)] nil nil cmp = TFail (Items.PAsm l)))).
Proof. intros. split; reflexivity. Qed.
Print Assumptions C01_line_gives_meaning.
(* ... hence in any separator style (C13): indentation, blanks / tabs / commas between the tokens, trailing comment *)
Theorem C01_line_gives_any_style : forall (sty : LexSep.style) l toks cmp bs,
  let ts := map chars toks in
  line_gives l toks cmp bs -> Forall LexSep.tok_ok ts -> LexSep.not_special ts -> LexSep.style_ok sty ts ->
  assemble_text [(l, unchars (LexSep.render sty ts))] nil nil cmp = TDone (chunk_result l bs).
Proof. exact line_gives_styles. Qed.
Print Assumptions C01_line_gives_any_style.

(* how operands are read that are not registers.  The ordering operands of the atomics: ord_bits ord = Some (aq, rl) -- no operands
   (0, 0) or two integer literals, each 0 or 1; ord_kw ord -- the keyword arguments aq / rl the encoder is called with.  A 5-bit
   immediate written as a number is read by the register lookup as that number. *)
Theorem C01_ordering_operands :
  ord_bits nil = Some (0, 0) /\ ord_kw nil = [("aq", AInt 0); ("rl", AInt 0)]%string /\
  (forall a r, ord_kw [a; r] = [("aq", AStr a); ("rl", AStr r)]%string /\
    forall aq rl, ord_bits [a; r] = Some (aq, rl) <-> (py_int_lit a = Some aq /\ py_int_lit r = Some rl /\ 0 <= aq <= 1 /\ 0 <= rl <= 1)) /\
  (forall s z, py_int_lit s = Some z -> 0 <= z <= 31 -> regnum (AStr s) = Some z).
Proof. split; [|split; [|split]]; try apply ordering_operands. exact uimm_regnum. Qed.
Print Assumptions C01_ordering_operands.

(* ---- A extension: amoswap.w .. amomaxu.w rd, rs1, rs2 [, aq, rl] / sc.w rd, rs1, rs2 [, aq, rl] / lr.w rd, rs1 [, aq, rl];
   the word decodes to the operation, the three (two) registers and the aq / rl BITS written on the line (0 0 when omitted) *)
Theorem C01_atomic_line_end_to_end :
  (forall l t0 o rd rs1 rs2 ord nrd nrs1 nrs2 aq rl cmp,
    lower t0 = amoop_name o ->
    regnum (AStr rd) = Some nrd -> regnum (AStr rs1) = Some nrs1 -> regnum (AStr rs2) = Some nrs2 -> ord_bits ord = Some (aq, rl) ->
    exists w, encode (amoop_name o) [AStr rd; AStr rs1; AStr rs2] (ord_kw ord) = Ok w /\
      line_gives l (t0 :: rd :: rs1 :: rs2 :: ord) cmp (Passes.le_bytes 4 w) /\ 0 <= w < 2 ^ 32 /\
      decode32 w = Some (Amo o nrd nrs1 nrs2 aq rl)) /\
  (forall l t0 rd rs1 rs2 ord nrd nrs1 nrs2 aq rl cmp,
    lower t0 = "sc.w"%string ->
    regnum (AStr rd) = Some nrd -> regnum (AStr rs1) = Some nrs1 -> regnum (AStr rs2) = Some nrs2 -> ord_bits ord = Some (aq, rl) ->
    exists w, encode "sc.w" [AStr rd; AStr rs1; AStr rs2] (ord_kw ord) = Ok w /\
      line_gives l (t0 :: rd :: rs1 :: rs2 :: ord) cmp (Passes.le_bytes 4 w) /\ 0 <= w < 2 ^ 32 /\
      decode32 w = Some (ScW nrd nrs1 nrs2 aq rl)) /\
  (forall l t0 rd rs1 ord nrd nrs1 aq rl cmp,
    lower t0 = "lr.w"%string ->
    regnum (AStr rd) = Some nrd -> regnum (AStr rs1) = Some nrs1 -> ord_bits ord = Some (aq, rl) ->
    exists w, encode "lr.w" [AStr rd; AStr rs1] (ord_kw ord) = Ok w /\
      line_gives l (t0 :: rd :: rs1 :: ord) cmp (Passes.le_bytes 4 w) /\ 0 <= w < 2 ^ 32 /\
      decode32 w = Some (LrW nrd nrs1 aq rl)).
Proof. split; [exact amo_line|split; [exact sc_line|exact lr_line]]. Qed.
Print Assumptions C01_atomic_line_end_to_end.

(* ---- fence succ, pred -- the operand order of the assembler's instruction reference (the ISA manual writes `fence pred, succ`);
   the sets are integer literals 0 .. 15; decoded: Fence fm pred succ with fm = 0.  `fence` alone (the pseudo-instruction) is
   fence iorw, iorw = 0x0ff0000f; fence.i = 0x0000100f. *)
Theorem C01_fence_line_end_to_end :
  (forall l t0 succ pred ns np cmp,
    lower t0 = "fence"%string ->
    py_int_lit succ = Some ns -> py_int_lit pred = Some np -> 0 <= ns <= 15 -> 0 <= np <= 15 ->
    exists w, encode "fence" [AStr succ; AStr pred] nil = Ok w /\
      line_gives l [t0; succ; pred] cmp (Passes.le_bytes 4 w) /\ 0 <= w < 2 ^ 32 /\
      decode32 w = Some (Fence 0 np ns)) /\
  (forall l t0 cmp, lower t0 = "fence"%string ->
    line_gives l [t0] cmp (Passes.le_bytes 4 267386895) /\ encode "fence" [AInt 15; AInt 15] nil = Ok 267386895 /\
    decode32 267386895 = Some (Fence 0 15 15)) /\
  (forall l t0 cmp, lower t0 = "fence.i"%string -> line_gives l [t0] cmp (Passes.le_bytes 4 4111) /\ decode32 4111 = Some FenceI).
Proof. split; [exact fence_line|split; [exact fence_alone_line|exact fence_i_line]]. Qed.
Print Assumptions C01_fence_line_end_to_end.

(* ---- ecall = 0x00000073 in both modes; ebreak = 0x00100073 without compression.  WITH compression `ebreak` becomes c.ebreak: the
   two bytes of the halfword 0x9002, which the RV32C Spec decodes to the instruction that expands to EBREAK (the only line of these
   families that compression changes) *)
Theorem C01_system_line_end_to_end :
  (forall l t0 cmp, lower t0 = "ecall"%string -> line_gives l [t0] cmp (Passes.le_bytes 4 115) /\ decode32 115 = Some Ecall) /\
  (forall l t0, lower t0 = "ebreak"%string -> line_gives l [t0] false (Passes.le_bytes 4 1048691) /\ decode32 1048691 = Some Ebreak) /\
  (forall l t0, lower t0 = "ebreak"%string ->
    line_gives l [t0] true (Passes.le_bytes 2 36866) /\ encode "c.ebreak" nil nil = Ok 36866 /\
    decode16 36866 = Some CEbreak /\ expand_c CEbreak = Ebreak).
Proof. split; [exact ecall_line|split; [exact ebreak_line|exact ebreak_line_compressed]]. Qed.
Print Assumptions C01_system_line_end_to_end.

(* ---- Zicsr: csrrw / csrrs / csrrc rd, rs1, csr and csrrwi / csrrsi / csrrci rd, uimm, csr; the CSR number is a LITERAL (a token whose
   expression `a` has no names: closed a csr -- 0x300, 768, 3<<8) in 0 .. 4095.  The second operand of ALL six goes through the
   assembler's register lookup (regnum): a 5-bit immediate written as a number is that number (C01_ordering_operands, last part);
   `csrrwi t0, t1, 0x300` is accepted too and means uimm = 6. *)
Theorem C01_csr_line_end_to_end :
  forall l t0 o rd src tok a csr nrd nsrc cmp,
    lower t0 = csrop_name o ->
    Parser.parse_immediate [tok] l = Parser.FOk (Items.EArith a) -> closed a csr ->
    regnum (AStr rd) = Some nrd -> regnum (AStr src) = Some nsrc -> 0 <= csr <= 4095 ->
    exists w, encode (csrop_name o) [AStr rd; AStr src; AInt csr] nil = Ok w /\
      line_gives l [t0; rd; src; tok] cmp (Passes.le_bytes 4 w) /\ 0 <= w < 2 ^ 32 /\
      decode32 w = Some (Csr o nrd nsrc csr).
Proof. exact csr_line. Qed.
Print Assumptions C01_csr_line_end_to_end.

(* ---- the `imm(reg)` spelling: lb lh lw lbu lhu rd, imm(rs1) / sb sh sw rs2, imm(rs1) / jalr rd, imm(rs1), literal offset.
   With compression on, stated for the mnemonics that head no compression rule (lw / sw / jalr may become c.lw, c.lwsp, c.sw,
   c.swsp, c.jr, c.jalr: C04 / C20) *)
Theorem C01_imm_reg_line_end_to_end :
  (forall l t0 wd rd off rs1 a imm nrd nrs1 cmp,
    lower t0 = lwidth_name wd ->
    Parser.parse_immediate [off] l = Parser.FOk (Items.EArith a) -> closed a imm ->
    regnum (AStr rd) = Some nrd -> regnum (AStr rs1) = Some nrs1 -> -2048 <= imm <= 2047 ->
    (cmp = true -> wd <> LW) ->
    exists w, encode (lwidth_name wd) [AStr rd; AStr rs1; AInt imm] nil = Ok w /\
      line_gives l [t0; rd; off; "("; rs1; ")"]%string cmp (Passes.le_bytes 4 w) /\ 0 <= w < 2 ^ 32 /\
      decode32 w = Some (Load wd nrd nrs1 imm)) /\
  (forall l t0 wd rs2 off rs1 a imm nrs1 nrs2 cmp,
    lower t0 = swidth_name wd ->
    Parser.parse_immediate [off] l = Parser.FOk (Items.EArith a) -> closed a imm ->
    regnum (AStr rs1) = Some nrs1 -> regnum (AStr rs2) = Some nrs2 -> -2048 <= imm <= 2047 ->
    (cmp = true -> wd <> SW) ->
    exists w, encode (swidth_name wd) [AStr rs1; AStr rs2; AInt imm] nil = Ok w /\
      line_gives l [t0; rs2; off; "("; rs1; ")"]%string cmp (Passes.le_bytes 4 w) /\ 0 <= w < 2 ^ 32 /\
      decode32 w = Some (Store wd nrs1 nrs2 imm)) /\
  (forall l t0 rd off rs1 a imm nrd nrs1,
    lower t0 = "jalr"%string ->
    Parser.parse_immediate [off] l = Parser.FOk (Items.EArith a) -> closed a imm ->
    regnum (AStr rd) = Some nrd -> regnum (AStr rs1) = Some nrs1 -> -2048 <= imm <= 2047 -> imm mod 2 = 0 ->
    exists w, encode "jalr" [AStr rd; AStr rs1; AInt imm] nil = Ok w /\
      line_gives l [t0; rd; off; "("; rs1; ")"]%string false (Passes.le_bytes 4 w) /\ 0 <= w < 2 ^ 32 /\
      decode32 w = Some (Jalr nrd nrs1 imm)).
Proof. split; [exact load_paren_line|split; [exact store_paren_line|exact jalr_paren_line]]. Qed.
Print Assumptions C01_imm_reg_line_end_to_end.

(* ---- the general form behind the family theorems (in the style of C01_imm_line_end_to_end).  more_form l toks name pos kw
   (Proofs/EndToEndMore.v, one constructor per line shape): toks is a line of these families, pos / kw the positional and keyword
   operands the encoder receives.  Whatever operands the generated encoder accepts, the line gives the encoder's word, and the word
   decodes to the instruction the operands name.  compress_heads: the mnemonics that head a compression rule (regenerated table). *)
Theorem C01_more_line_end_to_end :
  forall l toks name pos kw w cmp,
    more_form l toks name pos kw -> encode name pos kw = Ok w ->
    (cmp = true -> mem_str name compress_heads = false) ->
    line_gives l toks cmp (Passes.le_bytes 4 w) /\ 0 <= w < 2 ^ 32 /\
    exists ops i, operands32 name pos kw = Some ops /\ legal32 name ops = true /\ denote32 name ops = Some i /\ decode32 w = Some i.
Proof. exact more_line_end_to_end. Qed.
Print Assumptions C01_more_line_end_to_end.
(* ... and exactly: operands as written readable and inside the documented set (Spec only: legal_line32) -> the word as above;
   otherwise the assembler's own error at the line -- in both modes (the C06 dichotomy for these families, atomics included) *)
Theorem C01_more_line_exact :
  forall l toks name pos kw cmp,
    more_form l toks name pos kw -> (cmp = true -> mem_str name compress_heads = false) ->
    if legal_line32 name pos kw
    then exists w i, encode name pos kw = Ok w /\ line_gives l toks cmp (Passes.le_bytes 4 w) /\ decode32 w = Some i /\
                     exists ops, operands32 name pos kw = Some ops /\ denote32 name ops = Some i
    else line_fails l toks cmp.
Proof. exact more_line_exact. Qed.
Print Assumptions C01_more_line_exact.
Example C01_compress_heads :
  compress_heads = ["lui"; "srli"; "srai"; "andi"; "sub"; "xor"; "or"; "and"; "jal"; "beq"; "bne"; "slli"; "lw"; "addi"; "ebreak"; "add"; "jalr"; "sw"]%string.
Proof. vm_compute. reflexivity. Qed.

(* every one of the 66 mnemonics is the subject of a line theorem: the parser's dispatch tables of the 32-bit classes (regenerated
   from the source) together are exactly the Spec's list -- R / I / S / U / B / J (C01_line / imm_line / transfer_line above),
   fence, ecall ebreak fence.i, the A tables (this section) *)
Theorem C01_tables_cover :
  forall name, In name base_mnemonics <->
    In name (EndToEnd.r3_names ++ EndToEnd.i_names ++ EndToEnd.s_names ++ EndToEnd.u_names ++ EndToEnd.b_names ++ EndToEnd.j_names ++
             fence_names ++ ie_names ++ a_names ++ al_names).
Proof. exact tables_cover_base. Qed.
Print Assumptions C01_tables_cover.

From Coq Require Import Lia.
(* ---- non-vacuity: concrete lines, the hypotheses computed, the expected word and its four little-endian bytes, the text through the
   lexer model, both modes ---------------------------------------------------------------------------------------------------------- *)
Open Scope string_scope.
Ltac word_is Hw := vm_compute in Hw; match type of Hw with Ok ?v = Ok ?w => assert (w = v) by (inversion Hw; reflexivity); subst w end; clear Hw.
Example C01_amo_line_example : forall l cmp,           (* amoadd.w a0, a1, a2, 1, 0  =  0x04c5a52f ; without ordering operands 0x00c5a52f *)
  line_gives l ["amoadd.w"; "a0"; "a1"; "a2"; "1"; "0"] cmp [47; 165; 197; 4] /\ decode32 80061743 = Some (Amo AMOADD 10 11 12 1 0) /\
  Passes.le_bytes 4 80061743 = [47; 165; 197; 4] /\
  assemble_text [(l, "  amoadd.w a0, a1, a2, 1, 0  # acquire")] nil nil cmp = TDone (chunk_result l [47; 165; 197; 4]) /\
  line_gives l ["AMOADD.W"; "x10"; "11"; "a2"] cmp (Passes.le_bytes 4 12952879) /\ decode32 12952879 = Some (Amo AMOADD 10 11 12 0 0).
Proof.
  intros l cmp.
  destruct ((proj1 C01_atomic_line_end_to_end) l "amoadd.w" AMOADD "a0" "a1" "a2" ["1"; "0"] 10 11 12 1 0 cmp eq_refl eq_refl eq_refl eq_refl eq_refl)
    as (w & Hw & Hg & _ & Hd). word_is Hw.
  destruct ((proj1 C01_atomic_line_end_to_end) l "AMOADD.W" AMOADD "x10" "11" "a2" [] 10 11 12 0 0 cmp eq_refl eq_refl eq_refl eq_refl eq_refl)
    as (w & Hw & Hg2 & _ & Hd2). word_is Hw.
  split; [exact Hg|]. split; [exact Hd|]. split; [reflexivity|]. split; [|split; [exact Hg2|exact Hd2]].
  apply (proj2 Hg). vm_compute. reflexivity.
Qed.
Example C01_lr_sc_line_example : forall l cmp,         (* lr.w t0, t1 = 0x100322af ; sc.w t0, t1, t2, 0, 1 = 0x1a7322af *)
  line_gives l ["lr.w"; "t0"; "t1"] cmp (Passes.le_bytes 4 268640943) /\ decode32 268640943 = Some (LrW 5 6 0 0) /\
  assemble_text [(l, "lr.w t0, t1")] nil nil cmp = TDone (chunk_result l [175; 34; 3; 16]) /\
  line_gives l ["sc.w"; "t0"; "t1"; "t2"; "0"; "1"] cmp (Passes.le_bytes 4 443753135) /\ decode32 443753135 = Some (ScW 5 6 7 0 1).
Proof.
  intros l cmp.
  destruct ((proj2 (proj2 C01_atomic_line_end_to_end)) l "lr.w" "t0" "t1" [] 5 6 0 0 cmp eq_refl eq_refl eq_refl eq_refl) as (w & Hw & Hg & _ & Hd). word_is Hw.
  destruct ((proj1 (proj2 C01_atomic_line_end_to_end)) l "sc.w" "t0" "t1" "t2" ["0"; "1"] 5 6 7 0 1 cmp eq_refl eq_refl eq_refl eq_refl eq_refl)
    as (w & Hw & Hg2 & _ & Hd2). word_is Hw.
  split; [exact Hg|]. split; [exact Hd|]. split; [|split; [exact Hg2|exact Hd2]].
  apply (proj2 Hg). vm_compute. reflexivity.
Qed.
Example C01_fence_line_example : forall l cmp,         (* fence 0b0011, 0b1100 = 0x0c30000f: succ = 0011, pred = 1100 *)
  line_gives l ["fence"; "0b0011"; "0b1100"] cmp (Passes.le_bytes 4 204472335) /\ decode32 204472335 = Some (Fence 0 12 3) /\
  assemble_text [(l, "fence 0b0011, 0b1100")] nil nil cmp = TDone (chunk_result l [15; 0; 48; 12]) /\
  assemble_text [(l, "fence")] nil nil cmp = TDone (chunk_result l [15; 0; 240; 15]) /\
  assemble_text [(l, "fence.i")] nil nil cmp = TDone (chunk_result l [15; 16; 0; 0]).
Proof.
  intros l cmp.
  destruct ((proj1 C01_fence_line_end_to_end) l "fence" "0b0011" "0b1100" 3 12 cmp eq_refl eq_refl eq_refl) as (w & Hw & Hg & _ & Hd); try lia.
  word_is Hw. split; [exact Hg|]. split; [exact Hd|]. split; [apply (proj2 Hg); vm_compute; reflexivity|].
  split.
  - apply (proj2 (proj1 ((proj1 (proj2 C01_fence_line_end_to_end)) l "fence" cmp eq_refl))). vm_compute. reflexivity.
  - apply (proj2 (proj1 ((proj2 (proj2 C01_fence_line_end_to_end)) l "fence.i" cmp eq_refl))). vm_compute. reflexivity.
Qed.
Example C01_csr_line_example : forall l cmp,           (* csrrw t0, t1, 0x300 = 0x300312f3 ; csrrwi t0, 5, 0x300 = 0x3002d2f3 *)
  line_gives l ["csrrw"; "t0"; "t1"; "0x300"] cmp (Passes.le_bytes 4 805507827) /\ decode32 805507827 = Some (Csr CSRRW 5 6 768) /\
  assemble_text [(l, "csrrw t0, t1, 0x300")] nil nil cmp = TDone (chunk_result l [243; 18; 3; 48]) /\
  line_gives l ["csrrwi"; "t0"; "5"; "0x300"] cmp (Passes.le_bytes 4 805491443) /\ decode32 805491443 = Some (Csr CSRRWI 5 5 768) /\
  assemble_text [(l, "csrrwi t0, 5, 0x300")] nil nil cmp = TDone (chunk_result l [243; 210; 2; 48]).
Proof.
  intros l cmp.
  destruct (C01_csr_line_end_to_end l "csrrw" CSRRW "t0" "t1" "0x300" (Items.ANum 768) 768 5 6 cmp eq_refl eq_refl eq_refl eq_refl eq_refl)
    as (w & Hw & Hg & _ & Hd); try lia. word_is Hw.
  destruct (C01_csr_line_end_to_end l "csrrwi" CSRRWI "t0" "5" "0x300" (Items.ANum 768) 768 5 5 cmp eq_refl eq_refl eq_refl eq_refl eq_refl)
    as (w & Hw & Hg2 & _ & Hd2); try lia. word_is Hw.
  split; [exact Hg|]. split; [exact Hd|]. split; [apply (proj2 Hg); vm_compute; reflexivity|].
  split; [exact Hg2|]. split; [exact Hd2|]. apply (proj2 Hg2); vm_compute; reflexivity.
Qed.
Example C01_system_line_example : forall l,            (* ecall = 0x00000073 ; ebreak = 0x00100073, compressed 0x9002 *)
  (forall cmp, assemble_text [(l, "ecall")] nil nil cmp = TDone (chunk_result l [115; 0; 0; 0])) /\
  assemble_text [(l, "EBREAK")] nil nil false = TDone (chunk_result l [115; 0; 16; 0]) /\
  assemble_text [(l, "EBREAK")] nil nil true = TDone (chunk_result l [2; 144]).
Proof.
  intro l. split; [intro cmp|split].
  - apply (proj2 (proj1 ((proj1 C01_system_line_end_to_end) l "ecall" cmp eq_refl))). vm_compute. reflexivity.
  - apply (proj2 (proj1 ((proj1 (proj2 C01_system_line_end_to_end)) l "EBREAK" eq_refl))). vm_compute. reflexivity.
  - apply (proj2 (proj1 ((proj2 (proj2 C01_system_line_end_to_end)) l "EBREAK" eq_refl))). vm_compute. reflexivity.
Qed.
Example C01_imm_reg_line_example : forall l,           (* lw a0, 8(sp) = 0x00812503 ; sw a0, -4(sp) = 0xfea12e23 ; lb also with compression on *)
  line_gives l ["lw"; "a0"; "8"; "("; "sp"; ")"] false (Passes.le_bytes 4 8463619) /\ decode32 8463619 = Some (Load LW 10 2 8) /\
  assemble_text [(l, "lw a0, 8(sp)")] nil nil false = TDone (chunk_result l [3; 37; 129; 0]) /\
  line_gives l ["sw"; "a0"; "-4"; "("; "sp"; ")"] false (Passes.le_bytes 4 4271975971) /\ decode32 4271975971 = Some (Store SW 2 10 (-4)) /\
  (forall cmp, line_gives l ["lb"; "a0"; "8"; "("; "sp"; ")"] cmp (Passes.le_bytes 4 8455427) /\ decode32 8455427 = Some (Load LB 10 2 8)) /\
  line_gives l ["jalr"; "ra"; "2"; "("; "t0"; ")"] false (Passes.le_bytes 4 2261223) /\ decode32 2261223 = Some (Jalr 1 5 2).
Proof.
  intro l.
  destruct ((proj1 C01_imm_reg_line_end_to_end) l "lw" LW "a0" "8" "sp" (Items.ANum 8) 8 10 2 false eq_refl eq_refl eq_refl eq_refl eq_refl)
    as (w & Hw & Hg & _ & Hd); try lia; try discriminate. word_is Hw.
  destruct ((proj1 (proj2 C01_imm_reg_line_end_to_end)) l "sw" SW "a0" "-4" "sp" (Items.AUn Items.UNeg (Items.ANum 4)) (-4) 2 10 false eq_refl eq_refl eq_refl eq_refl eq_refl)
    as (w & Hw & Hg2 & _ & Hd2); try lia; try discriminate. word_is Hw.
  destruct ((proj2 (proj2 C01_imm_reg_line_end_to_end)) l "jalr" "ra" "2" "t0" (Items.ANum 2) 2 1 5 eq_refl eq_refl eq_refl eq_refl eq_refl)
    as (w & Hw & Hg3 & _ & Hd3); try lia; try reflexivity. word_is Hw.
  split; [exact Hg|]. split; [exact Hd|]. split; [apply (proj2 Hg); vm_compute; reflexivity|].
  split; [exact Hg2|]. split; [exact Hd2|]. split; [|split; [exact Hg3|exact Hd3]].
  intro cmp.
  destruct ((proj1 C01_imm_reg_line_end_to_end) l "lb" LB "a0" "8" "sp" (Items.ANum 8) 8 10 2 cmp eq_refl eq_refl eq_refl eq_refl eq_refl)
    as (w & Hw & Hg4 & _ & Hd4); try lia; try discriminate. word_is Hw. auto.
Qed.
(* the other branch of C01_more_line_exact: aq = 2, a fence set of 16, a CSR number of 4096 are refused at the line, in both modes *)
Example C01_more_line_refused_example : forall l cmp,
  line_fails l ["amoadd.w"; "a0"; "a1"; "a2"; "2"; "0"] cmp /\ line_fails l ["fence"; "16"; "0"] cmp /\
  line_fails l ["csrrw"; "t0"; "t1"; "4096"] cmp /\
  assemble_text [(l, "amoadd.w a0, a1, a2, 2, 0")] nil nil cmp = TFail (Items.PAsm l).
Proof.
  intros l cmp.
  assert (A : line_fails l ["amoadd.w"; "a0"; "a1"; "a2"; "2"; "0"] cmp).
  { apply (C01_more_line_exact l _ "amoadd.w" [AStr "a0"; AStr "a1"; AStr "a2"] [("aq", AStr "2"); ("rl", AStr "0")] cmp).
    - apply M_a5; [reflexivity|vm_compute; auto 20|reflexivity].
    - intros _. reflexivity. }
  split; [exact A|]. split; [|split].
  - apply (C01_more_line_exact l _ "fence" [AStr "16"; AStr "0"] nil cmp).
    + apply M_fence; [reflexivity|vm_compute; auto|reflexivity].
    + intros _. reflexivity.
  - apply (C01_more_line_exact l _ "csrrw" [AStr "t0"; AStr "t1"; AInt 4096] nil cmp).
    + apply (M_csr l "csrrw" "csrrw" "t0" "t1" "4096" (Items.ANum 4096) 4096); try reflexivity. vm_compute; auto.
    + intros _. reflexivity.
  - apply (proj2 A). vm_compute. reflexivity.
Qed.
