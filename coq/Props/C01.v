(* C01 -- 32-bit instructions encode exactly as the RISC-V specification defines.
   Statements only.  `encode` calls the GENERATED INSTRUCTIONS dictionary (Gen/Encoders.v, regenerated from
   asm.py on every run); decode32 / denote32 / operands32 are the hand-written Spec. *)
From Coq Require Import ZArith List String.
From BB Require Import Base.PyBase Gen.Encoders Spec.RV32 Spec.Operands Model.Encode Proofs.Regs Proofs.C01Main.
Open Scope Z_scope.

(* Whatever operands (ints or strings, any integer immediate) the encoder of one of the 66 base mnemonics
   accepts, the word is a 32-bit value that the Spec decodes to the very instruction the operands name. *)
Theorem C01_decode_encode :
  forall name pos kw w, In name base_mnemonics -> encode name pos kw = Ok w ->
    0 <= w < 2^32 /\
    exists ops i, operands32 name pos kw = Some ops /\ denote32 name ops = Some i /\ decode32 w = Some i.
Proof. exact decode_encode. Qed.
Print Assumptions C01_decode_encode.

(* Two operand tuples of one mnemonic that give the same word name the same operands
   (register spellings and the two documented lui/auipc spellings are identified by operands32). *)
Theorem C01_injective :
  forall name p1 k1 p2 k2 w, In name base_mnemonics ->
    encode name p1 k1 = Ok w -> encode name p2 k2 = Ok w ->
    exists ops, operands32 name p1 k1 = Some ops /\ operands32 name p2 k2 = Some ops.
Proof. exact encode_injective. Qed.
Print Assumptions C01_injective.

(* A register operand is accepted exactly when it is a documented spelling, and then names that register. *)
Theorem C01_registers : forall a n, lookup_register a false = Ok n <-> regnum a = Some n.
Proof. exact lookup_register_spec. Qed.
Print Assumptions C01_registers.
