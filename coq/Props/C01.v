(* C01 -- 32-bit instructions encode exactly as the RISC-V specification defines.
   Statements only.  `encode` calls the GENERATED INSTRUCTIONS dictionary (Gen/Encoders.v, regenerated from
   asm.py on every run); decode32 / denote32 / operands32 are the hand-written Spec. *)
From Coq Require Import ZArith List String.
From BB Require Import Base.PyBase Gen.Encoders Spec.RV32 Spec.Operands Model.Encode Proofs.Regs Proofs.C01Main Model.Items Model.PyExpr Model.Parser Model.Passes Model.Lexer Proofs.LexSep Proofs.EndToEnd.
Import ListNotations.
Open Scope Z_scope.

(* Whatever operands (ints or strings, any integer immediate) the encoder of one of the 66 base mnemonics
   accepts, the word is a 32-bit value that the Spec decodes to the very instruction the operands name. *)
Theorem C01_decode_encode :
  forall name pos kw w, In name base_mnemonics -> encode name pos kw = Ok w ->
    0 <= w < 2^32 /\
    exists ops i, operands32 name pos kw = Some ops /\ denote32 name ops = Some i /\ decode32 w = Some i.
Proof. exact decode_encode. Qed.
Print Assumptions C01_decode_encode.

(* Two operand tuples of one mnemonic that give the same word name the same operands
   (register spellings and the two documented lui/auipc spellings are identified by operands32). *)
Theorem C01_injective :
  forall name p1 k1 p2 k2 w, In name base_mnemonics ->
    encode name p1 k1 = Ok w -> encode name p2 k2 = Ok w ->
    exists ops, operands32 name p1 k1 = Some ops /\ operands32 name p2 k2 = Some ops.
Proof. exact encode_injective. Qed.
Print Assumptions C01_injective.

(* A register operand is accepted exactly when it is a documented spelling, and then names that register. *)
Theorem C01_registers : forall a n, lookup_register a false = Ok n <-> regnum a = Some n.
Proof. exact lookup_register_spec. Qed.
Print Assumptions C01_registers.

(* From the SOURCE LINE: for every three-register mnemonic of the assembler's R-type table and any operand tokens, the tokens
   are parsed (parser model) to an item that the 16 passes of the pass model turn into exactly the four little-endian bytes of
   the word the generated encoder returns -- the word that, by the theorem above, decodes to the instruction the operands name.
   (Composes front end, passes and encoders inside Coq; elsewhere they are tied to each other through the correspondence checks.
   rd <> "=": `add = ...` would be a constant definition; the rs2 token must be expression text the PyExpr model reads: it is
   also tried as a shift amount.) *)
Theorem C01_line_end_to_end :
  forall l name rd rs1 rs2 a w,
    In name EndToEnd.r3_names -> In name base_mnemonics -> String.eqb rd "=" = false -> PyExpr.arith_of_string rs2 = Some a ->
    encode name [AStr rd; AStr rs1; AStr rs2] nil = Ok w ->
    exists it ops i,
      Parser.parse_item l (name :: rd :: rs1 :: rs2 :: nil) = Parser.FOk it /\
      Passes.assemble_items ((l, it) :: nil) nil nil false =
        Passes.Done {| Passes.r_chunks := (l, Passes.CBytes (Passes.le_bytes 4 w)) :: nil; Passes.r_consts := nil; Passes.r_labels := nil |} /\
      0 <= w < 2 ^ 32 /\
      operands32 name [AStr rd; AStr rs1; AStr rs2] nil = Some ops /\ denote32 name ops = Some i /\ decode32 w = Some i.
Proof. exact EndToEnd.r_line_end_to_end. Qed.
Print Assumptions C01_line_end_to_end.
Example C01_line_example :
  In "sub"%string EndToEnd.r3_names /\ In "sub"%string base_mnemonics /\ PyExpr.arith_of_string "x3" = Some (Items.AName "x3") /\
  encode "sub" [AStr "x1"; AStr "t0"; AStr "x3"] nil = Ok 1077051571.
Proof.
  split. { apply (proj1 (in_map_iff _ _ _)) || idtac. vm_compute. auto 30. }
  split. { vm_compute. auto 80. }
  split; vm_compute; reflexivity.
Qed.

(* ... and for the classes with an immediate written as a literal: every mnemonic of the I-type table (loads, addi .. andi, jalr,
   the csr instructions), the S-type table (stores) and the U-type table (lui, auipc), in the `reg, reg, imm` spelling (C13 adds `imm(reg)`) *)
Theorem C01_imm_line_end_to_end :
  forall l name toks it args w,
  (exists rd rs1 tok v, In name EndToEnd.i_names /\ String.eqb rd "=" = false /\ String.eqb tok "(" = false /\
       Parser.parse_immediate [tok] l = Parser.FOk (Items.EArith (Items.ANum v)) /\ toks = [name; rd; rs1; tok] /\
       args = [AStr rd; AStr rs1; AInt v] /\
       it = Items.IInstr "ITypeInstruction" name [("rd", Parser.R rd); ("rs1", Parser.R rs1); ("imm", Items.FExpr (Items.EArith (Items.ANum v)));
                                                  ("is_auipc_jump", Items.FBool false)]%string false) \/
  (exists rs1 rs2 tok v, In name EndToEnd.s_names /\ String.eqb rs1 "=" = false /\ String.eqb tok "(" = false /\
       Parser.parse_immediate [tok] l = Parser.FOk (Items.EArith (Items.ANum v)) /\ toks = [name; rs1; rs2; tok] /\
       args = [AStr rs1; AStr rs2; AInt v] /\
       it = Items.IInstr "STypeInstruction" name [("rs1", Parser.R rs1); ("rs2", Parser.R rs2); ("imm", Items.FExpr (Items.EArith (Items.ANum v)))]%string false) \/
  (exists rd tok v, In name EndToEnd.u_names /\ String.eqb rd "=" = false /\
       Parser.parse_immediate [tok] l = Parser.FOk (Items.EArith (Items.ANum v)) /\ toks = [name; rd; tok] /\ args = [AStr rd; AInt v] /\
       it = Items.IInstr "UTypeInstruction" name [("rd", Parser.R rd); ("imm", Items.FExpr (Items.EArith (Items.ANum v)))]%string false) ->
  In name base_mnemonics -> encode name args nil = Ok w ->
  exists ops i,
    Parser.parse_item l toks = Parser.FOk it /\
    Passes.assemble_items ((l, it) :: nil) nil nil false =
      Passes.Done {| Passes.r_chunks := (l, Passes.CBytes (Passes.le_bytes 4 w)) :: nil; Passes.r_consts := nil; Passes.r_labels := nil |} /\
    0 <= w < 2 ^ 32 /\ operands32 name args nil = Some ops /\ denote32 name ops = Some i /\ decode32 w = Some i.
Proof. exact EndToEnd.imm_line_end_to_end. Qed.
Print Assumptions C01_imm_line_end_to_end.
Example C01_imm_line_example : forall l,
  Parser.parse_immediate ["-5"%string] l = Parser.FOk (Items.EArith (Items.AUn Items.UNeg (Items.ANum 5))) /\
  Parser.parse_immediate ["0x7ff"%string] l = Parser.FOk (Items.EArith (Items.ANum 2047)) /\
  encode "lw" [AStr "x8"; AStr "sp"; AInt 2047] nil = Ok 2146509827.
Proof. intro l. repeat split; vm_compute; reflexivity. Qed.

(* ... and the branches and jal with a LITERAL offset (a label target is C03's business) *)
Theorem C01_transfer_line_end_to_end :
  forall l name toks it args w,
  (exists rs1 rs2 tok v, In name EndToEnd.b_names /\ String.eqb rs1 "=" = false /\ is_int tok = true /\
       Parser.parse_immediate [tok] l = Parser.FOk (Items.EArith (Items.ANum v)) /\ toks = [name; rs1; rs2; tok] /\
       args = [AStr rs1; AStr rs2; AInt v] /\
       it = Items.IInstr "BTypeInstruction" name [("rs1", Parser.R rs1); ("rs2", Parser.R rs2); ("imm", Items.FExpr (Items.EArith (Items.ANum v)))]%string false) \/
  (exists rd tok v, In name EndToEnd.j_names /\ String.eqb rd "=" = false /\ is_int tok = true /\
       Parser.parse_immediate [tok] l = Parser.FOk (Items.EArith (Items.ANum v)) /\ toks = [name; rd; tok] /\ args = [AStr rd; AInt v] /\
       it = Items.IInstr "JTypeInstruction" name [("rd", Parser.R rd); ("imm", Items.FExpr (Items.EArith (Items.ANum v)))]%string false) ->
  In name base_mnemonics -> encode name args nil = Ok w ->
  exists ops i,
    Parser.parse_item l toks = Parser.FOk it /\
    Passes.assemble_items ((l, it) :: nil) nil nil false =
      Passes.Done {| Passes.r_chunks := (l, Passes.CBytes (Passes.le_bytes 4 w)) :: nil; Passes.r_consts := nil; Passes.r_labels := nil |} /\
    0 <= w < 2 ^ 32 /\ operands32 name args nil = Some ops /\ denote32 name ops = Some i /\ decode32 w = Some i.
Proof. exact EndToEnd.transfer_line_end_to_end. Qed.
Print Assumptions C01_transfer_line_end_to_end.

(* ... and from the TEXT of the line: in ANY separator style (indentation, blanks / tabs / commas between operands, trailing comment
   -- the documented freedoms of C13) the lexer model returns the four tokens, and the chain above follows *)
Theorem C01_text_line_end_to_end :
  forall (sty : LexSep.style) l name rd rs1 rs2 a w,
    let ts := map chars [name; rd; rs1; rs2] in
    Forall LexSep.tok_ok ts -> LexSep.not_special ts -> LexSep.style_ok sty ts ->
    In name EndToEnd.r3_names -> In name base_mnemonics -> String.eqb rd "=" = false -> PyExpr.arith_of_string rs2 = Some a ->
    encode name [AStr rd; AStr rs1; AStr rs2] nil = Ok w ->
    Lexer.lex_tokens (unchars (LexSep.render sty ts)) = Some [name; rd; rs1; rs2] /\
    exists it ops i,
      Parser.parse_item l [name; rd; rs1; rs2] = Parser.FOk it /\
      Passes.assemble_items ((l, it) :: nil) nil nil false =
        Passes.Done {| Passes.r_chunks := (l, Passes.CBytes (Passes.le_bytes 4 w)) :: nil; Passes.r_consts := nil; Passes.r_labels := nil |} /\
      0 <= w < 2 ^ 32 /\
      operands32 name [AStr rd; AStr rs1; AStr rs2] nil = Some ops /\ denote32 name ops = Some i /\ decode32 w = Some i.
Proof. exact EndToEnd.r_text_end_to_end. Qed.
Print Assumptions C01_text_line_end_to_end.
Example C01_text_line_example :      (* "  sub x1,t0 , x3  # c" *)
  let ts := map chars ["sub"; "x1"; "t0"; "x3"]%string in
  let sty := {| LexSep.indent := chars "  "; LexSep.gaps := [chars " "; chars ","; chars " , "; chars "  "]; LexSep.comment := Some (chars " c") |} in
  unchars (LexSep.render sty ts) = "  sub x1,t0 , x3  # c"%string /\
  Forall LexSep.tok_ok ts /\ LexSep.not_special ts /\ LexSep.style_ok sty ts.
Proof.
  cbv zeta. split. { vm_compute. reflexivity. }
  split. { repeat (constructor; [left; split; [discriminate|repeat (constructor; [reflexivity|])]; constructor|]). constructor. }
  split. { split; discriminate. }
  split. { repeat (constructor; [reflexivity|]). constructor. }
  split. { reflexivity. }
  cbn. repeat split; try (repeat (constructor; [reflexivity|]); constructor); try (left; discriminate); try discriminate.
Qed.

(* ---- resolve_register_aliases as the source has it (Gen/Guards.v; Proofs/Guards.v): the item is rebuilt from ALL its fields in order,
   only a register field whose value is a constant name changes -- the immediate, is_auipc_jump, aq / rl and the fence sets survive *)
From BB Require Gen.Guards Proofs.Guards.
Theorem C01_register_aliases_from_source : Proofs.Guards.register_aliases_from_source_stmt.
Proof. exact Proofs.Guards.register_aliases_from_source. Qed.
Print Assumptions C01_register_aliases_from_source.
