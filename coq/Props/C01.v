(* placeholder *)
From Coq Require Import ZArith.
Theorem C01_placeholder : True. Proof. exact I. Qed.
Print Assumptions C01_placeholder.
