(* C18 -- a completed DFU run leaves the device flash equal to the firmware image.
   Statements only; proofs live in Proofs/Dfu*.v.
   cli_main is Model.DfuHost (dfu.cli_main as a function; it calls the GENERATED Gen.Dfu: constants, request builders,
   status decoding, device table, size guard, padding, address arithmetic, poll predicates); the device is the
   hand-written Spec (Spec/DfuDev.v) with an arbitrary schedule.  Quantified over: the four data-sheet variants, EVERY
   firmware that fits, EVERY initial flash contents, EVERY finite fault-free schedule (any number of dfuDNBUSY answers
   per request, any 24-bit poll time-outs; `fuel` only has to be at least the longest busy run), both initial states. *)
From Coq Require Import ZArith List Bool String.
From BB Require Import Spec.DfuDev Gen.Dfu Model.DfuHost Proofs.DfuDevice Proofs.DfuRun Proofs.DfuMain.
Import ListNotations.
Open Scope Z_scope.

(* after the run, flash on [0x08000000, +pages*1024) is the firmware followed by zeros (nth .. 0 past the end of the
   file is 0), every other byte is what it was before *)
Theorem C18_flash :
  forall (c size : Z) (fw : list Z) (flash0 : Z -> Z) (sched : list sentry) (st0 : dstate) (fuel : nat),
  In (c, size) spec_variants ->
  Z.of_nat (List.length fw) <= size ->
  wf_sched sched -> Forall no_err sched -> Forall (fits fuel) sched -> init_state st0 ->
  forall a : Z,
  m_flash (d_mem (fst (cli_main fuel fw c (init_dev size flash0 sched st0)))) a =
  if (FLASH_BASE <=? a) && (a <? FLASH_BASE + pages_of (Z.of_nat (List.length fw)) * 1024)
  then nth (Z.to_nat (a - FLASH_BASE)) fw 0
  else flash0 a.
Proof. exact run_flash. Qed.
Print Assumptions C18_flash.

(* no protocol monitor fired (request while busy, poll delay not waited for, write to a page not erased, address outside
   flash, request the state does not allow); exactly `pages` erase / set-address / write operations were executed; the
   device is idle; the run announces done! and returns normally *)
Theorem C18_order :
  forall (c size : Z) (fw : list Z) (flash0 : Z -> Z) (sched : list sentry) (st0 : dstate) (fuel : nat),
  In (c, size) spec_variants ->
  Z.of_nat (List.length fw) <= size ->
  wf_sched sched -> Forall no_err sched -> Forall (fits fuel) sched -> init_state st0 ->
  let r := cli_main fuel fw c (init_dev size flash0 sched st0) in
  m_mons (d_mem (fst r)) = [] /\
  m_nerase (d_mem (fst r)) = pages_of (Z.of_nat (List.length fw)) /\
  m_nset (d_mem (fst r)) = pages_of (Z.of_nat (List.length fw)) /\
  m_nwrite (d_mem (fst r)) = pages_of (Z.of_nat (List.length fw)) /\
  idle_like (d_state (fst r)) /\
  exists tr, snd r = tr ++ [EPrint PNewline; EPrint (PLit "done!"); EExit 0 None].
Proof. exact run_order. Qed.
Print Assumptions C18_order.

(* the hypotheses are satisfiable, and the statement is not vacuous: a 3-byte firmware on the 16 KiB part, the erase
   answering dfuDNBUSY twice (5 ms, 65536 ms), device starting in dfuERROR(errVERIFY) *)
Example C18_example :
  let sched := [mkEntry [5; 65536] 1 0; mkEntry [] 0 0; mkEntry [255] 0 0] in
  In (52, 16384) spec_variants /\ wf_sched sched /\ Forall no_err sched /\ Forall (fits 2) sched /\ init_state (Error 7) /\
  let r := cli_main 2 [1; 2; 3] 52 (init_dev 16384 (fun _ => 170) sched (Error 7)) in
  map (m_flash (d_mem (fst r))) [FLASH_BASE - 1; FLASH_BASE; FLASH_BASE + 2; FLASH_BASE + 3; FLASH_BASE + 1023; FLASH_BASE + 1024]
  = [170; 1; 3; 0; 0; 170] /\ List.length (snd r) = 35%nat.
Proof.
  cbv zeta. split; [right; right; right; left; reflexivity|].
  split; [repeat constructor; unfold tmo_ok; cbn; try (intro; discriminate); auto|].
  split; [repeat constructor|]. split; [repeat constructor|]. split; [right; eexists; reflexivity|].
  vm_compute. split; reflexivity.
Qed.
