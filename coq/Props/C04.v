(* C04 -- compression never changes the meaning.  Statements only.
   criteria / construction / pred_sem are GENERATED from transform_compressible (Gen/Criteria.v); encode calls the GENERATED
   encoders; decode16 / expand_c / decode32 are the Spec. *)
From Coq Require Import ZArith List String.
From BB Require Import Base.PyBase Gen.Encoders Gen.Criteria Spec.RV32 Spec.RVC Spec.Operands Spec.Legal
  Model.Items Model.Encode Model.Passes Spec.Sem Proofs.Layout Proofs.Pipeline Proofs.Rules Proofs.RulesMain Proofs.RulesSem Proofs.Stable.
Import ListNotations.
Open Scope Z_scope.

(* Rule soundness.  Whatever rule the generated first-match selection picks for an item (any register spelling; ANY
   integer immediate; the item has no fields beyond those of its mnemonic), the numeric view of the item passes
   rule_check: the compressed operands built by the generated construction row are LEGAL and name a compressed
   instruction whose Spec expansion has the same meaning as the 32-bit instruction the operands name
   (equal, or `add rd, x0, rs` for `addi rd, rs, 0`).  29 rules: symbolic reduction to the rule's operand box +
   in-kernel sweep of every box. *)
Theorem C04_rule_sound :
  forall i r, select_rule criteria i = Ok (Some r) -> wf_view (nview_of i) -> rule_check (nview_of i) r = true.
Proof. exact rule_sound_item. Qed.
Print Assumptions C04_rule_sound.

(* ... and through the generated encoders: the compressed encoder ACCEPTS these operands, the halfword is a legal
   non-hint RV32C encoding (decode16), and for every word the 32-bit encoder returns for the original operands the
   decoded instruction has the same meaning as the expansion of the halfword. *)
Theorem C04_rule_encodes :
  forall v r, rule_check v r = true ->
  exists fs final cls cfs h c,
    orig_fields (nv_name v) = Some fs /\ assoc_str r construction = Some (final, cls, cfs) /\
    encode final (pos16_of v cfs) [] = Ok h /\ 0 <= h < 2^16 /\ decode16 h = Some c /\
    forall w, In (nv_name v) base_mnemonics -> encode (nv_name v) (pos32_of v fs) [] = Ok w ->
      exists ins, decode32 w = Some ins /\ equiv_b (expand_c c) ins = true.
Proof. exact rule_encodes. Qed.
Print Assumptions C04_rule_encodes.

(* ... and in terms of the architectural effect (Spec/Sem.v step semantics): from EVERY state the 16-bit instruction and the
   32-bit instruction it replaces lead to the same registers, memory and pc (pointwise; the instruction length is the
   same parameter on both sides -- a compressed instruction advances and links by 2, which is its documented effect) *)
Theorem C04_rule_semantics :
  forall v r, rule_check v r = true ->
  exists fs final cls cfs h c,
    orig_fields (nv_name v) = Some fs /\ assoc_str r construction = Some (final, cls, cfs) /\
    encode final (pos16_of v cfs) [] = Ok h /\ decode16 h = Some c /\
    forall w, In (nv_name v) base_mnemonics -> encode (nv_name v) (pos32_of v fs) [] = Ok w ->
      exists ins, decode32 w = Some ins /\ sem_equiv (expand_c c) ins.
Proof. exact rule_semantics. Qed.
Print Assumptions C04_rule_semantics.

(* ... and at machine level: the two bytes the compressed encoder produced, loaded at the pc, make the fetching machine
   (Spec/Sem.v run_n: fetch by the low two bits, decode16 + expand_c) do exactly what the 32-bit instruction does *)
Theorem C04_rule_machine :
  forall v r, rule_check v r = true ->
  exists fs final cls cfs h,
    orig_fields (nv_name v) = Some fs /\ assoc_str r construction = Some (final, cls, cfs) /\
    encode final (pos16_of v cfs) [] = Ok h /\
    forall w, In (nv_name v) base_mnemonics -> encode (nv_name v) (pos32_of v fs) [] = Ok w ->
      exists ins, decode32 w = Some ins /\
        forall s, loaded s (half_bytes h) -> ostate_eq (run_n 1 s) (step ins 2 s).
Proof. exact rule_machine. Qed.
Print Assumptions C04_rule_machine.

(* a register operand reaches the encoders only through its number: the numeric views speak for every spelling *)
Theorem C04_spelling : forall a n, regnum a = Some n ->
  read_op KReg a = read_op KReg (AInt n) /\ read_cop CReg a = read_cop CReg (AInt n).
Proof. exact read_reg_spelling. Qed.
Print Assumptions C04_spelling.

(* a rule is consulted only when the immediate it tests can no longer change (or is the distance from a jump / branch
   to a label): the value the rule saw is the value finally encoded *)
Theorem C04_decided_on_final_value : forall l pos consts cls fs e,
  field_get "imm" fs = Some (FExpr e) -> imm_unstable l pos consts cls fs = Done false ->
  jump_to_label consts cls e \/ exists v, forall pos' labels, eval_here l pos' consts labels e = Done v.
Proof. exact compress_decides_on_settled. Qed.
Print Assumptions C04_decided_on_final_value.

(* everything that is not code is untouched by the compression passes: data items, aligns, labels are kept as they are
   (Rkeep), so their bytes are the same in both modes; pc-relative immediates are retargeted because they are
   evaluated after the layout is final (C08_final, C03_*_lands) *)
Theorem C04_data_untouched :
  forall its consts0 labels0 compress r,
    assemble_items its consts0 labels0 compress = Done r -> nonneg its -> layout_facts its r /\ NoDup (gnames its).
Proof. exact pipeline_layout. Qed.
Print Assumptions C04_data_untouched.

Example C04_example : select_num criteria ex_view = Some "c.addi"%string /\ wf_view ex_view /\ regs_ok ex_view.
Proof. exact ex_view_selected. Qed.

(* ---- tie of the guards to the source (Gen/Guards.v, regenerated from asm.py on every run; Proofs/Guards.v) -------------------
   The model's `imm_unstable` (the test in front of the rule selection of transform_compressible), `is_settled` and
   `is_position_relative` ARE the interpretation of what the source says today: which classes are jumps, the class of the
   immediate, the dictionary the reference must not be in, the arguments handed to is_settled and by it to expr.eval. *)
From BB Require Gen.Guards Proofs.Guards.
Theorem C04_guard_from_source : forall l pos consts labels cls fs,
  imm_unstable l pos consts cls fs = Proofs.Guards.gen_imm_unstable l pos consts labels cls fs.
Proof. exact Proofs.Guards.guard_from_source. Qed.
Print Assumptions C04_guard_from_source.
Theorem C04_settled_from_source : forall l pos consts labels e,
  is_settled l pos consts e = Proofs.Guards.gen_is_settled Gen.Guards.cg_env Gen.Guards.cg_settled_args l pos consts labels e.
Proof. exact Proofs.Guards.settled_from_source. Qed.
Print Assumptions C04_settled_from_source.
Theorem C04_position_relative_from_source : forall e, is_position_relative e = Proofs.Guards.gen_posrel e.
Proof. exact Proofs.Guards.posrel_from_source. Qed.
Print Assumptions C04_position_relative_from_source.

(* ---- the order of the passes and the label updates, as the SOURCE has them today (Gen/PassTable.v; Proofs/PassOrder.v) *)
From BB Require Gen.PassTable Proofs.PassOrder.
Theorem C04_pass_order_from_source : forall its consts0 labels0 compress,
  assemble_items its consts0 labels0 compress =
  obind (Proofs.PassOrder.run Gen.PassTable.pass_order compress
           {| Proofs.PassOrder.ps_items := its; Proofs.PassOrder.ps_consts := consts0; Proofs.PassOrder.ps_labels := labels0;
              Proofs.PassOrder.ps_chunks := None |})
        Proofs.PassOrder.finish.
Proof. exact Proofs.PassOrder.assemble_is_pass_order. Qed.
Print Assumptions C04_pass_order_from_source.
Theorem C04_label_updates_from_source :
  forallb Proofs.PassOrder.update_ok Gen.PassTable.label_updates = true /\
  forallb (fun p => existsb (fun u => String.eqb (fst (fst u)) p) Gen.PassTable.label_updates)
          ["transform_compressible"; "transform_pseudo_instructions"; "resolve_aligns"]%string = true.
Proof. exact Proofs.PassOrder.label_updates_ok. Qed.
Print Assumptions C04_label_updates_from_source.

(* ---- the model is a FUNCTION of the program and the options, and so is the code it models: the effect summary regenerated from asm.py
   passes summary_ok (no module-level object written by anything reachable from assemble(), no mutable default, no set iteration order
   consumed; Proofs/Effects.v noninterference) -- a memo table or cache that outlives a call makes a pure model unfaithful *)
From BB Require Gen.Effects Proofs.Effects Proofs.EffectsOk.
Theorem C04_assemble_is_a_function_of_its_inputs : Proofs.Effects.summary_ok Gen.Effects.summary = true.
Proof. exact Proofs.EffectsOk.summary_ok_holds. Qed.
Print Assumptions C04_assemble_is_a_function_of_its_inputs.

From BB Require Import Proofs.NoRaw Proofs.CompressItem Proofs.CompressTail Proofs.CompressLit Proofs.CompressProgram Proofs.CompressTransfer Proofs.CompressExt Model.Parser Proofs.ParseCflag Proofs.CompressSem.

(* ---- whole program ---------------------------------------------------------------------------------------------------------------
   One instruction item, followed through BOTH pipelines.  A well-formed 32-bit instruction item (instr_okb: what the parser
   produces; compressed flag = the one of its class) whose immediate is not position-relative, on which the compression pass
   selected a rule and built the compressed item yC: whatever offsets / label tables the two runs resolve the immediates with
   (`resolved`), if the generated 32-bit encoder accepts the item (bytes bsU) then yC is a compressed instruction item, and if the
   generated 16-bit encoder accepts yC (bytes bsC) then bsU are the 4 little-endian bytes of a word w, bsC the 2 bytes of a
   halfword h, decode32 w = Some ins, decode16 h = Some ci (a legal, non-hint RV32C encoding) and expand_c ci has the same
   meaning as ins (equiv_b: equal, or `add rd, x0, rs` for `addi rd, rs, 0`; equiv_b_sem of Proofs/RulesSem.v turns it into
   sem_equiv).  This is C04_rule_sound / C04_rule_encodes tied to the ITEM (register spellings, aliases, ghost / flag fields,
   the immediate finally evaluated). *)
Theorem C04_item_pair :
  forall consts l p ls cls name fs c r yC pU labU fsU bsU,
    instr_okb false cls name fs = true -> c = String.prefix "C" cls ->
    (forall e, field_get "imm" fs = Some (FExpr e) -> is_position_relative e = false) ->
    imm_unstable l p consts cls fs = Done false ->
    select_rule criteria (view_of l p consts ls name fs) = Ok (Some r) ->
    build_compressed r fs = Some yC ->
    resolved l pU consts labU fs fsU -> encode_item l cls name fsU c = Done bsU ->
    exists cls' final nfs, yC = IInstr cls' final nfs true /\ c = false /\ String.prefix "C" cls' = true /\
      forall pC labC nfsC bsC, resolved l pC consts labC nfs nfsC -> encode_item l cls' final nfsC true = Done bsC ->
      exists w h ci ins, bsU = le_bytes 4 w /\ bsC = le_bytes 2 h /\ 0 <= w < 2^32 /\ 0 <= h < 2^16 /\
         decode32 w = Some ins /\ decode16 h = Some ci /\ equiv_b (expand_c ci) ins = true.
Proof. exact pair_sound. Qed.
Print Assumptions C04_item_pair.

(* Enabling compression does not change what a LITERAL program means.
   Class (literal_programb, a boolean on the item list, Proofs/CompressProgram.v): every item is well-formed in the sense of
   C15 (okb 0: what Model/Parser.v returns, Proofs/ParseOk.v), the compressed flag of an instruction item is the one of its class
   (cflag_ok), and no immediate of an instruction / pack / db..dd item is position-relative (%offset) or mentions a LABEL of the
   program (item_lit; constants, arithmetic, %hi / %lo / %position on constants are allowed), no pseudo-instruction takes a label
   reference (beqz .. j / jal / call / tail are outside; li, mv, not, neg, seqz .., jr, jalr, ret, nop, fence are inside).  Any data
   items, any `align N` (N >= 1: nonneg), labels and constant definitions anywhere.  The initial label table is empty.
   Statement: if BOTH runs succeed, their chunk lists correspond SOURCE ITEM BY SOURCE ITEM, in order (corr, walking the source
   list with the running offsets pU / pC of the two outputs; item_corr):
     label L      -> no chunk; the value of L in the uncompressed run's label table is pU, in the compressed run's table pC
     constant     -> no chunk
     align n      -> the padding (n - p mod n) mod n of THAT run's offset (no chunk, or one zero chunk): pad_chunks
     data item    -> one chunk, IDENTICAL in both runs (string, bytes.., db.., pack, include_bytes, blobs)
     instruction / pseudo-instruction -> equally many chunks in both runs (li: one or two), all carrying the item's line, pairwise
                     either IDENTICAL or (chunk_corr) the 4 bytes of a word w against the 2 bytes of a halfword h with
                     decode32 w = Some ins, decode16 h = Some ci, equiv_b (expand_c ci) ins = true.
   Since the offsets advance by the chunk lengths, the theorem also says where every label ends up in each run. *)
Theorem C04_program_literal :
  forall its c0 rU rC,
    nonneg its -> literal_programb its = true ->
    assemble_items its c0 [] false = Done rU -> assemble_items its c0 [] true = Done rC ->
    corr (r_labels rU) (r_labels rC) 0 0 its (r_chunks rU) (r_chunks rC).
Proof. exact program_literal_b. Qed.
Print Assumptions C04_program_literal.

(* non-vacuity: K = 4 / addi x8, x8, 4 (-> c.addi) / addi x1, x2, K * 25 (no rule) / L: / dw 0x12345678 / align 4 (pads 0 bytes
   without, 2 bytes with compression) / li x9, 5 (-> c.li) / string hi / M:   -- both runs, and the correspondence for them *)
Example C04_program_example :
  nonneg ex04 /\ literal_programb ex04 = true /\
  assemble_items ex04 [] [] false = Done {| r_chunks := ex04_chunksU; r_consts := [("K", 4)]; r_labels := [("L", 8); ("M", 18)] |}%string /\
  assemble_items ex04 [] [] true = Done {| r_chunks := ex04_chunksC; r_consts := [("K", 4)]; r_labels := [("L", 6); ("M", 16)] |}%string /\
  corr [("L", 8); ("M", 18)]%string [("L", 6); ("M", 16)]%string 0 0 ex04 ex04_chunksU ex04_chunksC /\
  exists ci ins, decode16 (17 + 4 * 256) = Some ci /\ decode32 (19 + 4 * 256 + 68 * 65536) = Some ins /\ expand_c ci = ins.
Proof. exact (conj ex04_nonneg (conj ex04_literal (conj (proj1 ex04_runs) (conj (proj2 ex04_runs) (conj ex04_corr ex04_first_pair))))). Qed.

(* ---- ... with pc-relative transfers to labels -----------------------------------------------------------------------------------
   One transfer item (class B or J: beq .. bgeu / jal; immediate %offset(L); L not a constant), whatever the compression pass made
   of it AT ANY position with ANY label table (itC: the item itself, or c.beqz / c.bnez / c.j / c.jal): the uncompressed run emits the
   4 bytes of a word wU, decode32 wU = insU; the compressed run emits 4 bytes decoding to insC, or the 2 bytes of a legal halfword
   expanding to insC; insU and insC are the SAME transfer (retarget: same condition and registers) with the offsets LU - pU and
   LC - pC, LU / LC being the value of L in the label table of that run: each lands on L (C03_*_lands, for both runs at once). *)
Theorem C04_item_transfer :
  forall consts l cls name fs c L p ls itC pU labU fsU bsU,
    instr_okb false cls name fs = true -> c = String.prefix "C" cls -> is_tr_cls cls = true ->
    field_get "imm" fs = Some (FExpr (EOff L)) -> assoc_str L consts = None -> back_of fs = 0 ->
    compress_rule consts l (IInstr cls name fs c) p ls = Done [itC] ->
    resolved l pU consts labU fs fsU -> encode_item l cls name fsU c = Done bsU ->
    exists LU wU insU, assoc_str L labU = Some LU /\ bsU = le_bytes 4 wU /\ 0 <= wU < 2^32 /\ decode32 wU = Some insU /\
      exists cls' name' fs' c', itC = IInstr cls' name' fs' c' /\ back_of fs' = 0 /\
        forall pC labC fsC bsC, resolved l pC consts labC fs' fsC -> encode_item l cls' name' fsC c' = Done bsC ->
          exists LC insC, assoc_str L labC = Some LC /\ retarget insU (LU - pU) insC (LC - pC) /\
            ((c' = false /\ exists wC, bsC = le_bytes 4 wC /\ 0 <= wC < 2^32 /\ decode32 wC = Some insC) \/
             (c' = true /\ exists h ci, bsC = le_bytes 2 h /\ 0 <= h < 2^16 /\ decode16 h = Some ci /\ expand_c ci = insC)).
Proof. exact transfer_pair. Qed.
Print Assumptions C04_item_transfer.

(* The program theorem for the extended class (ext_programb, Proofs/CompressExt.v): every item is in the literal class of
   C04_program_literal, OR is a branch / jal instruction item whose immediate is %offset(L), OR one of the pseudo-instructions
   beqz bnez bgez bltz blez bgtz bgt ble bgtu bleu j jal (last operand L) -- with L NOT A CONSTANT of the run (`r_consts rU`; a
   constant as target is an absolute address: outside).  call / tail and label values inside data or non-transfer immediates
   remain outside (K2 of C12 shows that the latter really change meaning).
   Statement (corr_x / item_corr_x): as C04_program_literal; for an instruction / pseudo-instruction the chunks are walked with
   their offsets (code_corr) and correspond by chunk_corr_x: as before, or (ccx_transfer) a transfer to L: the 4 bytes of wU with
   decode32 wU = insU against 4 bytes decoding to insC or 2 bytes of a legal halfword expanding to insC, retarget insU (LU - pU)
   insC (LC - pC), assoc_str L (r_labels rU) = Some LU, assoc_str L (r_labels rC) = Some LC.
   NOTE the hypothesis that BOTH runs succeed: with transfers it is not implied by the success of the uncompressed run (K1). *)
Theorem C04_program_transfers :
  forall its c0 rU rC,
    nonneg its -> ext_programb (r_consts rU) its = true ->
    assemble_items its c0 [] false = Done rU -> assemble_items its c0 [] true = Done rC ->
    corr_x (r_labels rU) (r_labels rC) 0 0 its (r_chunks rU) (r_chunks rC).
Proof. exact program_transfers. Qed.
Print Assumptions C04_program_transfers.

(* non-vacuity: a: / addi x8, x8, 4 / beqz x8, a (-> c.beqz, backwards) / j b (-> c.j, across the align) / align 8 / b: /
   bne x1, x2, a (stays 32 bit, offset -16 without and -8 with compression) / jal ra, b (-> c.jal) / dw 7;   b = 16 resp. 8 *)
Example C04_program_transfers_example :
  nonneg ex04t /\ ext_programb [] ex04t = true /\
  assemble_items ex04t [] [] false = Done {| r_chunks := ex04t_chunksU; r_consts := []; r_labels := [("a", 0); ("b", 16)] |}%string /\
  assemble_items ex04t [] [] true = Done {| r_chunks := ex04t_chunksC; r_consts := []; r_labels := [("a", 0); ("b", 8)] |}%string /\
  corr_x [("a", 0); ("b", 16)]%string [("a", 0); ("b", 8)]%string 0 0 ex04t ex04t_chunksU ex04t_chunksC.
Proof. exact (conj ex04t_nonneg (conj ex04t_ext (conj (proj1 ex04t_runs) (conj (proj2 ex04t_runs) ex04t_corr)))). Qed.

(* the side condition cflag_ok of the two program theorems is what the parser model produces (like okb 0: Proofs/ParseOk.v) *)
Theorem C04_parser_flag : forall l tokens it, parse_item l tokens = FOk it -> cflag_ok it = true.
Proof. exact parse_item_cflag. Qed.
Print Assumptions C04_parser_flag.

(* what a non-identical pair of chunks of C04_program_literal means on the Spec machine: the two bytes of the compressed run, loaded
   at the pc, execute (one step of the fetching machine of Spec/Sem.v) exactly like the 32-bit instruction the uncompressed run
   emitted in their place, taken with length 2 *)
Theorem C04_chunk_machine :
  forall cU cC, chunk_corr cU cC ->
    cU = cC \/
    exists w h ins, cU = CBytes (le_bytes 4 w) /\ cC = CBytes (le_bytes 2 h) /\ decode32 w = Some ins /\
      forall s, loaded s (le_bytes 2 h) -> ostate_eq (run_n 1 s) (step ins 2 s).
Proof. exact chunk_corr_machine. Qed.
Print Assumptions C04_chunk_machine.

(* ---- ... with `call L` / `tail L` ------------------------------------------------------------------------------------------------
   Class (calls_programb, Proofs/CompressCalls.v): every item is in the class of C04_program_transfers (ext_programb) OR is
   `IPseudo "call" [L]` / `IPseudo "tail" [L]` with L NOT A CONSTANT of the run; and (regs_plain) none of the register names the templates of
   call / tail write -- x0, x1, x6 -- is the name of a constant of the run (resolve_register_aliases would replace it by the constant's value;
   constants DEFINED in the program cannot have such names, constants handed in as c0 could).
   The two runs may render a call / tail item DIFFERENTLY (ex04c below: the pair auipc + jalr without, ONE jal with compression), so for these
   items the correspondence is semantic (item_corr_c / lands_ct): with q the value of L in the label table OF THAT RUN and p the offset the item
   stands at IN THAT RUN, the chunks of the item, all carrying its line, are
       the 4 bytes of a word w, decode32 w = Some (Jal link (q - p)),                                       or
       (compressed run only) the 2 bytes of a legal halfword h, decode16 h = Some ci, expand_c ci = Jal link (q - p)   (c.jal / c.j),   or
       the 4 + 4 bytes of w1, w2: decode32 w1 = Some (Auipc scratch hi), decode32 w2 = Some (Jalr link scratch lo),
                                  (p + hi * 4096 + lo) mod 2^32 = q mod 2^32
   with link = 1 (x1), scratch = 1 for call; link = 0, scratch = 6 (x6) for tail: each run transfers control to ITS value of L and writes
   only the documented link / scratch register (C05_call_tail_near, C05_call_far, C05_tail_far give the effect on the Spec machine).
   Every other item: as in C04_program_transfers (item_corr_x).  No hypothesis on the size of the program or the distance is needed: the
   statement holds for whichever rendering each run chose.  As before BOTH runs are assumed to succeed. *)
From BB Require Import Proofs.CompressCalls.
Theorem C04_program_calls :
  forall its c0 rU rC,
    nonneg its -> calls_programb (r_consts rU) its = true -> regs_plain (r_consts rU) = true ->
    assemble_items its c0 [] false = Done rU -> assemble_items its c0 [] true = Done rC ->
    corr_c (r_labels rU) (r_labels rC) 0 0 its (r_chunks rU) (r_chunks rC).
Proof. exact program_calls. Qed.
Print Assumptions C04_program_calls.

(* non-vacuity: fn: / addi x8, x8, 4 / include_bytes gap.bin (1048570 bytes) / addi x8, x8, 4 / call fn / call nr / tail fn / nr: / tail nr.
   `call fn` stands at 1048578 without compression (distance -1048578, out of reach of jal: auipc x1, -256 ; jalr x1, x1, -2) and at 1048574
   with compression (jal x1, -1048574): the MIXED case;  `call nr` is jal x1 resp. c.jal;  `tail fn` is auipc x6 + jalr x0, x6 in both runs;
   `tail nr` is jal x0 resp. c.j *)
Example C04_program_calls_example :
  nonneg ex04c /\ calls_programb [] ex04c = true /\ regs_plain [] = true /\
  assemble_items ex04c [] [] false = Done {| r_chunks := ex04c_chunksU; r_consts := []; r_labels := [("fn", 0); ("nr", 1048598)] |}%string /\
  assemble_items ex04c [] [] true = Done {| r_chunks := ex04c_chunksC; r_consts := []; r_labels := [("fn", 0); ("nr", 1048588)] |}%string /\
  corr_c [("fn", 0); ("nr", 1048598)]%string [("fn", 0); ("nr", 1048588)]%string 0 0 ex04c ex04c_chunksU ex04c_chunksC /\
  decode32 (151 + 0 * 256 + 240 * 65536 + 255 * 16777216) = Some (Auipc 1 (-256)) /\
  decode32 (231 + 128 * 256 + 224 * 65536 + 255 * 16777216) = Some (Jalr 1 1 (-2)) /\
  decode32 (239 + 0 * 256 + 32 * 65536 + 128 * 16777216) = Some (Jal 1 (-1048574)).
Proof.
  exact (conj ex04c_nonneg (conj (proj1 ex04c_class) (conj (proj2 ex04c_class) (conj (proj1 ex04c_runs) (conj (proj2 ex04c_runs)
          (conj ex04c_corr ex04c_mixed)))))).
Qed.

(* regs_plain is a condition on the constants HANDED IN: the constants pass refuses to define a register name, so the final table has
   x0 / x1 / x6 only if the initial one had; with no constants handed in (c0 = []) the hypothesis of C04_program_calls holds *)
Theorem C04_regs_plain :
  forall its c0 l0 cmp r, nonneg its -> assemble_items its c0 l0 cmp = Done r -> regs_plain c0 = true -> regs_plain (r_consts r) = true.
Proof. exact regs_plain_run. Qed.
Print Assumptions C04_regs_plain.
Theorem C04_program_calls_no_given_constants :
  forall its rU rC,
    nonneg its -> calls_programb (r_consts rU) its = true ->
    assemble_items its [] [] false = Done rU -> assemble_items its [] [] true = Done rC ->
    corr_c (r_labels rU) (r_labels rC) 0 0 its (r_chunks rU) (r_chunks rC).
Proof. exact program_calls_noconsts. Qed.
Print Assumptions C04_program_calls_no_given_constants.

(* what the call / tail case of the correspondence means on the Spec machine (Spec/Sem.v, fetching machine run_n), for BOTH runs: with
   qU / qC the value of L in the label table of the uncompressed / compressed run, the bytes of the item's chunks loaded at the pc
   (ct_effect, Proofs/CompressCallsSem.v)
     - one step (jal / c.jal / c.j):  pc <- pc + (q - p);  only the link register is written (x1 for call; nothing at all for tail:
       only_reg .. 0 ..) and receives pc + length of the item (4 or 2);
     - two steps (auipc ; jalr):  pc <- pc + (q - p) with bit 0 cleared;  call: only x1 is written, x1 <- pc + 8;  tail: only the scratch
       register x6 is written.
   (q - p) is the distance from the item to the label in THAT run's layout: loaded at base + p, control arrives at base + q. *)
From BB Require Import Proofs.CompressCallsSem.
Theorem C04_call_machine :
  forall labU labC pU pC x cU cC name L,
    call_of (snd x) = Some (name, L) -> item_corr_c labU labC pU pC x cU cC ->
    exists qU qC, assoc_str L labU = Some qU /\ assoc_str L labC = Some qC /\ ct_effect name qU pU cU /\ ct_effect name qC pC cC.
Proof. exact item_corr_c_effect. Qed.
Print Assumptions C04_call_machine.

(* regs_plain cannot be dropped from C04_program_calls: a: / call a  assembled with the constant x1 = 5 HANDED IN (the `constants=` argument of
   assemble(); the command line cannot do that) is in the class and assembles in both modes to  jal x5, 0  (ef 02 00 00; the real assembler
   agrees): the link register is not x1, the correspondence with link = x1 fails.  Both modes agree with each other. *)
Theorem C04_program_calls_without_regs_plain_refuted :
  calls_programb [("x1", 5)]%string ex04s = true /\ regs_plain [("x1", 5)]%string = false /\
  assemble_items ex04s [("x1", 5)]%string [] false = Done {| r_chunks := ex04s_chunks; r_consts := [("x1", 5)]; r_labels := [("a", 0)] |}%string /\
  assemble_items ex04s [("x1", 5)]%string [] true = Done {| r_chunks := ex04s_chunks; r_consts := [("x1", 5)]; r_labels := [("a", 0)] |}%string /\
  decode32 (239 + 2 * 256) = Some (Jal 5 0) /\
  ~ corr_c [("a", 0)]%string [("a", 0)]%string 0 0 ex04s ex04s_chunks ex04s_chunks.
Proof.
  destruct ex04s_runs as (A & B & C & D & E). exact (conj A (conj B (conj C (conj D (conj E ex04s_refuted))))).
Qed.
Print Assumptions C04_program_calls_without_regs_plain_refuted.

(* the DIRECTION of the mixed case.  With no labels handed in and a program below 2 GiB (total its < 2^31: the hypotheses of C12 / C20, under
   which the estimated distances of the two pseudo-instruction passes can be compared: Proofs/Monotone.v pair_step, followed item by item in
   Proofs/CompressCallsMono.v) the correspondence of C04_program_calls holds (corr_m implies corr_c) AND for every call / tail item the chunks
   of the compressed run are not longer than those of the uncompressed run (item_corr_m: clen cC <= clen cU; the lengths are 4 / 8 without and
   2 / 4 / 8 with compression): the one-instruction form without compression never faces the pair auipc + jalr with compression -- the only
   mixed case is far without / near with compression (ex04c). *)
From BB Require Import Proofs.CompressCallsMono.
Theorem C04_program_calls_never_longer :
  forall its c0 rU rC,
    nonneg its -> calls_programb (r_consts rU) its = true -> regs_plain (r_consts rU) = true -> total its < 2 ^ 31 ->
    assemble_items its c0 [] false = Done rU -> assemble_items its c0 [] true = Done rC ->
    corr_m (r_labels rU) (r_labels rC) 0 0 its (r_chunks rU) (r_chunks rC).
Proof. exact program_calls_sized. Qed.
Print Assumptions C04_program_calls_never_longer.
Theorem C04_corr_m_implies_corr_c :
  forall labU labC pU pC its cU cC, corr_m labU labC pU pC its cU cC -> corr_c labU labC pU pC its cU cC.
Proof. exact corr_m_c. Qed.
Print Assumptions C04_corr_m_implies_corr_c.
Example C04_program_calls_never_longer_example :
  total ex04c < 2 ^ 31 /\
  corr_m [("fn", 0); ("nr", 1048598)]%string [("fn", 0); ("nr", 1048588)]%string 0 0 ex04c ex04c_chunksU ex04c_chunksC.
Proof. split. vm_compute; reflexivity. exact ex04c_corr_m. Qed.

(* ---- Arithmetic.eval as the source has it (Gen/Guards.v): the expression text goes to the builtin eval as written, with no builtins and the
   environment handed in; the POSITION of the item plays no part (so an arithmetic expression without labels is settled); every
   exception becomes an AssemblerError at the line; the result must be an int *)
From BB Require Gen.Guards Proofs.Guards.
Theorem C04_arithmetic_eval_from_source : Proofs.Guards.arithmetic_eval_from_source_stmt.
Proof. exact Proofs.Guards.arithmetic_eval_from_source. Qed.
Print Assumptions C04_arithmetic_eval_from_source.
