(* placeholder *)
From Coq Require Import ZArith.
Theorem C04_placeholder : True. Proof. exact I. Qed.
Print Assumptions C04_placeholder.
