(* C04 -- compression never changes the meaning.  Statements only.
   criteria / construction / pred_sem are GENERATED from transform_compressible (Gen/Criteria.v); encode calls the GENERATED
   encoders; decode16 / expand_c / decode32 are the Spec. *)
From Coq Require Import ZArith List String.
From BB Require Import Base.PyBase Gen.Encoders Gen.Criteria Spec.RV32 Spec.RVC Spec.Operands Spec.Legal
  Model.Items Model.Encode Model.Passes Spec.Sem Proofs.Layout Proofs.Pipeline Proofs.Rules Proofs.RulesMain Proofs.RulesSem Proofs.Stable.
Import ListNotations.
Open Scope Z_scope.

(* Rule soundness.  Whatever rule the generated first-match selection picks for an item (any register spelling; ANY
   integer immediate; the item has no fields beyond those of its mnemonic), the numeric view of the item passes
   rule_check: the compressed operands built by the generated construction row are LEGAL and name a compressed
   instruction whose Spec expansion has the same meaning as the 32-bit instruction the operands name
   (equal, or `add rd, x0, rs` for `addi rd, rs, 0`).  29 rules: symbolic reduction to the rule's operand box +
   in-kernel sweep of every box. *)
Theorem C04_rule_sound :
  forall i r, select_rule criteria i = Ok (Some r) -> wf_view (nview_of i) -> rule_check (nview_of i) r = true.
Proof. exact rule_sound_item. Qed.
Print Assumptions C04_rule_sound.

(* ... and through the generated encoders: the compressed encoder ACCEPTS these operands, the halfword is a legal
   non-hint RV32C encoding (decode16), and for every word the 32-bit encoder returns for the original operands the
   decoded instruction has the same meaning as the expansion of the halfword. *)
Theorem C04_rule_encodes :
  forall v r, rule_check v r = true ->
  exists fs final cls cfs h c,
    orig_fields (nv_name v) = Some fs /\ assoc_str r construction = Some (final, cls, cfs) /\
    encode final (pos16_of v cfs) [] = Ok h /\ 0 <= h < 2^16 /\ decode16 h = Some c /\
    forall w, In (nv_name v) base_mnemonics -> encode (nv_name v) (pos32_of v fs) [] = Ok w ->
      exists ins, decode32 w = Some ins /\ equiv_b (expand_c c) ins = true.
Proof. exact rule_encodes. Qed.
Print Assumptions C04_rule_encodes.

(* ... and in terms of the architectural effect (Spec/Sem.v step semantics): from EVERY state the 16-bit instruction and the
   32-bit instruction it replaces lead to the same registers, memory and pc (pointwise; the instruction length is the
   same parameter on both sides -- a compressed instruction advances and links by 2, which is its documented effect) *)
Theorem C04_rule_semantics :
  forall v r, rule_check v r = true ->
  exists fs final cls cfs h c,
    orig_fields (nv_name v) = Some fs /\ assoc_str r construction = Some (final, cls, cfs) /\
    encode final (pos16_of v cfs) [] = Ok h /\ decode16 h = Some c /\
    forall w, In (nv_name v) base_mnemonics -> encode (nv_name v) (pos32_of v fs) [] = Ok w ->
      exists ins, decode32 w = Some ins /\ sem_equiv (expand_c c) ins.
Proof. exact rule_semantics. Qed.
Print Assumptions C04_rule_semantics.

(* ... and at machine level: the two bytes the compressed encoder produced, loaded at the pc, make the fetching machine
   (Spec/Sem.v run_n: fetch by the low two bits, decode16 + expand_c) do exactly what the 32-bit instruction does *)
Theorem C04_rule_machine :
  forall v r, rule_check v r = true ->
  exists fs final cls cfs h,
    orig_fields (nv_name v) = Some fs /\ assoc_str r construction = Some (final, cls, cfs) /\
    encode final (pos16_of v cfs) [] = Ok h /\
    forall w, In (nv_name v) base_mnemonics -> encode (nv_name v) (pos32_of v fs) [] = Ok w ->
      exists ins, decode32 w = Some ins /\
        forall s, loaded s (half_bytes h) -> ostate_eq (run_n 1 s) (step ins 2 s).
Proof. exact rule_machine. Qed.
Print Assumptions C04_rule_machine.

(* a register operand reaches the encoders only through its number: the numeric views speak for every spelling *)
Theorem C04_spelling : forall a n, regnum a = Some n ->
  read_op KReg a = read_op KReg (AInt n) /\ read_cop CReg a = read_cop CReg (AInt n).
Proof. exact read_reg_spelling. Qed.
Print Assumptions C04_spelling.

(* a rule is consulted only when the immediate it tests can no longer change (or is the distance from a jump / branch
   to a label): the value the rule saw is the value finally encoded *)
Theorem C04_decided_on_final_value : forall l pos consts cls fs e,
  field_get "imm" fs = Some (FExpr e) -> imm_unstable l pos consts cls fs = Done false ->
  jump_to_label consts cls e \/ exists v, forall pos' labels, eval_here l pos' consts labels e = Done v.
Proof. exact compress_decides_on_settled. Qed.
Print Assumptions C04_decided_on_final_value.

(* everything that is not code is untouched by the compression passes: data items, aligns, labels are kept as they are
   (Rkeep), so their bytes are the same in both modes; pc-relative immediates are retargeted because they are
   evaluated after the layout is final (C08_final, C03_*_lands) *)
Theorem C04_data_untouched :
  forall its consts0 labels0 compress r,
    assemble_items its consts0 labels0 compress = Done r -> nonneg its -> layout_facts its r /\ NoDup (gnames its).
Proof. exact pipeline_layout. Qed.
Print Assumptions C04_data_untouched.

Example C04_example : select_num criteria ex_view = Some "c.addi"%string /\ wf_view ex_view /\ regs_ok ex_view.
Proof. exact ex_view_selected. Qed.

(* ---- tie of the guards to the source (Gen/Guards.v, regenerated from asm.py on every run; Proofs/Guards.v) -------------------
   The model's `imm_unstable` (the test in front of the rule selection of transform_compressible), `is_settled` and
   `is_position_relative` ARE the interpretation of what the source says today: which classes are jumps, the class of the
   immediate, the dictionary the reference must not be in, the arguments handed to is_settled and by it to expr.eval. *)
From BB Require Gen.Guards Proofs.Guards.
Theorem C04_guard_from_source : forall l pos consts labels cls fs,
  imm_unstable l pos consts cls fs = Proofs.Guards.gen_imm_unstable l pos consts labels cls fs.
Proof. exact Proofs.Guards.guard_from_source. Qed.
Print Assumptions C04_guard_from_source.
Theorem C04_settled_from_source : forall l pos consts labels e,
  is_settled l pos consts e = Proofs.Guards.gen_is_settled Gen.Guards.cg_env Gen.Guards.cg_settled_args l pos consts labels e.
Proof. exact Proofs.Guards.settled_from_source. Qed.
Print Assumptions C04_settled_from_source.
Theorem C04_position_relative_from_source : forall e, is_position_relative e = Proofs.Guards.gen_posrel e.
Proof. exact Proofs.Guards.posrel_from_source. Qed.
Print Assumptions C04_position_relative_from_source.

(* ---- the order of the passes and the label updates, as the SOURCE has them today (Gen/PassTable.v; Proofs/PassOrder.v) *)
From BB Require Gen.PassTable Proofs.PassOrder.
Theorem C04_pass_order_from_source : forall its consts0 labels0 compress,
  assemble_items its consts0 labels0 compress =
  obind (Proofs.PassOrder.run Gen.PassTable.pass_order compress
           {| Proofs.PassOrder.ps_items := its; Proofs.PassOrder.ps_consts := consts0; Proofs.PassOrder.ps_labels := labels0;
              Proofs.PassOrder.ps_chunks := None |})
        Proofs.PassOrder.finish.
Proof. exact Proofs.PassOrder.assemble_is_pass_order. Qed.
Print Assumptions C04_pass_order_from_source.
Theorem C04_label_updates_from_source :
  forallb Proofs.PassOrder.update_ok Gen.PassTable.label_updates = true /\
  forallb (fun p => existsb (fun u => String.eqb (fst (fst u)) p) Gen.PassTable.label_updates)
          ["transform_compressible"; "transform_pseudo_instructions"; "resolve_aligns"]%string = true.
Proof. exact Proofs.PassOrder.label_updates_ok. Qed.
Print Assumptions C04_label_updates_from_source.

(* ---- the model is a FUNCTION of the program and the options, and so is the code it models: the effect summary regenerated from asm.py
   passes summary_ok (no module-level object written by anything reachable from assemble(), no mutable default, no set iteration order
   consumed; Proofs/Effects.v noninterference) -- a memo table or cache that outlives a call makes a pure model unfaithful *)
From BB Require Gen.Effects Proofs.Effects Proofs.EffectsOk.
Theorem C04_assemble_is_a_function_of_its_inputs : Proofs.Effects.summary_ok Gen.Effects.summary = true.
Proof. exact Proofs.EffectsOk.summary_ok_holds. Qed.
Print Assumptions C04_assemble_is_a_function_of_its_inputs.
