(* C07 -- %hi / %lo always split a value so that the consuming pair rebuilds it.
   Statements only; proofs live in Proofs/.  The functions are the GENERATED translations of
   asm.relocate_hi / relocate_lo / sign_extend (Gen/Encoders.v). *)
From Coq Require Import ZArith.
From BB Require Import Base.PyBase Gen.Encoders Proofs.Reloc.
Open Scope Z_scope.

(* for EVERY integer v (the property asks for 2^32 values; negative and > 2^31 spellings included) *)
Theorem C07_hi_fits : forall v : Z, -524288 <= relocate_hi v < 524288.
Proof. exact hi_range. Qed.
Print Assumptions C07_hi_fits.

Theorem C07_lo_fits : forall v : Z, -2048 <= relocate_lo v < 2048.
Proof. exact lo_range. Qed.
Print Assumptions C07_lo_fits.

Theorem C07_rebuild : forall v : Z, (relocate_hi v * 4096 + relocate_lo v) mod 2^32 = v mod 2^32.
Proof. exact hi_lo_rebuild. Qed.
Print Assumptions C07_rebuild.
