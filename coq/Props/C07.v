(* C07 -- %hi / %lo always split a value so that the consuming pair rebuilds it.
   Statements only; proofs live in Proofs/.  The functions are the GENERATED translations of
   asm.relocate_hi / relocate_lo / sign_extend (Gen/Encoders.v). *)
From Coq Require Import ZArith.
From BB Require Import Base.PyBase Gen.Encoders Proofs.Reloc.
Open Scope Z_scope.

(* for EVERY integer v (the property asks for 2^32 values; negative and > 2^31 spellings included) *)
Theorem C07_hi_fits : forall v : Z, -524288 <= relocate_hi v < 524288.
Proof. exact hi_range. Qed.
Print Assumptions C07_hi_fits.

Theorem C07_lo_fits : forall v : Z, -2048 <= relocate_lo v < 2048.
Proof. exact lo_range. Qed.
Print Assumptions C07_lo_fits.

Theorem C07_rebuild : forall v : Z, (relocate_hi v * 4096 + relocate_lo v) mod 2^32 = v mod 2^32.
Proof. exact hi_lo_rebuild. Qed.
Print Assumptions C07_rebuild.

(* ---- tie of expression evaluation to the source (Gen/Guards.v: the return expressions of Offset / Position / Hi / Lo .eval, translated;
   the position and environment resolve_immediates evaluates with, the second half of an auipc / lui pair at the position of the first) *)
From BB Require Gen.Guards Proofs.Guards.
Theorem C07_eval_from_source : Proofs.Guards.eval_from_source_stmt.
Proof. exact Proofs.Guards.eval_from_source. Qed.
Print Assumptions C07_eval_from_source.
Theorem C07_resolve_immediates_from_source : Proofs.Guards.resolve_immediates_from_source_stmt.
Proof. exact Proofs.Guards.resolve_immediates_from_source. Qed.
Print Assumptions C07_resolve_immediates_from_source.

(* ==== CONSEQUENTLY: the consuming instruction PAIRS, written by hand, assembled by the pass model and run on the Spec machine ====
   (proofs: Proofs/RelocPairs.v, Proofs/RelocPairsProgram.v; arithmetic = C07_rebuild, encodings = C01 decode_encode, machine = Spec/Sem.v)

   What the statements are about:
   * mkU / mkI (Model/Passes.v) and mkS (Proofs/RelocPairs.v): the U-, I- and S-type items exactly as the parser model builds them for
     `lui rd, imm`, `addi rd, rs1, imm` = `lw rd, imm(rs1)`, `sw rs1, rs2, imm` = `sw rs2, imm(rs1)`; a hand-written I-type item has
     is_auipc_jump = false, so resolve_immediates evaluates its immediate at ITS OWN position (4 bytes behind the first line);
   * emit_lines consts labels pos [(l1, i1); (l2, i2)] : the model's resolve_immediates (from position pos, under the final constants / labels),
     resolve_instructions (GENERATED encoders) and resolve_blobs on the two items; at this level the statements hold for EVERY final layout
     (the form of C05_li ... and of C08_final: every instruction of a program is resolved exactly like this at its final offset);
   * the *_program theorems take the two-line program, and the program  A: <pair> B:, through all 16 passes (assemble_items, compress = false);
   * loaded / run_n / getr / only_reg / load_val / store_le: the fetching Spec machine (Spec/Sem.v); two_regs s s' t vt rd vrd (Proofs/RelocPairs.v):
     s' differs from s at most in t (now vt) and rd (now vrd; rd may be t), x0 never changes, memory untouched;
   * registers may be spelled in any way the assembler accepts (regnum of Spec/Operands.v; the two spellings t, t' of the scratch register
     need only denote the same register); the scratch register must not be x0 (an upper immediate written to x0 is lost);
   * is_position_relative e = false (Model/Passes.v, tied to asm.is_position_relative by C08_position_relative_from_source): e contains no
     %offset -- literals, constants, bare labels and %position(label, base) are all covered; v ranges over all of Z. *)
From Coq Require Import List Bool String.
From BB Require Import Spec.RV32 Spec.Operands Spec.Sem Model.Items Model.Passes Proofs.PseudoEmit Proofs.RelocPairs Proofs.RelocPairsProgram.
Import ListNotations.
Open Scope Z_scope.
Open Scope list_scope.

(* (a) lui rd, %hi(e) ; addi rd, rd, %lo(e):  rd = e mod 2^32, nothing else changes (rd = x0: nothing changes at all), pc + 8 *)
Theorem C07_lui_addi_pair : forall consts labels pos l1 l2 rd e bs,
  is_position_relative e = false ->
  emit_lines consts labels pos [(l1, mkU "lui" rd (EHi e)); (l2, mkI "addi" rd rd (ELo e) false)] = Done bs ->
  exists nrd v, regnum rd = Some nrd /\ eval_here l1 pos consts labels e = Done v /\
    forall s, loaded s bs ->
      exists s', run_n 2 s = Some s' /\ pc s' = wrap (pc s + 8) /\ only_reg s s' nrd (wrap v).
Proof. exact lui_addi_pair. Qed.

(* lui t, %hi(e) ; addi rd, t, %lo(e):  rd = e, t = %hi(e) << 12 (when rd is another register) *)
Theorem C07_lui_addi_pair_scratch : forall consts labels pos l1 l2 t t' rd e bs,
  is_position_relative e = false ->
  emit_lines consts labels pos [(l1, mkU "lui" t (EHi e)); (l2, mkI "addi" rd t' (ELo e) false)] = Done bs ->
  exists nt nt' nrd v, regnum t = Some nt /\ regnum t' = Some nt' /\ regnum rd = Some nrd /\
    eval_here l1 pos consts labels e = Done v /\
    forall s, loaded s bs -> nt' = nt -> nt <> 0 ->
      exists s', run_n 2 s = Some s' /\ pc s' = wrap (pc s + 8) /\
        two_regs s s' nt (wrap (relocate_hi v * 4096)) nrd (wrap v).
Proof. exact lui_addi_scratch. Qed.

(* the two-line program through all 16 passes; and between two labels that e may name (bare label, %position) *)
Theorem C07_lui_addi_program : forall l1 l2 rd e r,
  is_position_relative e = false ->
  assemble_items [(l1, mkU "lui" (AStr rd) (EHi e)); (l2, mkI "addi" (AStr rd) (AStr rd) (ELo e) false)] [] [] false = Done r ->
  exists nrd v, regnum (AStr rd) = Some nrd /\ eval_here l1 0 [] [] e = Done v /\
    forall s, loaded s (out_bytes r) ->
      exists s', run_n 2 s = Some s' /\ pc s' = wrap (pc s + 8) /\ only_reg s s' nrd (wrap v).
Proof. exact lui_addi_program. Qed.
Theorem C07_lui_addi_label_program : forall la l1 l2 lb A B rd e r,
  is_position_relative e = false ->
  assemble_items [(la, ILabel A); (l1, mkU "lui" (AStr rd) (EHi e)); (l2, mkI "addi" (AStr rd) (AStr rd) (ELo e) false); (lb, ILabel B)]
                 [] [] false = Done r ->
  r_labels r = [(A, 0); (B, 8)] /\
  exists nrd v, regnum (AStr rd) = Some nrd /\ eval_here l1 0 [] (r_labels r) e = Done v /\
    forall s, loaded s (out_bytes r) ->
      exists s', run_n 2 s = Some s' /\ pc s' = wrap (pc s + 8) /\ only_reg s s' nrd (wrap v).
Proof. exact lui_addi_label_program. Qed.

(* (b) lui t, %hi(e) ; lw rd, %lo(e)(t)  (lb lh lw lbu lhu: lwidth_name w):  rd = load_val w of the memory before the pair at address
   e mod 2^32 -- for lw the little-endian word of the four bytes at e, e+1, e+2, e+3 (addresses modulo 2^32; misalignment is not a fault
   in Spec/Sem.v); rd may be t *)
Theorem C07_lui_load_pair : forall w consts labels pos l1 l2 t t' rd e bs,
  is_position_relative e = false ->
  emit_lines consts labels pos [(l1, mkU "lui" t (EHi e)); (l2, mkI (lwidth_name w) rd t' (ELo e) false)] = Done bs ->
  exists nt nt' nrd v, regnum t = Some nt /\ regnum t' = Some nt' /\ regnum rd = Some nrd /\
    eval_here l1 pos consts labels e = Done v /\
    forall s, loaded s bs -> nt' = nt -> nt <> 0 ->
      exists s', run_n 2 s = Some s' /\ pc s' = wrap (pc s + 8) /\
        two_regs s s' nt (wrap (relocate_hi v * 4096)) nrd (load_val w (mem s) (wrap v)).
Proof. exact lui_load_pair. Qed.

(* lui t, %hi(e) ; sw rs, %lo(e)(t)  (sb sh sw):  the low 1 / 2 / 4 bytes of rs are stored little-endian at address e mod 2^32 (store_le);
   the only register that changes is t; if rs is t itself, what is stored is the upper part t holds by then *)
Theorem C07_lui_store_pair : forall w consts labels pos l1 l2 t t' rs e bs,
  is_position_relative e = false ->
  emit_lines consts labels pos [(l1, mkU "lui" t (EHi e)); (l2, mkS (swidth_name w) t' rs (ELo e))] = Done bs ->
  exists nt nt' nrs v, regnum t = Some nt /\ regnum t' = Some nt' /\ regnum rs = Some nrs /\
    eval_here l1 pos consts labels e = Done v /\
    forall s, loaded s bs -> nt' = nt -> nt <> 0 ->
      exists s', run_n 2 s = Some s' /\ pc s' = wrap (pc s + 8) /\
        getr s' nt = wrap (relocate_hi v * 4096) /\ (forall r, r <> nt -> getr s' r = getr s r) /\
        mem s' = store_le (swidth_bytes w) (mem s) (wrap v) (if nrs =? nt then wrap (relocate_hi v * 4096) else getr s nrs).
Proof. exact lui_store_pair. Qed.

Theorem C07_lui_load_program : forall w l1 l2 t rd e r,
  is_position_relative e = false ->
  assemble_items [(l1, mkU "lui" (AStr t) (EHi e)); (l2, mkI (lwidth_name w) (AStr rd) (AStr t) (ELo e) false)] [] [] false = Done r ->
  exists nt nrd v, regnum (AStr t) = Some nt /\ regnum (AStr rd) = Some nrd /\ eval_here l1 0 [] [] e = Done v /\
    forall s, loaded s (out_bytes r) -> nt <> 0 ->
      exists s', run_n 2 s = Some s' /\ pc s' = wrap (pc s + 8) /\
        two_regs s s' nt (wrap (relocate_hi v * 4096)) nrd (load_val w (mem s) (wrap v)).
Proof. exact lui_load_program. Qed.
Theorem C07_lui_store_program : forall w l1 l2 t rs e r,
  is_position_relative e = false ->
  assemble_items [(l1, mkU "lui" (AStr t) (EHi e)); (l2, mkS (swidth_name w) (AStr t) (AStr rs) (ELo e))] [] [] false = Done r ->
  exists nt nrs v, regnum (AStr t) = Some nt /\ regnum (AStr rs) = Some nrs /\ eval_here l1 0 [] [] e = Done v /\
    forall s, loaded s (out_bytes r) -> nt <> 0 ->
      exists s', run_n 2 s = Some s' /\ pc s' = wrap (pc s + 8) /\
        getr s' nt = wrap (relocate_hi v * 4096) /\ (forall x, x <> nt -> getr s' x = getr s x) /\
        mem s' = store_le (swidth_bytes w) (mem s) (wrap v) (if nrs =? nt then wrap (relocate_hi v * 4096) else getr s nrs).
Proof. exact lui_store_program. Qed.

(* (c) auipc t, %hi(%offset(L1)) ; jalr rd, t, %lo(%offset(L2))  WRITTEN BY HAND.  Only the pair that call / tail expand to carries the
   is_auipc_jump flag that makes resolve_immediates take both halves at the auipc; a hand-written jalr takes ITS %offset 4 bytes later.
   q1, q2: final values of L1, L2; the code stands at position pos, loaded at the pc, so L1 is at address pc + (q1 - pos).
   THE TRUE THEOREM: the jump goes to  pc + (q1 - pos) + (%lo(q2 - (pos + 4)) - %lo(q1 - pos))  with bit 0 cleared; rd = pc + 8. *)
Theorem C07_auipc_jalr_pair : forall consts labels pos l1 l2 t t' rd L1 L2 bs,
  emit_lines consts labels pos [(l1, mkU "auipc" t (EHi (EOff L1))); (l2, mkI "jalr" rd t' (ELo (EOff L2)) false)] = Done bs ->
  exists nt nt' nrd q1 q2, regnum t = Some nt /\ regnum t' = Some nt' /\ regnum rd = Some nrd /\
    chain_get consts labels L1 = Some q1 /\ chain_get consts labels L2 = Some q2 /\
    forall s, loaded s bs -> nt' = nt -> nt <> 0 ->
      let target := wrap (pc s + (q1 - pos) + (relocate_lo (q2 - (pos + 4)) - relocate_lo (q1 - pos))) in
      exists s', run_n 2 s = Some s' /\ pc s' = target - target mod 2 /\
        two_regs s s' nt (wrap (pc s + relocate_hi (q1 - pos) * 4096)) nrd (wrap (pc s + 8)).
Proof. exact auipc_jalr_labels. Qed.

(* ... with the SAME label in both halves -- the expansion table of call / tail in docs/instruction_reference.rst
   ("auipc x1, %hi(offset) ; jalr x1, x1, %lo(offset)") copied by hand: the jump goes to  L - 4, and to  L + 4092  when the distance from the
   auipc to L is 2048 .. 2051 modulo 4096 (lo_window: %hi is rounded for a low half that the later jalr no longer has).  It NEVER reaches L. *)
Theorem C07_auipc_jalr_same_label_misses : forall consts labels pos l1 l2 t t' rd L bs,
  emit_lines consts labels pos [(l1, mkU "auipc" t (EHi (EOff L))); (l2, mkI "jalr" rd t' (ELo (EOff L)) false)] = Done bs ->
  exists nt nt' nrd q, regnum t = Some nt /\ regnum t' = Some nt' /\ regnum rd = Some nrd /\ chain_get consts labels L = Some q /\
    forall s, loaded s bs -> nt' = nt -> nt <> 0 ->
      let target := wrap (pc s + (q - pos) - 4 + (if lo_window (q - pos) then 4096 else 0)) in
      exists s', run_n 2 s = Some s' /\ pc s' = target - target mod 2 /\ pc s' <> wrap (pc s + (q - pos)) /\
        two_regs s s' nt (wrap (pc s + relocate_hi (q - pos) * 4096)) nrd (wrap (pc s + 8)).
Proof. exact auipc_jalr_same_label. Qed.
Theorem C07_lo_window : forall d, lo_window d = andb (2048 <=? d mod 4096) (d mod 4096 <? 2052).
Proof. reflexivity. Qed.

(* ... and the hand-written recipe that DOES reach L1: name, in the second half, a label standing 4 bytes behind it *)
Theorem C07_auipc_jalr_next_label_lands : forall consts labels pos l1 l2 t t' rd L1 L2 bs,
  emit_lines consts labels pos [(l1, mkU "auipc" t (EHi (EOff L1))); (l2, mkI "jalr" rd t' (ELo (EOff L2)) false)] = Done bs ->
  exists nt nt' nrd q1 q2, regnum t = Some nt /\ regnum t' = Some nt' /\ regnum rd = Some nrd /\
    chain_get consts labels L1 = Some q1 /\ chain_get consts labels L2 = Some q2 /\
    forall s, loaded s bs -> nt' = nt -> nt <> 0 -> q2 = q1 + 4 ->
      let target := wrap (pc s + (q1 - pos)) in
      exists s', run_n 2 s = Some s' /\ pc s' = target - target mod 2 /\
        two_regs s s' nt (wrap (pc s + relocate_hi (q1 - pos) * 4096)) nrd (wrap (pc s + 8)).
Proof. exact auipc_jalr_next_label. Qed.

(* auipc t, %hi(%offset(L1)) ; addi rd, t, %lo(%offset(L2)): the same arithmetic lands in rd -- with one label: the address of L minus 4
   (plus 4096 inside the window), not the address of L *)
Theorem C07_auipc_addi_pair : forall consts labels pos l1 l2 t t' rd L1 L2 bs,
  emit_lines consts labels pos [(l1, mkU "auipc" t (EHi (EOff L1))); (l2, mkI "addi" rd t' (ELo (EOff L2)) false)] = Done bs ->
  exists nt nt' nrd q1 q2, regnum t = Some nt /\ regnum t' = Some nt' /\ regnum rd = Some nrd /\
    chain_get consts labels L1 = Some q1 /\ chain_get consts labels L2 = Some q2 /\
    forall s, loaded s bs -> nt' = nt -> nt <> 0 ->
      exists s', run_n 2 s = Some s' /\ pc s' = wrap (pc s + 8) /\
        two_regs s s' nt (wrap (pc s + relocate_hi (q1 - pos) * 4096)) nrd
                 (wrap (pc s + (q1 - pos) + (relocate_lo (q2 - (pos + 4)) - relocate_lo (q1 - pos)))).
Proof. exact auipc_addi_labels. Qed.
Theorem C07_auipc_addi_same_label : forall consts labels pos l1 l2 t t' rd L bs,
  emit_lines consts labels pos [(l1, mkU "auipc" t (EHi (EOff L))); (l2, mkI "addi" rd t' (ELo (EOff L)) false)] = Done bs ->
  exists nt nt' nrd q, regnum t = Some nt /\ regnum t' = Some nt' /\ regnum rd = Some nrd /\ chain_get consts labels L = Some q /\
    forall s, loaded s bs -> nt' = nt -> nt <> 0 ->
      exists s', run_n 2 s = Some s' /\ pc s' = wrap (pc s + 8) /\
        two_regs s s' nt (wrap (pc s + relocate_hi (q - pos) * 4096)) nrd
                 (wrap (pc s + (q - pos) - 4 + (if lo_window (q - pos) then 4096 else 0))).
Proof. exact auipc_addi_same_label. Qed.

(* the program  A: auipc t, %hi(%offset(L)) ; jalr rd, t, %lo(%offset(L)) ; B:  through all 16 passes, L = A or L = B: the jump goes 4 bytes
   in front of L -- for L = B that is the jalr itself *)
Theorem C07_auipc_jalr_label_program : forall la l1 l2 lb A B t rd L r,
  assemble_items [(la, ILabel A); (l1, mkU "auipc" (AStr t) (EHi (EOff L))); (l2, mkI "jalr" (AStr rd) (AStr t) (ELo (EOff L)) false);
                  (lb, ILabel B)] [] [] false = Done r ->
  r_labels r = [(A, 0); (B, 8)] /\
  exists nt nrd q, regnum (AStr t) = Some nt /\ regnum (AStr rd) = Some nrd /\ assoc_str L (r_labels r) = Some q /\ (q = 0 \/ q = 8) /\
    forall s, loaded s (out_bytes r) -> nt <> 0 ->
      let target := wrap (pc s + q - 4) in
      exists s', run_n 2 s = Some s' /\ pc s' = target - target mod 2 /\ pc s' <> wrap (pc s + q) /\
        two_regs s s' nt (wrap (pc s)) nrd (wrap (pc s + 8)).
Proof. exact auipc_jalr_label_program. Qed.

(* the general form behind all of the above, for lui and auipc alike and two arbitrary expressions (Proofs/RelocPairs.v upper_*_pair):
   the pair forms  base + v1 + (%lo(v2) - %lo(v1))  where v1 = e1 at the first line, v2 = e2 at the second line *)
Theorem C07_upper_readings : forall s,
  upper_name ULui = "lui"%string /\ upper_name UAuipc = "auipc"%string /\ upper_base ULui s = 0 /\ upper_base UAuipc s = pc s.
Proof. intros. repeat split. Qed.
Theorem C07_pair_value : forall u s v1 v2,
  pair_value u s v1 v2 = wrap (upper_base u s + v1 + (relocate_lo v2 - relocate_lo v1)) /\
  pair_value u s v1 v1 = wrap (upper_base u s + v1) /\
  pair_value u s v1 (v1 - 4) = wrap (upper_base u s + v1 - 4 + (if lo_window v1 then 4096 else 0)).
Proof. intros. split; [reflexivity|]. split; [apply pair_value_same|apply pair_value_minus4]. Qed.
(* (lui + jalr: an absolute jump to e when v2 = v1; auipc + addi / jalr with expressions other than %offset of one label) *)
Theorem C07_upper_addi_pair : forall u consts labels pos l1 l2 t t' rd e1 e2 bs,
  emit_lines consts labels pos [(l1, mkU (upper_name u) t (EHi e1)); (l2, mkI "addi" rd t' (ELo e2) false)] = Done bs ->
  exists nt nt' nrd v1 v2, regnum t = Some nt /\ regnum t' = Some nt' /\ regnum rd = Some nrd /\
    eval_here l1 pos consts labels e1 = Done v1 /\ eval_here l2 (pos + 4) consts labels e2 = Done v2 /\
    forall s, loaded s bs -> nt' = nt -> nt <> 0 ->
      exists s', run_n 2 s = Some s' /\ pc s' = wrap (pc s + 8) /\
        two_regs s s' nt (wrap (upper_base u s + relocate_hi v1 * 4096)) nrd (pair_value u s v1 v2).
Proof. exact upper_addi_pair. Qed.
Theorem C07_upper_jalr_pair : forall u consts labels pos l1 l2 t t' rd e1 e2 bs,
  emit_lines consts labels pos [(l1, mkU (upper_name u) t (EHi e1)); (l2, mkI "jalr" rd t' (ELo e2) false)] = Done bs ->
  exists nt nt' nrd v1 v2, regnum t = Some nt /\ regnum t' = Some nt' /\ regnum rd = Some nrd /\
    eval_here l1 pos consts labels e1 = Done v1 /\ eval_here l2 (pos + 4) consts labels e2 = Done v2 /\
    forall s, loaded s bs -> nt' = nt -> nt <> 0 ->
      exists s', run_n 2 s = Some s' /\ pc s' = pair_value u s v1 v2 - pair_value u s v1 v2 mod 2 /\
        two_regs s s' nt (wrap (upper_base u s + relocate_hi v1 * 4096)) nrd (wrap (pc s + 8)).
Proof. exact upper_jalr_pair. Qed.
Theorem C07_upper_load_pair : forall u w consts labels pos l1 l2 t t' rd e1 e2 bs,
  emit_lines consts labels pos [(l1, mkU (upper_name u) t (EHi e1)); (l2, mkI (lwidth_name w) rd t' (ELo e2) false)] = Done bs ->
  exists nt nt' nrd v1 v2, regnum t = Some nt /\ regnum t' = Some nt' /\ regnum rd = Some nrd /\
    eval_here l1 pos consts labels e1 = Done v1 /\ eval_here l2 (pos + 4) consts labels e2 = Done v2 /\
    forall s, loaded s bs -> nt' = nt -> nt <> 0 ->
      exists s', run_n 2 s = Some s' /\ pc s' = wrap (pc s + 8) /\
        two_regs s s' nt (wrap (upper_base u s + relocate_hi v1 * 4096)) nrd (load_val w (mem s) (pair_value u s v1 v2)).
Proof. exact upper_load_pair. Qed.
Theorem C07_upper_store_pair : forall u w consts labels pos l1 l2 t t' rs e1 e2 bs,
  emit_lines consts labels pos [(l1, mkU (upper_name u) t (EHi e1)); (l2, mkS (swidth_name w) t' rs (ELo e2))] = Done bs ->
  exists nt nt' nrs v1 v2, regnum t = Some nt /\ regnum t' = Some nt' /\ regnum rs = Some nrs /\
    eval_here l1 pos consts labels e1 = Done v1 /\ eval_here l2 (pos + 4) consts labels e2 = Done v2 /\
    forall s, loaded s bs -> nt' = nt -> nt <> 0 ->
      exists s', run_n 2 s = Some s' /\ pc s' = wrap (pc s + 8) /\
        getr s' nt = wrap (upper_base u s + relocate_hi v1 * 4096) /\ (forall r, r <> nt -> getr s' r = getr s r) /\
        mem s' = store_le (swidth_bytes w) (mem s) (pair_value u s v1 v2)
                          (if nrs =? nt then wrap (upper_base u s + relocate_hi v1 * 4096) else getr s nrs).
Proof. exact upper_store_pair. Qed.

(* one traversal of the proof terms for all of them (a separate Print Assumptions per theorem re-walks the C01 proofs, ~4 s apiece) *)
Definition C07_pair_theorems := (C07_lui_addi_pair, C07_lui_addi_pair_scratch, C07_lui_addi_program, C07_lui_addi_label_program,
  C07_lui_load_pair, C07_lui_store_pair, C07_lui_load_program, C07_lui_store_program, C07_auipc_jalr_pair,
  C07_auipc_jalr_same_label_misses, C07_lo_window, C07_auipc_jalr_next_label_lands, C07_auipc_addi_pair, C07_auipc_addi_same_label,
  C07_auipc_jalr_label_program, C07_upper_readings, C07_pair_value, C07_upper_addi_pair, C07_upper_jalr_pair, C07_upper_load_pair, C07_upper_store_pair).
Print Assumptions C07_pair_theorems.

(* ---- the hypotheses are satisfiable: concrete programs through all 16 passes (compress = false), their bytes loaded at address base into a
   machine whose register x_r holds 1000 + r and whose memory outside the code holds the byte (address mod 256), n instructions executed;
   result: (output bytes, registers asked, pc, memory bytes asked).  The byte lists are those the real assembler prints for the same source. *)
Definition ex_line (n : Z) : line := {| lfile := "ex"; lnum := n |}.
Definition ex_state (base : Z) (bs : list Z) : state :=
  {| regs := fun r => 1000 + r; pc := base;
     mem := fun a => if (base <=? a) && (a <? base + Z.of_nat (List.length bs)) then nth (Z.to_nat (a - base)) bs 0 else a mod 256 |}.
Definition ex_run (its : list item) (base : Z) (n : nat) (ask addrs : list Z) : option (list Z * list Z * Z * list Z) :=
  match assemble_items (map (fun p => (ex_line (Z.of_nat (fst p)), snd p)) (combine (seq 1 (List.length its)) its)) [] [] false with
  | Done r => match run_n n (ex_state base (out_bytes r)) with
              | Some s' => Some (out_bytes r, map (getr s') ask, pc s', map (mem s') addrs)
              | None => None
              end
  | _ => None
  end.
Definition num (v : Z) : expr := EArith (ANum v).
Definition lui_i (rd : string) (e : expr) : item := mkU "lui" (AStr rd) (EHi e).
Definition auipc_i (rd : string) (e : expr) : item := mkU "auipc" (AStr rd) (EHi e).
Definition lo_i (name rd rs : string) (e : expr) : item := mkI name (AStr rd) (AStr rs) (ELo e) false.
Definition nop_i : item := mkI "addi" (AStr "x0") (AStr "x0") (num 0) false.

(* 0x12345800: %lo = -2048, %hi rounded up to 0x12346 *)
Example C07_ex_lui_addi_12345800 :
  ex_run [lui_i "t0" (num 305420288); lo_i "addi" "t0" "t0" (num 305420288)] 4096 2 [5; 6] []
  = Some ([183; 98; 52; 18; 147; 130; 2; 128], [305420288; 1006], 4104, []).
Proof. vm_compute. reflexivity. Qed.
(* 0x7ffff800: %hi wraps to 0x80000 = -524288 *)
Example C07_ex_lui_addi_7ffff800 :
  ex_run [lui_i "t0" (num 2147481600); lo_i "addi" "t0" "t0" (num 2147481600)] 4096 2 [5] []
  = Some ([183; 2; 0; 128; 147; 130; 2; 128], [2147481600], 4104, []).
Proof. vm_compute. reflexivity. Qed.
(* 0xfffff800 and its negative spelling -2048: %hi = 0 *)
Example C07_ex_lui_addi_fffff800 :
  ex_run [lui_i "t0" (num 4294965248); lo_i "addi" "t0" "t0" (num 4294965248)] 4096 2 [5] []
  = Some ([183; 2; 0; 0; 147; 130; 2; 128], [4294965248], 4104, []).
Proof. vm_compute. reflexivity. Qed.
Example C07_ex_lui_addi_negative :
  ex_run [lui_i "t0" (num (-2048)); lo_i "addi" "t0" "t0" (num (-2048))] 4096 2 [5] []
  = Some ([183; 2; 0; 0; 147; 130; 2; 128], [4294965248], 4104, []).
Proof. vm_compute. reflexivity. Qed.
(* rd = x0: nothing changes *)
Example C07_ex_lui_addi_x0 :
  ex_run [lui_i "zero" (num 305420288); lo_i "addi" "x0" "0" (num 305420288)] 4096 2 [0; 5] []
  = Some ([55; 96; 52; 18; 19; 0; 0; 128], [0; 1005], 4104, []).
Proof. vm_compute. reflexivity. Qed.
(* two registers, two spellings of the scratch register *)
Example C07_ex_lui_addi_scratch :
  ex_run [lui_i "t0" (num 305420288); lo_i "addi" "a0" "x5" (num 305420288)] 4096 2 [5; 10] []
  = Some ([183; 98; 52; 18; 19; 133; 2; 128], [305422336; 305420288], 4104, []).
Proof. vm_compute. reflexivity. Qed.
(* lw a0, %lo(0x12345800)(t0): the word at 0x12345800 is 00 01 02 03 *)
Example C07_ex_lui_lw :
  ex_run [lui_i "t0" (num 305420288); lo_i "lw" "a0" "t0" (num 305420288)] 4096 2 [5; 10] []
  = Some ([183; 98; 52; 18; 3; 165; 2; 128], [305422336; 50462976], 4104, []).
Proof. vm_compute. reflexivity. Qed.
(* sw a0, %lo(0x12345800)(t0): a0 = 1010 = 0x3f2 lands at 0x12345800 .. 0x12345803, the neighbours keep their bytes *)
Example C07_ex_lui_sw :
  ex_run [lui_i "t0" (num 305420288); mkS "sw" (AStr "t0") (AStr "a0") (ELo (num 305420288))] 4096 2 [5; 10]
         [305420287; 305420288; 305420289; 305420290; 305420291; 305420292]
  = Some ([183; 98; 52; 18; 35; 160; 162; 128], [305422336; 1010], 4104, [255; 242; 3; 0; 0; 4]).
Proof. vm_compute. reflexivity. Qed.
(* a bare label and %position(label, base) *)
Example C07_ex_lui_addi_label :
  ex_run [lui_i "a0" (EArith (AName "L")); lo_i "addi" "a0" "a0" (EArith (AName "L")); ILabel "L"] 4096 2 [10] []
  = Some ([55; 5; 0; 0; 19; 5; 133; 0], [8], 4104, []).
Proof. vm_compute. reflexivity. Qed.
Example C07_ex_lui_addi_position :
  ex_run [lui_i "a0" (EPos "L" (num 134217728)); lo_i "addi" "a0" "a0" (EPos "L" (num 134217728)); ILabel "L"] 4096 2 [10] []
  = Some ([55; 5; 0; 8; 19; 5; 133; 0], [134217736], 4104, []).
Proof. vm_compute. reflexivity. Qed.

(* auipc t0, %hi(%offset(T)) ; jalr ra, t0, %lo(%offset(T)) ; nop ; T: nop -- T is at base + 12, the jump goes to base + 8 *)
Example C07_ex_auipc_jalr_same_label_refuted :
  ex_run [auipc_i "t0" (EOff "T"); lo_i "jalr" "ra" "t0" (EOff "T"); nop_i; ILabel "T"; nop_i] 4096 2 [1; 5] []
  = Some ([151; 2; 0; 0; 231; 128; 130; 0; 19; 0; 0; 0; 19; 0; 0; 0], [4104; 4096], 4104, []).
Proof. vm_compute. reflexivity. Qed.
(* ... inside the window: T at base + 2048 (align 2048; the zero padding is a run-length chunk, not part of out_bytes), the jump goes to
   base + 6140 = T + 4092 *)
Example C07_ex_auipc_jalr_same_label_window_refuted :
  ex_run [auipc_i "t0" (EOff "T"); lo_i "jalr" "ra" "t0" (EOff "T"); IAlign 2048; ILabel "T"; nop_i] 4096 2 [1; 5] []
  = Some ([151; 18; 0; 0; 231; 128; 194; 127; 19; 0; 0; 0], [4104; 8192], 10236, []).
Proof. vm_compute. reflexivity. Qed.
(* the second half names T4 = T + 4: lands on T = base + 12 *)
Example C07_ex_auipc_jalr_next_label :
  ex_run [auipc_i "t0" (EOff "T"); lo_i "jalr" "ra" "t0" (EOff "T4"); nop_i; ILabel "T"; nop_i; ILabel "T4"] 4096 2 [1; 5] []
  = Some ([151; 2; 0; 0; 231; 128; 194; 0; 19; 0; 0; 0; 19; 0; 0; 0], [4104; 4096], 4108, []).
Proof. vm_compute. reflexivity. Qed.
(* auipc + addi with one label: a0 = base + 8, the address of T minus 4 *)
Example C07_ex_auipc_addi_same_label :
  ex_run [auipc_i "t0" (EOff "T"); lo_i "addi" "a0" "t0" (EOff "T"); nop_i; ILabel "T"; nop_i] 4096 2 [10] []
  = Some ([151; 2; 0; 0; 19; 133; 130; 0; 19; 0; 0; 0; 19; 0; 0; 0], [4104], 4104, []).
Proof. vm_compute. reflexivity. Qed.

(* ==== the lui + addi pair with compression switched on (Proofs/RelocPairsCompressed.v) =========================================
   Each of the two hand-written instructions may be replaced by a 16-bit one (c.lui ; c.addi / c.addi16sp / c.mv ...).  Rule level:
   whatever compress_rule returns for each line (at SOME position / label table), resolved and encoded at WHATEVER final layout,
   the 4, 6 or 8 bytes still leave e mod 2^32 in rd.  Program level: the two-line program through all 16 passes with compress = true
   (both compression passes: compressing an item twice is compressing it once, no rule is about a c.* mnemonic). *)
From BB Require Proofs.RelocPairsCompressed.
Theorem C07_lui_addi_pair_compressed : forall consts l1 l2 rd e p1 ls1 p2 ls2 rs1 rs2 pos labels bs,
  is_position_relative e = false ->
  compress_rule consts l1 (mkU "lui" rd (EHi e)) p1 ls1 = Done rs1 ->
  compress_rule consts l2 (mkI "addi" rd rd (ELo e) false) p2 ls2 = Done rs2 ->
  emit_lines consts labels pos (map (fun x => (l1, x)) rs1 ++ map (fun x => (l2, x)) rs2) = Done bs ->
  exists nrd v len, regnum rd = Some nrd /\ eval_here l1 pos consts labels e = Done v /\
    In len [4; 6; 8] /\ zlen bs = len /\
    forall s, loaded s bs ->
      exists s', run_n 2 s = Some s' /\ pc s' = wrap (pc s + len) /\ only_reg s s' nrd (wrap v).
Proof. exact RelocPairsCompressed.lui_addi_pair_compressed. Qed.
Theorem C07_lui_addi_program_compressed : forall l1 l2 rd e r,
  is_position_relative e = false ->
  assemble_items [(l1, mkU "lui" (AStr rd) (EHi e)); (l2, mkI "addi" (AStr rd) (AStr rd) (ELo e) false)] [] [] true = Done r ->
  exists nrd v len, regnum (AStr rd) = Some nrd /\ eval_here l1 0 [] [] e = Done v /\
    In len [4; 6; 8] /\ zlen (out_bytes r) = len /\
    forall s, loaded s (out_bytes r) ->
      exists s', run_n 2 s = Some s' /\ pc s' = wrap (pc s + len) /\ only_reg s s' nrd (wrap v).
Proof. exact RelocPairsCompressed.lui_addi_program_compressed. Qed.
Definition C07_compressed_pair_theorems := (C07_lui_addi_pair_compressed, C07_lui_addi_program_compressed).
Print Assumptions C07_compressed_pair_theorems.

Definition ex_run_c (its : list item) (base : Z) (n : nat) (ask : list Z) : option (list Z * list Z * Z) :=
  match assemble_items (map (fun p => (ex_line (Z.of_nat (fst p)), snd p)) (combine (seq 1 (List.length its)) its)) [] [] true with
  | Done r => match run_n n (ex_state base (out_bytes r)) with
              | Some s' => Some (out_bytes r, map (getr s') ask, pc s')
              | None => None
              end
  | _ => None
  end.
(* lui a0, %hi(0x1f004) ; addi a0, a0, %lo(0x1f004)  ->  c.lui a0, 0x1f ; c.addi a0, 4 *)
Example C07_ex_c_lui_addi :
  ex_run_c [lui_i "a0" (num 126980); lo_i "addi" "a0" "a0" (num 126980)] 4096 2 [10; 11] = Some ([125; 101; 17; 5], [126980; 1011], 4100).
Proof. vm_compute. reflexivity. Qed.
(* 0x1e800: %hi rounded up to 0x1f (still a c.lui), %lo = -2048 (no c.addi): 6 bytes *)
Example C07_ex_c_lui_addi_6 :
  ex_run_c [lui_i "a0" (num 124928); lo_i "addi" "a0" "a0" (num 124928)] 4096 2 [10] = Some ([125; 101; 19; 5; 5; 128], [124928], 4102).
Proof. vm_compute. reflexivity. Qed.
(* 0x12345800: nothing to compress *)
Example C07_ex_c_lui_addi_8 :
  ex_run_c [lui_i "t0" (num 305420288); lo_i "addi" "t0" "t0" (num 305420288)] 4096 2 [5]
  = Some ([183; 98; 52; 18; 147; 130; 2; 128], [305420288], 4104).
Proof. vm_compute. reflexivity. Qed.

(* ==== the pairs ANYWHERE in ANY program (compress = false; Proofs/RelocPairsAnywhere.v) ===========================================
   For every program  pre ++ [first line; second line] ++ post  (any items in front and behind: constants, labels, pseudo-instructions,
   alignment, data ...), any initial constants / labels: if the pass model assembles it, the two lines come out as two adjacent 4-byte
   chunks (r_chunks r = cpre ++ [first; second] ++ cpost), their offset in the output is chunks_len cpre (the sizes of the chunks in front:
   bytes, zero runs, included files), and their bytes ARE emit_lines of the two lines at that offset under the FINAL constants and labels of
   the run -- with register operands that name a constant replaced by its value (alias_arg; resolve_register_aliases).
   So everything stated above at the level of emit_lines holds for the pair wherever it stands; spelled out for the pairs of C07: *)
From BB Require Proofs.RelocPairsAnywhere.
Import Proofs.RelocPairsAnywhere.
Open Scope Z_scope.

Theorem C07_pair_anywhere : forall pre l1 c1 n1 f1 l2 c2 n2 f2 post c0 l0 r,
  assemble_items (pre ++ [(l1, IInstr c1 n1 f1 false); (l2, IInstr c2 n2 f2 false)] ++ post) c0 l0 false = Done r ->
  exists cpre bs1 bs2 cpost,
    r_chunks r = cpre ++ [(l1, CBytes bs1); (l2, CBytes bs2)] ++ cpost /\ zlen bs1 = 4 /\ zlen bs2 = 4 /\
    emit_lines (r_consts r) (r_labels r) (chunks_len cpre)
               [(l1, IInstr c1 n1 (map (alias_field (r_consts r)) f1) false); (l2, IInstr c2 n2 (map (alias_field (r_consts r)) f2) false)]
    = Done (bs1 ++ bs2).
Proof. exact pair_anywhere. Qed.

Theorem C07_lui_addi_anywhere : forall pre post l1 l2 rd e c0 l0 r,
  is_position_relative e = false ->
  assemble_items (pre ++ [(l1, mkU "lui" rd (EHi e)); (l2, mkI "addi" rd rd (ELo e) false)] ++ post) c0 l0 false = Done r ->
  exists cpre bs1 bs2 cpost nrd v,
    r_chunks r = cpre ++ [(l1, CBytes bs1); (l2, CBytes bs2)] ++ cpost /\
    regnum (alias_arg (r_consts r) rd) = Some nrd /\
    eval_here l1 (chunks_len cpre) (r_consts r) (r_labels r) e = Done v /\
    forall s, loaded s (bs1 ++ bs2) ->
      exists s', run_n 2 s = Some s' /\ pc s' = wrap (pc s + 8) /\ only_reg s s' nrd (wrap v).
Proof. exact lui_addi_anywhere. Qed.

Theorem C07_lui_load_anywhere : forall w pre post l1 l2 t rd e c0 l0 r,
  is_position_relative e = false ->
  assemble_items (pre ++ [(l1, mkU "lui" t (EHi e)); (l2, mkI (lwidth_name w) rd t (ELo e) false)] ++ post) c0 l0 false = Done r ->
  exists cpre bs1 bs2 cpost nt nrd v,
    r_chunks r = cpre ++ [(l1, CBytes bs1); (l2, CBytes bs2)] ++ cpost /\
    regnum (alias_arg (r_consts r) t) = Some nt /\ regnum (alias_arg (r_consts r) rd) = Some nrd /\
    eval_here l1 (chunks_len cpre) (r_consts r) (r_labels r) e = Done v /\
    forall s, loaded s (bs1 ++ bs2) -> nt <> 0 ->
      exists s', run_n 2 s = Some s' /\ pc s' = wrap (pc s + 8) /\
        two_regs s s' nt (wrap (relocate_hi v * 4096)) nrd (load_val w (mem s) (wrap v)).
Proof. exact lui_load_anywhere. Qed.

Theorem C07_lui_store_anywhere : forall w pre post l1 l2 t rs e c0 l0 r,
  is_position_relative e = false ->
  assemble_items (pre ++ [(l1, mkU "lui" t (EHi e)); (l2, mkS (swidth_name w) t rs (ELo e))] ++ post) c0 l0 false = Done r ->
  exists cpre bs1 bs2 cpost nt nrs v,
    r_chunks r = cpre ++ [(l1, CBytes bs1); (l2, CBytes bs2)] ++ cpost /\
    regnum (alias_arg (r_consts r) t) = Some nt /\ regnum (alias_arg (r_consts r) rs) = Some nrs /\
    eval_here l1 (chunks_len cpre) (r_consts r) (r_labels r) e = Done v /\
    forall s, loaded s (bs1 ++ bs2) -> nt <> 0 ->
      exists s', run_n 2 s = Some s' /\ pc s' = wrap (pc s + 8) /\
        getr s' nt = wrap (relocate_hi v * 4096) /\ (forall x, x <> nt -> getr s' x = getr s x) /\
        mem s' = store_le (swidth_bytes w) (mem s) (wrap v) (if nrs =? nt then wrap (relocate_hi v * 4096) else getr s nrs).
Proof. exact lui_store_anywhere. Qed.

(* auipc + jalr by hand: q1, q2 are the final values of the labels (offsets in the output, C03_labels), p the offset of the auipc *)
Theorem C07_auipc_jalr_anywhere : forall pre post l1 l2 t rd L1 L2 c0 l0 r,
  assemble_items (pre ++ [(l1, mkU "auipc" t (EHi (EOff L1))); (l2, mkI "jalr" rd t (ELo (EOff L2)) false)] ++ post) c0 l0 false = Done r ->
  exists cpre bs1 bs2 cpost nt nrd q1 q2,
    r_chunks r = cpre ++ [(l1, CBytes bs1); (l2, CBytes bs2)] ++ cpost /\
    regnum (alias_arg (r_consts r) t) = Some nt /\ regnum (alias_arg (r_consts r) rd) = Some nrd /\
    chain_get (r_consts r) (r_labels r) L1 = Some q1 /\ chain_get (r_consts r) (r_labels r) L2 = Some q2 /\
    forall s, loaded s (bs1 ++ bs2) -> nt <> 0 ->
      let p := chunks_len cpre in
      let target := wrap (pc s + (q1 - p) + (relocate_lo (q2 - (p + 4)) - relocate_lo (q1 - p))) in
      exists s', run_n 2 s = Some s' /\ pc s' = target - target mod 2 /\
        two_regs s s' nt (wrap (pc s + relocate_hi (q1 - p) * 4096)) nrd (wrap (pc s + 8)).
Proof. exact auipc_jalr_anywhere. Qed.
Theorem C07_auipc_jalr_same_label_misses_anywhere : forall pre post l1 l2 t rd L c0 l0 r,
  assemble_items (pre ++ [(l1, mkU "auipc" t (EHi (EOff L))); (l2, mkI "jalr" rd t (ELo (EOff L)) false)] ++ post) c0 l0 false = Done r ->
  exists cpre bs1 bs2 cpost nt nrd q,
    r_chunks r = cpre ++ [(l1, CBytes bs1); (l2, CBytes bs2)] ++ cpost /\
    regnum (alias_arg (r_consts r) t) = Some nt /\ regnum (alias_arg (r_consts r) rd) = Some nrd /\
    chain_get (r_consts r) (r_labels r) L = Some q /\
    forall s, loaded s (bs1 ++ bs2) -> nt <> 0 ->
      let d := q - chunks_len cpre in
      let target := wrap (pc s + d - 4 + (if lo_window d then 4096 else 0)) in
      exists s', run_n 2 s = Some s' /\ pc s' = target - target mod 2 /\ pc s' <> wrap (pc s + d) /\
        two_regs s s' nt (wrap (pc s + relocate_hi d * 4096)) nrd (wrap (pc s + 8)).
Proof. exact auipc_jalr_same_label_anywhere. Qed.

Definition C07_anywhere_theorems := (C07_pair_anywhere, C07_lui_addi_anywhere, C07_lui_load_anywhere, C07_lui_store_anywhere,
  C07_auipc_jalr_anywhere, C07_auipc_jalr_same_label_misses_anywhere).
Print Assumptions C07_anywhere_theorems.

(* non-vacuity: a constant, a register alias (tmp = 5 = t0), a pseudo-instruction and an alignment in front of the pair, a label behind it.
   PORT = 0x40011000 ; tmp = 5 ; li a1, 7 ; align 8 ; lui tmp, %hi(PORT + 2048) ; addi tmp, tmp, %lo(PORT + 2048) ; end:
   The pair stands at offset 8 (4 bytes of li + 4 bytes of padding); loaded there and run it leaves 0x40011800 in x5. *)
Definition ex_port : expr := EArith (ABin OAdd (AName "PORT") (ANum 2048)).
Definition ex_pre : list litem :=
  [(ex_line 1, IConst "PORT" (num 1073811456)); (ex_line 2, IConst "tmp" (num 5));
   (ex_line 3, IPseudo "li" ["a1"; "7"] (POk (num 7))); (ex_line 4, IAlign 8)].
Definition ex_pair : list litem :=
  [(ex_line 5, mkU "lui" (AStr "tmp") (EHi ex_port)); (ex_line 6, mkI "addi" (AStr "tmp") (AStr "tmp") (ELo ex_port) false)].
Definition ex_post : list litem := [(ex_line 7, ILabel "end")].
Example C07_ex_anywhere :
  exists r, assemble_items (ex_pre ++ ex_pair ++ ex_post) [] [] false = Done r /\
    r_chunks r = [(ex_line 3, CBytes [147; 5; 112; 0]); (ex_line 4, CZeros 4)]
                 ++ [(ex_line 5, CBytes [183; 34; 1; 64]); (ex_line 6, CBytes [147; 130; 2; 128])] ++ [] /\
    chunks_len [(ex_line 3, CBytes [147; 5; 112; 0]); (ex_line 4, CZeros 4)] = 8 /\
    r_consts r = [("PORT", 1073811456); ("tmp", 5)] /\ r_labels r = [("end", 16)] /\
    regnum (alias_arg (r_consts r) (AStr "tmp")) = Some 5 /\
    eval_here (ex_line 5) 8 (r_consts r) (r_labels r) ex_port = Done 1073813504 /\
    option_map (fun s' => (getr s' 5, pc s')) (run_n 2 (ex_state 4104 [183; 34; 1; 64; 147; 130; 2; 128])) = Some (1073813504, 4112).
Proof. eexists. repeat split; vm_compute; reflexivity. Qed.

(* non-vacuity at the level of emit_lines: constants, labels and a position that are not those of a toy program *)
Example C07_ex_emit_lines :
  emit_lines [("PORT", 1073811456)] [("buf", 305420288)] 1000
             [(ex_line 1, mkU "lui" (AStr "a0") (EHi (EArith (AName "buf")))); (ex_line 2, mkI "lw" (AStr "a0") (AInt 10) (ELo (EArith (AName "buf"))) false)]
  = Done [55; 101; 52; 18; 3; 37; 5; 128].
Proof. vm_compute. reflexivity. Qed.
