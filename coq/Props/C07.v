(* C07 -- %hi / %lo always split a value so that the consuming pair rebuilds it.
   Statements only; proofs live in Proofs/.  The functions are the GENERATED translations of
   asm.relocate_hi / relocate_lo / sign_extend (Gen/Encoders.v). *)
From Coq Require Import ZArith.
From BB Require Import Base.PyBase Gen.Encoders Proofs.Reloc.
Open Scope Z_scope.

(* for EVERY integer v (the property asks for 2^32 values; negative and > 2^31 spellings included) *)
Theorem C07_hi_fits : forall v : Z, -524288 <= relocate_hi v < 524288.
Proof. exact hi_range. Qed.
Print Assumptions C07_hi_fits.

Theorem C07_lo_fits : forall v : Z, -2048 <= relocate_lo v < 2048.
Proof. exact lo_range. Qed.
Print Assumptions C07_lo_fits.

Theorem C07_rebuild : forall v : Z, (relocate_hi v * 4096 + relocate_lo v) mod 2^32 = v mod 2^32.
Proof. exact hi_lo_rebuild. Qed.
Print Assumptions C07_rebuild.

(* ---- tie of expression evaluation to the source (Gen/Guards.v: the return expressions of Offset / Position / Hi / Lo .eval, translated;
   the position and environment resolve_immediates evaluates with, the second half of an auipc / lui pair at the position of the first) *)
From BB Require Gen.Guards Proofs.Guards.
Theorem C07_eval_from_source : Proofs.Guards.eval_from_source_stmt.
Proof. exact Proofs.Guards.eval_from_source. Qed.
Print Assumptions C07_eval_from_source.
Theorem C07_resolve_immediates_from_source : Proofs.Guards.resolve_immediates_from_source_stmt.
Proof. exact Proofs.Guards.resolve_immediates_from_source. Qed.
Print Assumptions C07_resolve_immediates_from_source.
