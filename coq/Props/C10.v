(* C10 -- data directives emit exactly the documented bytes; misfitting values are refused.
   Statements only; proofs live in Proofs/Data*.v.

   What the statements are about:
   * Passes.resolve_strings / resolve_sequences / transform_shorthand / resolve_packs / resolve_include_bytes /
     resolve_blobs, Passes.struct_pack and Passes.size are the hand-written MODEL of asm.py (Model/Passes.v), tied
     to the real code by the pipeline correspondence (tools/pipeline.py, run by tools/props/C10.py);
     [data_passes] (Proofs/DataInt.v) is their composition in the order of asm.assemble -- the tail of
     Passes.assemble_items.  IShort/IPack carry [FInt v]: the value resolve_immediates has computed.
   * le_of / be_of (byte i of u is (u / 256^i) mod 256), the tables of directives, widths and format codes,
     utf8_encode / utf8_decode are the SPEC (Spec/Data.v, Spec/Utf8.v), written from the documentation. *)
From Coq Require Import ZArith List Bool String Lia.
From BB Require Import Base.PyBase Model.Items Spec.Utf8 Spec.Data.
From BB Require Import Proofs.DataInt Proofs.DataUtf8 Proofs.DataSizes Proofs.DataMain.
From BB Require Import Model.Passes Gen.Sizes Proofs.SizesTable Model.Lexer Model.Parser Proofs.StringLine Proofs.EndToEnd Proofs.LexFront Proofs.IntSpell Proofs.NumTok.
Import ListNotations.
Open Scope Z_scope.

(* db / dh / dw / dd, for EVERY integer v: accepted iff -2^(8w-1) <= v < 2^(8w); then exactly the w bytes of
   v mod 2^(8w), least significant first; otherwise refused (struct.error), never truncated *)
Theorem C10_int : forall name w, In (name, w) shorthand_table -> forall (l : line) (v : Z),
  data_passes [(l, IShort name (FInt v))] =
    if (- 2 ^ (8 * w - 1) <=? v) && (v <? 2 ^ (8 * w))
    then Passes.Done [(l, Passes.CBytes (le_of (Z.to_nat w) (v mod 2 ^ (8 * w))))]
    else Passes.Fail (PAsm l).
Proof. exact shorthand_passes. Qed.
Print Assumptions C10_int.

(* ... and from the SOURCE LINE, through the parser model and ALL 16 passes (not only the data passes): `db|dh|dw|dd <literal>`
   assembles to exactly the documented bytes, or is refused at its line -- for every literal value *)
Theorem C10_int_line : forall name w, In (name, w) shorthand_table -> forall (l : line) (tok : string) (v : Z),
  Parser.parse_immediate [tok] l = Parser.FOk (EArith (ANum v)) ->
  exists it, Parser.parse_item l [name; tok] = Parser.FOk it /\
    Passes.assemble_items [(l, it)] [] [] false =
    if (- 2 ^ (8 * w - 1) <=? v) && (v <? 2 ^ (8 * w))
    then Passes.Done {| Passes.r_chunks := [(l, Passes.CBytes (le_of (Z.to_nat w) (v mod 2 ^ (8 * w))))]; Passes.r_consts := []; Passes.r_labels := [] |}
    else Passes.Fail (PAsm l).
Proof. intros name w H l tok v Hp. exact (EndToEnd.short_line_end_to_end l name w tok v H Hp). Qed.
Print Assumptions C10_int_line.

(* ... with the literal given as TEXT: the decimal or the hexadecimal spelling of any value below 2^64 (text -> number for the
   expression model: Proofs/NumTok.v over Proofs/IntSpell.v) *)
Theorem C10_int_line_text : forall name w, In (name, w) shorthand_table -> forall (l : line) (v : Z), 0 <= v < 2 ^ 64 ->
  forall tok, tok = dec_of_Z v \/ tok = LexFront.hex_of v ->
  exists it, Parser.parse_item l [name; tok] = Parser.FOk it /\
    Passes.assemble_items [(l, it)] [] [] false =
    if (- 2 ^ (8 * w - 1) <=? v) && (v <? 2 ^ (8 * w))
    then Passes.Done {| Passes.r_chunks := [(l, Passes.CBytes (le_of (Z.to_nat w) (v mod 2 ^ (8 * w))))]; Passes.r_consts := []; Passes.r_labels := [] |}
    else Passes.Fail (PAsm l).
Proof.
  intros name w H l v Hv tok [-> | ->]; apply (EndToEnd.short_line_end_to_end l name w _ v H).
  - apply NumTok.dec_immediate. pose proof IntSpell.lt_2_64_dec. lia.
  - apply NumTok.hex_immediate. pose proof IntSpell.lt_2_64_hex. lia.
Qed.
Print Assumptions C10_int_line_text.

(* bytes / shorts / ints / longs / longlongs with any number of elements, each written as any token that
   int(tok, 0) reads as v (hypothesis [parsed]; satisfiable: Example C10_seq_example): accepted iff EVERY
   element fits; then the concatenation, in order, of the w bytes of each element *)
Theorem C10_seq : forall name w, In (name, w) seq_table -> forall (l : line) (toks : list string) (vs : list Z),
  Forall2 (fun t v => py_int_lit t = Some v) toks vs ->
  data_passes [(l, ISeq name toks)] =
    if forallb (fun v => (- 2 ^ (8 * w - 1) <=? v) && (v <? 2 ^ (8 * w))) vs
    then Passes.Done [(l, Passes.CBytes (flat_map (fun v => le_of (Z.to_nat w) (v mod 2 ^ (8 * w))) vs))]
    else Passes.Fail (PAsm l).
Proof. exact seq_passes. Qed.
Print Assumptions C10_seq.

Example C10_seq_example :
  Forall2 (fun t v => py_int_lit t = Some v) ["0x1234"; "-2"; "0b101"]%string [4660; -2; 5] /\
  In ("shorts"%string, 2) seq_table /\
  data_passes [({| lfile := "<string>"; lnum := 1 |}, ISeq "shorts" ["0x1234"; "-2"; "0b101"]%string)] =
    Passes.Done [({| lfile := "<string>"; lnum := 1 |}, Passes.CBytes [52; 18; 254; 255; 5; 0])].
Proof. split; [repeat constructor|split; [cbn; tauto|vm_compute; reflexivity]]. Qed.

(* pack <order><code> v for the 2 x 10 documented formats, for EVERY integer v: accepted iff v is in the signed
   resp. unsigned range of the code; then the w bytes of v mod 2^(8w) in the byte order of the format *)
Theorem C10_pack : forall o little c w signed, In (o, little) order_table -> In (c, (w, signed)) code_table ->
  forall (l : line) (v : Z),
  data_passes [(l, IPack (String.append o c) (FInt v))] =
    if (if signed then (- 2 ^ (8 * w - 1) <=? v) && (v <? 2 ^ (8 * w - 1)) else (0 <=? v) && (v <? 2 ^ (8 * w)))
    then Passes.Done [(l, Passes.CBytes (if little then le_of (Z.to_nat w) (v mod 2 ^ (8 * w))
                                         else be_of (Z.to_nat w) (v mod 2 ^ (8 * w))))]
    else Passes.Fail (PAsm l).
Proof. exact pack_passes. Qed.
Print Assumptions C10_pack.

(* what these byte strings mean: w bytes, each 0..255, whose little- / big-endian reading is the number; and
   v mod 2^(8w) is v itself for v >= 0 and 2^(8w) + v (two's complement) for v < 0 *)
Theorem C10_bytes_meaning : forall (w : nat) (u : Z), 0 <= u < 256 ^ Z.of_nat w ->
  List.length (le_of w u) = w /\ Forall is_byte (le_of w u) /\ le_value (le_of w u) = u /\
  List.length (be_of w u) = w /\ Forall is_byte (be_of w u) /\ be_value (be_of w u) = u.
Proof. exact bytes_meaning. Qed.
Print Assumptions C10_bytes_meaning.

Theorem C10_twos_complement : forall w v, 1 <= w -> - 2 ^ (8 * w - 1) <= v < 2 ^ (8 * w) ->
  0 <= v mod 2 ^ (8 * w) < 256 ^ Z.of_nat (Z.to_nat w) /\
  v mod 2 ^ (8 * w) = if v <? 0 then 2 ^ (8 * w) + v else v.
Proof. exact twos_meaning. Qed.
Print Assumptions C10_twos_complement.

(* string: the Spec encoder IS UTF-8 -- the strict decoder of the standard inverts it on every valid text ... *)
Theorem C10_utf8_roundtrip : forall s : list Z, forallb valid_cp s = true -> utf8_decode (utf8_encode s) = Some s.
Proof. exact utf8_roundtrip. Qed.
Print Assumptions C10_utf8_roundtrip.

(* ... and nothing else decodes: whatever the decoder accepts is the encoding of a valid text (shortest form,
   no surrogates, <= U+10FFFF), so the encoding of a text is unique *)
Theorem C10_utf8_strict : forall (bs s : list Z), utf8_decode bs = Some s ->
  utf8_encode s = bs /\ forallb valid_cp s = true.
Proof. exact utf8_decode_strict. Qed.
Print Assumptions C10_utf8_strict.

Theorem C10_utf8_bytes : forall s : list Z, forallb valid_cp s = true -> Forall (fun b => 0 <= b < 256) (utf8_encode s).
Proof. exact utf8_encode_bytes. Qed.
Print Assumptions C10_utf8_bytes.

Example C10_utf8_example :       (* "e-acute, euro sign, U+1F600" *)
  forallb valid_cp [233; 8364; 128512] = true /\
  utf8_encode [233; 8364; 128512] = [195; 169; 226; 130; 172; 240; 159; 152; 128].
Proof. split; vm_compute; reflexivity. Qed.

(* the model hands the bytes of a String item through unchanged (the escape processing and the UTF-8 step of the
   REAL lexer are compared with Spec.Data.data_string by the falsifier; they are not part of the pass model) *)
Theorem C10_string : forall (l : line) (bs : list Z),
  data_passes [(l, IString bs)] = Passes.Done [(l, Passes.CBytes bs)].
Proof. exact string_passes. Qed.
Print Assumptions C10_string.

(* ... and from the SOURCE LINE: for plain ASCII text without a backslash, the line `string <text>` is lexed (lexer model:
   special lexing, nothing inside the text is split, stripped or read as a comment) to ["string"; text], parsed to a String item,
   and the data passes emit exactly the character codes of the text (CFill: the model's run-length form of a long run) *)
Theorem C10_string_line : forall (l : line) (t : string), forallb StringLine.plain_char (chars t) = true ->
  Lexer.lex_tokens (String.append "string " t) = Some ["string"%string; t] /\
  exists it c, Parser.parse_item l ["string"%string; t] = Parser.FOk it /\ data_passes [(l, it)] = Passes.Done [(l, c)] /\
               StringLine.chunk_bytes c = Some (map zc (chars t)).
Proof. exact StringLine.string_line_bytes. Qed.
Print Assumptions C10_string_line.

(* include_bytes: emitted (by reference: CFile path size) only if the file that is opened at resolve time has
   exactly the size recorded by the reader; no file -> OSError, other size -> AssertionError *)
Theorem C10_include_bytes : forall (l : line) (p : string) (sz : Z) (actual : option Z),
  data_passes [(l, IIncBytes p sz actual)] =
    match actual with
    | None => Passes.Fail (PRaw OtherExn)
    | Some n => if n =? sz then Passes.Done [(l, Passes.CFile p sz)] else Passes.Fail (PRaw AssertionError)
    end.
Proof. exact include_bytes_passes. Qed.
Print Assumptions C10_include_bytes.

(* sizes: for ANY item list on which the data passes succeed, every (non-ghost-label) item sits on the line of
   its chunk and its size() -- from which the label table was laid out earlier -- equals the number of bytes
   of that chunk; and every include_bytes item was opened with the announced size *)
Theorem C10_sizes : forall (its : list litem) (cs : list (line * Passes.chunk)),
  data_passes its = Passes.Done cs ->
  Forall2 (fun (x : litem) (c : line * Passes.chunk) =>
             fst x = fst c /\ Passes.size (snd x) = Some (Ok (data_chunk_len (snd c))))
          (filter (fun x => negb (is_ghost_label (snd x))) its) cs
  /\ Forall (fun x : litem => match snd x with IIncBytes _ sz actual => actual = Some sz | _ => True end) its.
Proof. intros its cs H. split; [exact (data_sizes its cs H)|exact (data_inc_checked its cs H)]. Qed.
Print Assumptions C10_sizes.

(* the data passes are the tail of the whole pipeline: the chunks of EVERY successful run of the pipeline model are
   data_passes of some item list (the one resolve_instructions returned), so C10_sizes speaks about every output *)
Theorem C10_tail : forall its c0 l0 compress r, Passes.assemble_items its c0 l0 compress = Passes.Done r ->
  exists its', data_passes its' = Passes.Done (Passes.r_chunks r).
Proof. exact assemble_tail. Qed.
Print Assumptions C10_tail.

Example C10_tail_example :      (* "db 5 / x: / dw x" goes through the whole pipeline model *)
  exists r, Passes.assemble_items [({| lfile := "f"; lnum := 1 |}, IShort "db" (FExpr (EArith (ANum 5))));
                                   ({| lfile := "f"; lnum := 2 |}, ILabel "x");
                                   ({| lfile := "f"; lnum := 3 |}, IShort "dw" (FExpr (EArith (AName "x"))))]%string
                                  [] [] false = Passes.Done r
            /\ Passes.r_labels r = [("x"%string, 1)].
Proof. eexists. split; vm_compute; reflexivity. Qed.

Example C10_sizes_example :
  exists cs, data_passes [({| lfile := "f"; lnum := 1 |}, IString [104; 105]);
                          ({| lfile := "f"; lnum := 2 |}, ILabel "x");
                          ({| lfile := "f"; lnum := 3 |}, IShort "dw" (FInt (-2)));
                          ({| lfile := "f"; lnum := 4 |}, IPack ">H" (FInt 258));
                          ({| lfile := "f"; lnum := 5 |}, ISeq "longlongs" ["1"; "-1"]%string);
                          ({| lfile := "f"; lnum := 6 |}, IIncBytes "blob.bin" 3 (Some 3))]%string = Passes.Done cs.
Proof. eexists. vm_compute. reflexivity. Qed.

(* The tables the statements above range over are the tables of the SOURCE: the model's size(), width and format tables equal
   what tools/units_sizes.py regenerates on every run from the size() methods and the `sizes` / `formats` dictionaries of asm.py
   (Gen/Sizes.v), and every format of the source's tables occupies exactly the width its size() table announces. *)
Theorem C10_size_from_source : forall it,
  Passes.size it = match assoc_str (SizesTable.class_of it) Gen.Sizes.size_kinds with
                   | Some k => SizesTable.size_by_kind k it | None => None end.
Proof. exact SizesTable.size_table. Qed.
Print Assumptions C10_size_from_source.

Theorem C10_tables_from_source : forall n,
  Passes.seq_width n = assoc_str n Gen.Sizes.seq_sizes /\ Passes.short_width n = assoc_str n Gen.Sizes.short_sizes /\
  Passes.seq_fmt n = assoc_str n Gen.Sizes.seq_formats /\ Passes.short_fmt n = assoc_str n Gen.Sizes.short_formats.
Proof. intro n. repeat split. Qed.
Print Assumptions C10_tables_from_source.

(* the documented directive/width tables of the Spec are the source's tables *)
Theorem C10_spec_tables_from_source :
  shorthand_table = Gen.Sizes.short_sizes /\ seq_table = Gen.Sizes.seq_sizes.
Proof. split; reflexivity. Qed.
Print Assumptions C10_spec_tables_from_source.

Theorem C10_formats_match_sizes :
  (forall n w, In (n, w) Gen.Sizes.seq_sizes -> exists f, assoc_str n Gen.Sizes.seq_formats = Some f /\
      Passes.calcsize (String.append "<" f) = Some w /\ Passes.calcsize (String.append "<" (lower f)) = Some w) /\
  (forall n w, In (n, w) Gen.Sizes.short_sizes -> exists f, assoc_str n Gen.Sizes.short_formats = Some f /\
      Passes.calcsize (String.append "<" f) = Some w /\ Passes.calcsize (String.append "<" (lower f)) = Some w).
Proof.
  split; intros n w H; cbn in H;
    repeat (destruct H as [H|H]; [inversion H; subst; eexists; repeat split; vm_compute; reflexivity|]); contradiction.
Qed.
Print Assumptions C10_formats_match_sizes.

(* ---- the model is a FUNCTION of the program and the options, and so is the code it models: the effect summary regenerated from asm.py
   passes summary_ok (no module-level object written by anything reachable from assemble(), no mutable default, no set iteration order
   consumed; Proofs/Effects.v noninterference) -- a memo table or cache that outlives a call makes a pure model unfaithful *)
From BB Require Gen.Effects Proofs.Effects Proofs.EffectsOk.
Theorem C10_assemble_is_a_function_of_its_inputs : Proofs.Effects.summary_ok Gen.Effects.summary = true.
Proof. exact Proofs.EffectsOk.summary_ok_holds. Qed.
Print Assumptions C10_assemble_is_a_function_of_its_inputs.
