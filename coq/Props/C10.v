(* C10 -- data directives emit exactly the documented bytes; misfitting values are refused.
   Statements only; proofs live in Proofs/Data*.v.

   What the statements are about:
   * Passes.resolve_strings / resolve_sequences / transform_shorthand / resolve_packs / resolve_include_bytes /
     resolve_blobs, Passes.struct_pack and Passes.size are the hand-written MODEL of asm.py (Model/Passes.v), tied
     to the real code by the pipeline correspondence (tools/pipeline.py, run by tools/props/C10.py);
     [data_passes] (Proofs/DataInt.v) is their composition in the order of asm.assemble -- the tail of
     Passes.assemble_items.  IShort/IPack carry [FInt v]: the value resolve_immediates has computed.
   * le_of / be_of (byte i of u is (u / 256^i) mod 256), the tables of directives, widths and format codes,
     utf8_encode / utf8_decode are the SPEC (Spec/Data.v, Spec/Utf8.v), written from the documentation. *)
From Coq Require Import ZArith List Bool String Lia.
From BB Require Import Base.PyBase Model.Items Spec.Utf8 Spec.Data.
From BB Require Import Proofs.DataInt Proofs.DataUtf8 Proofs.DataSizes Proofs.DataMain.
From BB Require Import Model.Passes Gen.Sizes Proofs.SizesTable Model.Lexer Model.Parser Proofs.StringLine Proofs.EndToEnd Proofs.LexFront Proofs.IntSpell Proofs.NumTok.
Import ListNotations.
Open Scope Z_scope.

(* db / dh / dw / dd, for EVERY integer v: accepted iff -2^(8w-1) <= v < 2^(8w); then exactly the w bytes of
   v mod 2^(8w), least significant first; otherwise refused (struct.error), never truncated *)
Theorem C10_int : forall name w, In (name, w) shorthand_table -> forall (l : line) (v : Z),
  data_passes [(l, IShort name (FInt v))] =
    if (- 2 ^ (8 * w - 1) <=? v) && (v <? 2 ^ (8 * w))
    then Passes.Done [(l, Passes.CBytes (le_of (Z.to_nat w) (v mod 2 ^ (8 * w))))]
    else Passes.Fail (PAsm l).
Proof. exact shorthand_passes. Qed.
Print Assumptions C10_int.

(* ... and from the SOURCE LINE, through the parser model and ALL 16 passes (not only the data passes): `db|dh|dw|dd <literal>`
   assembles to exactly the documented bytes, or is refused at its line -- for every literal value *)
Theorem C10_int_line : forall name w, In (name, w) shorthand_table -> forall (l : line) (tok : string) (v : Z),
  Parser.parse_immediate [tok] l = Parser.FOk (EArith (ANum v)) ->
  exists it, Parser.parse_item l [name; tok] = Parser.FOk it /\
    Passes.assemble_items [(l, it)] [] [] false =
    if (- 2 ^ (8 * w - 1) <=? v) && (v <? 2 ^ (8 * w))
    then Passes.Done {| Passes.r_chunks := [(l, Passes.CBytes (le_of (Z.to_nat w) (v mod 2 ^ (8 * w))))]; Passes.r_consts := []; Passes.r_labels := [] |}
    else Passes.Fail (PAsm l).
Proof. intros name w H l tok v Hp. exact (EndToEnd.short_line_end_to_end l name w tok v H Hp). Qed.
Print Assumptions C10_int_line.

(* ... with the literal given as TEXT: the decimal or the hexadecimal spelling of any value below 2^64 (text -> number for the
   expression model: Proofs/NumTok.v over Proofs/IntSpell.v) *)
Theorem C10_int_line_text : forall name w, In (name, w) shorthand_table -> forall (l : line) (v : Z), 0 <= v < 2 ^ 64 ->
  forall tok, tok = dec_of_Z v \/ tok = LexFront.hex_of v ->
  exists it, Parser.parse_item l [name; tok] = Parser.FOk it /\
    Passes.assemble_items [(l, it)] [] [] false =
    if (- 2 ^ (8 * w - 1) <=? v) && (v <? 2 ^ (8 * w))
    then Passes.Done {| Passes.r_chunks := [(l, Passes.CBytes (le_of (Z.to_nat w) (v mod 2 ^ (8 * w))))]; Passes.r_consts := []; Passes.r_labels := [] |}
    else Passes.Fail (PAsm l).
Proof.
  intros name w H l v Hv tok [-> | ->]; apply (EndToEnd.short_line_end_to_end l name w _ v H).
  - apply NumTok.dec_immediate. pose proof IntSpell.lt_2_64_dec. lia.
  - apply NumTok.hex_immediate. pose proof IntSpell.lt_2_64_hex. lia.
Qed.
Print Assumptions C10_int_line_text.

(* bytes / shorts / ints / longs / longlongs with any number of elements, each written as any token that
   int(tok, 0) reads as v (hypothesis [parsed]; satisfiable: Example C10_seq_example): accepted iff EVERY
   element fits; then the concatenation, in order, of the w bytes of each element *)
Theorem C10_seq : forall name w, In (name, w) seq_table -> forall (l : line) (toks : list string) (vs : list Z),
  Forall2 (fun t v => py_int_lit t = Some v) toks vs ->
  data_passes [(l, ISeq name toks)] =
    if forallb (fun v => (- 2 ^ (8 * w - 1) <=? v) && (v <? 2 ^ (8 * w))) vs
    then Passes.Done [(l, Passes.CBytes (flat_map (fun v => le_of (Z.to_nat w) (v mod 2 ^ (8 * w))) vs))]
    else Passes.Fail (PAsm l).
Proof. exact seq_passes. Qed.
Print Assumptions C10_seq.

Example C10_seq_example :
  Forall2 (fun t v => py_int_lit t = Some v) ["0x1234"; "-2"; "0b101"]%string [4660; -2; 5] /\
  In ("shorts"%string, 2) seq_table /\
  data_passes [({| lfile := "<string>"; lnum := 1 |}, ISeq "shorts" ["0x1234"; "-2"; "0b101"]%string)] =
    Passes.Done [({| lfile := "<string>"; lnum := 1 |}, Passes.CBytes [52; 18; 254; 255; 5; 0])].
Proof. split; [repeat constructor|split; [cbn; tauto|vm_compute; reflexivity]]. Qed.

(* pack <order><code> v for the 2 x 10 documented formats, for EVERY integer v: accepted iff v is in the signed
   resp. unsigned range of the code; then the w bytes of v mod 2^(8w) in the byte order of the format *)
Theorem C10_pack : forall o little c w signed, In (o, little) order_table -> In (c, (w, signed)) code_table ->
  forall (l : line) (v : Z),
  data_passes [(l, IPack (String.append o c) (FInt v))] =
    if (if signed then (- 2 ^ (8 * w - 1) <=? v) && (v <? 2 ^ (8 * w - 1)) else (0 <=? v) && (v <? 2 ^ (8 * w)))
    then Passes.Done [(l, Passes.CBytes (if little then le_of (Z.to_nat w) (v mod 2 ^ (8 * w))
                                         else be_of (Z.to_nat w) (v mod 2 ^ (8 * w))))]
    else Passes.Fail (PAsm l).
Proof. exact pack_passes. Qed.
Print Assumptions C10_pack.

(* what these byte strings mean: w bytes, each 0..255, whose little- / big-endian reading is the number; and
   v mod 2^(8w) is v itself for v >= 0 and 2^(8w) + v (two's complement) for v < 0 *)
Theorem C10_bytes_meaning : forall (w : nat) (u : Z), 0 <= u < 256 ^ Z.of_nat w ->
  List.length (le_of w u) = w /\ Forall is_byte (le_of w u) /\ le_value (le_of w u) = u /\
  List.length (be_of w u) = w /\ Forall is_byte (be_of w u) /\ be_value (be_of w u) = u.
Proof. exact bytes_meaning. Qed.
Print Assumptions C10_bytes_meaning.

Theorem C10_twos_complement : forall w v, 1 <= w -> - 2 ^ (8 * w - 1) <= v < 2 ^ (8 * w) ->
  0 <= v mod 2 ^ (8 * w) < 256 ^ Z.of_nat (Z.to_nat w) /\
  v mod 2 ^ (8 * w) = if v <? 0 then 2 ^ (8 * w) + v else v.
Proof. exact twos_meaning. Qed.
Print Assumptions C10_twos_complement.

(* string: the Spec encoder IS UTF-8 -- the strict decoder of the standard inverts it on every valid text ... *)
Theorem C10_utf8_roundtrip : forall s : list Z, forallb valid_cp s = true -> utf8_decode (utf8_encode s) = Some s.
Proof. exact utf8_roundtrip. Qed.
Print Assumptions C10_utf8_roundtrip.

(* ... and nothing else decodes: whatever the decoder accepts is the encoding of a valid text (shortest form,
   no surrogates, <= U+10FFFF), so the encoding of a text is unique *)
Theorem C10_utf8_strict : forall (bs s : list Z), utf8_decode bs = Some s ->
  utf8_encode s = bs /\ forallb valid_cp s = true.
Proof. exact utf8_decode_strict. Qed.
Print Assumptions C10_utf8_strict.

Theorem C10_utf8_bytes : forall s : list Z, forallb valid_cp s = true -> Forall (fun b => 0 <= b < 256) (utf8_encode s).
Proof. exact utf8_encode_bytes. Qed.
Print Assumptions C10_utf8_bytes.

Example C10_utf8_example :       (* "e-acute, euro sign, U+1F600" *)
  forallb valid_cp [233; 8364; 128512] = true /\
  utf8_encode [233; 8364; 128512] = [195; 169; 226; 130; 172; 240; 159; 152; 128].
Proof. split; vm_compute; reflexivity. Qed.

(* the model hands the bytes of a String item through unchanged (the escape processing and the UTF-8 step of the
   REAL lexer are compared with Spec.Data.data_string by the falsifier; they are not part of the pass model) *)
Theorem C10_string : forall (l : line) (bs : list Z),
  data_passes [(l, IString bs)] = Passes.Done [(l, Passes.CBytes bs)].
Proof. exact string_passes. Qed.
Print Assumptions C10_string.

(* ... and from the SOURCE LINE: for plain ASCII text without a backslash, the line `string <text>` is lexed (lexer model:
   special lexing, nothing inside the text is split, stripped or read as a comment) to ["string"; text], parsed to a String item,
   and the data passes emit exactly the character codes of the text (CFill: the model's run-length form of a long run) *)
Theorem C10_string_line : forall (l : line) (t : string), forallb StringLine.plain_char (chars t) = true ->
  Lexer.lex_tokens (String.append "string " t) = Some ["string"%string; t] /\
  exists it c, Parser.parse_item l ["string"%string; t] = Parser.FOk it /\ data_passes [(l, it)] = Passes.Done [(l, c)] /\
               StringLine.chunk_bytes c = Some (map zc (chars t)).
Proof. exact StringLine.string_line_bytes. Qed.
Print Assumptions C10_string_line.

(* include_bytes: emitted (by reference: CFile path size) only if the file that is opened at resolve time has
   exactly the size recorded by the reader; no file -> OSError, other size -> AssertionError *)
Theorem C10_include_bytes : forall (l : line) (p : string) (sz : Z) (actual : option Z),
  data_passes [(l, IIncBytes p sz actual)] =
    match actual with
    | None => Passes.Fail (PRaw OtherExn)
    | Some n => if n =? sz then Passes.Done [(l, Passes.CFile p sz)] else Passes.Fail (PRaw AssertionError)
    end.
Proof. exact include_bytes_passes. Qed.
Print Assumptions C10_include_bytes.

(* sizes: for ANY item list on which the data passes succeed, every (non-ghost-label) item sits on the line of
   its chunk and its size() -- from which the label table was laid out earlier -- equals the number of bytes
   of that chunk; and every include_bytes item was opened with the announced size *)
Theorem C10_sizes : forall (its : list litem) (cs : list (line * Passes.chunk)),
  data_passes its = Passes.Done cs ->
  Forall2 (fun (x : litem) (c : line * Passes.chunk) =>
             fst x = fst c /\ Passes.size (snd x) = Some (Ok (data_chunk_len (snd c))))
          (filter (fun x => negb (is_ghost_label (snd x))) its) cs
  /\ Forall (fun x : litem => match snd x with IIncBytes _ sz actual => actual = Some sz | _ => True end) its.
Proof. intros its cs H. split; [exact (data_sizes its cs H)|exact (data_inc_checked its cs H)]. Qed.
Print Assumptions C10_sizes.

(* the data passes are the tail of the whole pipeline: the chunks of EVERY successful run of the pipeline model are
   data_passes of some item list (the one resolve_instructions returned), so C10_sizes speaks about every output *)
Theorem C10_tail : forall its c0 l0 compress r, Passes.assemble_items its c0 l0 compress = Passes.Done r ->
  exists its', data_passes its' = Passes.Done (Passes.r_chunks r).
Proof. exact assemble_tail. Qed.
Print Assumptions C10_tail.

Example C10_tail_example :      (* "db 5 / x: / dw x" goes through the whole pipeline model *)
  exists r, Passes.assemble_items [({| lfile := "f"; lnum := 1 |}, IShort "db" (FExpr (EArith (ANum 5))));
                                   ({| lfile := "f"; lnum := 2 |}, ILabel "x");
                                   ({| lfile := "f"; lnum := 3 |}, IShort "dw" (FExpr (EArith (AName "x"))))]%string
                                  [] [] false = Passes.Done r
            /\ Passes.r_labels r = [("x"%string, 1)].
Proof. eexists. split; vm_compute; reflexivity. Qed.

Example C10_sizes_example :
  exists cs, data_passes [({| lfile := "f"; lnum := 1 |}, IString [104; 105]);
                          ({| lfile := "f"; lnum := 2 |}, ILabel "x");
                          ({| lfile := "f"; lnum := 3 |}, IShort "dw" (FInt (-2)));
                          ({| lfile := "f"; lnum := 4 |}, IPack ">H" (FInt 258));
                          ({| lfile := "f"; lnum := 5 |}, ISeq "longlongs" ["1"; "-1"]%string);
                          ({| lfile := "f"; lnum := 6 |}, IIncBytes "blob.bin" 3 (Some 3))]%string = Passes.Done cs.
Proof. eexists. vm_compute. reflexivity. Qed.

(* The tables the statements above range over are the tables of the SOURCE: the model's size(), width and format tables equal
   what tools/units_sizes.py regenerates on every run from the size() methods and the `sizes` / `formats` dictionaries of asm.py
   (Gen/Sizes.v), and every format of the source's tables occupies exactly the width its size() table announces. *)
Theorem C10_size_from_source : forall it,
  Passes.size it = match assoc_str (SizesTable.class_of it) Gen.Sizes.size_kinds with
                   | Some k => SizesTable.size_by_kind k it | None => None end.
Proof. exact SizesTable.size_table. Qed.
Print Assumptions C10_size_from_source.

Theorem C10_tables_from_source : forall n,
  Passes.seq_width n = assoc_str n Gen.Sizes.seq_sizes /\ Passes.short_width n = assoc_str n Gen.Sizes.short_sizes /\
  Passes.seq_fmt n = assoc_str n Gen.Sizes.seq_formats /\ Passes.short_fmt n = assoc_str n Gen.Sizes.short_formats.
Proof. intro n. repeat split. Qed.
Print Assumptions C10_tables_from_source.

(* the documented directive/width tables of the Spec are the source's tables *)
Theorem C10_spec_tables_from_source :
  shorthand_table = Gen.Sizes.short_sizes /\ seq_table = Gen.Sizes.seq_sizes.
Proof. split; reflexivity. Qed.
Print Assumptions C10_spec_tables_from_source.

Theorem C10_formats_match_sizes :
  (forall n w, In (n, w) Gen.Sizes.seq_sizes -> exists f, assoc_str n Gen.Sizes.seq_formats = Some f /\
      Passes.calcsize (String.append "<" f) = Some w /\ Passes.calcsize (String.append "<" (lower f)) = Some w) /\
  (forall n w, In (n, w) Gen.Sizes.short_sizes -> exists f, assoc_str n Gen.Sizes.short_formats = Some f /\
      Passes.calcsize (String.append "<" f) = Some w /\ Passes.calcsize (String.append "<" (lower f)) = Some w).
Proof.
  split; intros n w H; cbn in H;
    repeat (destruct H as [H|H]; [inversion H; subst; eexists; repeat split; vm_compute; reflexivity|]); contradiction.
Qed.
Print Assumptions C10_formats_match_sizes.

(* ---- the model is a FUNCTION of the program and the options, and so is the code it models: the effect summary regenerated from asm.py
   passes summary_ok (no module-level object written by anything reachable from assemble(), no mutable default, no set iteration order
   consumed; Proofs/Effects.v noninterference) -- a memo table or cache that outlives a call makes a pure model unfaithful *)
From BB Require Gen.Effects Proofs.Effects Proofs.EffectsOk.
Theorem C10_assemble_is_a_function_of_its_inputs : Proofs.Effects.summary_ok Gen.Effects.summary = true.
Proof. exact Proofs.EffectsOk.summary_ok_holds. Qed.
Print Assumptions C10_assemble_is_a_function_of_its_inputs.

(* ================================================================================================================================
   string with backslash escapes, from the SOURCE LINE through the lexer model, the parser model and ALL 16 passes.
   [Escapes.denote] (Spec/Escapes.v) is what a text DENOTES, written from the documentation of the escape sequences of Python string
   literals (one-character escapes, octal, \x, \u, \U; unknown escapes stay; malformed ones are None), independent of the code.
   [Escapes.simple_text]: the fragment the lexer model covers -- ASCII characters, every backslash followed by one of
   n t r a b f v, backslash, quote, double quote.  For every text of the fragment the line `string <text>` emits exactly the UTF-8
   encoding (Spec/Utf8.v) of the code points the text denotes. *)
From BB Require Import Spec.Escapes Proofs.StringEscapes.
Theorem C10_string_escapes : forall (l : line) (t : string), Escapes.simple_text (map zc (chars t)) = true ->
  exists cps tok it c,
    Escapes.denote (map zc (chars t)) = Some cps /\
    Lexer.lex_tokens (String.append "string " t) = Some ["string"%string; tok] /\
    Parser.parse_item l ["string"%string; tok] = Parser.FOk it /\
    Passes.assemble_items [(l, it)] [] [] false =
      Passes.Done {| Passes.r_chunks := [(l, c)]; Passes.r_consts := []; Passes.r_labels := [] |} /\
    StringLine.chunk_bytes c = Some (utf8_encode cps).
Proof. exact StringEscapes.string_escapes_bytes. Qed.
Print Assumptions C10_string_escapes.

(* non-vacuity, computed: the text  a TAB-escape b backslash-escape n quote-escapes ... ; 97 92 116 98 ... are the characters of the source *)
Example C10_string_escapes_example :
  let t := of_codes [97; 92; 116; 98; 92; 92; 110; 92; 34; 113; 92; 39; 92; 110; 92; 114; 92; 97; 92; 98; 92; 102; 92; 118; 32; 35; 44] in
  Escapes.simple_text (map zc (chars t)) = true /\
  Escapes.denote (map zc (chars t)) = Some [97; 9; 98; 92; 110; 34; 113; 39; 10; 13; 7; 8; 12; 11; 32; 35; 44] /\
  exists it, option_map (fun ts => Parser.parse_item {| lfile := "f"; lnum := 7 |} ts) (Lexer.lex_tokens (String.append "string " t)) = Some (Parser.FOk it) /\
    Passes.assemble_items [({| lfile := "f"; lnum := 7 |}, it)] [] [] false =
      Passes.Done {| Passes.r_chunks := [({| lfile := "f"; lnum := 7 |}, Passes.CBytes [97; 9; 98; 92; 110; 34; 113; 39; 10; 13; 7; 8; 12; 11; 32; 35; 44])];
                     Passes.r_consts := []; Passes.r_labels := [] |}.
Proof.
  intro t. split; [vm_compute; reflexivity|]. split; [vm_compute; reflexivity|].
  exists (IString [97; 9; 98; 92; 110; 34; 113; 39; 10; 13; 7; 8; 12; 11; 32; 35; 44]). split; vm_compute; reflexivity.
Qed.

(* what the lexer model does NOT cover (the real lexer accepts all of these; they are judged by the falsifier only): after a plain
   ASCII prefix, a backslash followed by anything but the ten letters -- \0 and the other octal escapes, \xHH, \uHHHH, \UHHHHHHHH,
   \N{name}, unknown escapes such as \q -- or a non-ASCII character (in the model a line is a list of BYTES; a non-ASCII character
   of the source would be the bytes of its UTF-8 encoding): the model answers None (outside the model: the whole model then yields
   Unsupported), it never produces a wrong token. *)
Theorem C10_string_escapes_not_modelled : forall (pre rest : list Ascii.ascii) (e : Ascii.ascii),
  forallb StringLine.plain_char pre = true ->
  (Lexer.simple_escape e = None -> Lexer.lex_tokens (String.append "string " (unchars (pre ++ Lexer.c_bsl :: e :: rest))) = None) /\
  (128 <= zc e -> Lexer.lex_tokens (String.append "string " (unchars (pre ++ e :: rest))) = None).
Proof.
  intros pre rest e Hp. split; intro H; apply StringEscapes.lex_string_unsupported; rewrite StringEscapes.chars_unchars.
  - apply StringEscapes.unicode_escape_outside; assumption.
  - apply StringEscapes.unicode_escape_nonascii; assumption.
Qed.
Print Assumptions C10_string_escapes_not_modelled.
Example C10_string_escapes_not_modelled_examples :      (* \0   \x41   €   \101   \q   e-acute as UTF-8 bytes; the Spec reads them *)
  map (fun cs => Lexer.lex_tokens (String.append "string " (of_codes cs)))
      [[92; 48]; [92; 120; 52; 49]; [92; 117; 50; 48; 97; 99]; [92; 49; 48; 49]; [92; 113]; [195; 169]] = [None; None; None; None; None; None] /\
  map Escapes.denote [[92; 48]; [92; 120; 52; 49]; [92; 117; 50; 48; 97; 99]; [92; 49; 48; 49]; [92; 113]; [233]] =
    [Some [0]; Some [65]; Some [8364]; Some [65]; Some [92; 113]; Some [233]].
Proof. vm_compute. split; reflexivity. Qed.

(* ================================================================================================================================
   include_bytes on the WHOLE model.  Proofs/Whole.v assemble_model is not defined on a program with an include_bytes line (the
   parser model has no such branch, the reader model's lines do not carry the path the search found).  Proofs/IncBytesWhole.v
   extends it WITHOUT changing the Model files: [read_lines_x] = the reader model with every line tagged by Line.include_path,
   [assemble_model_x] = reader_x -> lexer model -> parser model + the include_bytes branch of asm.parse_item -> the 16 passes; the
   file opened by resolve_include_bytes is looked up in the same file system.  The extension changes nothing where the whole model
   was defined: *)
From BB Require Import Model.Reader Proofs.Whole Proofs.IncBytesPasses Proofs.IncBytesWhole.
Theorem C10_include_bytes_model_extension : forall fuel fs cwd incs top consts labels compress,
  IncBytesWhole.erase (read_lines_x fuel fs cwd incs top) = read_lines fuel fs cwd incs top /\
  (Whole.assemble_model fuel fs cwd incs top consts labels compress <> Whole.WUnsup ->
   assemble_model_x fuel fs cwd incs top consts labels compress = Whole.assemble_model fuel fs cwd incs top consts labels compress).
Proof. intros. split; [apply read_lines_x_erase|apply assemble_model_x_conservative]. Qed.
Print Assumptions C10_include_bytes_model_extension.

(* at the level of the passes: an include_bytes item standing ANYWHERE in ANY program goes through all 16 passes untouched and comes out
   as the chunk CFile path size, between the chunks of the items before it and those of the items after it (cgrouped: in order, each
   on the line of its item, by-reference chunks only from include_bytes items); and the run only succeeds if the file opened at
   resolve time has exactly the announced size *)
Theorem C10_include_bytes_item : forall A l p sz ac B consts0 labels0 compress r,
  Passes.assemble_items (A ++ (l, IIncBytes p sz ac) :: B) consts0 labels0 compress = Passes.Done r ->
  ac = Some sz /\
  exists cA cB, Passes.r_chunks r = (cA ++ (l, Passes.CFile p sz) :: cB)%list /\ cgrouped A cA /\ cgrouped B cB.
Proof. exact inc_item_chunk. Qed.
Print Assumptions C10_include_bytes_item.

(* THE THEOREM.  The source is a file [top]; one of its lines is `include_bytes <name>` (name: ordinary token characters -- no blank,
   comma, parenthesis, quote or # -- and not "="); the include search -- the -i directories in order, then the directory of the file
   (C14_lookup) -- finds P.  Then every successful run emits, at that line, exactly the chunk CFile P (size of P): the contents of the
   file the search found, whatever the working directory holds.  (Any program around it, any flags.) *)
Theorem C10_include_bytes_whole : forall fuel fs cwd incs top src pre rel post P consts labels compress r,
  fs_exists fs cwd top = true -> fs_read fs cwd top = Some src ->
  splitlines src = (pre ++ String.append "include_bytes " rel :: post)%list -> plain_name rel = true ->
  lookup fs cwd rel (incs ++ [base_dir cwd top]) = Some P ->
  assemble_model_x fuel fs cwd incs top consts labels compress = Whole.WDone r ->
  exists data cA cB,
    fs_read fs cwd P = Some data /\
    Passes.r_chunks r = (cA ++ ({| lfile := top; lnum := 1 + Z.of_nat (List.length pre) |},
                                Passes.CFile P (Z.of_nat (String.length data))) :: cB)%list.
Proof. exact include_bytes_file_canonical. Qed.
Print Assumptions C10_include_bytes_whole.

(* the general form: ANY line of the reading (of the top file or of a file included to any depth) that the reader tagged with a found
   path P and that lexes to three tokens  include_bytes <x> <y>  (any spelling of the keyword, any separators) *)
Theorem C10_include_bytes_whole_general : forall fuel fs cwd incs top consts labels compress A xl B P r,
  read_lines_x fuel fs cwd incs top = ROk (A ++ xl :: B)%list ->
  x_inc xl = Some P -> is_inc_line (l_contents (x_line xl)) = true ->
  assemble_model_x fuel fs cwd incs top consts labels compress = Whole.WDone r ->
  exists data cA cB,
    fs_read fs cwd P = Some data /\
    Passes.r_chunks r = (cA ++ (xl_line xl, Passes.CFile P (Z.of_nat (String.length data))) :: cB)%list /\
    Forall (fun c => In (fst c) (map xl_line A)) cA /\ Forall (fun c => In (fst c) (map xl_line B)) cB.
Proof. exact include_bytes_whole. Qed.
Print Assumptions C10_include_bytes_whole_general.
(* what a tag means: the line is `raw <size>` for an include_bytes line raw whose file name the search found as P -- in the -i
   directories in order, then in the directory of the file the line stands in (the working directory for a source string) *)
Theorem C10_include_bytes_tag : forall fuel fs cwd incs top out,
  read_lines_x fuel fs cwd incs top = ROk out -> Forall (tag_ok fs cwd incs) out.
Proof. exact read_lines_x_tags. Qed.
Print Assumptions C10_include_bytes_tag.
(* the canonical spelling is one such line *)
Theorem C10_include_bytes_canonical_line : forall rel n, plain_name rel = true -> 0 <= n ->
  Lexer.lex_tokens ("include_bytes " ++ rel ++ " " ++ dec_of_Z n) = Some ["include_bytes"; rel; dec_of_Z n]%string /\
  is_inc_line ("include_bytes " ++ rel ++ " " ++ dec_of_Z n) = true.
Proof. exact canonical_inc_line. Qed.
Print Assumptions C10_include_bytes_canonical_line.

(* a file the search does not find is an AssemblerError at the include_bytes line -- already in the whole model of Proofs/Whole.v --
   whenever the lines in front of it can be read (no earlier reader error); source given as a file ... *)
Theorem C10_include_bytes_missing : forall fuel fs cwd incs top src pre raw post rel before consts labels compress,
  fs_exists fs cwd top = true -> fs_read fs cwd top = Some src ->
  splitlines src = (pre ++ raw :: post)%list ->
  read_numbered (read_file fuel fs cwd incs) fs cwd top (incs ++ [base_dir cwd top]) (number 1 pre) = ROk before ->
  is_blank raw = false -> is_include_bytes raw = true -> bytes_target raw = Some rel ->
  lookup fs cwd rel (incs ++ [base_dir cwd top]) = None ->
  Whole.assemble_model fuel fs cwd incs top consts labels compress =
    Whole.WFail (PAsm {| lfile := top; lnum := 1 + Z.of_nat (List.length pre) |}) /\
  assemble_model_x fuel fs cwd incs top consts labels compress =
    Whole.WFail (PAsm {| lfile := top; lnum := 1 + Z.of_nat (List.length pre) |}).
Proof. exact include_bytes_missing_file. Qed.
Print Assumptions C10_include_bytes_missing.
(* ... or as a string *)
Theorem C10_include_bytes_missing_string : forall fuel fs cwd incs top pre raw post rel before consts labels compress,
  fs_exists fs cwd top = false ->
  splitlines top = (pre ++ raw :: post)%list ->
  read_numbered (read_file fuel fs cwd incs) fs cwd "<string>" (incs ++ [cwd]) (number 1 pre) = ROk before ->
  is_blank raw = false -> is_include_bytes raw = true -> bytes_target raw = Some rel ->
  lookup fs cwd rel (incs ++ [cwd]) = None ->
  Whole.assemble_model fuel fs cwd incs top consts labels compress =
    Whole.WFail (PAsm {| lfile := "<string>"; lnum := 1 + Z.of_nat (List.length pre) |}) /\
  assemble_model_x fuel fs cwd incs top consts labels compress =
    Whole.WFail (PAsm {| lfile := "<string>"; lnum := 1 + Z.of_nat (List.length pre) |}).
Proof. exact include_bytes_missing_string. Qed.
Print Assumptions C10_include_bytes_missing_string.

(* non-vacuity, computed.  /p/src/main.asm = "db 1 / include_bytes blob.bin / db 2"; blob.bin exists in the -i directory /p/inc only
   (5 bytes); the working directory /q holds a 2-byte decoy of the same name.  All hypotheses of C10_include_bytes_whole hold, the run
   succeeds with the found file between the two bytes; the old whole model is undefined here; without -i the line is an AssemblerError
   at line 2 (hypotheses of C10_include_bytes_missing). *)
Example C10_include_bytes_whole_example :
  fs_exists ib_fs "/q" "/p/src/main.asm" = true /\
  (exists src, fs_read ib_fs "/q" "/p/src/main.asm" = Some src /\
               splitlines src = (["db 1"] ++ String.append "include_bytes " "blob.bin" :: ["db 2"])%list%string) /\
  plain_name "blob.bin" = true /\
  lookup ib_fs "/q" "blob.bin" (["/p/inc"] ++ [base_dir "/q" "/p/src/main.asm"]) = Some "/p/inc/blob.bin"%string /\
  fs_read ib_fs "/q" "/p/inc/blob.bin" = Some "DATA!"%string /\
  assemble_model_x 3 ib_fs "/q" ["/p/inc"%string] "/p/src/main.asm" [] [] false =
    Whole.WDone {| Passes.r_chunks := [(IncBytesWhole.L "/p/src/main.asm" 1, Passes.CBytes [1]);
                                       (IncBytesWhole.L "/p/src/main.asm" 2, Passes.CFile "/p/inc/blob.bin" 5);
                                       (IncBytesWhole.L "/p/src/main.asm" 3, Passes.CBytes [2])];
                   Passes.r_consts := []; Passes.r_labels := [] |} /\
  Whole.assemble_model 3 ib_fs "/q" ["/p/inc"%string] "/p/src/main.asm" [] [] false = Whole.WUnsup /\
  (read_numbered (read_file 3 ib_fs "/q" []) ib_fs "/q" "/p/src/main.asm" ([] ++ [base_dir "/q" "/p/src/main.asm"]) (number 1 ["db 1"%string]) =
     ROk [{| l_file := "/p/src/main.asm"; l_num := 1; l_contents := "db 1" |}] /\
   is_blank "include_bytes blob.bin" = false /\ is_include_bytes "include_bytes blob.bin" = true /\
   bytes_target "include_bytes blob.bin" = Some "blob.bin"%string /\
   lookup ib_fs "/q" "blob.bin" ([] ++ [base_dir "/q" "/p/src/main.asm"]) = None) /\
  assemble_model_x 3 ib_fs "/q" [] "/p/src/main.asm" [] [] false = Whole.WFail (PAsm (IncBytesWhole.L "/p/src/main.asm" 2)).
Proof. vm_compute. repeat split; try reflexivity. eexists. split; reflexivity. Qed.

(* ================================================================================================================================
   string: EVERY documented escape and non-ASCII text.  Outside the lexer model (previous section), so this part rests on an
   EXTENSION written in Proofs/StringUnicode.v; it is tied to the code by the C10 check itself (tools/data_engine.py
   check_decode_escapes: decode_escapes_x evaluated by coqc against the real asm.decode_escapes on generated texts, every run).
   The code (asm.decode_escapes, as repaired for D27) doubles an active backslash in front of a character above U+00FF and then computes
       text.encode('latin-1','backslashreplace').decode('unicode_escape')
   on the Python str; [decode_escapes_x s] = denote (blr (dbl s)) models the three stages on code points ([dbl]: the pre-pass; [blr]:
   characters above U+00FF are spelled as \uXXXX / \UXXXXXXXX escapes; the codec processes exactly the escapes of Spec/Escapes.v on
   Latin-1 characters); [lex_string_x] = UTF-8 decoding of the source bytes, decode_escapes_x, token = UTF-8 bytes of the result.
   It agrees with the lexer model wherever that is defined: *)
From BB Require Import Proofs.StringUnicode.
Theorem C10_string_extension_conservative : forall t tok,
  Lexer.lex_tokens (String.append "string " t) = Some ["string"%string; tok] -> lex_string_x t = Some tok.
Proof. exact lex_string_x_conservative. Qed.
Print Assumptions C10_string_extension_conservative.

(* the detour through Latin-1 is invisible: for EVERY text of code points up to U+10FFFF (surrogates included: they only matter to the
   UTF-8 step afterwards) the code's expression yields exactly what the text denotes -- and fails exactly when the text is malformed
   (or holds \N{name}, which Spec/Escapes.v leaves out) *)
Theorem C10_string_detour_transparent : forall s : list Z,
  Forall (fun c => c <= 1114111) s -> decode_escapes_x s = Escapes.denote s.
Proof. exact decode_x_transparent. Qed.
Print Assumptions C10_string_detour_transparent.
(* the two steps: without the pre-pass the detour is invisible only when no ACTIVE backslash stands directly in front of a character above
   U+00FF ([x_ok]); the pre-pass establishes exactly that and does not change what the text denotes *)
Theorem C10_string_detour_steps : forall s : list Z,
  (x_ok s = true -> Forall (fun c => c <= 1114111) s -> Escapes.denote (blr s) = Escapes.denote s) /\
  x_ok (dbl s) = true /\ Escapes.denote (dbl s) = Escapes.denote s.
Proof. intro s. split; [apply blr_transparent|]. split; [apply dbl_x_ok|apply dbl_transparent]. Qed.
Print Assumptions C10_string_detour_steps.
(* the FORMER code (defect D27, found by the proof obligation above): `string \E` with E = EURO SIGN (or any character above U+00FF).  The text
   denotes the two characters backslash, E (an unrecognised escape stays as it is: so does a backslash in front of e-acute), i.e. the bytes
   5c e2 82 ac; without the pre-pass the backslash of the replacement escape was swallowed by the one in front of it and the six ASCII
   characters backslash u 2 0 a c came out (replay findings/D27-C10-backslash-before-non-latin1.json).  With the pre-pass: the two characters. *)
Theorem C10_string_detour_former_defect :
  Escapes.denote [92; 8364] = Some [92; 8364] /\ Escapes.denote (blr [92; 8364]) = Some [92; 117; 50; 48; 97; 99] /\
  dbl [92; 8364] = [92; 92; 8364] /\ decode_escapes_x [92; 8364] = Some [92; 8364].
Proof. exact former_defect. Qed.
Print Assumptions C10_string_detour_former_defect.

(* THE THEOREM: s = the text of the directive (valid code points), cps = what it denotes (valid code points: no lone surrogate from
   \uD800..\uDFFF -- the real code raises a raw UnicodeEncodeError there).  The source line holds the UTF-8 bytes of s; the extended lexer
   yields the token with the UTF-8 bytes of cps; the PARSER MODEL and ALL 16 PASSES emit exactly utf8_encode cps. *)
Theorem C10_string_escapes_unicode : forall (l : Items.line) (s cps : list Z),
  forallb valid_cp s = true -> Escapes.denote s = Some cps -> forallb valid_cp cps = true ->
  decode_escapes_x s = Some cps /\
  lex_string_x (bytes_string (utf8_encode s)) = Some (bytes_string (utf8_encode cps)) /\
  exists it c,
    Parser.parse_item l ["string"%string; bytes_string (utf8_encode cps)] = Parser.FOk it /\
    Passes.assemble_items [(l, it)] [] [] false =
      Passes.Done {| Passes.r_chunks := [(l, c)]; Passes.r_consts := []; Passes.r_labels := [] |} /\
    StringLine.chunk_bytes c = Some (utf8_encode cps).
Proof. exact string_unicode_bytes. Qed.
Print Assumptions C10_string_escapes_unicode.

(* non-vacuity, computed: e-acute \x41 \u20ac EURO \0 \U0001F600 U+1F600 \q backslash-EURO *)
Example C10_string_escapes_unicode_example :
  let s := [233; 92; 120; 52; 49; 92; 117; 50; 48; 97; 99; 8364; 92; 48; 92; 85; 48; 48; 48; 49; 70; 54; 48; 48; 128512; 92; 113; 92; 8364] in
  let cps := [233; 65; 8364; 8364; 0; 128512; 128512; 92; 113; 92; 8364] in
  forallb valid_cp s = true /\ Escapes.denote s = Some cps /\ forallb valid_cp cps = true /\
  utf8_encode cps = [195; 169; 65; 226; 130; 172; 226; 130; 172; 0; 240; 159; 152; 128; 240; 159; 152; 128; 92; 113; 92; 226; 130; 172] /\
  lex_string_x (bytes_string (utf8_encode s)) = Some (bytes_string (utf8_encode cps)).
Proof. vm_compute. repeat split; reflexivity. Qed.

(* the proviso [plain_name] on the file name in C10_include_bytes_whole is needed: the reader appends the size to the raw line and the
   LEXER takes that line apart again.  A file `a,b` is found by the search and yet the line is an AssemblerError (four tokens); a file
   named `=` turns the line into the constant definition `include_bytes = <size>` and nothing is embedded.  Computed on the extended
   whole model; the real assembler does the same. *)
Theorem C10_include_bytes_odd_names :
  lookup nm_fs "/" "a,b" [base_dir "/" "/p/comma.asm"] = Some "/p/a,b"%string /\
  assemble_model_x 3 nm_fs "/" [] "/p/comma.asm" [] [] false = Whole.WFail (PAsm (IncBytesWhole.L "/p/comma.asm" 1)) /\
  lookup nm_fs "/" "=" [base_dir "/" "/p/eq.asm"] = Some "/p/="%string /\
  assemble_model_x 3 nm_fs "/" [] "/p/eq.asm" [] [] false =
    Whole.WDone {| Passes.r_chunks := [(IncBytesWhole.L "/p/eq.asm" 2, Passes.CBytes [5])];
                   Passes.r_consts := [("include_bytes"%string, 5)]; Passes.r_labels := [] |}.
Proof. exact odd_names. Qed.
Print Assumptions C10_include_bytes_odd_names.
