(* C13 -- documented spelling variants of the same program assemble identically.
   Statements only; proofs live in Proofs/LexSep.v and Proofs/LexFront.v.
   lex_tokens_l / render are the hand-written lexer model (Model/Lexer.v, tied to asm.lex_tokens by the front-end
   correspondence); lookup_register / REGISTERS are GENERATED from asm.py (Gen/Encoders.v); py_int_lit is the model of
   int(s, 0) (Base/PyBase.v); regnum is the documented reading of a register operand (Spec/Operands.v). *)
From Coq Require Import ZArith List String Ascii.
From BB Require Import Base.PyBase Gen.Encoders Spec.RV32 Spec.Operands Model.Items Model.Lexer Model.Parser Model.Passes Proofs.LexSep Proofs.LexFront Proofs.ParseForms Proofs.Program Proofs.Relabel Proofs.IntSpell.
Import ListNotations.
Open Scope Z_scope.

(* separators, indentation, padding around parentheses, trailing blanks and trailing # comments:
   for EVERY token list (ordinary tokens and parentheses; first token not the keyword `string` / `error`) and ANY two
   styles, the lexer returns the same tokens -- namely the tokens themselves -- so the parser sees the same input *)
Theorem C13_line : forall (ts : list (list ascii)) (sty1 sty2 : style),
  Forall tok_ok ts -> not_special ts -> style_ok sty1 ts -> style_ok sty2 ts ->
  lex_tokens_l (render sty1 ts) = lex_tokens_l (render sty2 ts) /\ lex_tokens_l (render sty1 ts) = LToks ts.
Proof. intros. split; [apply lex_two_styles | apply lex_render]; assumption. Qed.
Print Assumptions C13_line.

(* the hypotheses are satisfiable:  "lw x8 4 ( x9 )"  written  "\tlw x8,,4(x9)  # c"  and  "lw x8 4 ( x9 )" *)
Example C13_line_example :
  let ts := [chars "lw"; chars "x8"; chars "4"; chars "("; chars "x9"; chars ")"] in
  let sty1 := {| indent := [ascii_of_N 9]; gaps := [chars " "; chars ",,"; []; []; []; chars "  "]; comment := Some (chars " c") |} in
  let sty2 := {| indent := []; gaps := [chars " "; chars " "; chars " "; chars " "; chars " "; []]; comment := None |} in
  unchars (render sty1 ts) = String (ascii_of_N 9) "lw x8,,4(x9)  # c" /\ unchars (render sty2 ts) = "lw x8 4 ( x9 )"%string
  /\ lex_tokens_l (render sty1 ts) = LToks ts /\ lex_tokens_l (render sty2 ts) = LToks ts.
Proof. vm_compute. auto. Qed.

(* `string` / `error` lines (whose text runs to the end of the line): indentation is free *)
Theorem C13_special_indent : forall ind rest : list ascii, Forall (fun c => is_ws c = true) ind ->
  lex_tokens_l (ind ++ kw_string ++ rest) = lex_tokens_l (kw_string ++ rest) /\
  lex_tokens_l (ind ++ kw_error ++ rest) = lex_tokens_l (kw_error ++ rest).
Proof. exact string_indent. Qed.
Print Assumptions C13_special_indent.

(* a register written as number, xN name or ABI alias: the generated lookup_register depends only on the register
   the operand names ... *)
Theorem C13_register_spelling : forall a b : arg,
  regnum a = regnum b -> lookup_register a false = lookup_register b false.
Proof. exact lookup_same_regnum. Qed.
Print Assumptions C13_register_spelling.
(* ... and every documented spelling of register n reads as n *)
Theorem C13_register_table : forall (s : string) (n : Z), In (s, n) (xnames ++ abi_names) ->
  lookup_register (AStr s) false = Ok n /\ lookup_register (AStr (dec_of_Z n)) false = Ok n /\
  lookup_register (AInt n) false = Ok n /\ lookup_register (AStr (String "x" (dec_of_Z n))) false = Ok n.
Proof. exact reg_spellings. Qed.
Print Assumptions C13_register_table.

(* integers in decimal, hex or binary (kernel sweep; the bound is part of the statement) *)
Theorem C13_int_spelling : forall v : Z, 0 <= v < 65536 ->
  py_int_lit (dec_of_Z v) = Some v /\ py_int_lit (hex_of v) = Some v /\ py_int_lit (bin_of v) = Some v /\
  py_int_lit (dec_of_Z (- v)) = Some (- v).
Proof. exact int_spellings. Qed.
Print Assumptions C13_int_spelling.
(* ... and by induction on the digit loops (no sweep) for every value each renderer's fuel allows: decimal (also negated) below
   10^80, hex below 16^20, binary below 2^70 -- in particular for every 64-bit value *)
Theorem C13_int_spelling_wide : forall v : Z, 0 <= v < 2 ^ 64 ->
  py_int_lit (dec_of_Z v) = Some v /\ py_int_lit (hex_of v) = Some v /\ py_int_lit (bin_of v) = Some v /\
  py_int_lit (dec_of_Z (- v)) = Some (- v).
Proof. exact IntSpell.int_spellings_wide. Qed.
Print Assumptions C13_int_spelling_wide.

(* `imm(reg)` versus `reg, imm` for the base + offset instructions: both token lists parse to the SAME item (parser model),
   for every register and offset token; the mnemonics covered are exactly the GENERATED BASE_OFFSET_INSTRUCTIONS table.
   (rd <> "=": `lw = ...` would be a constant definition; off <> "(": a single-token offset, the documented freedom.) *)
Theorem C13_imm_reg_loads : forall l name rd off rs1,
  In name load_names -> String.eqb rd "=" = false -> String.eqb off "(" = false ->
  parse_item l [name; rd; off; "("; rs1; ")"]%string = parse_item l [name; rd; rs1; off].
Proof. exact load_forms. Qed.
Print Assumptions C13_imm_reg_loads.
Theorem C13_imm_reg_stores : forall l name rs2 off rs1,
  In name store_names -> String.eqb rs2 "=" = false -> String.eqb rs1 "=" = false -> String.eqb off "(" = false ->
  parse_item l [name; rs2; off; "("; rs1; ")"]%string = parse_item l [name; rs1; rs2; off].
Proof. exact store_forms. Qed.
Print Assumptions C13_imm_reg_stores.
Theorem C13_imm_reg_table :
  forallb (fun n => mem_str n (load_names ++ store_names)) BASE_OFFSET_INSTRUCTIONS_final = true /\
  forallb (fun n => mem_str n BASE_OFFSET_INSTRUCTIONS_final) (load_names ++ store_names) = true.
Proof. exact forms_cover_table. Qed.
Print Assumptions C13_imm_reg_table.

(* program level: the model of asm.assemble on the lines of one file (lex + parse every line, run the 16 passes).  If two
   versions of a program agree line by line on the tokens the lexer produces (C13_line: any separator style, indentation,
   trailing comment), they give the SAME result -- bytes, label table, constants, or the same error -- in both modes.
   (Extra blank / comment-only lines shift physical line numbers, which only the error locations carry; their
   invariance is decided by the falsifier.) *)
Theorem C13_program : forall p1 p2 consts labels compress,
  Forall2 same_tokens p1 p2 -> assemble_text p1 consts labels compress = assemble_text p2 consts labels compress.
Proof. exact program_rewrite. Qed.
Print Assumptions C13_program.
Theorem C13_program_styles : forall ts sty1 sty2,
  Forall tok_ok ts -> not_special ts -> style_ok sty1 ts -> style_ok sty2 ts ->
  lex_tokens (unchars (render sty1 ts)) = lex_tokens (unchars (render sty2 ts)).
Proof. exact lex_tokens_styles. Qed.
Print Assumptions C13_program_styles.

(* extra blank lines, whole-line comments (and moving text into an included file): the passes use the line attached to an
   item ONLY to report errors.  Renaming the lines of the items by ANY function f (other physical numbers, other file names)
   gives the same chunks payload, label table and constants; a failing run fails alike, naming the renamed line. *)
Theorem C13_line_numbers_irrelevant : forall f its consts labels compress r,
  assemble_items its consts labels compress = Done r ->
  exists r', assemble_items (map (flit f) its) consts labels compress = Done r' /\
             map snd (r_chunks r') = map snd (r_chunks r) /\ r_labels r' = r_labels r /\ r_consts r' = r_consts r.
Proof. exact relabel_success. Qed.
Print Assumptions C13_line_numbers_irrelevant.
Theorem C13_line_numbers_errors : forall f its consts labels compress e,
  assemble_items its consts labels compress = Fail e ->
  assemble_items (map (flit f) its) consts labels compress = Fail (fperr f e).
Proof. exact relabel_failure. Qed.
Print Assumptions C13_line_numbers_errors.

(* the whole model of asm.assemble (reader + lexer + parser + passes, Proofs/Whole.v): the result -- bytes of every chunk, constants,
   labels, or the kind of failure -- depends on the TOKENS of the non-blank lines that were read and on nothing else: not on the
   separator style, indentation or comments of a line, not on blank or comment-free lines in between, not on file names, physical
   line numbers or the way the text is distributed over included files *)
From BB Require Model.Reader Proofs.Whole Proofs.ParseRelabel Proofs.WholeSplice.
Theorem C13_whole_tokens :
  forall fuel1 fs1 cwd1 incs1 top1 fuel2 fs2 cwd2 incs2 top2 consts labels compress la lb,
    Reader.read_lines fuel1 fs1 cwd1 incs1 top1 = Reader.ROk la -> Reader.read_lines fuel2 fs2 cwd2 incs2 top2 = Reader.ROk lb ->
    Forall2 (fun a b => lex_tokens (Reader.l_contents a) = lex_tokens (Reader.l_contents b)) la lb ->
    ParseRelabel.wshape (Whole.assemble_model fuel1 fs1 cwd1 incs1 top1 consts labels compress) =
    ParseRelabel.wshape (Whole.assemble_model fuel2 fs2 cwd2 incs2 top2 consts labels compress).
Proof. exact WholeSplice.whole_same_tokens. Qed.
Print Assumptions C13_whole_tokens.
(* ... and lines without any token (comment-only lines) may be added or removed anywhere *)
Theorem C13_whole_tokens_modulo_comment_lines :
  forall fuel1 fs1 cwd1 incs1 top1 fuel2 fs2 cwd2 incs2 top2 consts labels compress la lb,
    Reader.read_lines fuel1 fs1 cwd1 incs1 top1 = Reader.ROk la -> Reader.read_lines fuel2 fs2 cwd2 incs2 top2 = Reader.ROk lb ->
    Forall2 (fun a b => lex_tokens (Reader.l_contents a) = lex_tokens (Reader.l_contents b))
            (filter (fun a => negb (WholeSplice.no_tokens (Reader.l_contents a))) la)
            (filter (fun b => negb (WholeSplice.no_tokens (Reader.l_contents b))) lb) ->
    ParseRelabel.wshape (Whole.assemble_model fuel1 fs1 cwd1 incs1 top1 consts labels compress) =
    ParseRelabel.wshape (Whole.assemble_model fuel2 fs2 cwd2 incs2 top2 consts labels compress).
Proof. exact WholeSplice.whole_same_tokens_modulo_comment_lines. Qed.
Print Assumptions C13_whole_tokens_modulo_comment_lines.
(* the parser's part of "line numbers are irrelevant" (the passes' part: C13_line_numbers_irrelevant / _errors) *)
Theorem C13_parser_line_numbers_irrelevant : forall f l tokens,
  parse_item (f l) tokens = ParseRelabel.ffres f (fitem f) (parse_item l tokens).
Proof. exact ParseRelabel.parse_item_relabel. Qed.
Print Assumptions C13_parser_line_numbers_irrelevant.

(* ---- the model is a FUNCTION of the program and the options, and so is the code it models: the effect summary regenerated from asm.py
   passes summary_ok (no module-level object written by anything reachable from assemble(), no mutable default, no set iteration order
   consumed; Proofs/Effects.v noninterference) -- a memo table or cache that outlives a call makes a pure model unfaithful *)
From BB Require Gen.Effects Proofs.Effects Proofs.EffectsOk.
Theorem C13_assemble_is_a_function_of_its_inputs : Proofs.Effects.summary_ok Gen.Effects.summary = true.
Proof. exact Proofs.EffectsOk.summary_ok_holds. Qed.
Print Assumptions C13_assemble_is_a_function_of_its_inputs.
