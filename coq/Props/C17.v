(* C17 -- the command line writes exactly the assembled program, or nothing on failure.
   Statements only; proofs live in Proofs/CliOrder.v.  [cli_steps] is the step list GENERATED from the AST of
   asm.cli_main on every run (Gen/Cli.v); [run_cli] is its interpreter over the abstract file system
   (Model/Cli.v); the assembler is ANY function that may fail (failure = an exception from any pass),
   bin2hex is ANY function with the round-trip property for the run at hand ([roundtrip_for_run], implied by
   [bin2hex_roundtrip]; the harness checks it on every hex file the real CLI writes, with Spec.Hex.hex_decode).
   Second part (below): that hypothesis is a THEOREM of the writer model Model.HexWriter.bin2hex_model
   (C17_hex_roundtrip, Proofs/HexRoundTrip.v), and the CLI theorems are restated with the writer in place of the
   parameter (C17_no_clobber_hex, C17_success_hex, Proofs/CliHex.v). *)
From Coq Require Import ZArith List String.
From BB Require Import Base.PyBase Gen.Cli Spec.Hex Model.Reader Model.Cli Model.HexWriter
                       Proofs.CliOrder Proofs.HexRoundTrip Proofs.CliHex.
Import ListNotations.
Open Scope string_scope.
Open Scope Z_scope.

(* a run that fails (any non-zero status: bad command line, missing input, bad -i, unusable --hex-offset, an
   exception from any pass of the assembler) leaves the WHOLE file system as it was *)
Theorem C17_no_clobber :
  forall (assemble : fsys -> string -> string -> bool -> list string -> option (string * list (string * Z)))
         (bin2hex : Z -> string -> option string) (defs_dir cwd : string) (o : opts) (fs fs' : fsys) (code : Z),
    roundtrip_for_run assemble bin2hex defs_dir cwd o fs ->
    run_cli assemble bin2hex defs_dir cli_steps cwd o fs = (fs', code) ->
    code <> 0 -> fs' = fs.
Proof. exact cli_no_clobber. Qed.
Print Assumptions C17_no_clobber.

(* a run that exits 0: the assembler succeeded on the untouched file system with exactly the options given,
   -o holds its bytes, -l one "name 0x%08x" line per label in table order, and with --hex-offset the .hex file
   decodes (independent Spec decoder) to the same bytes placed at that offset *)
Theorem C17_success :
  forall (assemble : fsys -> string -> string -> bool -> list string -> option (string * list (string * Z)))
         (bin2hex : Z -> string -> option string) (defs_dir cwd : string) (o : opts) (fs fs' : fsys),
    roundtrip_for_run assemble bin2hex defs_dir cwd o fs ->
    run_cli assemble bin2hex defs_dir cli_steps cwd o fs = (fs', 0) ->
    exists bin labels,
      assemble fs cwd (abspath cwd (o_input o)) (o_compress o) (cli_dirs defs_dir cwd o) = Some (bin, labels) /\
      (distinct_outputs cwd o ->
         file_at fs' cwd (o_output o) = Some bin /\
         (o_labels o <> "" -> file_at fs' cwd (o_labels o) = Some (render_labels labels)) /\
         (o_hex o <> "" -> exists off h, py_int_lit (o_hex o) = Some off /\
                                          file_at fs' cwd (o_output o ++ ".hex") = Some h /\
                                          hex_decode h = Some (place off bin))).
Proof. exact cli_success. Qed.
Print Assumptions C17_success.

(* whatever the outcome, no other file and no directory is touched *)
Theorem C17_nothing_else :
  forall (assemble : fsys -> string -> string -> bool -> list string -> option (string * list (string * Z)))
         (bin2hex : Z -> string -> option string) (defs_dir cwd : string) (o : opts) (fs fs' : fsys) (code : Z) (k : string),
    run_cli assemble bin2hex defs_dir cli_steps cwd o fs = (fs', code) ->
    k <> abspath cwd (o_output o) -> k <> abspath cwd (o_labels o) -> k <> abspath cwd (o_output o ++ ".hex") ->
    assoc_str k (fs_files fs') = assoc_str k (fs_files fs) /\ fs_dirs fs' = fs_dirs fs.
Proof. exact cli_nothing_else. Qed.
Print Assumptions C17_nothing_else.

(* the universally quantified form of the bin2hex assumption implies the per-run one *)
Theorem C17_roundtrip_suffices :
  forall assemble bin2hex defs_dir cwd o fs,
    bin2hex_roundtrip bin2hex -> roundtrip_for_run assemble bin2hex defs_dir cwd o fs.
Proof. exact roundtrip_all_runs. Qed.
Print Assumptions C17_roundtrip_suffices.

(* ---- the hypotheses are satisfiable: a concrete run of each kind ------------------------------------- *)
Definition ex_fs : fsys :=
  {| fs_files := [("/w/a.asm", "j 0"); ("/w/out.bin", "OLD"); ("/w/out.bin.hex", "OLD"); ("/w/lab.txt", "OLD")];
     fs_dirs := ["/"; "/w"] |}.
Definition ex_opts (hex : string) : opts :=
  {| o_argv_ok := true; o_version_first := false; o_version := false; o_verbose := false; o_compress := false;
     o_input := "a.asm"; o_include := []; o_output := "out.bin"; o_labels := "lab.txt"; o_hex := hex;
     o_incdefs := false |}.
(* the binary and the hex text are what the real tools produced for `start: addi x1,x0,1 / j start` at 0x08000000 *)
Definition ex_bin : string := bs [147; 0; 16; 0; 111; 240; 223; 255].
Definition ex_hex : string :=
  ":020000040800F2" ++ bs [10] ++ ":08000000930010006FF0DFFF18" ++ bs [10] ++ ":00000001FF" ++ bs [10].
Definition ex_asm_ok (_ : fsys) (_ _ : string) (_ : bool) (_ : list string) := Some (ex_bin, [("start", 0)]).
Definition ex_asm_fail (_ : fsys) (_ _ : string) (_ : bool) (_ : list string) : option (string * list (string * Z)) := None.
Definition ex_bin2hex (off : Z) (b : string) : option string := Some ex_hex.

Example C17_success_hypotheses_met :
  roundtrip_for_run ex_asm_ok ex_bin2hex "/pkg/definitions" "/w" (ex_opts "0x08000000") ex_fs /\
  snd (run_cli ex_asm_ok ex_bin2hex "/pkg/definitions" cli_steps "/w" (ex_opts "0x08000000") ex_fs) = 0 /\
  distinct_outputs "/w" (ex_opts "0x08000000").
Proof.
  split; [| split].
  - intros off bin labels Ho Ha _ _. vm_compute in Ho. unfold ex_asm_ok in Ha.
    injection Ho as <-. injection Ha as <- _.
    exists ex_hex. split; [reflexivity | vm_compute; reflexivity].
  - vm_compute. reflexivity.
  - repeat split; intros; vm_compute; discriminate.
Qed.
Example C17_no_clobber_hypotheses_met :
  (* an assembler failure, and an unusable hex offset *)
  snd (run_cli ex_asm_fail ex_bin2hex "/pkg/definitions" cli_steps "/w" (ex_opts "") ex_fs) = 1 /\
  snd (run_cli ex_asm_ok ex_bin2hex "/pkg/definitions" cli_steps "/w" (ex_opts "zzz") ex_fs) = 1 /\
  roundtrip_for_run ex_asm_ok ex_bin2hex "/pkg/definitions" "/w" (ex_opts "zzz") ex_fs.
Proof.
  split; [vm_compute; reflexivity | split; [vm_compute; reflexivity |]].
  intros off bin labels Ho. vm_compute in Ho. discriminate.
Qed.

(* ====================================================================================================== *)
(* The HEX half without a hypothesis: the writer model Model.HexWriter.bin2hex_model (intelhex.bin2hex; tied to the
   installed package text for text by the correspondence of the check) against the independent decoder Spec.Hex. *)

(* the text bin2hex writes for ANY bytes at ANY offset that fits the 32-bit address space decodes to exactly these
   bytes at offset, offset + 1, ... in this order and nothing else (the decoder returns the list of (address, byte)
   pairs in file order, None for a malformed file); empty input and offset + len = 2^32 included *)
Theorem C17_hex_roundtrip :
  forall (bytes : list Z) (offset : Z),
    Forall (fun b => 0 <= b < 256) bytes -> 0 <= offset -> offset + Z.of_nat (List.length bytes) <= 2^32 ->
    hex_decode (bin2hex_model bytes offset) = Some (place_l offset bytes).
Proof. exact bin2hex_roundtrip_model. Qed.
Print Assumptions C17_hex_roundtrip.

(* in the shape of the CLI model: the writer meets the hypothesis of C17_no_clobber / C17_success *)
Theorem C17_writer_meets_hypothesis : bin2hex_roundtrip bin2hex_fn.
Proof. exact bin2hex_fn_roundtrip. Qed.
Print Assumptions C17_writer_meets_hypothesis.

(* the CLI theorems with the writer model in place of the bin2hex parameter: no hypothesis about bin2hex is left *)
Theorem C17_no_clobber_hex :
  forall (assemble : fsys -> string -> string -> bool -> list string -> option (string * list (string * Z)))
         (defs_dir cwd : string) (o : opts) (fs fs' : fsys) (code : Z),
    run_cli assemble bin2hex_fn defs_dir cli_steps cwd o fs = (fs', code) ->
    code <> 0 -> fs' = fs.
Proof. exact cli_no_clobber_hex. Qed.
Print Assumptions C17_no_clobber_hex.

(* exit 0: the assembler succeeded; with --hex-offset the .hex file holds exactly the writer's text for the assembled
   bytes at the parsed offset (written last: no aliasing hypothesis needed) and that text decodes to the same bytes
   placed at that offset; -o and -l as in C17_success *)
Theorem C17_success_hex :
  forall (assemble : fsys -> string -> string -> bool -> list string -> option (string * list (string * Z)))
         (defs_dir cwd : string) (o : opts) (fs fs' : fsys),
    run_cli assemble bin2hex_fn defs_dir cli_steps cwd o fs = (fs', 0) ->
    exists bin labels,
      assemble fs cwd (abspath cwd (o_input o)) (o_compress o) (cli_dirs defs_dir cwd o) = Some (bin, labels) /\
      (o_hex o <> "" -> exists off,
          py_int_lit (o_hex o) = Some off /\
          file_at fs' cwd (o_output o ++ ".hex") = Some (bin2hex_model (bytes_of bin) off) /\
          hex_decode (bin2hex_model (bytes_of bin) off) = Some (place off bin)) /\
      (distinct_outputs cwd o ->
         file_at fs' cwd (o_output o) = Some bin /\
         (o_labels o <> "" -> file_at fs' cwd (o_labels o) = Some (render_labels labels))).
Proof. exact cli_success_hex. Qed.
Print Assumptions C17_success_hex.

(* ---- non-vacuity: 20 bytes at 0xFFF8 cross the 64 KiB line.  The writer puts a type-04 record in front of EACH
   block, the first one (upper half 0000) included, because the last byte lies above 0xFFFF; the data record is cut
   at the line (8 + 12 bytes) *)
Definition ex_bytes20 : list Z := [0;1;2;3;4;5;6;7;8;9;10;11;12;13;14;15;16;17;18;19].
Example C17_hex_roundtrip_instance :
  bin2hex_model ex_bytes20 0xFFF8 =
    ":020000040000FA" ++ bs [10] ++ ":08FFF8000001020304050607E5" ++ bs [10] ++
    ":020000040001F9" ++ bs [10] ++ ":0C00000008090A0B0C0D0E0F1011121352" ++ bs [10] ++ ":00000001FF" ++ bs [10] /\
  hex_decode (bin2hex_model ex_bytes20 0xFFF8) = Some (place_l 0xFFF8 ex_bytes20) /\
  (* the same 20 bytes wholly below the line: no type-04 record at all, records counted from the (unaligned) offset *)
  bin2hex_model ex_bytes20 0xFFEC =
    ":10FFEC00000102030405060708090A0B0C0D0E0F8D" ++ bs [10] ++ ":04FFFC0010111213BB" ++ bs [10] ++ ":00000001FF" ++ bs [10] /\
  (* an empty binary, and the very top of the address space (offset + len = 2^32) *)
  bin2hex_model [] 0x08000000 = ":00000001FF" ++ bs [10] /\
  hex_decode (bin2hex_model [] 0x08000000) = Some [] /\
  bin2hex_model [0;1;2] (2^32 - 3) = ":02000004FFFFFC" ++ bs [10] ++ ":03FFFD00000102FE" ++ bs [10] ++ ":00000001FF" ++ bs [10] /\
  hex_decode (bin2hex_model [0;1;2] (2^32 - 3)) = Some [(4294967293, 0); (4294967294, 1); (4294967295, 2)].
Proof. vm_compute. repeat split; reflexivity. Qed.

(* a whole run with the writer model: the example program at 0x08000000 gives the hex text the real tools produced
   (ex_hex above), a failing assembler leaves the old files alone *)
Example C17_success_hex_hypotheses_met :
  snd (run_cli ex_asm_ok bin2hex_fn "/pkg/definitions" cli_steps "/w" (ex_opts "0x08000000") ex_fs) = 0 /\
  file_at (fst (run_cli ex_asm_ok bin2hex_fn "/pkg/definitions" cli_steps "/w" (ex_opts "0x08000000") ex_fs))
          "/w" "out.bin.hex" = Some ex_hex /\
  bin2hex_model (bytes_of ex_bin) 0x08000000 = ex_hex /\
  distinct_outputs "/w" (ex_opts "0x08000000") /\
  run_cli ex_asm_fail bin2hex_fn "/pkg/definitions" cli_steps "/w" (ex_opts "0x08000000") ex_fs = (ex_fs, 1) /\
  (* the offset fits but offset + len does not: refused before anything is written *)
  run_cli ex_asm_ok bin2hex_fn "/pkg/definitions" cli_steps "/w" (ex_opts "0xFFFFFFFC") ex_fs = (ex_fs, 1).
Proof.
  split; [vm_compute; reflexivity |].
  split; [vm_compute; reflexivity |].
  split; [vm_compute; reflexivity |].
  split; [repeat split; intros; vm_compute; discriminate |].
  split; vm_compute; reflexivity.
Qed.
