(* C02 -- compressed (RV32C) instructions encode exactly as specified, one-to-one.  Statements only.
   `encode` calls the GENERATED INSTRUCTIONS dictionary; decode16 / denote16 / operands16 / legal16 are the Spec. *)
From Coq Require Import ZArith List String.
From BB Require Import Base.PyBase Gen.Encoders Spec.RVC Spec.Operands Spec.Legal Model.Encode Proofs.C02Main Model.Items Model.Parser Model.Passes Proofs.EndToEnd.
Import ListNotations.
Import ListNotations.
Open Scope Z_scope.

(* every halfword the encoders of the 27 c.* mnemonics return (any operand spelling, ANY integer immediate)
   is a legal RV32C encoding that decodes to the named operation, registers and immediate *)
Theorem C02_forward :
  forall name pos kw h, In name c_mnemonics -> encode name pos kw = Ok h ->
    0 <= h < 2^16 /\
    exists ops c, operands16 name pos = Some ops /\ legal16 name ops = true /\
                  denote16 name ops = Some c /\ decode16 h = Some c.
Proof. exact forward. Qed.
Print Assumptions C02_forward.

(* conversely every one of the 65 536 halfwords that is a legal, non-hint, non-reserved RV32C integer encoding
   is produced from its canonical operands *)
Theorem C02_converse :
  forall h c, 0 <= h < 65536 -> decode16 h = Some c ->
    encode (fst (name_ops16 c)) (map AInt (snd (name_ops16 c))) [] = Ok h.
Proof. exact converse. Qed.
Print Assumptions C02_converse.

(* accepted operand tuples and halfwords correspond one-to-one *)
Theorem C02_injective :
  forall name p1 k1 p2 k2 h, In name c_mnemonics ->
    encode name p1 k1 = Ok h -> encode name p2 k2 = Ok h ->
    exists ops, operands16 name p1 = Some ops /\ operands16 name p2 = Some ops.
Proof. exact injective16. Qed.
Print Assumptions C02_injective.

(* From the SOURCE LINE: an explicitly written compressed instruction with two registers (c.mv, c.add, c.sub, c.xor, c.or, c.and)
   or a register and a literal immediate (c.addi, c.li, c.lui, c.slli ..) is parsed (parser model) to an item that the 16 passes of
   the pass model turn into exactly the two little-endian bytes of the halfword the generated encoder returns -- which, by
   C02_forward, is a legal RV32C encoding of the named operation. *)
Theorem C02_line_end_to_end :
  forall l name toks it args h,
  (exists a b, In name EndToEnd.cr_names /\ String.eqb a "=" = false /\ toks = [name; a; b] /\ args = [AStr a; AStr b] /\
               it = Items.IInstr "CRTypeInstruction" name [("rd_rs1", Parser.R a); ("rs2", Parser.R b)]%string true) \/
  (exists a b, In name EndToEnd.ca_names /\ String.eqb a "=" = false /\ toks = [name; a; b] /\ args = [AStr a; AStr b] /\
               it = Items.IInstr "CATypeInstruction" name [("rd_rs1", Parser.R a); ("rs2", Parser.R b)]%string true) \/
  (exists a tok v, In name EndToEnd.ci_names /\ String.eqb a "=" = false /\
               Parser.parse_immediate [tok] l = Parser.FOk (Items.EArith (Items.ANum v)) /\
               toks = [name; a; tok] /\ args = [AStr a; AInt v] /\
               it = Items.IInstr "CITypeInstruction" name [("rd_rs1", Parser.R a); ("imm", Items.FExpr (Items.EArith (Items.ANum v)))]%string true) ->
  In name c_mnemonics -> encode name args nil = Ok h ->
  exists ops c,
    Parser.parse_item l toks = Parser.FOk it /\
    Passes.assemble_items ((l, it) :: nil) nil nil false =
      Passes.Done {| Passes.r_chunks := (l, Passes.CBytes (Passes.le_bytes 2 h)) :: nil; Passes.r_consts := nil; Passes.r_labels := nil |} /\
    0 <= h < 2 ^ 16 /\ operands16 name args = Some ops /\ legal16 name ops = true /\ denote16 name ops = Some c /\ decode16 h = Some c.
Proof. exact EndToEnd.c_line_end_to_end. Qed.
Print Assumptions C02_line_end_to_end.

(* From the TEXT (second sentence of C02): every legal, non-hint, non-reserved RV32C integer encoding is produced by assembling its
   canonical text.  h ranges over all 65 536 halfwords; `decode16 h = Some c` says h is a legal RV32C integer encoding of c (Spec/RVC.v:
   the all-zero halfword, reserved encodings, HINTs, NSE, floating-point and RV64/128-only encodings decode to None).
   `ctext c` (Spec/Print16.v, written from the instruction reference, independent of the assembler) is the canonical token line:
   mnemonic `c.xxx`, registers `xN`, immediates in decimal with a leading '-' when negative -- c.lui with the SIGNED 6-bit value;
   c.lw / c.sw in the documented three-operand form; scaled immediates (c.addi4spn, c.addi16sp, c.lwsp, c.swsp, c.lw, c.sw) as byte
   values; c.j / c.jal / c.beqz / c.bnez with the byte offset as a literal.  `cline c` is that line written the usual way
   ("c.addi x5, -3").  Then, at any line (file name, number) and with compression off AND on:
     (1) the lexer model reads `cline c` as the tokens `ctext c`;
     (2) the parser model turns the tokens into an item that the 16 passes of the pass model assemble to EXACTLY the two bytes of h,
         low byte first, and nothing else (no constants, no labels);
     (3) hence the one-line program `cline c` assembles to these two bytes;
     (4) and so does the same token line in ANY separator style (indentation, blanks / tabs / commas between tokens, trailing blanks,
         trailing # comment -- Proofs/LexSep.v style_ok).
   No restriction on h or c beyond `decode16 h = Some c`. *)
From BB Require Import Spec.Print16 Model.Lexer Proofs.LexSep Proofs.Program Proofs.TextConverse.
Theorem C02_text_converse :
  forall (l : Items.line) (cmp : bool) h c, 0 <= h < 65536 -> decode16 h = Some c ->
    let bytes := {| Passes.r_chunks := [(l, Passes.CBytes [h mod 256; h / 256])]; Passes.r_consts := []; Passes.r_labels := [] |} in
    Lexer.lex_tokens (cline c) = Some (ctext c) /\
    (exists it, Parser.parse_item l (ctext c) = Parser.FOk it /\ Passes.assemble_items [(l, it)] [] [] cmp = Passes.Done bytes) /\
    Program.assemble_text [(l, cline c)] [] [] cmp = Program.TDone bytes /\
    (forall sty, LexSep.style_ok sty (map chars (ctext c)) ->
       Program.assemble_text [(l, unchars (LexSep.render sty (map chars (ctext c))))] [] [] cmp = Program.TDone bytes).
Proof. exact TextConverse.text_converse. Qed.
Print Assumptions C02_text_converse.

(* ... so canonical texts and legal halfwords correspond one-to-one: two legal halfwords with the same canonical text are equal
   (and a halfword determines its text through decode16) *)
Theorem C02_text_injective :
  forall h1 h2 c1 c2, 0 <= h1 < 65536 -> 0 <= h2 < 65536 -> decode16 h1 = Some c1 -> decode16 h2 = Some c2 ->
    ctext c1 = ctext c2 -> h1 = h2 /\ c1 = c2.
Proof. exact TextConverse.ctext_injective. Qed.
Print Assumptions C02_text_injective.

(* non-vacuity, both ways: the halfword decodes to the instruction, whose canonical tokens / line are the text shown; and the text
   lexes to the tokens and assembles (compression off and on) to the two bytes b0 b1 of the halfword.  One example per format. *)
Definition C02_text_case (h : Z) (c : cinstr) (toks : list string) (text : string) (b0 b1 : Z) : Prop :=
  let l := {| Items.lfile := "<string>"; Items.lnum := 1 |} in
  let bytes := {| Passes.r_chunks := [(l, Passes.CBytes [b0; b1])]; Passes.r_consts := []; Passes.r_labels := [] |} in
  h = b0 + 256 * b1 /\ decode16 h = Some c /\ ctext c = toks /\ cline c = text /\
  Lexer.lex_tokens text = Some toks /\
  Program.assemble_text [(l, text)] [] [] false = Program.TDone bytes /\ Program.assemble_text [(l, text)] [] [] true = Program.TDone bytes.
Example C02_text_ex_nop : C02_text_case 0x0001 CNop ["c.nop"] "c.nop" 0x01 0x00.
Proof. vm_compute. repeat split. Qed.
Example C02_text_ex_addi : C02_text_case 0x12f5 (CAddi 5 (-3)) ["c.addi"; "x5"; "-3"] "c.addi x5, -3" 0xf5 0x12.              (* CI *)
Proof. vm_compute. repeat split. Qed.
Example C02_text_ex_lui : C02_text_case 0x72fd (CLui 5 (-1)) ["c.lui"; "x5"; "-1"] "c.lui x5, -1" 0xfd 0x72.                   (* CI, signed value *)
Proof. vm_compute. repeat split. Qed.
Example C02_text_ex_addi16sp : C02_text_case 0x7101 (CAddi16sp (-512)) ["c.addi16sp"; "-512"] "c.addi16sp -512" 0x01 0x71.  (* scaled *)
Proof. vm_compute. repeat split. Qed.
Example C02_text_ex_addi4spn : C02_text_case 0x1fe0 (CAddi4spn 8 1020) ["c.addi4spn"; "x8"; "1020"] "c.addi4spn x8, 1020" 0xe0 0x1f.  (* CIW *)
Proof. vm_compute. repeat split. Qed.
Example C02_text_ex_lw : C02_text_case 0x40c0 (CLw 8 9 4) ["c.lw"; "x8"; "x9"; "4"] "c.lw x8, x9, 4" 0xc0 0x40.                 (* CL *)
Proof. vm_compute. repeat split. Qed.
Example C02_text_ex_swsp : C02_text_case 0xdf82 (CSwsp 0 252) ["c.swsp"; "x0"; "252"] "c.swsp x0, 252" 0x82 0xdf.              (* CSS *)
Proof. vm_compute. repeat split. Qed.
Example C02_text_ex_j : C02_text_case 0xb001 (CJ (-2048)) ["c.j"; "-2048"] "c.j -2048" 0x01 0xb0.                              (* CJ *)
Proof. vm_compute. repeat split. Qed.
Example C02_text_ex_beqz : C02_text_case 0xd001 (CBeqz 8 (-256)) ["c.beqz"; "x8"; "-256"] "c.beqz x8, -256" 0x01 0xd0.         (* CB *)
Proof. vm_compute. repeat split. Qed.
Example C02_text_ex_mv : C02_text_case 0x808a (CMv 1 2) ["c.mv"; "x1"; "x2"] "c.mv x1, x2" 0x8a 0x80.                          (* CR *)
Proof. vm_compute. repeat split. Qed.
Example C02_text_ex_and : C02_text_case 0x8c65 (CAnd 8 9) ["c.and"; "x8"; "x9"] "c.and x8, x9" 0x65 0x8c.                      (* CA *)
Proof. vm_compute. repeat split. Qed.
Example C02_text_ex_jalr : C02_text_case 0x9082 (CJalr 1) ["c.jalr"; "x1"] "c.jalr x1" 0x82 0x90.                              (* CR, one register *)
Proof. vm_compute. repeat split. Qed.
Example C02_text_ex_ebreak : C02_text_case 0x9002 CEbreak ["c.ebreak"] "c.ebreak" 0x02 0x90.
Proof. vm_compute. repeat split. Qed.
(* a separator style other than the usual one (clause 4): indentation, doubled commas, trailing blanks and a comment *)
Example C02_text_ex_style :
  let sty := {| LexSep.indent := chars "  "; LexSep.gaps := [chars " "; chars ",,"; chars "  "]; LexSep.comment := Some (chars " hi") |} in
  let l := {| Items.lfile := "prog.asm"; Items.lnum := 7 |} in
  LexSep.style_ok sty (map chars (ctext (CAddi 5 (-3)))) /\
  unchars (LexSep.render sty (map chars (ctext (CAddi 5 (-3))))) = "  c.addi x5,,-3  # hi" /\
  Program.assemble_text [(l, "  c.addi x5,,-3  # hi")] [] [] true =
    Program.TDone {| Passes.r_chunks := [(l, Passes.CBytes [0xf5; 0x12])]; Passes.r_consts := []; Passes.r_labels := [] |}.
Proof.
  cbv zeta. split; [|vm_compute; split; reflexivity].
  unfold LexSep.style_ok. cbn. split; [repeat constructor|]. split; [reflexivity|].
  split; [repeat constructor|]. split; [left; discriminate|].
  split; [repeat constructor|]. split; [left; discriminate|].
  split; [repeat constructor|]. split; exact I.
Qed.

(* The documented alternative spellings of the same instructions assemble to the same two bytes (token level, and from the characters in
   any separator style -- e.g. `c.lw x8, 4(x9)`, where the gaps next to a parenthesis may be empty):
   (a) c.lw rd', uimm(rs1') and c.sw rs2', uimm(rs1') (Spec/Print16.v ctext_paren: six tokens, the parentheses are tokens);
   (b) c.lui with a NEGATIVE value written as the 20-bit number 0xfffe0 .. 0xfffff (lower-case hexadecimal). *)
Theorem C02_text_paren :
  forall (l : Items.line) (cmp : bool) h c toks, 0 <= h < 65536 -> decode16 h = Some c -> ctext_paren c = Some toks ->
    let bytes := {| Passes.r_chunks := [(l, Passes.CBytes [h mod 256; h / 256])]; Passes.r_consts := []; Passes.r_labels := [] |} in
    (exists it, Parser.parse_item l toks = Parser.FOk it /\ Passes.assemble_items [(l, it)] [] [] cmp = Passes.Done bytes) /\
    (forall sty, LexSep.style_ok sty (map chars toks) ->
       Program.assemble_text [(l, unchars (LexSep.render sty (map chars toks)))] [] [] cmp = Program.TDone bytes).
Proof. exact TextConverse.paren_converse. Qed.
Print Assumptions C02_text_paren.
Theorem C02_text_lui_hex :
  forall (l : Items.line) (cmp : bool) h rd i, 0 <= h < 65536 -> decode16 h = Some (CLui rd i) -> i < 0 ->
    let bytes := {| Passes.r_chunks := [(l, Passes.CBytes [h mod 256; h / 256])]; Passes.r_consts := []; Passes.r_labels := [] |} in
    (exists it, Parser.parse_item l (ctext_lui_hex rd i) = Parser.FOk it /\ Passes.assemble_items [(l, it)] [] [] cmp = Passes.Done bytes) /\
    (forall sty, LexSep.style_ok sty (map chars (ctext_lui_hex rd i)) ->
       Program.assemble_text [(l, unchars (LexSep.render sty (map chars (ctext_lui_hex rd i))))] [] [] cmp = Program.TDone bytes).
Proof. exact TextConverse.lui_hex_converse. Qed.
Print Assumptions C02_text_lui_hex.
Example C02_text_ex_paren :
  let l := {| Items.lfile := "<string>"; Items.lnum := 1 |} in
  decode16 0x40c0 = Some (CLw 8 9 4) /\ ctext_paren (CLw 8 9 4) = Some ["c.lw"; "x8"; "4"; "("; "x9"; ")"] /\
  Lexer.lex_tokens "c.lw x8, 4(x9)" = Some ["c.lw"; "x8"; "4"; "("; "x9"; ")"] /\
  Program.assemble_text [(l, "c.lw x8, 4(x9)")] [] [] true =
    Program.TDone {| Passes.r_chunks := [(l, Passes.CBytes [0xc0; 0x40])]; Passes.r_consts := []; Passes.r_labels := [] |} /\
  decode16 0xc044 = Some (CSw 8 9 4) /\ ctext_paren (CSw 8 9 4) = Some ["c.sw"; "x9"; "4"; "("; "x8"; ")"] /\
  Program.assemble_text [(l, "c.sw x9, 4(x8)")] [] [] false =
    Program.TDone {| Passes.r_chunks := [(l, Passes.CBytes [0x44; 0xc0])]; Passes.r_consts := []; Passes.r_labels := [] |}.
Proof. vm_compute. repeat split. Qed.
Example C02_text_ex_lui_hex :
  let l := {| Items.lfile := "<string>"; Items.lnum := 1 |} in
  decode16 0x7281 = Some (CLui 5 (-32)) /\ ctext_lui_hex 5 (-32) = ["c.lui"; "x5"; "0xfffe0"] /\
  Program.assemble_text [(l, "c.lui x5, 0xfffe0")] [] [] true =
    Program.TDone {| Passes.r_chunks := [(l, Passes.CBytes [0x81; 0x72])]; Passes.r_consts := []; Passes.r_labels := [] |} /\
  Program.assemble_text [(l, "c.lui x5, -32")] [] [] true =
    Program.TDone {| Passes.r_chunks := [(l, Passes.CBytes [0x81; 0x72])]; Passes.r_consts := []; Passes.r_labels := [] |}.
Proof. vm_compute. repeat split. Qed.
