(* C02 -- compressed (RV32C) instructions encode exactly as specified, one-to-one.  Statements only.
   `encode` calls the GENERATED INSTRUCTIONS dictionary; decode16 / denote16 / operands16 / legal16 are the Spec. *)
From Coq Require Import ZArith List String.
From BB Require Import Base.PyBase Gen.Encoders Spec.RVC Spec.Operands Spec.Legal Model.Encode Proofs.C02Main Model.Items Model.Parser Model.Passes Proofs.EndToEnd.
Import ListNotations.
Import ListNotations.
Open Scope Z_scope.

(* every halfword the encoders of the 27 c.* mnemonics return (any operand spelling, ANY integer immediate)
   is a legal RV32C encoding that decodes to the named operation, registers and immediate *)
Theorem C02_forward :
  forall name pos kw h, In name c_mnemonics -> encode name pos kw = Ok h ->
    0 <= h < 2^16 /\
    exists ops c, operands16 name pos = Some ops /\ legal16 name ops = true /\
                  denote16 name ops = Some c /\ decode16 h = Some c.
Proof. exact forward. Qed.
Print Assumptions C02_forward.

(* conversely every one of the 65 536 halfwords that is a legal, non-hint, non-reserved RV32C integer encoding
   is produced from its canonical operands *)
Theorem C02_converse :
  forall h c, 0 <= h < 65536 -> decode16 h = Some c ->
    encode (fst (name_ops16 c)) (map AInt (snd (name_ops16 c))) [] = Ok h.
Proof. exact converse. Qed.
Print Assumptions C02_converse.

(* accepted operand tuples and halfwords correspond one-to-one *)
Theorem C02_injective :
  forall name p1 k1 p2 k2 h, In name c_mnemonics ->
    encode name p1 k1 = Ok h -> encode name p2 k2 = Ok h ->
    exists ops, operands16 name p1 = Some ops /\ operands16 name p2 = Some ops.
Proof. exact injective16. Qed.
Print Assumptions C02_injective.

(* From the SOURCE LINE: an explicitly written compressed instruction with two registers (c.mv, c.add, c.sub, c.xor, c.or, c.and)
   or a register and a literal immediate (c.addi, c.li, c.lui, c.slli ..) is parsed (parser model) to an item that the 16 passes of
   the pass model turn into exactly the two little-endian bytes of the halfword the generated encoder returns -- which, by
   C02_forward, is a legal RV32C encoding of the named operation. *)
Theorem C02_line_end_to_end :
  forall l name toks it args h,
  (exists a b, In name EndToEnd.cr_names /\ String.eqb a "=" = false /\ toks = [name; a; b] /\ args = [AStr a; AStr b] /\
               it = Items.IInstr "CRTypeInstruction" name [("rd_rs1", Parser.R a); ("rs2", Parser.R b)]%string true) \/
  (exists a b, In name EndToEnd.ca_names /\ String.eqb a "=" = false /\ toks = [name; a; b] /\ args = [AStr a; AStr b] /\
               it = Items.IInstr "CATypeInstruction" name [("rd_rs1", Parser.R a); ("rs2", Parser.R b)]%string true) \/
  (exists a tok v, In name EndToEnd.ci_names /\ String.eqb a "=" = false /\
               Parser.parse_immediate [tok] l = Parser.FOk (Items.EArith (Items.ANum v)) /\
               toks = [name; a; tok] /\ args = [AStr a; AInt v] /\
               it = Items.IInstr "CITypeInstruction" name [("rd_rs1", Parser.R a); ("imm", Items.FExpr (Items.EArith (Items.ANum v)))]%string true) ->
  In name c_mnemonics -> encode name args nil = Ok h ->
  exists ops c,
    Parser.parse_item l toks = Parser.FOk it /\
    Passes.assemble_items ((l, it) :: nil) nil nil false =
      Passes.Done {| Passes.r_chunks := (l, Passes.CBytes (Passes.le_bytes 2 h)) :: nil; Passes.r_consts := nil; Passes.r_labels := nil |} /\
    0 <= h < 2 ^ 16 /\ operands16 name args = Some ops /\ legal16 name ops = true /\ denote16 name ops = Some c /\ decode16 h = Some c.
Proof. exact EndToEnd.c_line_end_to_end. Qed.
Print Assumptions C02_line_end_to_end.
