(* C02 -- compressed (RV32C) instructions encode exactly as specified, one-to-one.  Statements only.
   `encode` calls the GENERATED INSTRUCTIONS dictionary; decode16 / denote16 / operands16 / legal16 are the Spec. *)
From Coq Require Import ZArith List String.
From BB Require Import Base.PyBase Gen.Encoders Spec.RVC Spec.Operands Spec.Legal Model.Encode Proofs.C02Main.
Import ListNotations.
Open Scope Z_scope.

(* every halfword the encoders of the 27 c.* mnemonics return (any operand spelling, ANY integer immediate)
   is a legal RV32C encoding that decodes to the named operation, registers and immediate *)
Theorem C02_forward :
  forall name pos kw h, In name c_mnemonics -> encode name pos kw = Ok h ->
    0 <= h < 2^16 /\
    exists ops c, operands16 name pos = Some ops /\ legal16 name ops = true /\
                  denote16 name ops = Some c /\ decode16 h = Some c.
Proof. exact forward. Qed.
Print Assumptions C02_forward.

(* conversely every one of the 65 536 halfwords that is a legal, non-hint, non-reserved RV32C integer encoding
   is produced from its canonical operands *)
Theorem C02_converse :
  forall h c, 0 <= h < 65536 -> decode16 h = Some c ->
    encode (fst (name_ops16 c)) (map AInt (snd (name_ops16 c))) [] = Ok h.
Proof. exact converse. Qed.
Print Assumptions C02_converse.

(* accepted operand tuples and halfwords correspond one-to-one *)
Theorem C02_injective :
  forall name p1 k1 p2 k2 h, In name c_mnemonics ->
    encode name p1 k1 = Ok h -> encode name p2 k2 = Ok h ->
    exists ops, operands16 name p1 = Some ops /\ operands16 name p2 = Some ops.
Proof. exact injective16. Qed.
Print Assumptions C02_injective.
