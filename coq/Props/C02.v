(* placeholder *)
From Coq Require Import ZArith.
Theorem C02_placeholder : True. Proof. exact I. Qed.
Print Assumptions C02_placeholder.
