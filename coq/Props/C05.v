(* C05 -- pseudo-instructions have exactly the effect the instruction reference documents.
   Statements only; proofs live in Proofs/Pseudo.v (+ PseudoEmit.v, SemLemmas.v).

   What the statements are about:
   * expand_pseudo / pseudo_rule : the hand-written model of asm.transform_pseudo_instructions (Model/Passes.v), tied
     to the real code by the pipeline correspondence that tools/props/C05.py runs on every check;
   * emit_bytes : the model's own resolve_immediates, resolve_instructions (calling the GENERATED encoders of
     Gen/Encoders.v, regenerated from asm.py) and resolve_blobs, applied to the emitted item(s) sitting at position pos
     under the final constants / labels;
   * regnum : how a register operand is read (Spec/Operands.v: x0..x31, ABI names, numbers);
   * loaded / run_n / getr / only_reg / no_reg / wrap / signed and the *_doc tables : the Spec machine and the documented
     effects (Spec/Sem.v), independent of the assembler.  run_n FETCHES the instruction from the byte memory, so the
     statements cover encoding (through the C01 theorem), little-endian packing, decoding and execution.
   Every statement holds for EVERY state s (registers, pc, memory arbitrary) in which the emitted bytes sit at the pc,
   and for every register spelling the assembler accepts (nrd = nrs, x0, sp included: there is no side condition). *)
From Coq Require Import ZArith List String.
From BB Require Import Base.PyBase Gen.Encoders Spec.RV32 Spec.Operands Spec.Sem Model.Items Model.Passes
  Proofs.PseudoEmit Proofs.Pseudo.
From BB Require Gen.Pseudo Proofs.PseudoTable Proofs.LiProgram.
Import ListNotations.
Open Scope Z_scope.
Open Scope list_scope.

(* li rd, e: whatever pseudo_rule emits at expansion time (position pos, labels as they are then) -- one addi or
   lui + addi -- and at whatever final layout (pos', labels') it is resolved, running it leaves the value v that the
   operand has THERE, modulo 2^32, in rd (nothing if rd = x0); no other register, no memory; pc advanced by the length.
   v ranges over all of Z: negative and >= 2^31 / >= 2^32 spellings included (uses C07 hi_lo_rebuild). *)
Theorem C05_li : forall consts l rd rest e pos labels its,
  pseudo_rule consts l (IPseudo "li" (rd :: rest) (POk e)) pos labels = Done its ->
  forall pos' labels' bs, emit_bytes l consts labels' pos' its = Done bs ->
  exists nrd v, regnum (AStr rd) = Some nrd /\ eval_here l pos' consts labels' e = Done v /\
    forall s, loaded s bs ->
      exists s', run_n (List.length its) s = Some s' /\ pc s' = wrap (pc s + 4 * Z.of_nat (List.length its)) /\
                 only_reg s s' nrd (wrap v).
Proof. exact li_effect. Qed.

(* mv not neg seqz snez sltz sgtz: rd <- f (rs) with f the documented function (Spec/Sem.v unary_doc) *)
Theorem C05_unary : forall name f, In (name, f) unary_doc ->
  forall l consts labels pos rd rs pimm,
  exists it, expand_pseudo l name [rd; rs] pimm = Done (One it) /\
  forall bs, emit_bytes l consts labels pos [it] = Done bs ->
  exists nrd nrs, regnum (AStr rd) = Some nrd /\ regnum (AStr rs) = Some nrs /\
    forall s, loaded s bs ->
      exists s', run_n 1 s = Some s' /\ pc s' = wrap (pc s + 4) /\ only_reg s s' nrd (f (getr s nrs)).
Proof. exact unary_effect. Qed.

(* beqz bnez blez bgez bltz bgtz: taken iff the documented condition on rs holds (branchz_doc); the taken target is the
   label (pc + (dest - pos) when the branch sits at pos and the label at dest); no register, no memory changes *)
Theorem C05_branch_zero : forall name c, In (name, c) branchz_doc ->
  forall l consts labels pos rs ref pimm,
  exists it, expand_pseudo l name [rs; ref] pimm = Done (One it) /\
  forall bs, emit_bytes l consts labels pos [it] = Done bs ->
  exists nrs dest, regnum (AStr rs) = Some nrs /\ chain_get consts labels ref = Some dest /\
    forall s, loaded s bs ->
      exists s', run_n 1 s = Some s' /\ no_reg s s' /\
        pc s' = if c (getr s nrs) then wrap (pc s + (dest - pos)) else wrap (pc s + 4).
Proof. exact branchz_effect. Qed.

(* bgt ble bgtu bleu: taken iff the documented signed / unsigned comparison of rs with rt holds (branch2_doc) *)
Theorem C05_branch_two : forall name c, In (name, c) branch2_doc ->
  forall l consts labels pos rs rt ref pimm,
  exists it, expand_pseudo l name [rs; rt; ref] pimm = Done (One it) /\
  forall bs, emit_bytes l consts labels pos [it] = Done bs ->
  exists nrs nrt dest, regnum (AStr rs) = Some nrs /\ regnum (AStr rt) = Some nrt /\
    chain_get consts labels ref = Some dest /\
    forall s, loaded s bs ->
      exists s', run_n 1 s = Some s' /\ no_reg s s' /\
        pc s' = if c (getr s nrs) (getr s nrt) then wrap (pc s + (dest - pos)) else wrap (pc s + 4).
Proof. exact branch2_effect. Qed.

(* j / jal: reach the label; only the documented link register (none / x1) is written, with the return address *)
Theorem C05_j_jal : forall name link, In (name, link) jump_doc ->
  forall l consts labels pos ref pimm,
  exists it, expand_pseudo l name [ref] pimm = Done (One it) /\
  forall bs, emit_bytes l consts labels pos [it] = Done bs ->
  exists dest, chain_get consts labels ref = Some dest /\
    forall s, loaded s bs ->
      exists s', run_n 1 s = Some s' /\ pc s' = wrap (pc s + (dest - pos)) /\ only_reg s s' link (wrap (pc s + 4)).
Proof. exact jump_effect. Qed.

(* jr / jalr: jump to the address in rs (bit 0 cleared), link none / x1 -- also when rs = x1 (target read first) *)
Theorem C05_jr_jalr : forall name link, In (name, link) jumpr_doc ->
  forall l consts labels pos rs pimm,
  exists it, expand_pseudo l name [rs] pimm = Done (One it) /\
  forall bs, emit_bytes l consts labels pos [it] = Done bs ->
  exists nrs, regnum (AStr rs) = Some nrs /\
    forall s, loaded s bs ->
      exists s', run_n 1 s = Some s' /\ pc s' = getr s nrs - getr s nrs mod 2 /\ only_reg s s' link (wrap (pc s + 4)).
Proof. exact jumpr_effect. Qed.

Theorem C05_ret : forall l consts labels pos args pimm,
  exists it, expand_pseudo l "ret" args pimm = Done (One it) /\
  forall bs, emit_bytes l consts labels pos [it] = Done bs ->
  forall s, loaded s bs ->
    exists s', run_n 1 s = Some s' /\ pc s' = getr s 1 - getr s 1 mod 2 /\ no_reg s s'.
Proof. exact ret_effect. Qed.

(* call / tail, one-instruction form chosen by pseudo_rule: reach the label; link x1 / none *)
Theorem C05_call_tail_near : forall name link scratch, In (name, (link, scratch)) calltail_doc ->
  forall consts l ref pimm pos labels it,
  pseudo_rule consts l (IPseudo name [ref] pimm) pos labels = Done [it] ->
  forall pos' labels' bs, emit_bytes l consts labels' pos' [it] = Done bs ->
  exists dest, chain_get consts labels' ref = Some dest /\
    forall s, loaded s bs ->
      exists s', run_n 1 s = Some s' /\ pc s' = wrap (pc s + (dest - pos')) /\ only_reg s s' link (wrap (pc s + 4)).
Proof. exact calltail_near_effect. Qed.

(* call, two-instruction form (auipc x1 + jalr x1): reaches the label (bit 0 cleared, as jalr does) for EVERY distance
   dest - pos' in Z; x1 = return address = pc + 8; nothing else written *)
Theorem C05_call_far : forall consts l ref pimm pos labels it1 it2,
  pseudo_rule consts l (IPseudo "call" [ref] pimm) pos labels = Done [it1; it2] ->
  forall pos' labels' bs, emit_bytes l consts labels' pos' [it1; it2] = Done bs ->
  exists dest, chain_get consts labels' ref = Some dest /\
    forall s, loaded s bs ->
      exists s', run_n 2 s = Some s' /\
        pc s' = wrap (pc s + (dest - pos')) - wrap (pc s + (dest - pos')) mod 2 /\
        only_reg s s' 1 (wrap (pc s + 8)).
Proof. exact call_far_effect. Qed.

(* tail, two-instruction form (auipc x6 + jalr x0, x6): reaches the label; the only register written is the documented
   scratch register x6 (it holds pc + (%hi(offset) << 12)); no link *)
Theorem C05_tail_far : forall consts l ref pimm pos labels it1 it2,
  pseudo_rule consts l (IPseudo "tail" [ref] pimm) pos labels = Done [it1; it2] ->
  forall pos' labels' bs, emit_bytes l consts labels' pos' [it1; it2] = Done bs ->
  exists dest, chain_get consts labels' ref = Some dest /\
    forall s, loaded s bs ->
      exists s', run_n 2 s = Some s' /\
        pc s' = wrap (pc s + (dest - pos')) - wrap (pc s + (dest - pos')) mod 2 /\
        only_reg s s' 6 (wrap (pc s + relocate_hi (dest - pos') * 4096)).
Proof. exact tail_far_effect. Qed.

(* nop, fence: nothing but the pc changes *)
Theorem C05_nop : forall l consts labels pos args pimm,
  exists it, expand_pseudo l "nop" args pimm = Done (One it) /\
  forall bs, emit_bytes l consts labels pos [it] = Done bs ->
  forall s, loaded s bs -> exists s', run_n 1 s = Some s' /\ pc s' = wrap (pc s + 4) /\ no_reg s s'.
Proof. exact nop_effect. Qed.

Theorem C05_fence : forall l consts labels pos args pimm,
  exists it, expand_pseudo l "fence" args pimm = Done (One it) /\
  forall bs, emit_bytes l consts labels pos [it] = Done bs ->
  forall s, loaded s bs -> exists s', run_n 1 s = Some s' /\ pc s' = wrap (pc s + 4) /\ no_reg s s'.
Proof. exact fence_effect. Qed.

(* an instruction writes memory only where [writes] says (none of the instructions above is a store) *)
Theorem C05_memory_writes : forall i len s s' x, step i len s = Some s' -> ~ In x (writes i s) -> mem s' x = mem s x.
Proof. exact SemLemmas.step_writes. Qed.

(* One traversal for all of the above (a separate Print Assumptions per theorem re-walks the C01 proof terms each time
   and costs ~4 s apiece): the assumptions of the tuple are the union of the assumptions of its components. *)
Definition C05_all_theorems := (C05_li, C05_unary, C05_branch_zero, C05_branch_two, C05_j_jal, C05_jr_jalr, C05_ret, C05_call_tail_near, C05_call_far, C05_tail_far, C05_nop, C05_fence, C05_memory_writes).
Print Assumptions C05_all_theorems.

(* ---- the hypotheses are satisfiable: concrete runs, computed in the kernel --------------------------------------- *)
(* expansion by pseudo_rule at position pos, bytes by emit_bytes at the same layout, loaded at address base into a
   machine whose register x_r holds 1000 + r; result: (x_r for the registers asked, pc) *)
Definition ex_line : line := {| lfile := "ex"; lnum := 1 |}.
Definition ex_state (base : Z) (bs : list Z) : state :=
  {| regs := fun r => 1000 + r; pc := base; mem := fun a => nth (Z.to_nat (a - base)) bs 0 |}.
Definition ex_run (name : string) (args : list string) (pimm : pres expr) (labels : envt) (pos base : Z) (ask : list Z)
  : option (list Z * Z * Z) :=
  match pseudo_rule [] ex_line (IPseudo name args pimm) pos labels with
  | Done its =>
      match emit_bytes ex_line [] labels pos its with
      | Done bs => match run_n (List.length its) (ex_state base bs) with
                   | Some s' => Some (map (getr s') ask, pc s', Z.of_nat (List.length bs))
                   | None => None
                   end
      | _ => None
      end
  | _ => None
  end.
Definition lit (v : Z) : pres expr := POk (EArith (ANum v)).
Definition noimm : pres expr := PErr (PRaw OtherExn).

Example C05_ex_li_short : ex_run "li" ["t0"; "-5"] (lit (-5)) [] 0 4096 [5; 6] = Some ([4294967291; 1006], 4100, 4).
Proof. vm_compute. reflexivity. Qed.
Example C05_ex_li_long : ex_run "li" ["t0"; "0xfffff7ff"] (lit 4294965247) [] 0 4096 [5; 6] = Some ([4294965247; 1006], 4104, 8).
Proof. vm_compute. reflexivity. Qed.
Example C05_ex_li_beyond_32_bits : ex_run "li" ["x31"; "0x100000805"] (lit 4294969349) [] 0 4096 [31] = Some ([2053], 4104, 8).
Proof. vm_compute. reflexivity. Qed.
Example C05_ex_li_x0 : ex_run "li" ["zero"; "0x12345678"] (lit 305419896) [] 0 4096 [0; 1] = Some ([0; 1001], 4104, 8).
Proof. vm_compute. reflexivity. Qed.
Example C05_ex_li_offset : ex_run "li" ["t0"; "%offset"; "L"] (POk (EOff "L")) [("L", 6146)] 0 4096 [5] = Some ([6146], 4104, 8).
Proof. vm_compute. reflexivity. Qed.
Example C05_ex_mv_same_register : ex_run "mv" ["sp"; "sp"] noimm [] 8 4096 [2; 3] = Some ([1002; 1003], 4100, 4).
Proof. vm_compute. reflexivity. Qed.
Example C05_ex_not : ex_run "not" ["a0"; "a0"] noimm [] 8 4096 [10] = Some ([4294966285], 4100, 4).
Proof. vm_compute. reflexivity. Qed.
Example C05_ex_neg_x0 : ex_run "neg" ["x0"; "t1"] noimm [] 8 4096 [0; 6] = Some ([0; 1006], 4100, 4).
Proof. vm_compute. reflexivity. Qed.
Example C05_ex_bgtz_taken : ex_run "bgtz" ["t0"; "T"] noimm [("T", 256)] 16 4112 [5] = Some ([1005], 4352, 4).
Proof. vm_compute. reflexivity. Qed.
Example C05_ex_bgtu_not_taken : ex_run "bgtu" ["t0"; "t1"; "T"] noimm [("T", 0)] 16 4112 [5] = Some ([1005], 4116, 4).
Proof. vm_compute. reflexivity. Qed.
Example C05_ex_jalr_x1 : ex_run "jalr" ["ra"] noimm [] 0 4096 [1] = Some ([4100], 1000, 4).
Proof. vm_compute. reflexivity. Qed.
Example C05_ex_call_near : ex_run "call" ["T"] noimm [("T", 4404)] 0 4096 [1; 6] = Some ([4100; 1006], 8500, 4).
Proof. vm_compute. reflexivity. Qed.
Example C05_ex_call_far : ex_run "call" ["T"] noimm [("T", 1050624)] 0 4096 [1; 6] = Some ([4104; 1006], 1054720, 8).
Proof. vm_compute. reflexivity. Qed.
Example C05_ex_tail_far_backwards : ex_run "tail" ["T"] noimm [("T", 0)] 1050624 1054720 [1; 6] = Some ([1001; 6144], 4096, 8).
Proof. vm_compute. reflexivity. Qed.

(* TIE of the templates to the source: the model's expand_pseudo (about which the theorems above speak) equals, for EVERY
   name, argument list and parse result, the instantiation of the table that tools/units_pseudo.py REGENERATES from the AST of
   asm.transform_pseudo_instructions on every run (Gen/Pseudo.v); likewise the 8-byte pessimistic size of li / call / tail.
   An edit of a template in the source (operands swapped, another mnemonic, another threshold) breaks this obligation. *)
Theorem C05_templates_from_source : forall l name args pimm,
  expand_pseudo l name args pimm =
  match assoc_str name Gen.Pseudo.pseudo_table with
  | Some t => PseudoTable.instantiate t args pimm
  | None => Fail (PAsm l)
  end.
Proof. exact PseudoTable.expand_pseudo_table. Qed.
Print Assumptions C05_templates_from_source.
Theorem C05_big_pseudos_from_source : forall name, is_big_pseudo name = mem_str name Gen.Pseudo.big_pseudos.
Proof. exact PseudoTable.big_pseudo_table. Qed.
Print Assumptions C05_big_pseudos_from_source.

(* ... and as a whole PROGRAM: for the one-line program `li rd, e` the 16 passes of the pass model ARE pseudo_rule followed by
   emit_bytes (LiProgram.li_line_pipeline), so: if it assembles, its output bytes, loaded and run for one or two steps, leave the
   value of e (modulo 2^32) in rd and touch nothing else *)
Theorem C05_li_program : forall l rd rest e r,
  assemble_items [(l, IPseudo "li" (rd :: rest) (POk e))] [] [] false = Done r ->
  exists n nrd v, regnum (AStr rd) = Some nrd /\ eval_here l 0 [] [] e = Done v /\ (n = 1 \/ n = 2)%nat /\
    forall s, loaded s (flat_map PseudoEmit.chunk_bytes (r_chunks r)) ->
      exists s', run_n n s = Some s' /\ pc s' = wrap (pc s + 4 * Z.of_nat n) /\ only_reg s s' nrd (wrap v).
Proof. exact LiProgram.li_program. Qed.
Print Assumptions C05_li_program.
Example C05_li_program_example :
  exists r, assemble_items [({| lfile := "f"; lnum := 1 |}, IPseudo "li" ["t0"; "0x12345678"] (POk (EArith (ANum 305419896))))]%string [] [] false = Done r
            /\ flat_map PseudoEmit.chunk_bytes (r_chunks r) = [183; 82; 52; 18; 147; 130; 130; 103].
Proof. eexists. split; vm_compute; reflexivity. Qed.
